(* Runner for the extracted all-strategies selection model (C07, Model/SelectionAll.v).
   usage: selall <file>
   lines:  sa <id> <rule> <d> <useParents 0/1> <stable 0/1> limits: i.. pidx: i.. pmap: 0/1.. nidx: i..
   (pidx = loaded multi-indexes, pmap = update map of buildUpdateMap, one row of d flags per loaded point,
    nidx = needed set of the implementation after setSurplusRefinement)
   prints: ok <id> n=<size> holes=<0/1: loaded set has missing parents> | MISMATCH <id> strategy-selection ... | EXHAUSTED <id> ; finally: agree <n> *)
open Common
open Selall

let rec nat_of_int n = if n <= 0 then O else S (nat_of_int (n - 1))
let rec int_of_nat = function O -> 0 | S n -> 1 + int_of_nat n
let rec pos_of_int n = if n = 1 then XH else if n land 1 = 0 then XO (pos_of_int (n lsr 1)) else XI (pos_of_int (n lsr 1))
let z_of_int n = if n = 0 then Z0 else if n > 0 then Zpos (pos_of_int n) else Zneg (pos_of_int (-n))
let rec int_of_pos = function XH -> 1 | XO p -> 2 * int_of_pos p | XI p -> 2 * int_of_pos p + 1
let int_of_z = function Z0 -> 0 | Zpos p -> int_of_pos p | Zneg p -> - (int_of_pos p)

let rec chunks d l = if l = [] then [] else
    let rec take k l = if k = 0 then ([], l) else match l with [] -> ([], []) | x :: r -> let (a, b) = take (k - 1) r in (x :: a, b) in
    let (a, b) = take d l in a :: chunks d b

let rec keyed (l : string list) : (string * string list) list =
  match l with
  | [] -> []
  | k :: r when String.length k > 0 && k.[String.length k - 1] = ':' ->
    let rec take l = match l with
      | t :: r' when not (String.length t > 0 && t.[String.length t - 1] = ':') -> let (a, b) = take r' in (t :: a, b)
      | _ -> ([], l) in
    let (v, rest) = take r in (k, v) :: keyed rest
  | _ :: r -> keyed r
let get k m = try List.assoc k m with Not_found -> []

let rule_of = function "pwc" -> Pwc | "localp" -> Localp | "semilocalp" -> Semilocalp | "localp0" -> Localp0 | _ -> Localpb

let show (s : int list list) = String.concat " " (List.map (fun p -> "(" ^ String.concat "," (List.map string_of_int p) ^ ")") s)

let () =
  let file = Sys.argv.(1) in
  let nok = ref 0 in
  List.iter (fun l ->
      match split_ws l with
      | "sa" :: id :: rule :: dd :: up :: st :: rest ->
        (try
           let m = keyed rest and d = int_of_string dd in
           let ints k = List.map int_of_string (get k m) in
           let ipts = chunks d (ints "pidx:") in
           let rows = chunks d (ints "pmap:") in
           if List.length rows <> List.length ipts then failwith "pmap size";
           let tbl = Hashtbl.create 1024 in
           List.iter2 (fun p row -> Hashtbl.replace tbl p (Array.of_list (List.map (fun v -> v = 1) row))) ipts rows;
           let pmap (q : idx) (dir : nat) : bool =
             match Hashtbl.find_opt tbl (List.map int_of_z q) with
             | Some a -> let j = int_of_nat dir in j < Array.length a && a.(j)
             | None -> false in
           let pts = List.map (List.map z_of_int) ipts in
           let limits = List.map z_of_int (ints "limits:") in
           let r = rule_of rule and up = (up = "1") and st = (st = "1") in
           let exp = candidates r limits pts pmap up st in
           let iexp = List.map (List.map int_of_z) exp in
           let impl = chunks d (ints "nidx:") in
           if st && not (lower_closed r pts exp) then Printf.printf "EXHAUSTED %s model fuel exhausted before completeToLower reached its fixed point\n" id
           else if iexp = impl then begin
             (* runtime instance of c07s_classic_agrees: a direction-independent map gives the classic model *)
             let uniform = List.for_all (fun row -> List.for_all (fun v -> v = List.hd row) row) rows in
             if (not up) && (not st) && uniform then begin
               let flag (q : idx) = pmap q O in
               if classic_candidates r limits pts flag <> exp then Printf.printf "MISMATCH %s classic-model-differs-from-general-model\n" id
             end;
             incr nok;
             (* statistics only: is the loaded set hierarchy-incomplete (some existing parent of a loaded point is not loaded)? *)
             let holes = (lower_sweep r [] pts <> []) in
             Printf.printf "ok %s n=%d holes=%d\n" id (List.length impl) (if holes then 1 else 0)
           end else begin
             let only_m = List.filter (fun p -> not (List.mem p impl)) iexp and only_i = List.filter (fun p -> not (List.mem p iexp)) impl in
             let cut s = if String.length s > 300 then String.sub s 0 300 ^ "..." else s in
             Printf.printf "MISMATCH %s strategy-selection model=%d impl=%d points; only-model: %s ; only-impl: %s%s\n" id (List.length iexp) (List.length impl)
               (cut (show only_m)) (cut (show only_i)) (if only_m = [] && only_i = [] then " (same set, different order)" else "")
           end
         with e -> Printf.printf "MISMATCH %s runner-error %s\n" id (Printexc.to_string e))
      | _ -> ()) (read_lines file);
  Printf.printf "agree %d\n" !nok
