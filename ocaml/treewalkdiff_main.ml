(* Runner for the extracted derivative tree-walk model (C05, tree walk).
   usage: treewalkdiff <walkdrv-output-file>
   For every `wddump` block of the driver log: rebuilds the forest from the dumped multi-indexes with the extracted
   build_forest; for every probe point runs the extracted walk_diff in exact rationals (from the binary64 coordinates) and
   compares the visited index sequence of walkTree<4> EXACTLY, the gradient vectors within 1e-10 (relative to max(1,|v|)) and
   differentiate(x) against the sum over the model walk of gradient times the dumped surpluses.
   Probe points within 1e-10 of (not exactly on) a support threshold are skipped (borderline); probe points with a coordinate
   exactly on the node or on the support boundary of a visited basis function (a kink of that function) have the index
   sequence compared but not the values, and are counted.
   prints:  MISMATCH <case>#<k> <what> <detail> | EXHAUSTED <case>#<k> | summary line `totals ...` *)
open Common
open Treewalkdiff

let rec nat_of_int n = if n <= 0 then O else S (nat_of_int (n - 1))
let int_of_nat n = let rec go acc = function O -> acc | S m -> go (acc + 1) m in go 0 n
let rec pos_of_int n = if n = 1 then XH else if n land 1 = 0 then XO (pos_of_int (n lsr 1)) else XI (pos_of_int (n lsr 1))
let z_of_int n = if n = 0 then Z0 else if n > 0 then Zpos (pos_of_int n) else Zneg (pos_of_int (-n))
let rec fe_of_pos = function
  | XH -> (0.5, 1)
  | XO p -> let (m, e) = fe_of_pos p in (m, e + 1)
  | XI p -> let (m, e) = fe_of_pos p in (m +. Float.ldexp 1.0 (- (e + 1)), e + 1)
let float_of_q (x : q) =
  match x.qnum with
  | Z0 -> 0.0
  | Zpos p | Zneg p ->
    let (mn, en) = fe_of_pos p and (md, ed) = fe_of_pos x.qden in
    let v = Float.ldexp (mn /. md) (en - ed) in
    (match x.qnum with Zneg _ -> -. v | _ -> v)
let rec pow2_pos k = if k = 0 then XH else XO (pow2_pos (k - 1))
let q_of_float (f : float) : q =
  if f = 0.0 then { qnum = Z0; qden = XH } else
    let (m, e) = Float.frexp f in
    let mi = ref (Int64.to_int (Int64.of_float (Float.ldexp m 53))) and e = ref (e - 53) in
    while !mi land 1 = 0 && !e < 0 do mi := !mi asr 1; incr e done;
    if !e >= 0 then { qnum = (let rec sh z k = if k = 0 then z else sh (match z with Z0 -> Z0 | Zpos p -> Zpos (XO p) | Zneg p -> Zneg (XO p)) (k - 1) in sh (z_of_int !mi) !e); qden = XH }
    else { qnum = z_of_int !mi; qden = pow2_pos (- !e) }

let rec chunks d l = if l = [] then [] else
    let rec take k l = if k = 0 then ([], l) else match l with [] -> ([], []) | x :: r -> let (a, b) = take (k - 1) r in (x :: a, b) in
    let (a, b) = take d l in a :: chunks d b

let rule_of = function 0 -> Pwc | 1 -> Localp | 2 -> Semilocalp | 3 -> Localp0 | _ -> Localpb
let ints toks = List.map int_of_string toks
let flts toks = List.map float_of_tok toks
let show l = String.concat " " (List.map string_of_int l)
let close a b = Float.abs (a -. b) <= 1e-10 *. Float.max 1.0 (Float.max (Float.abs a) (Float.abs b))
let one = { qnum = Zpos XH; qden = XH }
let always r p = (match r, p with Localp, Z0 -> true | Semilocalp, (Z0 | Zpos XH | Zpos (XO XH)) -> true | _ -> false)

(* near (not exactly on) a support threshold of any point *)
let borderline r pts (xq : q list) : bool =
  List.exists (fun pt ->
      List.exists2 (fun p t ->
          if always r p then false else
            let a = qabs (scaleX r p t) in
            let dlt = float_of_q (qminus a one) in dlt <> 0.0 && Float.abs dlt < 1e-10)
        pt xq) pts
(* exactly on the node or the support boundary of this point in some direction *)
let on_kink r pt (xq : q list) : bool =
  List.exists2 (fun p t ->
      if always r p then false else
        let xn = scaleX r p t in
        (match xn.qnum with Z0 -> true | _ -> float_of_q (qminus (qabs xn) one) = 0.0))
    pt xq

type dump = { mutable meta : (string * string) list; mutable idx : int list; mutable surp : float list }

let () =
  let lines = read_lines Sys.argv.(1) in
  let case = ref "" and k = ref 0 in
  let cur : dump option ref = ref None in
  let model : (erule * z * int * int * z list list * tree list) option ref = ref None in
  let px = ref [] and psi = ref [] and psv = ref [] in
  let tot_forest = ref 0 and tot_probe = ref 0 and tot_skip = ref 0 and tot_vis = ref 0 and tot_vals = ref 0 and tot_diff = ref 0
  and tot_mis = ref 0 and tot_kink = ref 0 and tot_extra = ref 0 and tot_nonzero = ref 0 and tot_pruned = ref 0 in
  let by_rule = Array.make 5 0 and by_dim = Array.make 8 0 in
  let tag () = Printf.sprintf "%s#%d" !case !k in
  let mism what detail = incr tot_mis; Printf.printf "MISMATCH %s %s %s\n" (tag ()) what detail in
  let finish_probe (df : float list option) =
    (match !model, !cur with
     | Some (r, order, d, n, pts, forest), Some dmp when !px <> [] ->
       let x = !px in
       let xq = List.map q_of_float x in
       let xs = String.concat " " (List.map hex x) in
       if borderline r pts xq then incr tot_skip
       else begin
         incr tot_probe;
         let w = walk_diff r order pts forest xq in
         let vis = List.map (fun (i, _) -> int_of_nat i) w in
         if vis <> !psi then mism "diff-visited" (Printf.sprintf "x=[%s] model=[%s] impl=[%s]" xs (show vis) (show !psi))
         else begin
           tot_vis := !tot_vis + List.length vis;
           if List.length vis < n then incr tot_pruned;
           let parr = Array.of_list pts in
           let kink = List.exists (fun i -> on_kink r parr.(i) xq) vis in
           (* the points visited in addition to the value walk *)
           tot_extra := !tot_extra + List.length (List.filter (fun i -> not (supp_all r order parr.(i) xq)) vis);
           if kink then incr tot_kink
           else begin
             let mv = List.map (fun (_, g) -> List.map float_of_q g) w in
             let flat = List.concat mv in
             if List.length flat <> List.length !psv then mism "diff-value" (Printf.sprintf "x=[%s] model has %d values, impl %d" xs (List.length flat) (List.length !psv))
             else begin
               (try List.iter2 (fun a b -> incr tot_vals; if a <> 0.0 then incr tot_nonzero; if not (close a b) then raise Exit) flat !psv
                with Exit -> mism "diff-value" (Printf.sprintf "x=[%s] visited=[%s] model=[%s] impl=[%s]" xs (show vis) (hexl flat) (hexl !psv)));
               (match df with
                | Some y when dmp.surp <> [] && d > 0 && List.length y mod d = 0 ->
                  let outs = List.length y / d in
                  let s = Array.of_list dmp.surp in
                  if Array.length s = n * outs then
                    List.iteri (fun j yj ->
                        let o = j / d and dd = j mod d in
                        let acc = ref 0.0 and big = ref 1.0 in
                        List.iter2 (fun i g -> let t = List.nth g dd *. s.(i * outs + o) in acc := !acc +. t; big := Float.max !big (Float.abs t)) vis mv;
                        incr tot_diff;
                        if Float.abs (!acc -. yj) > 1e-10 *. Float.max !big (Float.abs yj) then
                          mism "differentiate" (Printf.sprintf "x=[%s] output %d direction %d impl=%h model=%h" xs o dd yj !acc)) y
                | _ -> ())
             end
           end
         end
       end
     | _ -> ());
    px := []; psi := []; psv := [] in
  let start_model () =
    match !cur with
    | Some dmp ->
      let g key = try List.assoc key dmp.meta with Not_found -> "0" in
      let ri = int_of_string (g "erule") and d = int_of_string (g "dims") and n = int_of_string (g "n") in
      let r = rule_of ri and order = z_of_int (int_of_string (g "order")) in
      let pts = chunks d (List.map z_of_int dmp.idx) in
      if n > 0 && List.length pts = n && ri <> 0 then begin
        let (forest, ok) = build_forest r pts in
        if not ok then (incr tot_mis; Printf.printf "EXHAUSTED %s\n" (tag ()));
        incr tot_forest; by_rule.(ri) <- by_rule.(ri) + 1; by_dim.(min d 7) <- by_dim.(min d 7) + 1;
        if not (nodupb pts) || List.exists (fun v -> v < 0) dmp.idx then mism "hypothesis" "duplicate or negative multi-index";
        model := Some (r, order, d, n, pts, forest)
      end
    | None -> () in
  let ensure () = if !model = None then start_model () in
  List.iter (fun l ->
      match split_ws l with
      | "case" :: id :: _ -> finish_probe None; case := id; k := 0; cur := None; model := None
      | "c" :: "wddump" :: _ -> finish_probe None; incr k; cur := Some { meta = []; idx = []; surp = [] }; model := None
      | "c" :: _ -> finish_probe None; cur := None; model := None
      | "o" :: "dmeta" :: rest ->
        (match !cur with Some d -> d.meta <- List.filter_map (fun t -> match String.index_opt t '=' with
            | Some i -> Some (String.sub t 0 i, String.sub t (i + 1) (String.length t - i - 1)) | None -> None) rest | None -> ())
      | "o" :: "didx" :: _ :: v -> (match !cur with Some d -> d.idx <- ints v | None -> ())
      | "o" :: "dsurp" :: _ :: v -> (match !cur with Some d -> d.surp <- flts v | None -> ())
      | "o" :: "dx" :: _ :: v -> finish_probe None; ensure (); px := flts v
      | "o" :: "d4i" :: _ :: v -> psi := ints v
      | "o" :: "d4v" :: _ :: v -> psv := flts v;
        (match !cur with Some d when d.surp = [] -> finish_probe None | _ -> ())
      | "o" :: "ddf" :: _ :: v -> finish_probe (Some (flts v))
      | _ -> ()) lines;
  finish_probe None;
  Printf.printf "totals forests=%d probes=%d skipped_borderline=%d kink_probes=%d visited=%d extra_visits=%d values=%d nonzero_values=%d differentiates=%d probes_with_pruning=%d mismatches=%d by_rule=%s by_dim=%s\n"
    !tot_forest !tot_probe !tot_skip !tot_kink !tot_vis !tot_extra !tot_vals !tot_nonzero !tot_diff !tot_pruned !tot_mis
    (show (Array.to_list by_rule)) (show (Array.to_list by_dim))
