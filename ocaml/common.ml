(* shared glue for the model runners: tokenising, exact float I/O *)
let split_ws (s : string) : string list =
  List.filter (fun t -> t <> "") (String.split_on_char ' ' (String.trim s))

let float_of_tok (t : string) : float =
  match t with
  | "inf" -> infinity | "-inf" -> neg_infinity
  | "nan" | "-nan" -> nan
  | _ -> float_of_string t   (* accepts C99 hex floats *)

(* NaNs have many bit patterns (the sign and payload of inf - inf differ from those of a parsed "nan"): one canonical pattern, so that
   a callback table can be looked up at a NaN argument *)
let bits (x : float) : int64 = if x <> x then 0x7ff8000000000000L else Int64.bits_of_float x
let same (a : float) (b : float) : bool = (bits a = bits b) || (a <> a && b <> b)
let same_list a b = List.length a = List.length b && List.for_all2 same a b
let hex (x : float) : string = Printf.sprintf "%h" x
let hexl (l : float list) : string = String.concat " " (List.map hex l)

(* split a token list at the first occurrence of [sep] *)
let rec split_at (sep : string) (l : string list) : string list * string list =
  match l with
  | [] -> ([], [])
  | t :: r when t = sep -> ([], r)
  | t :: r -> let (a, b) = split_at sep r in (t :: a, b)

let read_lines (fn : string) : string list =
  let ic = if fn = "-" then stdin else open_in fn in
  let rec go acc = match input_line ic with
    | l -> go (l :: acc)
    | exception End_of_file -> List.rev acc in
  let r = go [] in if fn <> "-" then close_in ic; r
