(* Runner for the extracted Workers model (C18): trace validation.

   Input: a file of cases.  A case is
     case <name> cs <jobs> <batch> <budget> <n0> | <pids of the samples loaded before the run>
     T <ticket> <buf> <event> <id> <n> | <points> | <values>        (the driver's trace, sorted by ticket)
     end
   or
     case <name> lnv <npoints> <nthreads>    T ... q_checkout / model_exit / q_exit ...   end

   For every case the logged events are mapped to labels of the extracted transition system and replayed with the
   extracted [step]; every logged transition must be enabled and the logged payloads (points handed out, values
   collected, count_done, flags, candidate lists) must agree with the model state.  What the log cannot show (a thread
   parked inside cv.wait) is replayed lazily: a waiter's lock-and-test step is taken when its wake event is seen.
   Output per case:  ok <name> guarded=<both|yes|no> hcand=<ok|VIOLATED:..> steps=<n> ...   |   MISMATCH <name> <event#> <what> *)
open Common
open Workers

exception Reject of int * string   (* event ticket, reason *)

let ints l = List.map int_of_string l

(* "a b | c d | e" -> [[a;b];[c;d];[e]] *)
let split_bars (toks : string list) : string list list =
  let rec go cur acc = function
    | [] -> List.rev (List.rev cur :: acc)
    | "|" :: r -> go [] (List.rev cur :: acc) r
    | t :: r -> go (t :: cur) acc r in
  go [] [] toks

type ev = { ticket : int; name : string; id : int; n : int; ps : int list; vs : int list }

let parse_t (toks : string list) : ev =
  match split_bars toks with
  | [ [ _t; ticket; _buf; name; id; n ]; ps; vs ] ->
    { ticket = int_of_string ticket; name; id = int_of_string id; n = int_of_string n; ps = ints ps; vs = ints vs }
  | _ -> failwith ("bad trace line: " ^ String.concat " " toks)

let w_of (s : state) (id : int) : worker =
  match List.nth_opt s.ws id with Some w -> w | None -> raise (Reject (0, Printf.sprintf "no worker %d" id))

let mpc_str = function
  | MStart -> "MStart" | MInit k -> Printf.sprintf "MInit %d" k | MTest -> "MTest" | MLock -> "MLock" | MSleep -> "MSleep"
  | MCollect k -> Printf.sprintf "MCollect %d" k | MNotify -> "MNotify" | MFlush -> "MFlush" | MJoin -> "MJoin" | MExit -> "MExit"
let wpc_str = function
  | WIdle -> "WIdle" | WModel -> "WModel" | WInModel -> "WInModel" | WPost -> "WPost" | WNotify -> "WNotify"
  | WLock -> "WLock" | WSleep -> "WSleep" | WFinished -> "WFinished"
let il l = String.concat "," (List.map string_of_int l)

(* replay of one constructSurrogate trace for a fixed (hc, guarded) *)
let replay_cs (hc : bool) (cfg : config) (l0 : (int * int) list) (n0 : int) (evs : ev list) : int * int =
  let s = ref (init cfg l0 n0) in
  let nsteps = ref 0 in
  let hcand_fail = ref 0 in
  let cur = ref 0 in
  let rej what = raise (Reject (!cur, what)) in
  let app (l : label) (what : string) =
    match step hc cfg !s l with
    | Some s' -> s := s'; incr nsteps
    | None -> rej (Printf.sprintf "transition not enabled: %s (main at %s)" what (mpc_str !s.mpc)) in
  let try_app (l : label) = match step hc cfg !s l with Some s' -> s := s'; incr nsteps; true | None -> false in
  (* pending group of main-thread events of one collect_finished() body *)
  let group : ev list ref = ref [] in
  let in_group = ref false in
  let after_loop = ref false in
  let njv = nj cfg in
  let finish_group (last : ev) =
    let g = List.rev !group in
    (* g = collect :: rest ; decode  ld / refresh payloads *)
    let rest = match g with _ :: r -> r | [] -> [] in
    let rec dec (l : ev list) (ld : bool) (rs : int list list) = match l with
      | a :: b :: r when a.name = "load_call" && b.name = "refresh" -> dec r ld (b.ps :: rs)
      | a :: r when a.name = "load_call" -> if rs = [] && not ld then dec r true rs else rej "unexpected load_complete() call inside collect_finished()"
      | a :: r when a.name = "refreshed" -> dec r ld rs
      | a :: _ -> rej ("unexpected event inside collect_finished(): " ^ a.name)
      | [] -> (ld, List.rev rs) in
    let (ld, rs) = dec rest false [] in
    let k = last.id in
    let check_outcome () =
      let w = w_of !s k in
      (match last.name with
       | "handout" -> if w.wflag <> FComputing || w.wx <> last.ps then
           rej (Printf.sprintf "hand-out to thread %d: implementation gave [%s], model gives %s [%s]" k (il last.ps)
                  (if w.wflag = FComputing then "job" else "shutdown") (il w.wx))
       | _ -> if w.wflag <> FShutdown then rej (Printf.sprintf "thread %d: implementation shut it down (%s), model hands out [%s]" k last.name (il w.wx)));
      (match List.rev rs with
       | c :: _ -> if !s.mgr.cands <> c then rej "candidate list of the manager differs from the last refresh"
       | [] -> ()) in
    let attempt (c1, c2) =
      let saved = !s in
      match step hc cfg saved (LMCollect (ld, c1, c2)) with
      | Some s' -> s := s'; incr nsteps; (try check_outcome (); true with Reject _ -> (s := saved; false))
      | None -> false in
    let cands = match rs with
      | [] -> [ ([], []) ]
      | [ r ] -> [ (r, []); ([], r) ]
      | [ r1; r2 ] -> [ (r1, r2) ]
      | _ -> rej "more than two refreshes in one collect body" in
    if not (List.exists attempt cands) then begin
      (* produce the precise reason with the first alternative *)
      (match cands with
       | (c1, c2) :: _ -> app (LMCollect (ld, c1, c2)) (Printf.sprintf "collect body of thread %d (%d refreshes)" k (List.length rs)); check_outcome ()
       | [] -> ());
      rej "collect body rejected"
    end;
    group := []; in_group := false in
  let skip_to (k : int) =
    let rec go () = match !s.mpc with
      | MCollect j when j < k -> app LMSkip (Printf.sprintf "skip thread %d (its flag must not be done)" j); go ()
      | MCollect j when j = k -> ()
      | m -> rej (Printf.sprintf "collect cursor: expected MCollect <= %d, model at %s" k (mpc_str m)) in
    go () in
  List.iter (fun (e : ev) ->
      cur := e.ticket;
      match e.name with
      (* ------------- events emitted outside any protocol step ------------- *)
      | "pre_notify_all" | "w_pre_notify" -> ()
      (* ------------- main thread ------------- *)
      | "load_call" ->
        if !in_group then group := e :: !group
        else if !s.mpc = MStart then ()
        else if !after_loop then app LMFlush "load_complete() after the loop"
        else rej "load_complete() outside a critical section"
      | "refresh" ->
        if !in_group then group := e :: !group
        else if !s.mpc = MStart then begin
          if hc && not (cand_okb !s.loaded e.ps) then incr hcand_fail;
          app (LStart e.ps) "initial refresh_candidates()"
        end else rej "refresh_candidates() outside a critical section"
      | "refreshed" ->
        if !in_group then group := e :: !group
        else if List.length !s.mgr.cands <> e.id then rej "manager.getNumCandidates() differs"
      | "init_job" ->
        (match !s.mpc with MInit k when k = e.id -> () | m -> rej ("init_job at " ^ mpc_str m));
        app LInitJob "launch loop";
        let w = w_of !s e.id in
        if w.wflag <> FComputing || w.wx <> e.ps then
          rej (Printf.sprintf "launch loop, thread %d: implementation started [%s], model %s [%s]" e.id (il e.ps)
                 (if w.wflag = FComputing then "starts" else "cancels") (il w.wx))
      | "init_shutdown" ->
        (match !s.mpc with MInit k when k = e.id -> () | m -> rej ("init_shutdown at " ^ mpc_str m));
        app LInitJob "launch loop";
        let w = w_of !s e.id in
        if w.wflag <> FShutdown then rej (Printf.sprintf "launch loop, thread %d: implementation cancelled the thread, model starts [%s]" e.id (il w.wx))
      | "loop_top" ->
        (match !s.mpc with MInit _ -> app LInitEnd "end of launch loop" | _ -> ());
        if !s.mgr.nrun <> e.id then rej (Printf.sprintf "getNumRunning() = %d, model %d" e.id !s.mgr.nrun);
        app LMTest "loop test";
        if !s.mpc <> MLock then rej "loop entered but the model leaves the loop"
      | "cs_enter" ->
        if !s.mpc = MSleep then app LSpurM "wake main";
        if !s.count_done <> e.id then rej (Printf.sprintf "count_done = %d, model %d" e.id !s.count_done);
        app LMLock "main locks";
        (match !s.mpc with MCollect 0 -> () | m -> rej ("main passed the wait but the model predicate is false: " ^ mpc_str m))
      | "collect" ->
        skip_to e.id;
        let w = w_of !s e.id in
        if w.wflag <> FDone then rej (Printf.sprintf "thread %d collected but its model flag is not done" e.id);
        if w.wx <> e.ps then rej (Printf.sprintf "collect thread %d: x = [%s], model [%s]" e.id (il e.ps) (il w.wx));
        if w.wy <> e.vs then rej (Printf.sprintf "collect thread %d: y = [%s], model [%s] (values returned by its own model call)" e.id (il e.vs) (il w.wy));
        in_group := true; group := [ e ]
      | "handout" | "shutdown_nocand" | "shutdown_budget" ->
        if not !in_group then rej "hand-out outside collect_finished()";
        finish_group e
      | "cs_exit" ->
        if !in_group then rej "critical section left inside a collect body";
        skip_to njv;
        app LMCsExit "main unlocks"
      | "notified_all" -> app LMNotifyAll "notify_all"
      | "loop_exit" ->
        (match !s.mpc with MInit _ -> app LInitEnd "end of launch loop" | _ -> ());
        if !s.mgr.nrun <> e.id then rej (Printf.sprintf "getNumRunning() = %d at loop exit, model %d" e.id !s.mgr.nrun);
        app LMTest "loop test";
        if !s.mpc <> MFlush then rej "loop left but the model stays in the loop";
        after_loop := true
      | "joined" ->
        app LMJoin "join (every started worker must have returned)";
        if not (final !s) then rej "not a final state after join"
      (* ------------- workers ------------- *)
      | "model_enter" ->
        app (LWEnter e.id) (Printf.sprintf "model call by thread %d (%s)" e.id (wpc_str (w_of !s e.id).wpc));
        let w = w_of !s e.id in
        if w.wx <> e.ps then rej (Printf.sprintf "model called by thread %d on [%s], model job [%s]" e.id (il e.ps) (il w.wx))
      | "model_exit" -> app (LWExit (e.id, e.vs)) "model return"
      | "w_done" ->
        app (LWDone e.id) (Printf.sprintf "worker %d publishes done (%s)" e.id (wpc_str (w_of !s e.id).wpc));
        if !s.count_done <> e.n then rej (Printf.sprintf "count_done = %d after worker %d, model %d" e.n e.id !s.count_done)
      | "w_notified" -> app (LWNotify e.id) "notify_one"
      | "w_wake" ->
        if (w_of !s e.id).wpc = WSleep then ignore (try_app (LSpurW e.id));
        let f = (w_of !s e.id).wflag in
        let fi = (match f with FDone -> 0 | FComputing -> 1 | FShutdown -> 2) in
        if fi <> e.n then rej (Printf.sprintf "worker %d woke with flag %d, model flag %d" e.id e.n fi);
        app (LWLock e.id) (Printf.sprintf "worker %d passes its wait (%s)" e.id (wpc_str (w_of !s e.id).wpc));
        if (w_of !s e.id).wpc = WSleep then rej (Printf.sprintf "worker %d passed its wait while its flag is done" e.id)
      | "w_exit" -> if (w_of !s e.id).wpc <> WFinished then rej (Printf.sprintf "worker %d returned, model at %s" e.id (wpc_str (w_of !s e.id).wpc))
      | other -> rej ("unknown event " ^ other)) evs;
  if !s.mpc <> MExit then raise (Reject (!cur, "trace ends before the main thread exits: " ^ mpc_str !s.mpc));
  (!nsteps, !hcand_fail)

(* H-CAND on every refresh of the trace, evaluated with the extracted predicate on the model's own loaded set *)
let process_cs name (jobs, batch, budget, n0) (l0 : int list) (evs : ev list) =
  let l0p = List.map (fun p -> (p, 0)) l0 in
  let run hc g = try let (n, hf) = replay_cs hc { njobs = jobs; batch; maxpts = budget; guarded = g } l0p n0 evs in Ok (n, hf) with Reject (t, w) -> Error (t, w) in
  let r_g = run true true and r_u = run true false in
  match r_g, r_u with
  | Ok (n, _), Ok _ -> Printf.printf "ok %s guarded=both hcand=ok steps=%d events=%d\n" name n (List.length evs)
  | Ok (n, _), Error _ -> Printf.printf "ok %s guarded=yes hcand=ok steps=%d events=%d\n" name n (List.length evs)
  | Error _, Ok (n, _) -> Printf.printf "ok %s guarded=no hcand=ok steps=%d events=%d\n" name n (List.length evs)
  | Error (t1, w1), Error _ ->
    (* is it only the candidate oracle (H-CAND) ? *)
    (match run false true, run false false with
     | Ok (n, _), Ok _ -> Printf.printf "ok %s guarded=both hcand=VIOLATED steps=%d events=%d at=%d %s\n" name n (List.length evs) t1 w1
     | Ok (n, _), Error _ -> Printf.printf "ok %s guarded=yes hcand=VIOLATED steps=%d events=%d at=%d %s\n" name n (List.length evs) t1 w1
     | Error _, Ok (n, _) -> Printf.printf "ok %s guarded=no hcand=VIOLATED steps=%d events=%d at=%d %s\n" name n (List.length evs) t1 w1
     | Error (t, w), Error (t2, w2) ->
       let (t, w) = if t2 > t then (t2, w2) else (t, w) in
       Printf.printf "MISMATCH %s ticket=%d %s\n" name t w)

let process_lnv name (npoints, nthreads) (evs : ev list) =
  try
    let q = ref (qinit npoints nthreads) in
    let n = ref 0 in
    List.iter (fun (e : ev) ->
        match e.name with
        | "q_pre_lock" | "model_enter" -> ()
        | "q_checkout" ->
          (match qstep !q (QLCheckout e.id) with
           | None -> raise (Reject (e.ticket, Printf.sprintf "checkout by thread %d not enabled" e.id))
           | Some q' ->
             incr n;
             (match List.nth_opt q'.qthreads e.id with
              | Some (_, QModel i) -> if i <> e.n then raise (Reject (e.ticket, Printf.sprintf "thread %d checked out sample %d, model %d" e.id e.n i))
              | Some (_, QDone) -> if e.n < npoints then raise (Reject (e.ticket, Printf.sprintf "thread %d checked out sample %d, model: queue empty" e.id e.n))
              | _ -> raise (Reject (e.ticket, "bad queue state")));
             q := q')
        | "model_exit" ->
          (match qstep !q (QLModel e.id) with
           | None -> raise (Reject (e.ticket, Printf.sprintf "model call by thread %d without a checked-out sample" e.id))
           | Some q' -> incr n; q := q')
        | "q_exit" ->
          (match List.nth_opt !q.qthreads e.id with
           | Some (_, QDone) -> ()
           | _ -> raise (Reject (e.ticket, Printf.sprintf "thread %d returned before the queue was empty" e.id)))
        | _ -> ()) evs;
    if not (qfinished !q) then raise (Reject (0, "threads not finished at the end of the trace"));
    let got = List.sort compare (List.map snd !q.qlog) in
    if got <> List.init npoints (fun i -> i) then raise (Reject (0, "checked-out samples are not exactly 0..n-1 once each"));
    Printf.printf "ok %s lnv steps=%d events=%d\n" name !n (List.length evs)
  with Reject (t, w) -> Printf.printf "MISMATCH %s ticket=%d %s\n" name t w

let () =
  let lines = read_lines Sys.argv.(1) in
  let cur = ref None and evs = ref [] in
  List.iter (fun line ->
      match split_ws line with
      | "case" :: name :: rest -> cur := Some (name, rest); evs := []
      | "T" :: _ as toks -> evs := parse_t toks :: !evs
      | [ "end" ] ->
        (match !cur with
         | Some (name, "cs" :: jobs :: batch :: budget :: n0 :: "|" :: l0) ->
           (try process_cs name (int_of_string jobs, int_of_string batch, int_of_string budget, int_of_string n0) (ints l0) (List.rev !evs)
            with Failure w -> Printf.printf "MISMATCH %s ticket=0 runner failure %s\n" name w)
         | Some (name, [ "lnv"; np; nt ]) -> process_lnv name (int_of_string np, int_of_string nt) (List.rev !evs)
         | _ -> ());
        cur := None
      | _ -> ()) lines
