(* Runner for the extracted SampleDREAM model (C15).
   Reads the log written by harness/dreamdrv (one block per case), replays every run of the case on the
   extracted model instantiated with OCaml's IEEE binary64 floats (+. -. *. /. > >= and libm's log, sqrt,
   cos, sin -- the same glibc the C++ code calls), the environment W = (position in the scripted random
   stream, counter of the stateful differential update), the point-wise pdf / the domain test / the user
   update given as the finite tables recorded in the log, and compares bit-exactly:
   the sequence of callback invocations (rng draws of the sampler, differential update, independent update,
   domain test, pdf batches with their contents), and after EVERY operation of the history (runs and the edits
   setState x2, setPDFvalues x2, clearPDFvalues, clearHistory, expandHistory, replayed through the extracted
   [apply_op]) the chain state, the cached pdf values, the ready flag, the history, the
   pdf history, the acceptance counter and the stream position.
   Prints one line per case: ok / MISMATCH / skip. *)
open Common

let rec nat_of_int n = if n <= 0 then Dream.O else Dream.S (nat_of_int (n - 1))
let rec int_of_nat = function Dream.O -> 0 | Dream.S n -> 1 + int_of_nat n
let rec pos_of_int n = if n = 1 then Dream.XH else if n land 1 = 0 then Dream.XO (pos_of_int (n lsr 1)) else Dream.XI (pos_of_int (n lsr 1))
let z_of_int n = if n = 0 then Dream.Z0 else if n > 0 then Dream.Zpos (pos_of_int n) else Dream.Zneg (pos_of_int (-n))

type w = { pos : int; dseq : int }

(* items of the callback log that the model must reproduce, in order *)
type item =
  | IR of float | ID of float | IU of float list * float list | II of float list * bool
  | IP of (float list * float) list

let item_eq a b = match a, b with
  | IR x, IR y | ID x, ID y -> same x y
  | IU (a1, b1), IU (a2, b2) -> same_list a1 a2 && same_list b1 b2
  | II (a1, b1), II (a2, b2) -> same_list a1 a2 && b1 = b2
  | IP l1, IP l2 -> List.length l1 = List.length l2 && List.for_all2 (fun (x1, v1) (x2, v2) -> same_list x1 x2 && same v1 v2) l1 l2
  | _ -> false

let item_str = function
  | IR x -> "R " ^ hex x | ID x -> "D " ^ hex x
  | IU (a, b) -> "U " ^ hexl a ^ " = " ^ hexl b
  | II (a, b) -> "I " ^ hexl a ^ " = " ^ string_of_bool b
  | IP l -> "PDF " ^ String.concat " | " (List.map (fun (x, v) -> hexl x ^ " = " ^ hex v) l)

(* one operation of the history: "op <kind> <args>", the callbacks it made, the F lines of a callback setState, the dump *)
type oplog = { kind : string; args : string list; items : item list; fmap : (float list * float list) list; endop : string list option }

(* sections "key: v v v" of the params line *)
let sections (toks : string list) : (string * string list) list =
  let rec go cur acc out = function
    | [] -> List.rev ((cur, List.rev acc) :: out)
    | t :: r when String.length t > 0 && t.[String.length t - 1] = ':' -> go t [] ((cur, List.rev acc) :: out) r
    | t :: r -> go cur (t :: acc) out r in
  go "" [] [] toks

let rec chunks d l = if l = [] then [] else
    let rec take k l = if k = 0 then ([], l) else match l with [] -> ([], []) | x :: r -> let (a, b) = take (k - 1) r in (x :: a, b) in
    let (a, b) = take d l in a :: chunks d b

(* table keys: bit patterns, all NaNs identified (the log prints them as nan / -nan without payload) *)
let key (a : float list) = List.map (fun x -> if x <> x then 0x7ff8000000000000L else bits x) a

let process id (params : string list) (ops : oplog list) (ptable : (float list * float) list) (crashed : bool) =
  match params with
  | "dream" :: form :: ns :: ds :: rest ->
    let n = int_of_string ns and d = int_of_string ds in
    let sec = sections rest in
    let get k = try List.assoc k sec with Not_found -> [] in
    let fl k = List.map float_of_tok (get k) in
    let updk = List.hd (get "upd:") and updc = List.map float_of_tok (List.tl (get "upd:")) in
    let diffk = List.hd (get "diff:") and diffc = Array.of_list (List.map float_of_tok (List.tl (get "diff:"))) in
    let x0 = fl "state:" in
    let stream = Array.of_list (let s = fl "rng:" in if s = [] then [0.5] else s) in
    (* tables from the whole log of the case *)
    let tp = Hashtbl.create 97 and ti = Hashtbl.create 97 and tu = Hashtbl.create 97 in
    List.iter (fun (x, v) -> Hashtbl.replace tp (key x) v) ptable;
    let feed = List.iter (function
        | IP l -> List.iter (fun (x, v) -> Hashtbl.replace tp (key x) v) l
        | II (x, b) -> Hashtbl.replace ti (key x) b
        | IU (a, b) -> Hashtbl.replace tu (key a) b
        | _ -> ()) in
    List.iter (fun r -> feed r.items) ops;
    let misses = ref 0 in
    let pdf x = match Hashtbl.find_opt tp (key x) with Some v -> v | None -> incr misses; nan in
    let inside x = match Hashtbl.find_opt ti (key x) with Some b -> b | None -> incr misses; false in
    let rnd (w : w) = (stream.(w.pos mod Array.length stream), { w with pos = w.pos + 1 }) in
    let is_zero x = (x = 0.0) in
    let lib = (updk = "libnone" || updk = "libuniform" || updk = "libgauss") in
    let mag = match updc with m :: _ -> m | [] -> 0.0 in
    let upd (w : w) (x : float list) : float list * w =
      match updk with
      | "libnone" -> (x, w)
      | "libuniform" -> Dream.uniform_update ( +. ) ( -. ) ( *. ) is_zero rnd 1.0 2.0 mag w x
      | "libgauss" -> Dream.gaussian_update ( +. ) ( *. ) log is_zero rnd (-2.0) (2.0 *. 3.14159265358979323846) sqrt cos sin mag w x
      | _ -> ((match Hashtbl.find_opt tu (key x) with Some r -> r | None -> incr misses; x), w) in
    let diff (w : w) : float * w =
      match diffk with
      | "one" -> (1.0, w) | "p0" -> (0.0 /. 100.0, w) | "p25" -> (25.0 /. 100.0, w)
      | "p50" -> (50.0 /. 100.0, w) | "p100" -> (100.0 /. 100.0, w)
      | "seq" -> (diffc.(w.dseq mod Array.length diffc), { w with dseq = w.dseq + 1 })
      | _ -> rnd w in
    let badconv = ref 0 in
    let trunc (x : float) : Dream.z =
      if x >= 0.0 && x < 4e18 then z_of_int (int_of_float x) else (incr badconv; Dream.Z0) in
    let ofnat k = float_of_int (int_of_nat k) in
    let logform = (form = "log") in
    let apply o st w =
      Dream.apply_op ( +. ) ( -. ) ( *. ) ( /. ) log ofnat trunc (fun a b -> a > b) (fun a b -> a >= b) is_zero
        logform true pdf inside rnd diff upd o st w in
    let conv evs = List.filter_map (function
        | Dream.EvRnd r -> Some (IR r) | Dream.EvDiff v -> Some (ID v) | Dream.EvGet _ -> None
        | Dream.EvUpd (a, b) -> if lib then None else Some (IU (a, b))
        | Dream.EvInside (x, b) -> Some (II (x, b))
        | Dream.EvPdf (c, v) -> Some (IP (List.combine c v))) evs in
    let probs = ref [] in
    let add s = probs := s :: !probs in
    let cmp_items what mi li =
      let rec go k a b = match a, b with
        | [], [] -> ()
        | x :: a', y :: b' -> if item_eq x y then go (k + 1) a' b'
          else add (Printf.sprintf "%s callback #%d model=[%s] impl=[%s]" what k (item_str x) (item_str y))
        | x :: _, [] -> add (Printf.sprintf "%s callback #%d model=[%s] impl=none (model %d, impl %d)" what k (item_str x) (List.length mi) (List.length li))
        | [], y :: _ -> add (Printf.sprintf "%s callback #%d model=none impl=[%s] (model %d, impl %d)" what k (item_str y) (List.length mi) (List.length li)) in
      go 0 mi li in
    let st = ref { Dream.chains = chunks d x0; pdfv = []; pdf_ready = false; hist = []; pdfh = []; acc = Dream.O } in
    let w = ref { pos = 0; dseq = 0 } in
    ignore n;
    let nev = ref 0 and nout = ref 0 and ndraw = ref 0 and nops = ref 0 and nedits = ref 0 in
    List.iteri (fun ri r ->
        if !probs = [] then begin
          match r.endop with
          | None -> if not crashed then add (Printf.sprintf "op %d (%s) has no endop line" ri r.kind)
          | Some er ->
            let fa = List.map float_of_tok in
            let o = match r.kind, r.args with
              | "run", nb :: nc :: _ -> Dream.OpRun (z_of_int (int_of_string nb), z_of_int (int_of_string nc))
              | "setv", a -> Dream.OpSetState (chunks d (fa a))
              | "setf", _ -> Dream.OpSetStateFn (fun i x ->   (* i-th invocation of the callback: the i-th logged "F old = new" *)
                  match List.nth_opt r.fmap (int_of_nat i) with
                  | Some (a, b) when same_list a x -> b
                  | _ -> incr misses; x)
              | "pdfv", a -> Dream.OpSetPdf (fa a)
              | "pdff", _ -> Dream.OpSetPdfFn
              | "clearpdf", _ -> Dream.OpClearPdf
              | "clearhist", _ -> Dream.OpClearHist
              | "expand", k :: _ -> Dream.OpExpand (z_of_int (int_of_string k))
              | _ -> failwith ("unknown op " ^ r.kind) in
            let ((st1, w1), evs) = apply o !st !w in
            let mi = conv evs in
            let tag = Printf.sprintf "op%d(%s)" ri r.kind in
            cmp_items tag mi r.items;
            nev := !nev + List.length mi; incr nops; if r.kind <> "run" then incr nedits;
            List.iter (function II (_, false) -> incr nout | IR _ -> incr ndraw | _ -> ()) mi;
            let s = sections er in
            let g k = try List.assoc k s with Not_found -> [] in
            let gf k = List.map float_of_tok (g k) in
            let chk what ok = if not ok then add (Printf.sprintf "%s %s" tag what) in
            chk (Printf.sprintf "state model=[%s] impl=[%s]" (hexl (List.concat st1.Dream.chains)) (String.concat " " (g "state:")))
              (same_list (List.concat st1.Dream.chains) (gf "state:"));
            chk "pdf-ready" ((if st1.Dream.pdf_ready then ["1"] else ["0"]) = g "ready:");
            chk (Printf.sprintf "pdf-values model=[%s] impl=[%s]" (hexl st1.Dream.pdfv) (String.concat " " (g "pdfv:")))
              (same_list st1.Dream.pdfv (gf "pdfv:"));
            chk (Printf.sprintf "accepted model=%d impl=%s" (int_of_nat st1.Dream.acc) (String.concat " " (g "accepted:")))
              ([string_of_int (int_of_nat st1.Dream.acc)] = g "accepted:");
            chk (Printf.sprintf "stream-position model=%d impl=%s" w1.pos (String.concat " " (g "rngpos:")))
              ([string_of_int w1.pos] = g "rngpos:");
            chk (Printf.sprintf "history model=%d impl=%d scalars" (List.length (List.concat st1.Dream.hist)) (List.length (g "hist:")))
              (same_list (List.concat st1.Dream.hist) (gf "hist:"));
            chk "pdf-history" (same_list st1.Dream.pdfh (gf "pdfh:"));
            st := st1; w := w1
        end) ops;
    if !misses > 0 then add (Printf.sprintf "table-misses=%d" !misses);
    if !badconv > 0 then add (Printf.sprintf "size_t-conversion-of-out-of-range-double=%d" !badconv);
    if !probs <> [] then Printf.printf "MISMATCH %s %s\n" id (String.concat "; " (List.rev !probs))
    else if crashed then Printf.printf "skip %s crashed ops_ok=%d\n" id !nops
    else Printf.printf "ok %s runs=%d edits=%d events=%d accepted=%d outside=%d draws=%d hist=%d\n" id (!nops - !nedits) !nedits !nev
        (int_of_nat !st.Dream.acc) !nout !ndraw (List.length !st.Dream.hist)
  | _ -> Printf.printf "skip %s\n" id

let () =
  let lines = read_lines Sys.argv.(1) in
  let id = ref "" and params = ref [] and ops = ref [] and crashed = ref false and ptable = ref [] in
  let cur_items = ref [] and cur_f = ref [] and cur_op = ref None and batch = ref None in
  let push it = cur_items := it :: !cur_items in
  let close_op er = (match !cur_op with
      | Some (kind, args) -> ops := { kind; args; items = List.rev !cur_items; fmap = List.rev !cur_f; endop = er } :: !ops
      | None -> ());
    cur_items := []; cur_f := []; cur_op := None in
  let flush_batch () = match !batch with
    | Some acc -> push (IP (List.rev acc)); batch := None
    | None -> () in
  let fl = List.map float_of_tok in
  List.iter (fun l ->
      match split_ws l with
      | "case" :: i :: _ -> id := i; params := []; ops := []; crashed := false; ptable := [];
        cur_items := []; cur_f := []; cur_op := None; batch := None
      | "params" :: r -> params := r
      | "op" :: kind :: args -> flush_batch (); close_op None; cur_op := Some (kind, args)
      | "R" :: v :: _ -> flush_batch (); push (IR (float_of_tok v))
      | "D" :: v :: _ -> flush_batch (); push (ID (float_of_tok v))
      | "U" :: r -> flush_batch (); let (a, b) = split_at "=" r in push (IU (fl a, fl b))
      | "I" :: r -> flush_batch (); let (a, b) = split_at "=" r in push (II (fl a, (match fl b with v :: _ -> v <> 0.0 | [] -> false)))
      | "F" :: r -> let (a, b) = split_at "=" r in cur_f := (fl a, fl b) :: !cur_f
      | "PX" :: r -> let (a, b) = split_at "=" r in ptable := (fl a, (match fl b with v :: _ -> v | [] -> nan)) :: !ptable
      | "PDF" :: _ -> flush_batch (); batch := Some []
      | "P" :: r -> let (a, b) = split_at "=" r in
        (match !batch with
         | Some acc -> batch := Some ((fl a, (match fl b with v :: _ -> v | [] -> nan)) :: acc)
         | None -> ())
      | "endop" :: r -> flush_batch (); close_op (Some r)
      | "crash" :: _ -> crashed := true
      | "exception" :: _ -> ()   (* a rejected edit: the dump that follows must show an unchanged object *)
      | "end" :: _ -> flush_batch (); close_op None;
        (try process !id !params (List.rev !ops) !ptable !crashed
         with e -> Printf.printf "MISMATCH %s runner-exception %s\n" !id (Printexc.to_string e))
      | _ -> ()) lines
