(* Runner for the extracted ParticleSwarm model (C20).
   usage: swarm <driver log> [orig|fixed]
   Reads the log written by harness/optdrv for the swarm cases (one block per case, one sub-block per op with the
   callback log, the number of random draws, a possible exception and the white-box dump of the state), replays
   every op on the extracted model instantiated with OCaml's IEEE binary64 floats, with the objective and the
   domain given as the finite tables recorded in the log, and compares AFTER EVERY OP, bit for bit: positions,
   velocities, best positions (incl. the swarm slot), the four caches, the four flags, the sequence of
   inside()/f() invocations with their arguments, the number of random draws, and whether an exception was
   thrown.  The second argument selects the model of clearBestParticles(): as in the code under study (orig)
   or with the proposed repair (fixed).  Prints one line per case. *)
open Common

let rec nat_of_int n = if n <= 0 then Swarm.O else Swarm.S (nat_of_int (n - 1))
let rec int_of_nat = function Swarm.O -> 0 | Swarm.S n -> 1 + int_of_nat n
let rec pos_of_int n = if n = 1 then Swarm.XH else if n land 1 = 0 then Swarm.XO (pos_of_int (n lsr 1)) else Swarm.XI (pos_of_int (n lsr 1))
let z_of_int n = if n = 0 then Swarm.Z0 else if n > 0 then Swarm.Zpos (pos_of_int n) else Swarm.Zneg (pos_of_int (-n))

type callrec = CI of float list * bool | CF of (float list * float) list
type oprec = {
  mutable toks : string list;               (* the op line *)
  mutable calls : callrec list;             (* reversed while reading *)
  mutable rngcalls : int option;
  mutable exc : bool;
  mutable dump : (string * string list) list;
}

let new_op toks = { toks; calls = []; rngcalls = None; exc = false; dump = [] }

let bool_tok t = (t = "1")

let process (repaired : bool) (id : string) (params : string list) (ops : oprec list) =
  let ftab = Hashtbl.create 97 and itab = Hashtbl.create 97 in
  List.iter (fun o -> List.iter (function
      | CI (x, b) -> Hashtbl.replace itab (List.map bits x) b
      | CF l -> List.iter (fun (x, v) -> Hashtbl.replace ftab (List.map bits x) v) l) o.calls) ops;
  let misses = ref 0 in
  let f x = match Hashtbl.find_opt ftab (List.map bits x) with Some v -> v | None -> incr misses; nan in
  let inside x = match Hashtbl.find_opt itab (List.map bits x) with Some b -> b | None -> incr misses; false in
  let (d, np) = match params with "swarm" :: d :: np :: _ -> (int_of_string d, int_of_string np) | _ -> failwith "bad swarm params" in
  let apply o x = Swarm.apply_op 0.0 2.0 0.5 ( +. ) ( -. ) ( *. ) Float.abs (fun a b -> a < b) f inside repaired o x in
  let st0 = Swarm.fresh 0.0 max_float (nat_of_int d) (nat_of_int np) in
  let x = ref (st0, ([], Swarm.O)) in
  let problems = ref [] in
  let nruns = ref 0 and nI = ref 0 and nF = ref 0 and ndraw = ref 0 and nexc = ref 0 in
  let floats l = List.map float_of_tok l in
  List.iteri (fun k o ->
      let (st, (stream, cnt)) = !x in
      let before_trace = List.length st.Swarm.trace in
      let before_draws = int_of_nat cnt in
      let bad what = problems := Printf.sprintf "op=%d(%s) %s" k (String.concat " " (match o.toks with a :: _ -> [a] | [] -> [])) what :: !problems in
      let expect_exc = ref false in
      (match o.toks with
       | "rng" :: r -> x := (st, (floats (fst (split_at "#" r)), cnt))
       | "init" :: "lo:" :: r ->
         let (lo, hi) = split_at "hi:" r in
         let lo = floats lo and hi = floats (fst (split_at "#" hi)) in
         expect_exc := (List.length lo <> d || List.length hi <> d);
         x := apply (Swarm.OInit (lo, hi)) !x
       | "setpos" :: r -> let v = floats (fst (split_at "#" r)) in expect_exc := (List.length v <> d * np); x := apply (Swarm.OSetPos v) !x
       | "setvel" :: r -> let v = floats (fst (split_at "#" r)) in expect_exc := (List.length v <> d * np); x := apply (Swarm.OSetVel v) !x
       | "setbest" :: r -> let v = floats (fst (split_at "#" r)) in expect_exc := (List.length v <> d * (np + 1)); x := apply (Swarm.OSetBest v) !x
       | "clearcache" :: _ -> x := apply Swarm.OClearCache !x
       | "clearbest" :: _ -> x := apply Swarm.OClearBest !x
       | "dump" :: _ -> ()
       | "run" :: it :: w :: c1 :: c2 :: _ ->
         incr nruns;
         expect_exc := not (st.Swarm.pinit && st.Swarm.vinit);
         x := apply (Swarm.ORun (z_of_int (int_of_string it), float_of_tok w, float_of_tok c1, float_of_tok c2)) !x
       | _ -> bad "unknown-op");
      let (st', (_, cnt')) = !x in
      (* callback sequence *)
      let rec drop n l = if n <= 0 then l else match l with [] -> [] | _ :: r -> drop (n - 1) r in
      let mcalls = drop before_trace st'.Swarm.trace in
      let lcalls = List.rev o.calls in
      let same_call m l = match m, l with
        | Swarm.CallI a, CI (b, r) -> same_list a b && inside a = r
        | Swarm.CallF ab, CF bl -> List.length ab = List.length bl && List.for_all2 (fun a (b, _) -> same_list a b) ab bl
        | _ -> false in
      if not (List.length mcalls = List.length lcalls && List.for_all2 same_call mcalls lcalls) then
        bad (Printf.sprintf "callback-sequence model=%d impl=%d" (List.length mcalls) (List.length lcalls));
      List.iter (function CI _ -> incr nI | CF _ -> incr nF) lcalls;
      (* random draws *)
      let md = int_of_nat cnt' - before_draws in
      ndraw := !ndraw + md;
      (match o.rngcalls with
       | Some n -> if n <> md then bad (Printf.sprintf "rng-draws model=%d impl=%d" md n)
       | None -> if md <> 0 then bad (Printf.sprintf "rng-draws model=%d impl=none" md));
      if !expect_exc <> o.exc then bad (Printf.sprintf "exception model=%b impl=%b" !expect_exc o.exc);
      if o.exc then incr nexc;
      (* state *)
      let ps = st'.Swarm.parts in
      let cmpf tag (mv : float list) =
        match List.assoc_opt tag o.dump with
        | Some l -> let lv = floats l in if not (same_list mv lv) then bad (Printf.sprintf "%s model=[%s] impl=[%s]" tag (hexl mv) (hexl lv))
        | None -> bad (tag ^ " missing-in-dump") in
      let cmpb tag (mv : bool list) =
        match List.assoc_opt tag o.dump with
        | Some l -> if List.map bool_tok l <> mv then bad (Printf.sprintf "%s model=[%s] impl=[%s]" tag (String.concat " " (List.map (fun b -> if b then "1" else "0") mv)) (String.concat " " l))
        | None -> bad (tag ^ " missing-in-dump") in
      cmpf "positions" (List.concat_map (fun p -> p.Swarm.pos) ps);
      cmpf "velocities" (List.concat_map (fun p -> p.Swarm.vel) ps);
      cmpf "bestpos" (List.concat_map (fun p -> p.Swarm.bpos) ps @ st'.Swarm.sbpos);
      cmpf "bestswarm" st'.Swarm.sbpos;
      cmpb "pinside" (List.map (fun p -> p.Swarm.cin) ps);
      cmpb "binside" (List.map (fun p -> p.Swarm.bin) ps @ [st'.Swarm.sbin]);
      cmpf "pfvals" (List.map (fun p -> p.Swarm.cf) ps);
      cmpf "bfvals" (List.map (fun p -> p.Swarm.bf) ps @ [st'.Swarm.sbf]);
      cmpb "flags" [st'.Swarm.pinit; st'.Swarm.vinit; st'.Swarm.binit; st'.Swarm.cinit])
    ops;
  if !misses > 0 then problems := Printf.sprintf "table-misses=%d" !misses :: !problems;
  match List.rev !problems with
  | [] -> Printf.printf "ok %s ops=%d runs=%d icalls=%d fbatches=%d draws=%d exceptions=%d\n" id (List.length ops) !nruns !nI !nF !ndraw !nexc
  | p :: _ as l -> Printf.printf "MISMATCH %s %s (%d differences)\n" id p (List.length l)

let () =
  let lines = read_lines Sys.argv.(1) in
  let repaired = (Array.length Sys.argv > 2 && Sys.argv.(2) = "fixed") in
  let id = ref "" and params = ref [] and ops = ref [] and cur = ref None and isswarm = ref false in
  let pendingF = ref None in   (* (count, reversed entries) of the batch being read *)
  let flushF () = match !pendingF, !cur with
    | Some (_, l), Some o -> o.calls <- CF (List.rev l) :: o.calls; pendingF := None
    | _ -> pendingF := None in
  List.iter (fun l ->
      match split_ws l with
      | "case" :: i :: _ -> id := i; params := []; ops := []; cur := None; isswarm := false; pendingF := None
      | "params" :: r -> params := r; isswarm := (match r with "swarm" :: _ -> true | _ -> false)
      | _ when not !isswarm -> ()
      | "op" :: r -> flushF (); let o = new_op r in cur := Some o; ops := o :: !ops
      | "I" :: r -> flushF ();
        (match !cur with Some o -> let (a, b) = split_at "=" r in
           o.calls <- CI (List.map float_of_tok a, (match b with v :: _ -> float_of_tok v <> 0.0 | [] -> false)) :: o.calls | None -> ())
      | "Fbatch" :: n :: _ -> flushF (); pendingF := Some (int_of_string n, [])
      | "F" :: r -> (match !pendingF with
          | Some (n, acc) -> let (a, b) = split_at "=" r in
            pendingF := Some (n, (List.map float_of_tok a, (match b with v :: _ -> float_of_tok v | [] -> nan)) :: acc)
          | None -> ())
      | "rngcalls" :: n :: _ -> flushF (); (match !cur with Some o -> o.rngcalls <- Some (int_of_string n) | None -> ())
      | "exception" :: _ -> flushF (); (match !cur with Some o -> o.exc <- true | None -> ())
      | "endop" :: _ -> flushF (); cur := None
      | "end" :: _ -> flushF ();
        (try process repaired !id !params (List.rev !ops)
         with e -> Printf.printf "MISMATCH %s runner-exception %s\n" !id (Printexc.to_string e))
      | tag :: r -> (match !cur with Some o -> o.dump <- (tag, r) :: o.dump | None -> ())
      | [] -> ()) lines
