(* Runner for the extracted binary-format model (C06).
   usage: ioformat <list-file>
   every line of the list file is "<case-id> <path>": a file holding the bytes that the library wrote for one grid
   (TasmanianSparseGrid::write(std::ostream&, binary = true)).  For each file the extracted [decode] is run on the
   bytes, the result is re-encoded with the extracted [encode] (must be byte-identical, nothing may be left over),
   and every decoded field is printed in the canonical format that harness/iodrv.cpp uses for the members of the
   live object ("r <tag> <values>": ints decimal, doubles as the 16 hex digits of their bit pattern). *)
open Common
open Ioformat

let rec pos_of_int n = if n = 1 then XH else if n land 1 = 0 then XO (pos_of_int (n lsr 1)) else XI (pos_of_int (n lsr 1))
let z_of_int n = if n = 0 then Z0 else if n > 0 then Zpos (pos_of_int n) else Zneg (pos_of_int (-n))
let rec int_of_pos = function XH -> 1 | XO p -> 2 * int_of_pos p | XI p -> 2 * int_of_pos p + 1
let int_of_z = function Z0 -> 0 | Zpos p -> int_of_pos p | Zneg p -> - (int_of_pos p)

let byte_table = Array.init 256 z_of_int

let read_bytes (fn : string) : z list =
  let ic = open_in_bin fn in
  let n = in_channel_length ic in
  let s = really_input_string ic n in
  close_in ic;
  let rec go i acc = if i < 0 then acc else go (i - 1) (byte_table.(Char.code s.[i]) :: acc) in
  go (n - 1) []

let buf = Buffer.create 65536
let ints (l : z list) = List.iter (fun v -> Buffer.add_char buf ' '; Buffer.add_string buf (string_of_int (int_of_z v))) l
let hx (x : f64) =
  Buffer.add_string buf (Printf.sprintf "%02x%02x%02x%02x%02x%02x%02x%02x" (int_of_z x.f64_7) (int_of_z x.f64_6) (int_of_z x.f64_5)
                           (int_of_z x.f64_4) (int_of_z x.f64_3) (int_of_z x.f64_2) (int_of_z x.f64_1) (int_of_z x.f64_0))
let dbls (l : f64 list) = List.iter (fun v -> Buffer.add_char buf ' '; hx v) l
let line tag f = Buffer.add_string buf "r "; Buffer.add_string buf tag; f (); Buffer.add_char buf '\n'
let str s () = Buffer.add_string buf s
let mset m () = Buffer.add_string buf (Printf.sprintf " %d %d :" (int_of_z m.ms_nd) (int_of_z m.ms_ni)); ints m.ms_idx
let omset tag = function None -> line tag (str " none") | Some m -> line tag (mset m)
let int1 tag v = line tag (fun () -> ints [v])
let storage (o : storage option) =
  match o with
  | None -> line "values" (str " absent")
  | Some s -> line "values" (fun () ->
      Buffer.add_string buf (Printf.sprintf " %d %d :" (int_of_z s.st_no) (int_of_z s.st_nv));
      match s.st_vals with None -> Buffer.add_string buf " none" | Some l -> dbls l)
let odbls tag = function None -> line tag (str " none") | Some l -> line tag (fun () -> dbls l)
let updated = function
  | None -> line "updated" (str " none")
  | Some u -> line "updated.tensors" (mset u.up_tensors); line "updated.active" (mset u.up_active); line "updated.w" (fun () -> ints u.up_w)
let nodes (l : node list) =
  line "c.nodes" (fun () -> Buffer.add_string buf (Printf.sprintf " %d" (List.length l));
                   List.iter (fun (p, v) -> Buffer.add_string buf " |"; ints p; Buffer.add_string buf " :"; dbls v) l)

let print_fields (g : gfile) =
  (match g.gf_body with
   | BEmpty -> line "type" (str " empty")
   | BGlobal b ->
     line "type" (str " global"); int1 "dims" b.gg_dims; int1 "outs" b.gg_outs;
     line "alpha" (fun () -> dbls [b.gg_alpha]); line "beta" (fun () -> dbls [b.gg_beta]); int1 "rule" b.gg_rule;
     (match b.gg_custom with
      | None -> line "custom" (str " none")
      | Some c -> line "custom.desc" (fun () -> ints c.cu_desc); line "custom.nodes" (fun () -> ints c.cu_nodes);
        line "custom.prec" (fun () -> ints c.cu_prec);
        line "custom.tab" (fun () -> List.iter (fun (w, x) -> Buffer.add_string buf " |"; dbls w; Buffer.add_string buf " :"; dbls x) c.cu_tab));
     line "tensors" (mset b.gg_tensors); line "active" (mset b.gg_active); line "active_w" (fun () -> ints b.gg_active_w);
     omset "points" b.gg_points; omset "needed" b.gg_needed; line "max_levels" (fun () -> ints b.gg_max_levels);
     storage b.gg_values; updated b.gg_updated
   | BSequence b ->
     line "type" (str " sequence"); int1 "dims" b.sq_dims; int1 "outs" b.sq_outs; int1 "rule" b.sq_rule;
     omset "points" b.sq_points; omset "needed" b.sq_needed; odbls "coef" b.sq_surpluses; storage b.sq_values
   | BLocal b ->
     line "type" (str " localp"); int1 "dims" b.lp_dims; int1 "outs" b.lp_outs; int1 "order" b.lp_order; int1 "top" b.lp_top;
     int1 "rule" b.lp_rule; omset "points" b.lp_points; omset "needed" b.lp_needed; odbls "coef" b.lp_surpluses;
     (match b.lp_parents with None -> line "parents" (str " none") | Some l -> line "parents" (fun () -> ints l));
     line "roots" (fun () -> ints b.lp_roots); line "pntr" (fun () -> ints b.lp_pntr); line "indx" (fun () -> ints b.lp_indx);
     storage b.lp_values
   | BWavelet b ->
     line "type" (str " wavelet"); int1 "dims" b.wv_dims; int1 "outs" b.wv_outs; int1 "order" b.wv_order;
     omset "points" b.wv_points; omset "needed" b.wv_needed; odbls "coef" b.wv_coefficients; storage b.wv_values
   | BFourier b ->
     line "type" (str " fourier"); int1 "dims" b.fo_dims; int1 "outs" b.fo_outs;
     line "tensors" (mset b.fo_tensors); line "active" (mset b.fo_active); line "active_w" (fun () -> ints b.fo_active_w);
     omset "points" b.fo_points; omset "needed" b.fo_needed; line "max_levels" (fun () -> ints b.fo_max_levels);
     (match b.fo_values with
      | None -> storage None; line "coef" (str " absent")
      | Some (s, c) -> storage (Some s); odbls "coef" c);
     updated b.fo_updated);
  (match g.gf_construction with
   | None -> ()
   | Some (CGlobal (t, n)) ->
     line "c.tensors" (fun () -> Buffer.add_string buf (Printf.sprintf " %d" (List.length t));
                        List.iter (fun (w, ix) -> Buffer.add_string buf " | "; hx w; Buffer.add_string buf " :"; ints ix) t);
     nodes n
   | Some (CSimple (i, n)) -> line "c.initial" (mset i); nodes n);
  (match g.gf_transform with
   | None -> line "transform" (str " none")
   | Some (a, b) -> line "ta" (fun () -> dbls a); line "tb" (fun () -> dbls b));
  (match g.gf_conformal with None -> line "conformal" (str " none") | Some l -> line "conformal" (fun () -> ints l));
  (match g.gf_limits with None -> line "limits" (str " none") | Some l -> line "limits" (fun () -> ints l));
  line "constr" (str (match g.gf_construction with None -> " 0" | Some _ -> " 1"))

let rec first_diff i a b =
  match a, b with
  | [], [] -> -1
  | x :: ra, y :: rb -> if x = y then first_diff (i + 1) ra rb else i
  | _, _ -> i

let () =
  let files = read_lines Sys.argv.(1) in
  List.iter (fun l ->
      match split_ws l with
      | [id; path] ->
        Buffer.clear buf;
        let bytes = (try Some (read_bytes path) with _ -> None) in
        (match bytes with
         | None -> Printf.printf "case %s\nMISMATCH %s cannot read the bytes file\n" id id
         | Some bs ->
           (match decode bs with
            | None -> Printf.printf "case %s\nMISMATCH %s decode: the reader grammar rejects the %d bytes the library wrote\n" id id (List.length bs)
            | Some (g, rest) ->
              let re = encode g in
              let consumed = List.length bs - List.length rest in
              let d = first_diff 0 re bs in
              let same = (rest = []) && d = -1 in
              print_fields g;
              Printf.printf "case %s\n" id;
              if rest <> [] then Printf.printf "MISMATCH %s trailing: %d bytes after the end marker (consumed %d)\n" id (List.length rest) consumed;
              if rest = [] && d <> -1 then Printf.printf "MISMATCH %s reencode: differs from the library's bytes at offset %d (library %d bytes, model %d bytes)\n" id d (List.length bs) (List.length re);
              if same then Printf.printf "ok %s %d\n" id (List.length bs);
              print_string (Buffer.contents buf)))
      | _ -> ()) files
