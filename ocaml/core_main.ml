(* Runner for the extracted grid-core models (index sets, RuleLocal).
   usage: core <cases-file> <driver-output-file>
   The case file is the one given to harness/unitdrv; the second file is unitdrv's output. *)
open Common
open Core

let rec nat_of_int n = if n <= 0 then O else S (nat_of_int (n - 1))
let rec pos_of_int n = if n = 1 then XH else if n land 1 = 0 then XO (pos_of_int (n lsr 1)) else XI (pos_of_int (n lsr 1))
let z_of_int n = if n = 0 then Z0 else if n > 0 then Zpos (pos_of_int n) else Zneg (pos_of_int (-n))
let rec int_of_pos = function XH -> 1 | XO p -> 2 * int_of_pos p | XI p -> 2 * int_of_pos p + 1
let int_of_z = function Z0 -> 0 | Zpos p -> int_of_pos p | Zneg p -> - (int_of_pos p)
(* positive -> (m, e) with value = m * 2^e, 0.5 <= m < 1 (no overflow for huge numbers) *)
let rec fe_of_pos = function
  | XH -> (0.5, 1)
  | XO p -> let (m, e) = fe_of_pos p in (m, e + 1)
  | XI p -> let (m, e) = fe_of_pos p in (m +. Float.ldexp 1.0 (- (e + 1)), e + 1)
let float_of_pos p = let (m, e) = fe_of_pos p in Float.ldexp m e
let float_of_z = function Z0 -> 0.0 | Zpos p -> float_of_pos p | Zneg p -> -. (float_of_pos p)
let float_of_q (x : q) =
  match x.qnum with
  | Z0 -> 0.0
  | Zpos p | Zneg p ->
    let (mn, en) = fe_of_pos p and (md, ed) = fe_of_pos x.qden in
    let v = Float.ldexp (mn /. md) (en - ed) in
    (match x.qnum with Zneg _ -> -. v | _ -> v)
let rec pow2_pos k = if k = 0 then XH else XO (pow2_pos (k - 1))
(* exact rational value of a finite double *)
let q_of_float (f : float) : q =
  if f = 0.0 then { qnum = Z0; qden = XH } else
    let (m, e) = Float.frexp f in            (* f = m * 2^e, 0.5 <= |m| < 1 *)
    let mi = Int64.to_int (Int64.of_float (Float.ldexp m 53)) in   (* exact integer mantissa *)
    let e = e - 53 in
    if e >= 0 then { qnum = (let rec sh z k = if k = 0 then z else sh (match z with Z0 -> Z0 | Zpos p -> Zpos (XO p) | Zneg p -> Zneg (XO p)) (k - 1) in sh (z_of_int mi) e); qden = XH }
    else { qnum = z_of_int mi; qden = pow2_pos (- e) }

let rec chunks d l = if l = [] then [] else
    let rec take k l = if k = 0 then ([], l) else match l with [] -> ([], []) | x :: r -> let (a, b) = take (k - 1) r in (x :: a, b) in
    let (a, b) = take d l in a :: chunks d b
let idxs d toks = chunks d (List.map (fun t -> z_of_int (int_of_string t)) toks)
let flat s = List.concat_map (fun p -> List.map int_of_z p) s

let rec keyed (l : string list) : (string * string list) list =
  match l with
  | [] -> []
  | k :: r when String.length k > 0 && k.[String.length k - 1] = ':' ->
    let rec take l = match l with
      | t :: r' when not (String.length t > 0 && t.[String.length t - 1] = ':') -> let (a, b) = take r' in (t :: a, b)
      | _ -> ([], l) in
    let (v, rest) = take r in (k, v) :: keyed rest
  | _ :: r -> keyed r
let get k m = try List.assoc k m with Not_found -> []

let rule_of = function "pwc" -> Pwc | "localp" -> Localp | "semilocalp" -> Semilocalp | "localp0" -> Localp0 | _ -> Localpb

let close a b = Float.abs (a -. b) <= 1e-12 *. Float.max 1.0 (Float.max (Float.abs a) (Float.abs b))

(* ---- grid state machine transcripts and classic selection (C07) ----
   gs <id> <d>
   st pidx: i.. nidx: i.. vals: b..          (implementation state; value blocks are opaque strings)
   op load vals: b.. | op propose cand: i.. | op clear | op merge zero: b
   sel <id> <rule> <d> limits: i.. pidx: i.. flags: 0/1.. nidx: i..   (classic refinement: expected needed set) *)
let run_gs file =
  let lines = read_lines file in
  let id = ref "" and d = ref 1 and st : string gstate option ref = ref None and zero = ref "0" in
  let nok = ref 0 and pending : string op option ref = ref None in
  let show s = Printf.sprintf "points=[%s] needed=[%s] values=[%s]" (String.concat " " (List.map string_of_int (flat s.points)))
      (String.concat " " (List.map string_of_int (flat s.needed))) (String.concat " " s.values) in
  List.iter (fun l ->
      match split_ws l with
      | "gs" :: i :: dd :: _ -> id := i; d := int_of_string dd; st := None; pending := None
      | "st" :: rest ->
        let m = keyed rest in
        let impl = { points = idxs !d (get "pidx:" m); needed = idxs !d (get "nidx:" m); values = get "vals:" m } in
        (match !st, !pending with
         | Some s, Some o ->
           let s' = step !zero s o in
           if s'.points = impl.points && s'.needed = impl.needed && s'.values = impl.values then incr nok
           else Printf.printf "MISMATCH %s grid-state model: %s impl: %s\n" !id (show s') (show impl)
         | _, _ -> ());
        st := Some impl; pending := None
      | "op" :: "load" :: rest -> pending := Some (Load (get "vals:" (keyed rest)))
      | "op" :: "propose" :: rest -> pending := Some (Propose (idxs !d (get "cand:" (keyed rest))))
      | "op" :: "clear" :: _ -> pending := Some Clear
      | "op" :: "merge" :: rest -> (match get "zero:" (keyed rest) with z :: _ -> zero := z | [] -> ()); pending := Some Merge
      | "sel" :: i :: rule :: dd :: rest ->
        let m = keyed rest and dd = int_of_string dd in
        let pts = idxs dd (get "pidx:" m) in
        let flags = List.map (fun t -> t = "1") (get "flags:" m) in
        let tbl = List.combine pts flags in
        let flag q = try List.assoc q tbl with Not_found -> false in
        let limits = List.map (fun t -> z_of_int (int_of_string t)) (get "limits:" m) in
        let exp = classic_candidates (rule_of rule) limits pts flag in
        let impl = idxs dd (get "nidx:" m) in
        if exp = impl then incr nok
        else Printf.printf "MISMATCH %s classic-selection model=[%s] impl=[%s]\n" i (String.concat " " (List.map string_of_int (flat exp)))
            (String.concat " " (List.map string_of_int (flat impl)))
      | _ -> ()) lines;
  Printf.printf "agree %d\n" !nok

(* ---- local polynomial grids: exact surpluses / evaluation / certificate (C01, C04) ----
   lg <id> <rule> <order> <d> <outs> pidx: i.. vals: v.. coef: c.. xs: x.. ys: y..
   prints: lg <id> cert=<b> complete=<b> n=<points> coeferr=<max abs err / scale> evalerr=<...> nodeerr=<...> *)
let run_local file =
  let lines = read_lines file in
  List.iter (fun l ->
      match split_ws l with
      | "lg" :: id :: rule :: order :: dd :: outs :: rest ->
        (try
           let m = keyed rest and d = int_of_string dd and outs = int_of_string outs in
           let r = rule_of rule and order = z_of_int (int_of_string order) in
           let pts = idxs d (get "pidx:" m) in
           let n = List.length pts in
           let vals = Array.of_list (List.map float_of_tok (get "vals:" m)) in
           let coef = Array.of_list (List.map float_of_tok (get "coef:" m)) in
           let xs = List.map float_of_tok (get "xs:" m) and ys = Array.of_list (List.map float_of_tok (get "ys:" m)) in
           let scale = Array.fold_left (fun a v -> Float.max a (Float.abs v)) 1.0 vals in
           let cert = hier_cert r order pts and complete = parent_complete r pts in
           let coeferr = ref 0.0 and evalerr = ref 0.0 and nodeerr = ref 0.0 in
           let xpts = chunks d xs in
           for k = 0 to outs - 1 do
             let assoc = List.mapi (fun i p -> (p, q2Qc (q_of_float vals.(i * outs + k)))) pts in
             let s = surpluses r order pts assoc in
             List.iteri (fun i p ->
                 let sv = float_of_q (this (List.assoc p s)) in
                 if Array.length coef = n * outs then coeferr := Float.max !coeferr (Float.abs (sv -. coef.(i * outs + k)) /. scale)) pts;
             List.iteri (fun xi x ->
                 let e = float_of_q (this (evalAt r order pts assoc (List.map q_of_float x))) in
                 if Array.length ys > xi * outs + k then evalerr := Float.max !evalerr (Float.abs (e -. ys.(xi * outs + k)) /. scale)) xpts;
             (* reproduction at the nodes, exactly, on the model *)
             if cert then List.iteri (fun i p ->
                 let e = evalAt r order pts assoc (List.map (fun z -> getNode r z) p) in
                 let dv = float_of_q (this e) -. vals.(i * outs + k) in
                 nodeerr := Float.max !nodeerr (Float.abs dv /. scale)) pts
           done;
           Printf.printf "lg %s cert=%b complete=%b n=%d coeferr=%h evalerr=%h nodeerr=%h\n" id cert complete n !coeferr !evalerr !nodeerr
         with e -> Printf.printf "MISMATCH %s runner-exception %s\n" id (Printexc.to_string e))
      | _ -> ()) lines

let () =
  if Array.length Sys.argv > 2 && Sys.argv.(1) = "--gs" then (run_gs Sys.argv.(2); exit 0);
  if Array.length Sys.argv > 2 && Sys.argv.(1) = "--local" then (run_local Sys.argv.(2); exit 0);
  let cases = read_lines Sys.argv.(1) and out = ref (read_lines Sys.argv.(2)) in
  let next () = match !out with l :: r -> out := r; l | [] -> "" in
  let nok = ref 0 in
  List.iter (fun line ->
      match split_ws line with
      | "iset" :: id :: op :: d :: rest ->
        let d = int_of_string d and m = keyed rest in
        let res = split_ws (next ()) in
        (match res with
         | "r" :: id' :: vals when id' = id ->
           let expect : string list =
             (match op with
              | "merge" -> List.map string_of_int (flat (merge (idxs d (get "a:" m)) (idxs d (get "b:" m))))
              | "diff" -> List.map string_of_int (flat (diff (idxs d (get "a:" m)) (idxs d (get "b:" m))))
              | "sortunique" -> List.map string_of_int (flat (sort_unique (idxs d (get "a:" m))))
              | "slot" -> let a = idxs d (get "a:" m) in List.map (fun p -> string_of_int (int_of_z (getSlot a p))) (idxs d (get "b:" m))
              | "remove" -> List.map string_of_int (flat (removeIndex (List.hd (idxs d (get "b:" m))) (idxs d (get "a:" m))))
              | "addvalues" ->
                let v = addValues "?" (idxs d (get "old:" m)) (idxs d (get "new:" m)) (get "vals:" m) (get "newvals:" m) in v
              | _ -> []) in
           let same = if op = "addvalues" then List.length vals = List.length expect && List.for_all2 (fun a b -> same (float_of_tok a) (float_of_tok b)) vals expect
             else vals = expect in
           if same then incr nok else Printf.printf "MISMATCH %s %s model=[%s] impl=[%s]\n" id op (String.concat " " expect) (String.concat " " vals)
         | _ -> Printf.printf "MISMATCH %s %s implementation-produced %s\n" id op (String.concat " " res))
      | "lset" :: id :: dd :: off :: rest ->
        let d = int_of_string dd and m = keyed rest in
        let res = split_ws (next ()) in
        let w = List.map (fun t -> z_of_int (int_of_string t)) (get "w:" m) in
        let w = if w = [] then List.init d (fun _ -> z_of_int 1) else w in
        let minw = List.fold_left (fun a x -> min a (int_of_z x)) max_int w in
        let lim = List.map (fun t -> z_of_int (int_of_string t)) (get "ll:" m) in
        let exp = List.map string_of_int (flat (select_level (nat_of_int d) w (z_of_int (int_of_string off * minw)) lim)) in
        (match res with
         | "r" :: id' :: vals when id' = id ->
           if vals = exp then incr nok else Printf.printf "MISMATCH %s select-level model=[%s] impl=[%s]\n" id (String.concat " " exp) (String.concat " " vals)
         | _ -> Printf.printf "MISMATCH %s select-level implementation-produced %s\n" id (String.concat " " res))
      | "boxfull" :: id :: dd :: rest ->
        let d = int_of_string dd and m = keyed rest in
        let res = split_ws (next ()) in
        let lim = List.map (fun t -> z_of_int (int_of_string t)) (get "ll:" m) in
        let exp = if limits_box_full lim (idxs d (get "a:" m)) then "1" else "0" in
        (match res with
         | ["r"; id'; v] when id' = id -> if v = exp then incr nok else Printf.printf "MISMATCH %s limits-box-full model=%s impl=%s\n" id exp v
         | _ -> Printf.printf "MISMATCH %s limits-box-full implementation-produced %s\n" id (String.concat " " res))
      | "rlint" :: rule :: maxp :: _ ->
        let r = rule_of rule in
        ignore (next ());
        let np = split_ws (next ()) in
        let exp_np = List.init 13 (fun l -> string_of_int (int_of_z (getNumPoints r (z_of_int l)))) in
        if List.tl np <> exp_np then Printf.printf "MISMATCH rlint-%s getNumPoints model=[%s] impl=[%s]\n" rule (String.concat " " exp_np) (String.concat " " (List.tl np)) else incr nok;
        let mk = split_ws (next ()) in
        let nk = int_of_z (getMaxNumKids r) in
        if mk <> ["maxkids"; string_of_int nk; "maxparents"; string_of_int (int_of_z (getMaxNumParents r))] then Printf.printf "MISMATCH rlint-%s maxkids/maxparents impl=[%s]\n" rule (String.concat " " mk) else incr nok;
        for p = 0 to int_of_string maxp do
          let l = split_ws (next ()) in
          let zp = z_of_int p in
          let exp = "pt" :: List.map string_of_int ([p; int_of_z (getParent r zp); int_of_z (getStepParent r zp); int_of_z (getLevel r zp)]
                                                     @ List.init nk (fun k -> int_of_z (getKid r zp (z_of_int k)))) in
          if l <> exp then Printf.printf "MISMATCH rlint-%s point=%d model=[%s] impl=[%s]\n" rule p (String.concat " " exp) (String.concat " " l) else incr nok
        done;
        ignore (next ())
      | "rlq" :: rule :: order :: p0 :: p1 :: rest ->
        let r = rule_of rule and order = int_of_string order in
        let xs = List.map float_of_tok (get "x:" (keyed rest)) in
        ignore (next ());
        for p = int_of_string p0 to int_of_string p1 do
          let l = split_ws (next ()) in
          let zp = z_of_int p and zo = z_of_int order in
          (match l with
           | "q" :: _ :: node :: supp :: sdx :: rest ->
             let bad = ref [] in
             let chk name model impl = if not (close (float_of_q model) (float_of_tok impl)) then bad := Printf.sprintf "%s model=%h impl=%s" name (float_of_q model) impl :: !bad in
             chk "getNode" (getNode r zp) node; chk "getSupport" (getSupport r zp) supp;
             if r <> Pwc && not (r = Semilocalp && p < 3) then chk "scaleDiffX" (scaleDiffX r zp) sdx;
             let rec go xs toks = match xs, toks with
               | x :: xs', "|" :: ra :: es :: esf :: ds :: dsf :: toks' ->
                 let qx = q_of_float x in
                 (* piecewise-constant rule: the node is not a binary fraction, so membership tests exactly at a support
                    boundary are decided by rounding; such borderline abscissae are skipped *)
                 let borderline = (r = Pwc) && (let dist = Float.abs (x -. float_of_q (getNode r zp)) and s = float_of_q (getSupport r zp) in
                                                Float.abs (dist -. s) < 1e-9 || Float.abs (dist -. 2.0 *. s) < 1e-9) in
                 if not borderline then begin
                   chk (Printf.sprintf "evalRaw(x=%h)" x) (evalRaw r zo zp qx) ra;
                   let (ev, ef) = evalSupport r zo zp qx in
                   chk (Printf.sprintf "evalSupport(x=%h)" x) ev es;
                   if (if ef then "1" else "0") <> esf then bad := Printf.sprintf "evalSupport.isSupported(x=%h) model=%b impl=%s" x ef esf :: !bad;
                   if not (r = Semilocalp && order = 1) then begin
                     let (dv, df) = diffSupport r zo zp qx in
                     chk (Printf.sprintf "diffSupport(x=%h)" x) dv ds;
                     if (if df then "1" else "0") <> dsf then bad := Printf.sprintf "diffSupport.isSupported(x=%h) model=%b impl=%s" x df dsf :: !bad
                   end
                 end;
                 go xs' toks'
               | _, _ -> () in
             go xs rest;
             if !bad = [] then incr nok else Printf.printf "MISMATCH rlq-%s order=%d point=%d %s\n" rule order p (String.concat "; " (List.rev !bad))
           | _ -> Printf.printf "MISMATCH rlq-%s order=%d point=%d implementation-produced %s\n" rule order p (String.concat " " l))
        done;
        ignore (next ())
      | _ -> ()) cases;
  Printf.printf "agree %d\n" !nok
