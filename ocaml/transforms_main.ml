(* Runner for the extracted domain-transform model (C10).
   usage: transforms <tie-file>
   Every line holds an observation made on the implementation (doubles as C99 hex floats, converted to exact
   rationals) and a magnitude [scale]; the extracted model is evaluated on the same inputs in exact rational
   arithmetic (sqrt / pow = libm's, lifted to rationals) and compared: |model - impl| <= 1e-13 * scale.
     fwd <fam> a b x impl scale          inv <fam> a b y impl scale        jac <fam> a b impl scale
     sup <fam> a b impl scale            (support_scale = 1/jac, the property)      supc a b impl scale   (the code's formula)
     qs <qrule> alpha beta d a1 b1 .. impl scale
     ins <fam> <0|1> d a1 b1 .. y1 .. impl(0|1)        exact comparison of the predicate
     law sqrt b | law pow x y p q                      run-time check of the algebraic laws assumed by the theorems
   prints  MISMATCH <line-no> ...  per failing line and a final  agree <n> mismatches <m> *)
open Common
open Transforms

let rec pos_of_int n = if n = 1 then XH else if n land 1 = 0 then XO (pos_of_int (n lsr 1)) else XI (pos_of_int (n lsr 1))
let z_of_int n = if n = 0 then Z0 else if n > 0 then Zpos (pos_of_int n) else Zneg (pos_of_int (-n))
let rec fe_of_pos = function
  | XH -> (0.5, 1)
  | XO p -> let (m, e) = fe_of_pos p in (m, e + 1)
  | XI p -> let (m, e) = fe_of_pos p in (m +. Float.ldexp 1.0 (- (e + 1)), e + 1)
let float_of_q (x : q) =
  match x.qnum with
  | Z0 -> 0.0
  | Zpos p | Zneg p ->
    let (mn, en) = fe_of_pos p and (md, ed) = fe_of_pos x.qden in
    let v = Float.ldexp (mn /. md) (en - ed) in
    (match x.qnum with Zneg _ -> -. v | _ -> v)
let rec pow2_pos k = if k = 0 then XH else XO (pow2_pos (k - 1))
(* exact rational value of a finite double *)
let q_of_float (f : float) : q =
  if f = 0.0 then { qnum = Z0; qden = XH } else
    let (m, e) = Float.frexp f in
    let mi = Int64.to_int (Int64.of_float (Float.ldexp m 53)) in
    let e = e - 53 in
    (* strip trailing zero bits so that the rationals stay small *)
    let rec strip mi e = if mi land 1 = 0 && e < 0 then strip (mi asr 1) (e + 1) else (mi, e) in
    let (mi, e) = strip mi e in
    if e >= 0 then { qnum = (let rec sh z k = if k = 0 then z else sh (match z with Z0 -> Z0 | Zpos p -> Zpos (XO p) | Zneg p -> Zneg (XO p)) (k - 1) in sh (z_of_int mi) e); qden = XH }
    else { qnum = z_of_int mi; qden = pow2_pos (- e) }

let sqrtq (b : q) : q = q_of_float (Float.sqrt (float_of_q b))
let powq (x : q) (p : q) : q = q_of_float (Float.pow (float_of_q x) (float_of_q p))

let fam_of = function "linear" -> FLinear | "fourier" -> FFourier | "laguerre" -> FLaguerre | "hermite" -> FHermite | s -> failwith ("family " ^ s)
let qrule_of = function
  | "plain" -> QPlain | "fourier" -> QFourier | "cheb1" -> QCheb1 | "cheb2" -> QCheb2 | "gegenbauer" -> QGegenbauer
  | "jacobi" -> QJacobi | "laguerre" -> QLaguerre | "hermite" -> QHermite | s -> failwith ("qrule " ^ s)

let qf t = q_of_float (float_of_tok t)

let () =
  let file = Sys.argv.(1) in
  let lines = read_lines file in
  let nok = ref 0 and nbad = ref 0 and ln = ref 0 in
  let cmp what (model : q) impl_t scale_t =
    let m = float_of_q (qred model) and i = float_of_tok impl_t and s = float_of_tok scale_t in
    if Float.abs (m -. i) <= 1e-13 *. s then incr nok
    else begin incr nbad; Printf.printf "MISMATCH %d %s model=%h impl=%h scale=%h\n" !ln what m i s end in
  let rec take k l = if k = 0 then ([], l) else match l with [] -> failwith "short line" | x :: r -> let (a, b) = take (k - 1) r in (x :: a, b) in
  let rec pairs = function a :: b :: r -> (qf a, qf b) :: pairs r | _ -> [] in
  let close a b tol = Float.abs (a -. b) <= tol *. Float.max (Float.abs a) (Float.abs b) in
  List.iter (fun l ->
      incr ln;
      try
        match split_ws l with
        | [ "fwd"; f; a; b; x; impl; sc ] -> cmp l (fwd sqrtq (fam_of f) (qf a) (qf b) (qf x)) impl sc
        | [ "inv"; f; a; b; y; impl; sc ] -> cmp l (inv sqrtq (fam_of f) (qf a) (qf b) (qf y)) impl sc
        | [ "jac"; f; a; b; impl; sc ] -> cmp l (jac sqrtq (fam_of f) (qf a) (qf b)) impl sc
        | [ "sup"; f; a; b; impl; sc ] -> cmp l (support_scale sqrtq (fam_of f) (qf a) (qf b)) impl sc
        | [ "supc"; a; b; impl; sc ] -> cmp l (support_scale_code (qf a) (qf b)) impl sc
        | "qs" :: r :: al :: be :: d :: rest ->
          let d = int_of_string d in
          let (ab, rest) = take (2 * d) rest in
          (match rest with
           | [ impl; sc ] -> cmp l (qscale powq (qrule_of r) (qf al) (qf be) (pairs ab)) impl sc
           | _ -> failwith "qs line")
        | "ins" :: f :: tr :: d :: rest ->
          let d = int_of_string d in
          let (ab, rest) = take (2 * d) rest in
          let (y, rest) = take d rest in
          let impl = (match rest with [ "1" ] -> true | [ "0" ] -> false | _ -> failwith "ins line") in
          let model = if tr = "1" then inside_t (fam_of f) (pairs ab) (List.map qf y) else inside_c (fam_of f) (List.map qf y) in
          if model = impl then incr nok else begin incr nbad; Printf.printf "MISMATCH %d %s model=%b impl=%b\n" !ln l model impl end
        | [ "law"; "sqrt"; b ] ->
          let b = float_of_tok b in let s = Float.sqrt b in
          if s > 0.0 && close (s *. s) b 4e-16 then incr nok
          else begin incr nbad; Printf.printf "MISMATCH %d law sqrt b=%h s=%h\n" !ln b s end
        | [ "law"; "pow"; x; y; p; q ] ->
          let x = float_of_tok x and y = float_of_tok y and p = float_of_tok p and q = float_of_tok q in
          let pw = Float.pow in
          let checks = [
            ("pow_pos", pw x p > 0.0);
            ("pow_one", close (pw x 1.0) x 1e-15);
            ("pow_add", close (pw x (p +. q)) (pw x p *. pw x q) 1e-12);
            ("pow_mul", close (pw (x *. y) p) (pw x p *. pw y p) 1e-12);
            ("pow_sqrt", close (pw (Float.sqrt x) p) (pw x (p *. 0.5)) 1e-12);
            ("pow_proper", Int64.equal (Int64.bits_of_float (pw x p)) (Int64.bits_of_float (pw (x +. 0.0) (p +. 0.0)))) ] in
          List.iter (fun (n, ok) -> if ok then incr nok else begin incr nbad; Printf.printf "MISMATCH %d law %s x=%h y=%h p=%h q=%h\n" !ln n x y p q end) checks
        | [] -> ()
        | _ -> failwith "unknown line"
      with e -> incr nbad; Printf.printf "MISMATCH %d runner-error %s on: %s\n" !ln (Printexc.to_string e) l)
    lines;
  Printf.printf "agree %d mismatches %d\n" !nok !nbad
