(* Runner for the extracted checkpoint model (C17).
   Input (argv[1]): a case file produced by props/C17.py

     table <name> <base>
     ref <path> <gridlen>        one line per complete reference checkpoint, in order; the first <base> entries are
     ...                         checkpoints written by earlier processes (known complete contents), entry <base> is the
     endtable                    initial checkpoint of the process, then its checkpoints 1, 2, ...; gridlen = length of
                                 the grid section as reported by the real reader
     case <id> <table>
     start <cur|-> <old|->       the two files when the process started ('-' = absent)
     ops <tok> ...               observed write-side operations of the process up to the kill:
                                 Wc Wo = fopen(..,"wb") of name / name_old; Ac:<n> Ao:<n> = write of n bytes (for a
                                 torn write: the bytes that reached the file); Cc Co = fclose
     after <cur|-> <old|->       the two files after the kill
     endcase

   For every case the extracted model
     * runs the recovery (as coded and repaired) on the start files with the specification reader (accepts exactly
       the table entries; a failing read of a file that begins with the magic TSG5 empties the grid),
     * follows the observed operations with each of the four code variants (backup under name_old or under name;
       initial checkpoint skipped after a recovery from the main file or not): Conforms / Deviates, and for the
       conforming variants compares the predicted files with the actual ones byte for byte,
     * classifies predicted and actual files against the table, runs the model reader (table-driven grid section +
       the modelled CompleteStorage reader) and the recovery on the actual files.
   Output: one line per table entry and per case, see the printf formats below. *)
open Common
module C = Checkpoint

let nat_of_int n =
  (* tail-recursive version for long files *)
  let rec go acc k = if k <= 0 then acc else go (C.S acc) (k - 1) in go C.O n
let rec int_of_nat_acc acc = function C.O -> acc | C.S n -> int_of_nat_acc (acc + 1) n
let int_of_nat n = int_of_nat_acc 0 n
let rec pos_of_int n = if n = 1 then C.XH else if n land 1 = 0 then C.XO (pos_of_int (n lsr 1)) else C.XI (pos_of_int (n lsr 1))
let n_of_int n = if n = 0 then C.N0 else C.Npos (pos_of_int n)
let rec int_of_pos = function C.XH -> 1 | C.XO p -> 2 * int_of_pos p | C.XI p -> 2 * int_of_pos p + 1
let int_of_n = function C.N0 -> 0 | C.Npos p -> int_of_pos p

let read_file (fn : string) : string option =
  if fn = "-" then None else
  match open_in_bin fn with
  | exception Sys_error _ -> None
  | ic -> let n = in_channel_length ic in let s = really_input_string ic n in close_in ic; Some s

let chars (s : string) : char list = List.init (String.length s) (String.get s)
let string_of_chars (l : char list) : string =
  let b = Buffer.create 256 in List.iter (Buffer.add_char b) l; Buffer.contents b
let nbytes (s : string) : C.byte list = List.map (fun c -> n_of_int (Char.code c)) (chars s)

let ceq (a : char) (b : char) = a = b

let class_str = function
  | C.CMissing -> "missing" | C.CEmpty -> "empty"
  | C.CComplete k -> Printf.sprintf "complete:%d" (int_of_nat k)
  | C.CTorn k -> Printf.sprintf "torn:%d" (int_of_nat k)
  | C.COther -> "other"

type table = { names : string array; contents : string array; gridlens : int array; base : int }

let starts_with (s : string) (p : string) =
  String.length s >= String.length p && String.sub s 0 (String.length p) = p

(* specification reader of the recovery model: accepts exactly the table entries *)
let spec_reader (t : table) (c : char list) : int C.routcome =
  let s = string_of_chars c in
  let found = ref (-1) in
  Array.iteri (fun i x -> if x = s then found := i) t.contents;
  if !found >= 0 then C.ROk !found
  else if starts_with s "TSG5" then C.RFailCleared else C.RFailKeep

(* grid-section reader of the model reader: table driven (the grid section is abstract in the model) *)
let grid_read (t : table) (c : C.byte list) : (int * C.byte list) option =
  let s = string_of_chars (List.map (fun b -> Char.chr (int_of_n b land 255)) c) in
  let found = ref None in
  Array.iteri (fun i x ->
      let g = t.gridlens.(i) in
      if g >= 0 && g <= String.length x && starts_with s (String.sub x 0 g) then found := Some (i, g)) t.contents;
  match !found with
  | None -> None
  | Some (i, g) -> Some (i, nbytes (String.sub s g (String.length s - g)))

let mread (t : table) (fc : string option) : string =
  match fc with
  | None -> "missing"
  | Some s ->
    (match C.ckpt_read (grid_read t) (nbytes s) with
     | None -> "rej"
     | Some (k, st) -> Printf.sprintf "ok:%d:%d:%d" k (List.length st.C.st_points / 8) (List.length st.C.st_values / 8))

let fs_of (cur : string option) (old : string option) : char C.fs =
  let f = C.fs_empty in
  let f = C.upd f C.Cur (Option.map chars cur) in
  C.upd f C.Old (Option.map chars old)

let get (f : char C.fs) (n : C.fname) : string option = Option.map string_of_chars (f n)

let parse_op (tok : string) : C.ostep =
  let nm c = if c = 'c' then C.Cur else if c = 'o' then C.Old else failwith ("bad file tag in " ^ tok) in
  match tok.[0] with
  | 'W' -> C.OOpenW (nm tok.[1])
  | 'C' -> C.OClose (nm tok.[1])
  | 'A' -> C.OWrite (nm tok.[1], nat_of_int (int_of_string (String.sub tok 3 (String.length tok - 3))))
  | _ -> failwith ("bad op " ^ tok)

let src_str = function C.FromCur -> "cur" | C.FromOld -> "old" | C.FromNothing -> "none"
let g_str = function C.GInitial -> "initial" | C.GCleared -> "cleared" | C.GLoaded k -> string_of_int k
let rec_str (g, s) = src_str s ^ ":" ^ g_str g

let do_table (name : string) (t : table) =
  Array.iteri (fun i s ->
      let g = t.gridlens.(i) in
      let rest = if g >= 0 && g <= String.length s then String.sub s g (String.length s - g) else "" in
      let st = C.storage_read (nbytes rest) in
      let desc = match st with
        | None -> "storage=rej"
        | Some (st, tail) ->
          let re = C.enc_storage st in
          Printf.sprintf "storage=ok np=%d nv=%d tail=%d reenc=%b" (List.length st.C.st_points / 8)
            (List.length st.C.st_values / 8) (List.length tail) (re = nbytes rest) in
      Printf.printf "tab %s %d len=%d gridlen=%d %s mread=%s\n" name i (String.length s) g desc (mread t (Some s)))
    t.contents

let variants = [ (true, true); (true, false); (false, true); (false, false) ]
let vname (b, s) = (if b then "1" else "0") ^ (if s then "1" else "0")

let do_case (id : string) (t : table) (start : string * string) (ops : string list) (after : string * string) =
  let s_cur = read_file (fst start) and s_old = read_file (snd start) in
  let a_cur = read_file (fst after) and a_old = read_file (snd after) in
  let f0 = fs_of s_cur s_old in
  let reader = spec_reader t in
  let (g0, src0) = C.recover_as_coded reader f0 in
  let recovered_main = (src0 = C.FromCur) in
  let obs = List.map parse_op ops in
  let tbl = Array.to_list (Array.map chars t.contents) in
  let rec drop k l = if k <= 0 then l else (match l with [] -> [] | _ :: r -> drop (k - 1) r) in
  let own = drop t.base tbl in
  let results = List.map (fun (b2o, skip) ->
      let first_initial = not (skip && recovered_main) in
      let cs = if first_initial then own else (match own with _ :: r -> r | [] -> []) in
      (* the first stream of the table is the initial checkpoint; when it is skipped the run starts with a checkpoint *)
      match C.follow b2o first_initial f0 cs obs C.O with
      | C.Deviates k -> ((b2o, skip), None, int_of_nat k)
      | C.Conforms (f, k) -> ((b2o, skip), Some f, int_of_nat k)) variants in
  let conforming = List.filter_map (fun (v, f, k) -> match f with Some f -> Some (v, f, k) | None -> None) results in
  let fsmatch f = (get f C.Cur = a_cur) && (get f C.Old = a_old) in
  let cl c = class_str (C.classify ceq tbl (Option.map chars c)) in
  let vs = String.concat "," (List.map (fun (v, f, k) -> Printf.sprintf "%s/%b/%d" (vname v) (fsmatch f) k) conforming) in
  let dev = String.concat "," (List.filter_map (fun (v, f, k) -> match f with None -> Some (Printf.sprintf "%s@%d" (vname v) k) | Some _ -> None) results) in
  let (pc, po) = match conforming with
    | (_, f, _) :: _ -> (cl (get f C.Cur), cl (get f C.Old))
    | [] -> ("-", "-") in
  let fa = fs_of a_cur a_old in
  Printf.printf "case %s start_recover=%s conform=[%s] deviate=[%s] pred_cur=%s pred_old=%s act_cur=%s act_old=%s mread_cur=%s mread_old=%s recover_coded=%s recover_repaired=%s\n"
    id (rec_str (g0, src0)) vs dev pc po (cl a_cur) (cl a_old) (mread t a_cur) (mread t a_old)
    (rec_str (C.recover_as_coded reader fa)) (rec_str (C.recover_repaired reader fa))

let () =
  let lines = read_lines Sys.argv.(1) in
  let tables : (string, table) Hashtbl.t = Hashtbl.create 7 in
  let cur_table = ref None and refs = ref [] and cur_base = ref 0 in
  let cid = ref "" and ctab = ref "" and cstart = ref ("-", "-") and cops = ref [] and cafter = ref ("-", "-") in
  List.iter (fun line ->
      match split_ws line with
      | [] -> ()
      | "table" :: name :: rest -> cur_table := Some name; refs := [];
        cur_base := (match rest with b :: _ -> int_of_string b | [] -> 0)
      | "ref" :: path :: gl :: _ -> refs := (path, int_of_string gl) :: !refs
      | "endtable" :: _ ->
        (match !cur_table with
         | None -> ()
         | Some name ->
           let l = Array.of_list (List.rev !refs) in
           let t = { names = Array.map fst l;
                     contents = Array.map (fun (p, _) -> match read_file p with Some s -> s | None -> "") l;
                     gridlens = Array.map snd l; base = !cur_base } in
           Hashtbl.replace tables name t;
           do_table name t;
           cur_table := None)
      | "case" :: id :: tab :: _ -> cid := id; ctab := tab; cops := []; cstart := ("-", "-"); cafter := ("-", "-")
      | "start" :: a :: b :: _ -> cstart := (a, b)
      | "ops" :: l -> cops := l
      | "after" :: a :: b :: _ -> cafter := (a, b)
      | "endcase" :: _ ->
        (match Hashtbl.find_opt tables !ctab with
         | None -> Printf.printf "case %s MISMATCH unknown table %s\n" !cid !ctab
         | Some t ->
           (try do_case !cid t !cstart !cops !cafter
            with e -> Printf.printf "case %s MISMATCH runner exception %s\n" !cid (Printexc.to_string e)))
      | _ -> ()) lines
