(* Runner for the extracted evaluation-tree model (C04, tree walk).
   usage: treewalk <walkdrv-output-file>
   For every `wdump` block of the driver log: rebuilds the forest from the dumped multi-indexes with the extracted
   build_forest / forest_arrays and compares (roots, pntr, indx) EXACTLY; for every probe point runs the extracted walk in
   exact rationals (from the binary64 coordinates) and compares the visited index sequence EXACTLY and the basis values
   within 1e-12; the dense row against the model's basisQ; evaluate(x) against sum of model values times the dumped
   surpluses.  Direct evaluation on the implementation's own output: public sparse row = private walk, sparse = dense entry by
   entry.  Probe points within 1e-9 (not exactly on) a support threshold of some point are skipped and counted.
   prints:  ok <case>#<k> ... | MISMATCH <case>#<k> <what> <detail> | EXHAUSTED <case>#<k> | summary line `totals ...` *)
open Common
open Treewalk

let rec nat_of_int n = if n <= 0 then O else S (nat_of_int (n - 1))
let rec int_of_nat = function O -> 0 | S n -> 1 + int_of_nat n
let int_of_nat n = let rec go acc = function O -> acc | S m -> go (acc + 1) m in go 0 n
let rec pos_of_int n = if n = 1 then XH else if n land 1 = 0 then XO (pos_of_int (n lsr 1)) else XI (pos_of_int (n lsr 1))
let z_of_int n = if n = 0 then Z0 else if n > 0 then Zpos (pos_of_int n) else Zneg (pos_of_int (-n))
let rec fe_of_pos = function
  | XH -> (0.5, 1)
  | XO p -> let (m, e) = fe_of_pos p in (m, e + 1)
  | XI p -> let (m, e) = fe_of_pos p in (m +. Float.ldexp 1.0 (- (e + 1)), e + 1)
let float_of_q (x : q) =
  match x.qnum with
  | Z0 -> 0.0
  | Zpos p | Zneg p ->
    let (mn, en) = fe_of_pos p and (md, ed) = fe_of_pos x.qden in
    let v = Float.ldexp (mn /. md) (en - ed) in
    (match x.qnum with Zneg _ -> -. v | _ -> v)
let rec pow2_pos k = if k = 0 then XH else XO (pow2_pos (k - 1))
let q_of_float (f : float) : q =
  if f = 0.0 then { qnum = Z0; qden = XH } else
    let (m, e) = Float.frexp f in
    let mi = ref (Int64.to_int (Int64.of_float (Float.ldexp m 53))) and e = ref (e - 53) in
    while !mi land 1 = 0 && !e < 0 do mi := !mi asr 1; incr e done;     (* lowest terms: small denominators for lattice points *)
    if !e >= 0 then { qnum = (let rec sh z k = if k = 0 then z else sh (match z with Z0 -> Z0 | Zpos p -> Zpos (XO p) | Zneg p -> Zneg (XO p)) (k - 1) in sh (z_of_int !mi) !e); qden = XH }
    else { qnum = z_of_int !mi; qden = pow2_pos (- !e) }

let rec chunks d l = if l = [] then [] else
    let rec take k l = if k = 0 then ([], l) else match l with [] -> ([], []) | x :: r -> let (a, b) = take (k - 1) r in (x :: a, b) in
    let (a, b) = take d l in a :: chunks d b

let rule_of = function 0 -> Pwc | 1 -> Localp | 2 -> Semilocalp | 3 -> Localp0 | _ -> Localpb
let ints toks = List.map int_of_string toks
let flts toks = List.map float_of_tok toks
let show l = String.concat " " (List.map string_of_int l)
let close a b = Float.abs (a -. b) <= 1e-12 *. Float.max 1.0 (Float.max (Float.abs a) (Float.abs b))

(* distance of a probe point from the nearest support threshold of any point (None = not near / exactly on for binary rules) *)
let borderline r pts (xq : q list) : bool =
  let one = { qnum = Zpos XH; qden = XH } in
  let near a b = (* |a - b| < 1e-9 *) let dlt = Float.abs (float_of_q (qminus a b)) in dlt < 1e-10 in
  List.exists (fun pt ->
      List.exists2 (fun p t ->
          match r with
          | Pwc ->
            let dist = qabs (qminus t (getNode r p)) and s = getSupport r p in
            near dist s || near dist (qplus s s)
          | _ ->
            let always = (match r, p with Localp, Z0 -> true | Semilocalp, (Z0 | Zpos XH | Zpos (XO XH)) -> true | _ -> false) in
            if always then false else
              let a = qabs (scaleX r p t) in
              let dlt = float_of_q (qminus a one) in dlt <> 0.0 && Float.abs dlt < 1e-10)
        pt xq) pts

type dump = { mutable meta : (string * string) list; mutable idx : int list; mutable roots : int list; mutable pntr : int list;
              mutable indx : int list; mutable surp : float list }

let () =
  let lines = read_lines Sys.argv.(1) in
  let case = ref "" and k = ref 0 in
  let cur : dump option ref = ref None in
  let model : (erule * z * int * int * z list list * tree list) option ref = ref None in   (* rule order d n pts forest *)
  let px = ref [] and psi = ref [] and psv = ref [] and ppi = ref [] and ppv = ref [] and pdn = ref [] in
  let tot_forest = ref 0 and tot_probe = ref 0 and tot_skip = ref 0 and tot_vis = ref 0 and tot_vals = ref 0 and tot_eval = ref 0
  and tot_mis = ref 0 and tot_holes = ref 0 and tot_multiroot = ref 0 and tot_unsupported_subtree = ref 0 and tot_boundary = ref 0 in
  let by_rule = Array.make 5 0 and by_dim = Array.make 8 0 and skip_rule = Array.make 5 0 in
  let tag () = Printf.sprintf "%s#%d" !case !k in
  let mism what detail = incr tot_mis; Printf.printf "MISMATCH %s %s %s\n" (tag ()) what detail in
  let finish_probe (ev : float list option) =
    (match !model, !cur with
     | Some (r, order, d, n, pts, forest), Some dmp when !px <> [] ->
       let x = !px in
       let xq = List.map q_of_float x in
       let xs = String.concat " " (List.map hex x) in
       (* direct evaluation on the implementation's own rows *)
       if !ppi <> !psi || not (same_list !ppv !psv) then mism "public-sparse" (Printf.sprintf "x=[%s] walk=[%s] public=[%s]" xs (show !psi) (show !ppi));
       let dn = Array.of_list !pdn in
       if Array.length dn = n then begin
         let sp = Array.make n 0.0 and cnt = Array.make n 0 in
         List.iter2 (fun i v -> if i >= 0 && i < n then (sp.(i) <- v; cnt.(i) <- cnt.(i) + 1)) !psi !psv;
         let bad = ref (-1) in
         Array.iteri (fun i v -> if !bad < 0 && (cnt.(i) > 1 || not (same v sp.(i) || (v = 0.0 && sp.(i) = 0.0))) then bad := i) dn;
         if !bad >= 0 then mism "sparse-dense" (Printf.sprintf "x=[%s] point %d dense=%h sparse=%h occurrences=%d" xs !bad dn.(!bad) sp.(!bad) cnt.(!bad))
       end;
       if borderline r pts xq then (incr tot_skip; let ri = (match r with Pwc -> 0 | Localp -> 1 | Semilocalp -> 2 | Localp0 -> 3 | Localpb -> 4) in skip_rule.(ri) <- skip_rule.(ri) + 1)
       else begin
         incr tot_probe;
         let w = walk r order pts forest xq in
         let vis = List.map (fun (i, _) -> int_of_nat i) w in
         if vis <> !psi then mism "visited" (Printf.sprintf "x=[%s] model=[%s] impl=[%s]" xs (show vis) (show !psi))
         else begin
           tot_vis := !tot_vis + List.length vis;
           let mv = List.map (fun (_, v) -> float_of_q v) w in
           (try List.iter2 (fun a b -> incr tot_vals; if not (close a b) then raise Exit) mv !psv
            with Exit -> mism "value" (Printf.sprintf "x=[%s] model=[%s] impl=[%s]" xs (hexl mv) (hexl !psv)));
           (* every unsupported point has dense value 0 and is absent; the model's own statement at this input *)
           let sup = List.map (fun pt -> supp_all r order pt xq) pts in
           let nsup = List.length (List.filter (fun b -> b) sup) in
           if nsup <> List.length vis then mism "model-visits-not-supported-set" (Printf.sprintf "x=[%s] supported=%d visited=%d" xs nsup (List.length vis));
           if nsup < n then incr tot_unsupported_subtree;
           if List.exists (fun v -> v = 0.0) mv then incr tot_boundary;
           (* dense row against the model *)
           if Array.length dn = n then begin
             let mvis = Array.make n 0.0 in
             List.iter2 (fun i v -> mvis.(i) <- v) vis mv;
             Array.iteri (fun i v -> if not (close v mvis.(i)) then mism "dense-value" (Printf.sprintf "x=[%s] point %d impl=%h model=%h" xs i v mvis.(i))) dn
           end;
           (* evaluate(x) = sum over the walk of value * surplus *)
           (match ev with
            | Some y when dmp.surp <> [] ->
              let outs = List.length y in
              let s = Array.of_list dmp.surp in
              List.iteri (fun o yo ->
                  let acc = ref 0.0 and cond = ref 1.0 in
                  List.iter2 (fun i v -> let t = v *. s.(i * outs + o) in acc := !acc +. t; cond := !cond +. Float.abs t) vis mv;
                  incr tot_eval;
                  if Float.abs (!acc -. yo) > 1e-12 *. !cond then mism "evaluate" (Printf.sprintf "x=[%s] output %d impl=%h model=%h" xs o yo !acc)) y
            | _ -> ())
         end
       end
     | _ -> ());
    px := []; psi := []; psv := []; ppi := []; ppv := []; pdn := [] in
  let start_model () =
    match !cur with
    | Some dmp ->
      let g key = try List.assoc key dmp.meta with Not_found -> "0" in
      let ri = int_of_string (g "erule") and d = int_of_string (g "dims") and n = int_of_string (g "n") in
      let r = rule_of ri and order = z_of_int (int_of_string (g "order")) in
      let pts = chunks d (List.map z_of_int dmp.idx) in
      if n > 0 && List.length pts = n then begin
        let (forest, ok) = build_forest r pts in
        if not ok then (incr tot_mis; Printf.printf "EXHAUSTED %s\n" (tag ()));
        let ((mr, mp), mi) = forest_arrays (nat_of_int n) forest in
        let mr = List.map int_of_nat mr and mp = List.map int_of_nat mp and mi = List.map int_of_nat mi in
        incr tot_forest; by_rule.(ri) <- by_rule.(ri) + 1; by_dim.(min d 7) <- by_dim.(min d 7) + 1;
        if List.length mr > 1 then incr tot_multiroot;
        if not (nodupb pts) || List.exists (fun v -> v < 0) dmp.idx then mism "hypothesis" "duplicate or negative multi-index";
        if mr <> dmp.roots || mp <> dmp.pntr || mi <> dmp.indx then
          mism "forest" (Printf.sprintf "idx=[%s] model roots=[%s] pntr=[%s] indx=[%s] impl roots=[%s] pntr=[%s] indx=[%s]" (show dmp.idx)
                           (show mr) (show mp) (show mi) (show dmp.roots) (show dmp.pntr) (show dmp.indx))
        else Printf.printf "ok %s forest n=%d roots=%d rule=%d d=%d\n" (tag ()) n (List.length mr) ri d;
        model := Some (r, order, d, n, pts, forest)
      end
    | None -> () in
  List.iter (fun l ->
      match split_ws l with
      | "case" :: id :: _ -> finish_probe None; if !model = None then start_model (); case := id; k := 0; cur := None; model := None
      | "c" :: "wdump" :: _ -> finish_probe None; if !model = None then start_model (); incr k; cur := Some { meta = []; idx = []; roots = []; pntr = []; indx = []; surp = [] }; model := None
      | "c" :: _ -> finish_probe None; if !model = None then start_model (); cur := None; model := None
      | "o" :: "wmeta" :: rest ->
        (match !cur with Some d -> d.meta <- List.filter_map (fun t -> match String.index_opt t '=' with
            | Some i -> Some (String.sub t 0 i, String.sub t (i + 1) (String.length t - i - 1)) | None -> None) rest | None -> ())
      | "o" :: "widx" :: _ :: v -> (match !cur with Some d -> d.idx <- ints v | None -> ())
      | "o" :: "wroots" :: _ :: v -> (match !cur with Some d -> d.roots <- ints v | None -> ())
      | "o" :: "wpntr" :: _ :: v -> (match !cur with Some d -> d.pntr <- ints v | None -> ())
      | "o" :: "windx" :: _ :: v -> (match !cur with Some d -> d.indx <- ints v | None -> ())
      | "o" :: "wsurp" :: _ :: v -> (match !cur with Some d -> d.surp <- flts v | None -> ())
      | "o" :: "wx" :: _ :: v ->
        finish_probe None;
        if !model = None then start_model ();
        px := flts v
      | "o" :: "wsi" :: _ :: v -> psi := ints v
      | "o" :: "wsv" :: _ :: v -> psv := flts v
      | "o" :: "wpi" :: _ :: v -> ppi := ints v
      | "o" :: "wpv" :: _ :: v -> ppv := flts v
      | "o" :: "wdn" :: _ :: v -> pdn := flts v;
        (match !cur with Some d when d.surp = [] -> finish_probe None | _ -> ())
      | "o" :: "wev" :: _ :: v -> finish_probe (Some (flts v))
      | _ -> ()) lines;
  finish_probe None; if !model = None then start_model ();
  Printf.printf "totals forests=%d probes=%d skipped_borderline=%d visited=%d values=%d evaluates=%d mismatches=%d multiroot=%d probes_with_unsupported=%d probes_with_zero_value_visit=%d skipped_pwc=%d skipped_binary=%d by_rule=%s by_dim=%s\n"
    !tot_forest !tot_probe !tot_skip !tot_vis !tot_vals !tot_eval !tot_mis !tot_multiroot !tot_unsupported_subtree !tot_boundary
    skip_rule.(0) (skip_rule.(1) + skip_rule.(2) + skip_rule.(3) + skip_rule.(4))
    (show (Array.to_list by_rule)) (show (Array.to_list by_dim));
  ignore !tot_holes
