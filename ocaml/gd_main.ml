(* Runner for the extracted GradientDescent model (C19).
   Reads the log written by harness/optdrv (one block per case), replays the case on the extracted
   model instantiated with OCaml's IEEE binary64 floats and with the callbacks given as the finite
   tables recorded in the log, and compares: callback sequence (exact), iteration count, residual,
   step size and final state (bitwise).  Prints one line per case. *)
open Common

let rec nat_of_int n = if n <= 0 then Gd.O else Gd.S (nat_of_int (n - 1))
let rec int_of_nat = function Gd.O -> 0 | Gd.S n -> 1 + int_of_nat n
let rec pos_of_int n = if n = 1 then Gd.XH else if n land 1 = 0 then Gd.XO (pos_of_int (n lsr 1)) else Gd.XI (pos_of_int (n lsr 1))
let z_of_int n = if n = 0 then Gd.Z0 else if n > 0 then Gd.Zpos (pos_of_int n) else Gd.Zneg (pos_of_int (-n))

type entry = { kind : char; arg : float list; res : float list }

let key k (a : float list) = (k, List.map bits a)

let process id (params : string list) (log : entry list) (result : string list option) =
  let tbl = Hashtbl.create 97 in
  List.iter (fun e -> Hashtbl.replace tbl (key e.kind e.arg) e.res) log;
  let misses = ref 0 in
  let lookup k a = match Hashtbl.find_opt tbl (key k a) with Some r -> r | None -> incr misses; List.map (fun _ -> nan) a in
  let f x = match lookup 'F' x with v :: _ -> v | [] -> nan in
  let g x = lookup 'G' x in
  let p x = lookup 'P' x in
  let gtb a b = a > b in
  match params with
  | "gd" :: _dims :: _obj :: rest ->
    let (projk, rest) = (match rest with
      | "none" :: r -> ("none", r) | "box" :: _ :: _ :: r -> ("box", r) | "ball" :: _ :: r -> ("ball", r)
      | _ -> failwith "bad proj") in
    (match rest with
     | maxit :: inc :: dec :: tol :: step0 :: "x:" :: tl ->
       let (xs, _) = split_at "coef:" tl in
       let x = List.map float_of_tok xs in
       let proj = if projk = "none" then (fun z -> z) else p in
       let (st, early) = Gd.run 0.0 1.0 2.0 1e-12 ( +. ) ( -. ) ( *. ) ( /. ) sqrt gtb f g proj
           (float_of_tok inc) (float_of_tok dec) (float_of_tok tol) (z_of_int (int_of_string maxit)) x (float_of_tok step0) in
       let mtrace = List.filter_map (fun c -> match c with
           | Gd.CallF a -> Some ('F', a) | Gd.CallG a -> Some ('G', a)
           | Gd.CallP a -> if projk = "none" then None else Some ('P', a)) st.Gd.trace in
       let ltrace = List.map (fun e -> (e.kind, e.arg)) log in
       let trace_ok = List.length mtrace = List.length ltrace &&
                      List.for_all2 (fun (k1, a1) (k2, a2) -> k1 = k2 && same_list a1 a2) mtrace ltrace in
       let acc = List.length st.Gd.accepted in
       (match result with
        | Some ("iters" :: it :: "resid" :: rs :: "step" :: sp :: "x" :: xr) ->
          let xr = List.map float_of_tok xr in
          let probs = List.concat [
              (if trace_ok then [] else [Printf.sprintf "callback-sequence model=%d impl=%d" (List.length mtrace) (List.length ltrace)]);
              (if int_of_string it = int_of_nat st.Gd.iters then [] else [Printf.sprintf "iterations model=%d impl=%s" (int_of_nat st.Gd.iters) it]);
              (if same (float_of_tok rs) st.Gd.resid then [] else [Printf.sprintf "residual model=%s impl=%s" (hex st.Gd.resid) rs]);
              (if same (float_of_tok sp) st.Gd.step then [] else [Printf.sprintf "stepsize model=%s impl=%s" (hex st.Gd.step) sp]);
              (if same_list xr st.Gd.cur then [] else [Printf.sprintf "state model=[%s] impl=[%s]" (hexl st.Gd.cur) (hexl xr)]);
              (if !misses = 0 then [] else [Printf.sprintf "table-misses=%d" !misses]) ] in
          if probs = [] then Printf.printf "ok %s iters=%d accepted=%d early=%b calls=%d\n" id (int_of_nat st.Gd.iters) acc early (List.length ltrace)
          else Printf.printf "MISMATCH %s %s\n" id (String.concat "; " probs)
        | _ -> Printf.printf "MISMATCH %s implementation-produced-no-result\n" id)
     | _ -> failwith "bad gd params")
  | "gdc" :: _dims :: _obj :: maxit :: tol :: step :: "x:" :: tl ->
    let (xs, _) = split_at "coef:" tl in
    let x = List.map float_of_tok xs in
    let st = Gd.run_const 0.0 1.0 ( +. ) ( -. ) ( *. ) sqrt gtb g (float_of_tok tol) (float_of_tok step) (z_of_int (int_of_string maxit)) x in
    let mtrace = x :: (match st.Gd.cgrads with [] -> [] | _ :: r -> r) in
    let ltrace = List.map (fun e -> e.arg) log in
    let trace_ok = List.length mtrace = List.length ltrace && List.for_all2 same_list mtrace ltrace in
    (match result with
     | Some ("iters" :: it :: "resid" :: rs :: "step" :: _ :: "x" :: xr) ->
       let xr = List.map float_of_tok xr in
       let probs = List.concat [
           (if trace_ok then [] else [Printf.sprintf "callback-sequence model=%d impl=%d" (List.length mtrace) (List.length ltrace)]);
           (if int_of_string it = int_of_nat st.Gd.citers then [] else [Printf.sprintf "iterations model=%d impl=%s" (int_of_nat st.Gd.citers) it]);
           (if same (float_of_tok rs) st.Gd.cres then [] else [Printf.sprintf "residual model=%s impl=%s" (hex st.Gd.cres) rs]);
           (if same_list xr st.Gd.cx then [] else [Printf.sprintf "state model=[%s] impl=[%s]" (hexl st.Gd.cx) (hexl xr)]);
           (if !misses = 0 then [] else [Printf.sprintf "table-misses=%d" !misses]) ] in
       if probs = [] then Printf.printf "ok %s iters=%d accepted=%d early=false calls=%d\n" id (int_of_nat st.Gd.citers) (int_of_nat st.Gd.citers) (List.length ltrace)
       else Printf.printf "MISMATCH %s %s\n" id (String.concat "; " probs)
     | _ -> Printf.printf "MISMATCH %s implementation-produced-no-result\n" id)
  | _ -> Printf.printf "skip %s\n" id

let () =
  let lines = read_lines Sys.argv.(1) in
  let id = ref "" and params = ref [] and log = ref [] and result = ref None in
  List.iter (fun l ->
      match split_ws l with
      | "case" :: i :: _ -> id := i; params := []; log := []; result := None
      | "params" :: r -> params := r
      | (("F" | "G" | "P") as k) :: r ->
        let (a, b) = split_at "=" r in
        log := { kind = k.[0]; arg = List.map float_of_tok a; res = List.map float_of_tok b } :: !log
      | "result" :: r -> result := Some r
      | "exception" :: _ -> result := None
      | "end" :: _ -> (try process !id !params (List.rev !log) !result
                       with e -> Printf.printf "MISMATCH %s runner-exception %s\n" !id (Printexc.to_string e))
      | _ -> ()) lines
