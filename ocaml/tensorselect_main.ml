(* Runner for the extracted tensor-selection model (C08 tables, Model/TensorSelect.v) with the exactness tables generated from the
   source (gen/ExactnessGen.v).
   usage: tensorselect <cases> <driver output>
   cases:   sel <id> global|sequence|fourier <rule> <type> <d> <depth> maxpts: n maxpoly: n w: i.. ll: i..
   driver:  r <id> [sel: i..] [gtens: i..] [act: i..] grid: 0|1 [pi: i..] [pq: i..] [npi: n] [npq: n]      |  x <id> <message>
   prints:  ok <id> sel=<0/1> grid=<0/1> pi=<0/1> pq=<0/1> n=<tensors>
            MISMATCH <id> tensor-selection <type> <which> model=[..] impl=[..]
            MISMATCH <id> polynomial-space <i|q> <which> model=[..] impl=[..]
            skip <id> <reason>          (the implementation raised an exception)
            noout <id>                  (no result line for the case: the driver stopped before it)
   finally: agree <n comparisons that agreed> *)
open Common
open Tensorselect

let rec nat_of_int n = if n <= 0 then O else S (nat_of_int (n - 1))
let rec pos_of_int n = if n = 1 then XH else if n land 1 = 0 then XO (pos_of_int (n lsr 1)) else XI (pos_of_int (n lsr 1))
let z_of_int n = if n = 0 then Z0 else if n > 0 then Zpos (pos_of_int n) else Zneg (pos_of_int (-n))
let rec int_of_pos = function XH -> 1 | XO p -> 2 * int_of_pos p | XI p -> 2 * int_of_pos p + 1
let int_of_z = function Z0 -> 0 | Zpos p -> int_of_pos p | Zneg p -> - (int_of_pos p)

let rec chunks d l = if l = [] then [] else
    let rec take k l = if k = 0 then ([], l) else match l with [] -> ([], []) | x :: r -> let (a, b) = take (k - 1) r in (x :: a, b) in
    let (a, b) = take d l in a :: chunks d b

let rec keyed (l : string list) : (string * string list) list =
  match l with
  | [] -> []
  | k :: r when String.length k > 0 && k.[String.length k - 1] = ':' ->
    let rec take l = match l with
      | t :: r' when not (String.length t > 0 && t.[String.length t - 1] = ':') -> let (a, b) = take r' in (t :: a, b)
      | _ -> ([], l) in
    let (v, rest) = take r in (k, v) :: keyed rest
  | _ :: r -> keyed r
let get k m = try List.assoc k m with Not_found -> []
let has k m = List.mem_assoc k m

(* names of IO::getStringRuleMap (tsgIOHelpers.hpp) -> constructors of the generated `onedrule` *)
let rule_of = function
  | "clenshaw-curtis" -> Rule_clenshawcurtis | "clenshaw-curtis-zero" -> Rule_clenshawcurtis0 | "fejer2" -> Rule_fejer2
  | "chebyshev" -> Rule_chebyshev | "chebyshev-odd" -> Rule_chebyshevodd | "leja" -> Rule_leja | "leja-odd" -> Rule_lejaodd
  | "rleja" -> Rule_rleja | "rleja-double2" -> Rule_rlejadouble2 | "rleja-double4" -> Rule_rlejadouble4 | "rleja-odd" -> Rule_rlejaodd
  | "rleja-shifted" -> Rule_rlejashifted | "rleja-shifted-even" -> Rule_rlejashiftedeven | "rleja-shifted-double" -> Rule_rlejashifteddouble
  | "max-lebesgue" -> Rule_maxlebesgue | "max-lebesgue-odd" -> Rule_maxlebesgueodd | "min-lebesgue" -> Rule_minlebesgue
  | "min-lebesgue-odd" -> Rule_minlebesgueodd | "min-delta" -> Rule_mindelta | "min-delta-odd" -> Rule_mindeltaodd
  | "gauss-legendre" -> Rule_gausslegendre | "gauss-legendre-odd" -> Rule_gausslegendreodd | "gauss-patterson" -> Rule_gausspatterson
  | "gauss-chebyshev1" -> Rule_gausschebyshev1 | "gauss-chebyshev1-odd" -> Rule_gausschebyshev1odd
  | "gauss-chebyshev2" -> Rule_gausschebyshev2 | "gauss-chebyshev2-odd" -> Rule_gausschebyshev2odd
  | "gauss-gegenbauer" -> Rule_gaussgegenbauer | "gauss-gegenbauer-odd" -> Rule_gaussgegenbauerodd
  | "gauss-jacobi" -> Rule_gaussjacobi | "gauss-jacobi-odd" -> Rule_gaussjacobiodd
  | "gauss-laguerre" -> Rule_gausslaguerre | "gauss-laguerre-odd" -> Rule_gausslaguerreodd
  | "gauss-hermite" -> Rule_gausshermite | "gauss-hermite-odd" -> Rule_gausshermiteodd
  | "fourier" -> Rule_fourier
  | s -> failwith ("unknown rule " ^ s)

let type_of = function
  | "level" -> Ty_level | "iptotal" -> Ty_iptotal | "qptotal" -> Ty_qptotal
  | "tensor" -> Ty_tensor | "iptensor" -> Ty_iptensor | "qptensor" -> Ty_qptensor
  | s -> failwith ("depth type outside the integer types: " ^ s)

let fam_of = function "global" -> Fam_global | "sequence" -> Fam_sequence | "fourier" -> Fam_fourier | s -> failwith ("unknown family " ^ s)

let show (s : int list list) = String.concat " " (List.map (fun p -> "(" ^ String.concat "," (List.map string_of_int p) ^ ")") s)
let clip s = if String.length s > 1500 then String.sub s 0 1500 ^ "..." else s

let () =
  let cases = read_lines Sys.argv.(1) and outs = read_lines Sys.argv.(2) in
  let res = Hashtbl.create 4096 in
  List.iter (fun l -> match split_ws l with
      | "r" :: id :: rest -> Hashtbl.replace res id (`R (keyed rest))
      | "x" :: id :: msg -> Hashtbl.replace res id (`X (String.concat " " msg))
      | _ -> ()) outs;
  let nok = ref 0 in
  List.iter (fun l ->
      match split_ws l with
      | "sel" :: id :: fam :: rule :: ty :: dd :: depth :: rest ->
        (try
           let m = keyed rest and d = int_of_string dd in
           let zs k mm = List.map (fun t -> z_of_int (int_of_string t)) (get k mm) in
           let r = rule_of rule and t = type_of ty and f = fam_of fam in
           (match Hashtbl.find_opt res id with
            | None -> Printf.printf "noout %s\n" id
            | Some (`X msg) -> Printf.printf "skip %s exception %s\n" id msg
            | Some (`R o) ->
              let model = grid_tensors f r t (zs "w:" m) (zs "ll:" m) (z_of_int (int_of_string depth)) (nat_of_int d) in
              let imodel = List.map (List.map int_of_z) model in
              let bad = ref false in
              let cmp_set what key =
                if has key o then begin
                  let impl = chunks d (List.map int_of_string (get key o)) in
                  if impl = imodel then incr nok
                  else (bad := true; Printf.printf "MISMATCH %s tensor-selection %s %s model=[%s] impl=[%s]\n" id ty what (clip (show imodel)) (clip (show impl)))
                end in
              cmp_set "selectTensors" "sel:";
              cmp_set "grid" "gtens:";
              (* the polynomial space is computed from the implementation's own tensor set (so that a selection mismatch is not
                 reported twice): all tensors, and the active tensors for Global grids *)
              let poly which key interp =
                if has key o && has "gtens:" o then begin
                  let impl = chunks d (List.map int_of_string (get key o)) in
                  let from k = List.map (List.map z_of_int) (chunks d (List.map int_of_string (get k o))) in
                  let space ts = List.map (List.map int_of_z)
                      (match f with Fam_sequence -> sequence_poly_space r interp ts | _ -> global_poly_space r interp ts) in
                  let m_all = space (from "gtens:") in
                  if impl = m_all then incr nok
                  else (bad := true; Printf.printf "MISMATCH %s polynomial-space %s all-tensors model=[%s] impl=[%s]\n" id which (clip (show m_all)) (clip (show impl)));
                  if has "act:" o then begin
                    let m_act = space (from "act:") in
                    if impl = m_act then incr nok
                    else (bad := true; Printf.printf "MISMATCH %s polynomial-space %s active-tensors model=[%s] impl=[%s]\n" id which (clip (show m_act)) (clip (show impl)))
                  end
                end in
              poly "i" "pi:" true;
              poly "q" "pq:" false;
              if not !bad then
                Printf.printf "ok %s sel=%d grid=%d pi=%d pq=%d n=%d\n" id (if has "sel:" o then 1 else 0) (if has "gtens:" o then 1 else 0)
                  (if has "pi:" o then 1 else 0) (if has "pq:" o then 1 else 0) (List.length imodel))
         with e -> Printf.printf "MISMATCH %s runner-exception %s\n" id (Printexc.to_string e))
      | _ -> ()) cases;
  Printf.printf "agree %d\n" !nok
