(* Runner for the extracted point-set model (C08 points, Model/NestedPoints.v) with the point counts generated from the source
   (gen/ExactnessGen.v, g_numPoints).
   usage: nestedpoints <cases> <driver output>       (formats: harness/nptsdrv.cpp)
   prints:  ok <id> kind=<np|grid> tensors=<n> points=<n> lower=<0/1> upd=<0/1> cmp=<comparisons>
            MISMATCH <id> <key> <detail>      keys: nested-points-differ active-tensors-differ active-not-dominating
                                                    points-not-full-blocks-of-active needed-not-new-minus-loaded loaded-points-differ
            skip <id> <reason>   (exception / too many points / non-nested rule)
            noout <id>           (no result line: the driver stopped before the case)
   finally: agree <n comparisons that agreed> *)
open Common
open Nestedpoints

let rec nat_of_int n = if n <= 0 then O else S (nat_of_int (n - 1))
let rec pos_of_int n = if n = 1 then XH else if n land 1 = 0 then XO (pos_of_int (n lsr 1)) else XI (pos_of_int (n lsr 1))
let z_of_int n = if n = 0 then Z0 else if n > 0 then Zpos (pos_of_int n) else Zneg (pos_of_int (-n))
let rec int_of_pos = function XH -> 1 | XO p -> 2 * int_of_pos p | XI p -> 2 * int_of_pos p + 1
let int_of_z = function Z0 -> 0 | Zpos p -> int_of_pos p | Zneg p -> - (int_of_pos p)

let rec chunks d l = if l = [] then [] else
    let rec take k l = if k = 0 then ([], l) else match l with [] -> ([], []) | x :: r -> let (a, b) = take (k - 1) r in (x :: a, b) in
    let (a, b) = take d l in a :: chunks d b

let rec keyed (l : string list) : (string * string list) list =
  match l with
  | [] -> []
  | k :: r when String.length k > 0 && k.[String.length k - 1] = ':' ->
    let rec take l = match l with
      | t :: r' when not (String.length t > 0 && t.[String.length t - 1] = ':') -> let (a, b) = take r' in (t :: a, b)
      | _ -> ([], l) in
    let (v, rest) = take r in (k, v) :: keyed rest
  | _ :: r -> keyed r
let get k m = try List.assoc k m with Not_found -> []
let has k m = List.mem_assoc k m

let rule_of = function
  | "clenshaw-curtis" -> Rule_clenshawcurtis | "clenshaw-curtis-zero" -> Rule_clenshawcurtis0 | "fejer2" -> Rule_fejer2
  | "chebyshev" -> Rule_chebyshev | "chebyshev-odd" -> Rule_chebyshevodd | "leja" -> Rule_leja | "leja-odd" -> Rule_lejaodd
  | "rleja" -> Rule_rleja | "rleja-double2" -> Rule_rlejadouble2 | "rleja-double4" -> Rule_rlejadouble4 | "rleja-odd" -> Rule_rlejaodd
  | "rleja-shifted" -> Rule_rlejashifted | "rleja-shifted-even" -> Rule_rlejashiftedeven | "rleja-shifted-double" -> Rule_rlejashifteddouble
  | "max-lebesgue" -> Rule_maxlebesgue | "max-lebesgue-odd" -> Rule_maxlebesgueodd | "min-lebesgue" -> Rule_minlebesgue
  | "min-lebesgue-odd" -> Rule_minlebesgueodd | "min-delta" -> Rule_mindelta | "min-delta-odd" -> Rule_mindeltaodd
  | "gauss-legendre" -> Rule_gausslegendre | "gauss-legendre-odd" -> Rule_gausslegendreodd | "gauss-patterson" -> Rule_gausspatterson
  | "gauss-chebyshev1" -> Rule_gausschebyshev1 | "gauss-chebyshev1-odd" -> Rule_gausschebyshev1odd
  | "gauss-chebyshev2" -> Rule_gausschebyshev2 | "gauss-chebyshev2-odd" -> Rule_gausschebyshev2odd
  | "gauss-gegenbauer" -> Rule_gaussgegenbauer | "gauss-gegenbauer-odd" -> Rule_gaussgegenbauerodd
  | "gauss-jacobi" -> Rule_gaussjacobi | "gauss-jacobi-odd" -> Rule_gaussjacobiodd
  | "gauss-laguerre" -> Rule_gausslaguerre | "gauss-laguerre-odd" -> Rule_gausslaguerreodd
  | "gauss-hermite" -> Rule_gausshermite | "gauss-hermite-odd" -> Rule_gausshermiteodd
  | "fourier" -> Rule_fourier
  | s -> failwith ("unknown rule " ^ s)

let show (s : int list list) = String.concat " " (List.map (fun p -> "(" ^ String.concat "," (List.map string_of_int p) ^ ")") s)
let clip s = if String.length s > 1200 then String.sub s 0 1200 ^ "..." else s
let to_z = List.map (List.map z_of_int)
let of_z = List.map (List.map int_of_z)

let is_lower (ts : int list list) =
  let tbl = Hashtbl.create 97 in
  List.iter (fun t -> Hashtbl.replace tbl t ()) ts;
  List.for_all (fun t ->
      let a = Array.of_list t in
      let ok = ref true in
      Array.iteri (fun j v -> if v > 0 then begin
          let b = Array.copy a in b.(j) <- v - 1; if not (Hashtbl.mem tbl (Array.to_list b)) then ok := false end) a;
      !ok) ts
let dominated (t : int list) (s : int list) = List.for_all2 (fun a b -> a <= b) t s

let () =
  let cases = read_lines Sys.argv.(1) and outs = read_lines Sys.argv.(2) in
  let res = Hashtbl.create 4096 in
  List.iter (fun l -> match split_ws l with
      | "r" :: id :: rest -> Hashtbl.replace res id (`R (keyed rest))
      | "x" :: id :: msg -> Hashtbl.replace res id (`X (String.concat " " msg))
      | _ -> ()) outs;
  let nok = ref 0 in
  let one id kind rule d body =
    match Hashtbl.find_opt res id with
    | None -> Printf.printf "noout %s\n" id
    | Some (`X msg) -> Printf.printf "skip %s %s\n" id msg
    | Some (`R o) ->
      let bad = ref false and ncmp = ref 0 in
      let same key model impl =
        incr ncmp;
        if model = impl then incr nok
        else (bad := true; Printf.printf "MISMATCH %s %s model=[%s] impl=[%s]\n" id key (clip (show model)) (clip (show impl))) in
      let check c key detail = incr ncmp; if c then incr nok else (bad := true; Printf.printf "MISMATCH %s %s %s\n" id key (clip detail)) in
      let (nt, npts, upd) = body o same check in
      if not !bad then
        Printf.printf "ok %s kind=%s tensors=%d points=%d lower=%d upd=%d cmp=%d\n" id kind nt npts
          (if is_lower (chunks d (List.map int_of_string (get "tens:" o))) then 1 else 0) upd !ncmp in
  List.iter (fun l ->
      try
        match split_ws l with
        | "np" :: id :: rule :: dd :: _ ->
          let d = int_of_string dd in
          let n = g_numPoints (rule_of rule) in
          one id "np" rule d (fun o same _ ->
              let set k = chunks d (List.map int_of_string (get k o)) in
              let tens = set "tens:" and pts = set "pts:" in
              let model = of_z (nested_points n (to_z tens)) in
              same "nested-points-differ generateNestedPoints" model pts;
              (List.length tens, List.length pts, 0))
        | "grid" :: id :: fam :: rule :: _ :: dd :: _ ->
          let d = int_of_string dd in
          let n = g_numPoints (rule_of (if fam = "fourier" then "fourier" else rule)) in
          one id "grid" rule d (fun o same check ->
              let set k = chunks d (List.map int_of_string (get k o)) in
              let ints k = List.map int_of_string (get k o) in
              let tens = set "tens:" in
              let pts_model = nested_points n (to_z tens) in
              (* after make: all points are needed, none loaded *)
              same "nested-points-differ needed-after-make" (of_z pts_model) (set "need0:");
              same "loaded-points-differ points-after-make-not-empty" [] (set "pts0:");
              let actives tk wk ak awk what =
                let ts = set tk and w = ints wk in
                check (List.length ts = List.length w) "active-tensors-differ" (what ^ ": number of weights differs from the number of tensors");
                let am = of_z (active_tensors (to_z ts) (List.map z_of_int w)) in
                same ("active-tensors-differ " ^ what) am (set ak);
                same ("active-tensors-differ " ^ what ^ "-weights") [List.map int_of_z (active_weights (List.map z_of_int w))] [ints awk];
                (* the hypothesis of the theorem "points = full blocks of the active tensors": every tensor is below an active one *)
                let act = set ak in
                let undominated = List.filter (fun t -> not (List.exists (dominated t) act)) ts in
                check (undominated = []) "active-not-dominating" (what ^ ": tensors below no active tensor: " ^ show undominated);
                act in
              let act = actives "tens:" "tw:" "act:" "actw:" "made" in
              if is_lower tens then
                same "points-not-full-blocks-of-active made" (of_z (full_points n (to_z act))) (set "need0:");
              (* after the first load *)
              same "loaded-points-differ points-after-load" (set "need0:") (set "pts1:");
              same "loaded-points-differ needed-after-load-not-empty" [] (set "need1x:");
              let upd = if has "upd:" o && get "upd:" o = ["1"] then 1 else 0 in
              if has "need1:" o then begin
                let pts1 = set "pts1:" in
                same "loaded-points-differ points-changed-by-refinement" pts1 (set "pts1b:");
                if upd = 1 then begin
                  let utens = set "utens:" in
                  let need_model = of_z (needed_points n (to_z utens) (to_z pts1)) in
                  same "needed-not-new-minus-loaded" need_model (set "need1:");
                  let uact = actives "utens:" "utw:" "uact:" "uactw:" "updated" in
                  ignore uact;
                  check (List.for_all (fun t -> List.mem t utens) tens) "needed-not-new-minus-loaded" "updated tensors do not contain the tensors";
                  if has "pts2:" o then begin
                    same "loaded-points-differ points-after-second-load" (of_z (accepted_points (to_z pts1) (to_z (set "need1:")))) (set "pts2:");
                    same "nested-points-differ points-after-second-load" (of_z (nested_points n (to_z (set "tens2:")))) (set "pts2:");
                    if set "need1:" <> [] then begin
                      same "loaded-points-differ tensors-after-second-load" utens (set "tens2:");
                      same "active-tensors-differ after-second-load" (set "uact:") (set "act2:")
                    end;
                    same "loaded-points-differ needed-after-second-load-not-empty" [] (set "need2:")
                  end
                end else begin
                  same "needed-not-new-minus-loaded no-update-but-needed" [] (set "need1:");
                  if has "pts2:" o then same "loaded-points-differ points-after-second-load" pts1 (set "pts2:")
                end
              end;
              (List.length tens, List.length pts_model, upd))
        | _ -> ()
      with e -> (match split_ws l with _ :: id :: _ -> Printf.printf "MISMATCH %s runner-exception %s\n" id (Printexc.to_string e) | _ -> ()))
    cases;
  Printf.printf "agree %d\n" !nok
