(* Runner for the extracted tasgrid model (C16).

   cli tables
        prints the sizes of the regenerated tables and the computed deviation lists
   cli pre -- <argv of one tasgrid invocation>
        "reject parse" | "reject sane" | "noread" | "read <gridfile>"
   cli plan <kind|-> <dims> <outs> <loaded:0|1> <constr:0|1> -- <argv>
        "reject parse|sane|post"  or the library call sequence of the invocation, one call per line, then "end"
   cli matcheck <file>
        runs the extracted readMatrix on the bytes of a binary matrix file and re-encodes it with writeMatrix:
        "ok <rows> <cols>" | "bad <why>"
   cli matwrite <rows> <cols> <infile-of-raw-doubles> <outfile>
        encodes a matrix with the extracted writeMatrix (the 8-byte blocks are taken verbatim from <infile>) *)
open Common

(* ---- conversions between OCaml values and the extracted Coq datatypes ---- *)
let ascii_of_char (c : char) : Cli.ascii =
  let n = Char.code c in
  let b i = (n lsr i) land 1 = 1 in
  Cli.Ascii (b 0, b 1, b 2, b 3, b 4, b 5, b 6, b 7)

let char_of_ascii (Cli.Ascii (b0, b1, b2, b3, b4, b5, b6, b7)) : char =
  let v b i = if b then 1 lsl i else 0 in
  Char.chr (v b0 0 + v b1 1 + v b2 2 + v b3 3 + v b4 4 + v b5 5 + v b6 6 + v b7 7)

let cstr (s : string) : Cli.string =
  let r = ref Cli.EmptyString in
  for i = String.length s - 1 downto 0 do r := Cli.String (ascii_of_char s.[i], !r) done;
  !r

let ostr (s : Cli.string) : string =
  let b = Buffer.create 16 in
  let rec go = function Cli.EmptyString -> () | Cli.String (c, r) -> Buffer.add_char b (char_of_ascii c); go r in
  go s; Buffer.contents b

let rec pos_of_int n = if n = 1 then Cli.XH else if n land 1 = 0 then Cli.XO (pos_of_int (n lsr 1)) else Cli.XI (pos_of_int (n lsr 1))
let z_of_int n = if n = 0 then Cli.Z0 else if n > 0 then Cli.Zpos (pos_of_int n) else Cli.Zneg (pos_of_int (-n))
let rec int_of_pos = function Cli.XH -> 1 | Cli.XO p -> 2 * int_of_pos p | Cli.XI p -> 2 * int_of_pos p + 1
let int_of_z = function Cli.Z0 -> 0 | Cli.Zpos p -> int_of_pos p | Cli.Zneg p -> - (int_of_pos p)

(* ---- printing a plan ---- *)
let tok (s : Cli.string) : string = let t = ostr s in if t = "" then "-" else t
let zs z = string_of_int (int_of_z z)
let bs b = if b then "1" else "0"
let ivec = function Cli.INone -> "none" | Cli.IRow (f, n) -> Printf.sprintf "row:%s:%s" (ostr f) (zs n)
let sink (s : Cli.sink) = Printf.sprintf "%s %s %s" (tok s.Cli.sk_file) (if s.Cli.sk_ascii then "a" else "b") (if s.Cli.sk_print then "p" else "n")

let call_line (c : Cli.api) : string =
  let j = String.concat " " in
  match c with
  | Cli.ReadGrid f -> j ["read_grid"; tok f]
  | Cli.MakeGlobal (d, o, dep, ty, ru, an, al, be, cu, li) ->
    j ["make_global"; zs d; zs o; zs dep; tok ty; tok ru; ivec an; tok al; tok be; tok cu; ivec li]
  | Cli.MakeSequence (d, o, dep, ty, ru, an, li) -> j ["make_sequence"; zs d; zs o; zs dep; tok ty; tok ru; ivec an; ivec li]
  | Cli.MakeFourier (d, o, dep, ty, an, li) -> j ["make_fourier"; zs d; zs o; zs dep; tok ty; ivec an; ivec li]
  | Cli.MakeLocalPoly (d, o, dep, ord, ru, li) -> j ["make_localp"; zs d; zs o; zs dep; zs ord; tok ru; ivec li]
  | Cli.MakeWavelet (d, o, dep, ord, li) -> j ["make_wavelet"; zs d; zs o; zs dep; zs ord; ivec li]
  | Cli.SetDomainTransform (f, n) -> j ["set_transform"; tok f; zs n]
  | Cli.SetConformalAsin (f, n) -> j ["set_conformal_asin"; tok f; zs n]
  | Cli.UpdateGrid (dep, ty, an) -> j ["update"; zs dep; tok ty; ivec an]
  | Cli.OutPoints s -> j ["out_points"; sink s]
  | Cli.OutNeeded s -> j ["out_needed"; sink s]
  | Cli.OutQuadrature s -> j ["out_quadrature"; sink s]
  | Cli.OutPointsIndexes s -> j ["out_points_idx"; sink s]
  | Cli.OutNeededIndexes s -> j ["out_needed_idx"; sink s]
  | Cli.EvaluateBatch (x, s) -> j ["evaluate"; tok x; sink s]
  | Cli.Differentiate (x, s) -> j ["differentiate"; tok x; sink s]
  | Cli.InterpolationWeights (x, s) -> j ["inter_weights"; tok x; sink s]
  | Cli.DifferentiationWeights (x, s) -> j ["diff_weights"; tok x; sink s]
  | Cli.HierarchicalDense (x, s) -> j ["hier_dense"; tok x; sink s]
  | Cli.HierarchicalSparse (x, s) -> j ["hier_sparse"; tok x; sink s]
  | Cli.Integrate s -> j ["integrate"; sink s]
  | Cli.HierarchicalSupport s -> j ["hsupport"; sink s]
  | Cli.AnisoCoefficients (ty, o, s) -> j ["aniso_coeff"; tok ty; zs o; sink s]
  | Cli.GetCoefficients (b, s) -> j ["get_coeff"; bs b; sink s]
  | Cli.LoadNeededValues v -> j ["load_values"; tok v]
  | Cli.BeginConstruction -> "begin_construction"
  | Cli.FinishConstruction -> "finish_construction"
  | Cli.LoadConstructedPoints (x, v) -> j ["load_constructed"; tok x; tok v]
  | Cli.SetCoefficients (v, b) -> j ["set_coeff"; tok v; bs b]
  | Cli.ClearRefinement -> "clear_refinement"
  | Cli.MergeRefinement -> "merge_refinement"
  | Cli.PrintUsingConstruction -> "print_using_construct"
  | Cli.PrintStats -> "print_stats"
  | Cli.GlobalPolynomialSpace (b, s) -> j ["poly_space"; bs b; sink s]
  | Cli.AnisoRefine (ty, mg, o, li) -> j ["refine_aniso"; tok ty; zs mg; zs o; ivec li]
  | Cli.SurplusRefine (tol, cr, o, li, sc, n) -> j ["refine_surplus"; tok tol; tok cr; zs o; ivec li; tok sc; zs n]
  | Cli.CandidatesAnisoWeights (ty, w, li, s) -> j ["cand_aniso_weights"; tok ty; ivec w; ivec li; sink s]
  | Cli.CandidatesAnisoOutput (ty, o, li, s) -> j ["cand_aniso_out"; tok ty; zs o; ivec li; sink s]
  | Cli.CandidatesSurplus (tol, cr, o, li, sc, n, s) -> j ["cand_surplus"; tok tol; tok cr; zs o; ivec li; tok sc; zs n; sink s]
  | Cli.ExoticQuadrature (dep, sh, w, de, sy, s) -> j ["exotic"; zs dep; tok sh; tok w; tok de; bs sy; sink s]
  | Cli.WriteGrid (f, a) -> j ["write_grid"; tok f; (if a then "a" else "b")]

let kind_of = function
  | "global" -> Cli.KGlobal | "sequence" -> Cli.KSequence | "localp" -> Cli.KLocalPoly
  | "wavelet" -> Cli.KWavelet | "fourier" -> Cli.KFourier
  | k -> failwith ("unknown grid kind " ^ k)

let command_name (c : Cli.command) : string =
  (* position in all_commands is enough for the evidence; names come from the switch table *)
  let rec find = function
    | [] -> "?"
    | (s, c') :: r -> if Cli.command_beq c c' then ostr s else find r in
  find Cli.switch_table

let read_bytes (fn : string) : string =
  let ic = open_in_bin fn in
  let n = in_channel_length ic in
  let s = really_input_string ic n in
  close_in ic; s

let () =
  let argv = Array.to_list Sys.argv in
  match List.tl argv with
  | ["tables"] ->
    Printf.printf "commands %d\n" (List.length Cli.all_commands);
    Printf.printf "switch_entries %d\n" (List.length Cli.switch_table);
    Printf.printf "switch_strings %d\n" (List.length (List.sort_uniq compare (List.map (fun (s, _) -> ostr s) Cli.switch_table)));
    Printf.printf "options %d\n" (List.length Cli.option_table);
    Printf.printf "const_commands %d\n" (List.length Cli.const_commands);
    Printf.printf "help_rows %d\n" (List.length Cli.help_table);
    Printf.printf "ambiguous_switches %s\n" (String.concat " " (List.map ostr Cli.ambiguous_switches));
    Printf.printf "help_deviations %s\n" (String.concat " " (List.map ostr Cli.help_deviations));
    Printf.printf "const_list_deviations %s\n" (String.concat " " (List.map command_name Cli.const_list_deviations));
    Printf.printf "float32_options %s\n" (String.concat " " (List.map ostr Cli.float32_options));
    Printf.printf "positive_outputs_required %b\n" Cli.positive_outputs_required;
    List.iter (fun (s, c) -> Printf.printf "switch %s %s\n" (ostr s) (command_name c)) Cli.switch_table
  | "pre" :: "--" :: args ->
    (match Cli.parse (List.map cstr args) with
     | None -> print_endline "reject parse"
     | Some r ->
       if not (Cli.sane r) then print_endline "reject sane"
       else if Cli.reads_grid r.Cli.r_cmd then Printf.printf "read %s\n" (tok (Cli.gridfile r))
       else print_endline "noread")
  | "plan" :: rest ->
    let (gi, args) = split_at "--" rest in
    (match Cli.parse (List.map cstr args) with
     | None -> print_endline "reject parse"
     | Some r ->
       if not (Cli.sane r) then print_endline "reject sane"
       else begin
         let g = (match gi with
             | [k; d; o; l; c] when k <> "-" ->
               { Cli.g_kind = kind_of k; Cli.g_dims = z_of_int (int_of_string d); Cli.g_outs = z_of_int (int_of_string o);
                 Cli.g_loaded = (l = "1"); Cli.g_constr = (c = "1") }
             | _ -> { Cli.g_kind = Cli.KGlobal; Cli.g_dims = Cli.Z0; Cli.g_outs = Cli.Z0; Cli.g_loaded = false; Cli.g_constr = false }) in
         let needs = Cli.reads_grid r.Cli.r_cmd in
         if needs && (match gi with k :: _ -> k = "-" | [] -> true) then print_endline "reject nogrid"
         else if needs && not (Cli.sane_post r g) then print_endline "reject post"
         else begin
           List.iter (fun c -> print_endline (call_line c)) (Cli.plan r g);
           print_endline "end"
         end
       end)
  | ["matcheck"; fn] ->
    let s = read_bytes fn in
    let bytes = List.init (String.length s) (fun i -> z_of_int (Char.code s.[i])) in
    (match Cli.readMatrix bytes with
     | None -> print_endline "bad readMatrix-rejects"
     | Some m ->
       let back = Cli.writeMatrix m in
       let same = List.length back = List.length bytes && List.for_all2 (fun a b -> int_of_z a = int_of_z b) back bytes in
       if same then Printf.printf "ok %d %d\n" (int_of_z m.Cli.m_rows) (int_of_z m.Cli.m_cols)
       else print_endline "bad writeMatrix(readMatrix(file))<>file")
  | ["matwrite"; rows; cols; inf; outf] ->
    let s = read_bytes inf in
    let n = String.length s / 8 in
    let blocks = List.init n (fun i -> List.init 8 (fun k -> z_of_int (Char.code s.[8 * i + k]))) in
    let m = { Cli.m_rows = z_of_int (int_of_string rows); Cli.m_cols = z_of_int (int_of_string cols); Cli.m_data = blocks } in
    let oc = open_out_bin outf in
    List.iter (fun b -> output_char oc (Char.chr (int_of_z b))) (Cli.writeMatrix m);
    close_out oc
  | _ -> prerr_endline "usage: cli tables | pre -- argv | plan <ginfo> -- argv | matcheck file | matwrite r c in out"; exit 2
