(* Runner for the extracted dynamic-construction model (C09) and the output-range split (C11).
   usage: construct <transcript-file>
   The transcript is written by props/C09.py / props/C11.py from the observations of harness/condrv on the real grids:

     con <id> <seq|localp|wavelet> <d> <rule|-> <order>      start of a case (rule: localp semilocalp localp0 localpb pwc)
     st pidx: i.. vals: b.. parked: i.. pvals: b.. init: i..   implementation state (value blocks are opaque tokens)
     del idx: i.. vals: b..                                    one loadConstructedPoints call (samples in call order)
     cand limits: l.. impl: i..                                sequence: implementation candidate set (as indexes)
     fin                                                       finishConstruction
     gcon <id> <d> npts: n0 n1 ..                            Global / Fourier case; npts = points of the 1-d rule up to level l
     gst tensors: i.. pidx: i.. vals: b.. parked: i.. pvals: b.. tinit: i.. treg: i..
     gdel idx: i.. vals: b..   |   gcand limits: l.. impl: i..
     pc <id> <rule> <d> pidx: i..                              parent_complete of a final Local Polynomial point set
     split <id> <stride> <b> <e> x: t.. y: t..                 C11: y must be split2D x
     rdata <id> <d> <outs> <b> <e> idx: i.. vals: t.. ridx: i.. rvals: t..   C11: restrict_data of parked samples

   Output: one line per case  "ok <id> steps=<n> [mode=..]"  or  "MISMATCH <id> <what>";  "pc <id> <0|1>". *)
open Common
open Construct

let rec nat_of_int n = if n <= 0 then O else S (nat_of_int (n - 1))
let rec pos_of_int n = if n = 1 then XH else if n land 1 = 0 then XO (pos_of_int (n lsr 1)) else XI (pos_of_int (n lsr 1))
let z_of_int n = if n = 0 then Z0 else if n > 0 then Zpos (pos_of_int n) else Zneg (pos_of_int (-n))
let rec int_of_pos = function XH -> 1 | XO p -> 2 * int_of_pos p | XI p -> 2 * int_of_pos p + 1
let int_of_z = function Z0 -> 0 | Zpos p -> int_of_pos p | Zneg p -> - (int_of_pos p)

let rec chunks d l = if l = [] then [] else
    let rec take k l = if k = 0 then ([], l) else match l with [] -> ([], []) | x :: r -> let (a, b) = take (k - 1) r in (x :: a, b) in
    let (a, b) = take d l in a :: chunks d b
let idxs d toks = chunks d (List.map (fun t -> z_of_int (int_of_string t)) toks)
let ints p = List.map int_of_z p

let rec keyed (l : string list) : (string * string list) list =
  match l with
  | [] -> []
  | k :: r when String.length k > 0 && k.[String.length k - 1] = ':' ->
    let rec take l = match l with
      | t :: r' when not (String.length t > 0 && t.[String.length t - 1] = ':') -> let (a, b) = take r' in (t :: a, b)
      | _ -> ([], l) in
    let (v, rest) = take r in (k, v) :: keyed rest
  | _ :: r -> keyed r
let get k m = try List.assoc k m with Not_found -> []

let rule_of = function "pwc" -> Pwc | "localp" -> Localp | "semilocalp" -> Semilocalp | "localp0" -> Localp0 | _ -> Localpb

let samples d itoks vtoks =
  let is = idxs d itoks in
  let rec zip a b = match a, b with x :: a', y :: b' -> (x, y) :: zip a' b' | x :: a', [] -> (x, "_") :: zip a' [] | [], _ -> [] in
  zip is vtoks
(* canonical form of a set of samples / indexes *)
let canon (l : (idx * string) list) = List.sort compare (List.map (fun (p, v) -> (ints p, v)) l)
let canon_idx (l : idx list) = List.sort_uniq compare (List.map ints l)
let show_set l = String.concat " " (List.map (fun (p, v) -> "(" ^ String.concat "," (List.map string_of_int p) ^ ")=" ^ v) l)
let show_idx l = String.concat " " (List.map (fun p -> "(" ^ String.concat "," (List.map string_of_int p) ^ ")") l)

let () =
  let file = Sys.argv.(1) in
  let lines = read_lines file in
  (* ---- state of the current point-wise case ---- *)
  let id = ref "" and d = ref 1 and steps = ref 0 and bad : string option ref = ref None in
  let adm1 = ref (fun (_ : idx list) (_ : idx) -> false) and admB = ref (fun (_ : idx list) (_ : idx) -> false) in
  let st : string cstate option ref = ref None and init : idx list ref = ref [] and pending = ref false in
  let kind = ref "" in
  (* ---- state of the current tensor case: model with and without the repair ---- *)
  let npts = ref (fun (_ : z) -> Z0) and maxlevel = ref O in
  (* four variants of the tensor model: (eject_on_missing, keep_sampled) = TT (both repairs), TF, FT, FF (the code as it stands) *)
  let variants = [| (true, true); (true, false); (false, true); (false, false) |] and vnames = [| "TT"; "TF"; "FT"; "FF" |] in
  let gs : string gstate option array = Array.make 4 None and gok = Array.make 4 true in
  let gpend = ref false and gcandimpl : idx list option ref = ref None in
  let flush () =
    if !id <> "" then begin
      (match !kind, !bad with
       | "con", None -> Printf.printf "ok %s steps=%d\n" !id !steps
       | "con", Some w -> Printf.printf "MISMATCH %s %s\n" !id w
       | "gcon", _ ->
         let agree = List.filter (fun k -> gok.(k)) [0; 1; 2; 3] in
         if agree <> [] then Printf.printf "ok %s steps=%d mode=%s\n" !id !steps (String.concat "," (List.map (fun k -> vnames.(k)) agree))
         else Printf.printf "MISMATCH %s %s\n" !id (match !bad with Some w -> w | None -> "tensor model")
       | _, _ -> ());
      id := ""
    end in
  let note w = if !bad = None then bad := Some w in
  List.iter (fun l ->
      match split_ws l with
      | "con" :: i :: fam :: dd :: rule :: order :: _ ->
        flush (); id := i; kind := "con"; d := int_of_string dd; steps := 0; bad := None; st := None; init := []; pending := false;
        (match fam with
         | "seq" -> adm1 := lower_adm; admB := lower_adm
         | "localp" -> let r = rule_of rule in
           adm1 := conn_adm1 (local_rel r) (local_root r); admB := conn_admB (local_rel r) (local_root r)
         | _ -> let o = z_of_int (int_of_string order) in
           let a = conn_admB (wave_rel o) (wave_root o) in adm1 := a; admB := a)
      | "st" :: rest when !kind = "con" && !id <> "" ->
        let m = keyed rest in
        let impl = { loaded = samples !d (get "pidx:" m) (get "vals:" m); parked = samples !d (get "parked:" m) (get "pvals:" m) } in
        let iinit = idxs !d (get "init:" m) in
        (match !st with
         | Some s when !pending ->
           incr steps;
           if canon s.loaded <> canon impl.loaded then
             note (Printf.sprintf "step %d loaded: model {%s} impl {%s}" !steps (show_set (canon s.loaded)) (show_set (canon impl.loaded)))
           else if canon s.parked <> canon impl.parked then
             note (Printf.sprintf "step %d parked: model {%s} impl {%s}" !steps (show_set (canon s.parked)) (show_set (canon impl.parked)))
           else if canon_idx !init <> canon_idx iinit then
             note (Printf.sprintf "step %d initial points: model {%s} impl {%s}" !steps (show_idx (canon_idx !init)) (show_idx (canon_idx iinit)))
         | _ -> ());
        st := Some impl; init := iinit; pending := false
      | "del" :: rest when !kind = "con" && !id <> "" ->
        let m = keyed rest in
        let batch = samples !d (get "idx:" m) (get "vals:" m) in
        (match !st with
         | Some s -> st := Some (api_deliver !adm1 !admB s batch); init := initial_after !init [batch]; pending := true
         | None -> ())
      | "fin" :: _ when !kind = "con" && !id <> "" ->
        (match !st with Some s -> st := Some (finish s); init := []; pending := true | None -> ())
      | "cand" :: rest when !kind = "con" && !id <> "" ->
        let m = keyed rest in
        let limits = List.map (fun t -> z_of_int (int_of_string t)) (get "limits:" m) in
        let impl = idxs !d (get "impl:" m) in
        (match !st with
         | Some s ->
           incr steps;
           let model = seq_candidates (sort_unique (keys s.loaded)) !init limits in
           if canon_idx model <> canon_idx impl then
             note (Printf.sprintf "candidates: model {%s} impl {%s}" (show_idx (canon_idx model)) (show_idx (canon_idx impl)))
         | None -> ())
      | "gcon" :: i :: dd :: rest ->
        flush (); id := i; kind := "gcon"; d := int_of_string dd; steps := 0; bad := None;
        Array.fill gs 0 4 None; Array.fill gok 0 4 true; gpend := false; gcandimpl := None;
        let tbl = Array.of_list (List.map int_of_string (get "npts:" (keyed rest))) in
        npts := (fun l -> let k = int_of_z l in if k < 0 then Z0 else if k < Array.length tbl then z_of_int tbl.(k) else z_of_int 1000000000);
        maxlevel := nat_of_int (Array.length tbl)
      | "gst" :: rest when !kind = "gcon" && !id <> "" ->
        let m = keyed rest in
        let impl = { gtensors = idxs !d (get "tensors:" m); gpoints = samples !d (get "pidx:" m) (get "vals:" m);
                     gdata = samples !d (get "parked:" m) (get "pvals:" m); ginit = idxs !d (get "tinit:" m); greg = idxs !d (get "treg:" m) } in
        let same (s : string gstate) =
          canon_idx s.gtensors = canon_idx impl.gtensors && canon s.gpoints = canon impl.gpoints && canon s.gdata = canon impl.gdata
          && canon_idx (s.ginit @ s.greg) = canon_idx (impl.ginit @ impl.greg)
          && (match !gcandimpl with None -> true | Some c -> canon_idx (g_candidate_points !npts s) = canon_idx c) in
        let descr (s : string gstate) =
          Printf.sprintf "tensors {%s} points {%s} parked {%s} registered {%s}" (show_idx (canon_idx s.gtensors)) (show_idx (canon_idx (List.map fst s.gpoints)))
            (show_idx (canon_idx (List.map fst s.gdata))) (show_idx (canon_idx (s.ginit @ s.greg))) in
        if !gpend then begin
          incr steps;
          Array.iteri (fun k st_k -> match st_k with
              | Some sk -> if not (same sk) then begin
                  if k = 0 && gok.(0) then note (Printf.sprintf "step %d repaired-model %s impl %s" !steps (descr sk) (descr impl));
                  gok.(k) <- false end
              | None -> ()) gs
        end;
        Array.fill gs 0 4 (Some impl); gpend := false; gcandimpl := None
      | "gdel" :: rest when !kind = "gcon" && !id <> "" ->
        let m = keyed rest in
        let batch = samples !d (get "idx:" m) (get "vals:" m) in
        Array.iteri (fun k st_k -> match st_k with
            | Some sk -> let (e, kp) = variants.(k) in gs.(k) <- Some (g_step !npts !maxlevel e kp sk (GDeliver batch))
            | None -> ()) gs;
        gpend := true
      | "gcand" :: rest when !kind = "gcon" && !id <> "" ->
        let m = keyed rest in
        let limits = List.map (fun t -> z_of_int (int_of_string t)) (get "limits:" m) in
        Array.iteri (fun k st_k -> match st_k with
            | Some sk -> let (e, kp) = variants.(k) in gs.(k) <- Some (g_step !npts !maxlevel e kp sk (GCand limits))
            | None -> ()) gs;
        gcandimpl := Some (idxs !d (get "impl:" m)); gpend := true
      | "pc" :: i :: rule :: dd :: rest ->
        flush ();
        let dd = int_of_string dd in
        let pts = idxs dd (get "pidx:" (keyed rest)) in
        Printf.printf "pc %s %d\n" i (if parent_complete (rule_of rule) pts then 1 else 0)
      | "split" :: i :: stride :: b :: e :: rest ->
        flush ();
        let m = keyed rest in
        let y = split2D (get "x:" m) (nat_of_int (int_of_string stride)) (nat_of_int (int_of_string b)) (nat_of_int (int_of_string e)) in
        if y = get "y:" m then Printf.printf "ok %s steps=1\n" i
        else Printf.printf "MISMATCH %s split2D model=[%s] impl=[%s]\n" i (String.concat " " y) (String.concat " " (get "y:" m))
      | "rdata" :: i :: dd :: outs :: b :: e :: rest ->
        flush ();
        let m = keyed rest and dd = int_of_string dd and outs = int_of_string outs in
        let blocks toks n = if n = 0 then [] else chunks n toks in
        let src = List.combine (idxs dd (get "idx:" m)) (let bl = blocks (get "vals:" m) outs in if bl = [] then List.map (fun _ -> []) (idxs dd (get "idx:" m)) else bl) in
        let r = restrict_data src (nat_of_int (int_of_string b)) (nat_of_int (int_of_string e)) in
        let ridx = List.concat_map (fun (p, _) -> List.map string_of_int (ints p)) r and rvals = List.concat_map snd r in
        if ridx = get "ridx:" m && rvals = get "rvals:" m then Printf.printf "ok %s steps=1\n" i
        else Printf.printf "MISMATCH %s restrict_data model idx=[%s] vals=[%s] impl idx=[%s] vals=[%s]\n" i (String.concat " " ridx) (String.concat " " rvals)
            (String.concat " " (get "ridx:" m)) (String.concat " " (get "rvals:" m))
      | _ -> ()) lines;
  flush ()
