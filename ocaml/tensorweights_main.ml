(* Runner for the extracted tensor-weights models (Model/TensorWeights.v: tw_cpp mirrors the control flow of computeTensorWeights /
   resortIndexes, tw_lines is the model of the theorems).
   usage: tensorweights <cases> <driver output>          (only the driver output is read: it carries the sets)
   driver:  r <id> <d> idx: i.. w: i..     |  g <id> aw: i..   |  x <id> <message>
   prints:  ok <id> n=<indexes> nz=<non-zero weights>
            MISMATCH <id> tensor-weights <cpp|lines> d=<d> set=[..] model=[..] impl=[..]
            skip <id> <reason>
   finally: agree <n comparisons that agreed> *)
open Common
open Tensorweights

let rec pos_of_int n = if n = 1 then XH else if n land 1 = 0 then XO (pos_of_int (n lsr 1)) else XI (pos_of_int (n lsr 1))
let z_of_int n = if n = 0 then Z0 else if n > 0 then Zpos (pos_of_int n) else Zneg (pos_of_int (-n))
let rec int_of_pos = function XH -> 1 | XO p -> 2 * int_of_pos p | XI p -> 2 * int_of_pos p + 1
let int_of_z = function Z0 -> 0 | Zpos p -> int_of_pos p | Zneg p -> - (int_of_pos p)

let rec chunks d l = if l = [] then [] else
    let rec take k l = if k = 0 then ([], l) else match l with [] -> ([], []) | x :: r -> let (a, b) = take (k - 1) r in (x :: a, b) in
    let (a, b) = take d l in a :: chunks d b

let show (s : int list list) = String.concat " " (List.map (fun p -> "(" ^ String.concat "," (List.map string_of_int p) ^ ")") s)
let showl (l : int list) = String.concat " " (List.map string_of_int l)
let clip s = if String.length s > 3000 then String.sub s 0 3000 ^ "..." else s

let () =
  let outs = read_lines Sys.argv.(2) in
  let nok = ref 0 in
  List.iter (fun l ->
      match split_ws l with
      | "x" :: id :: msg -> Printf.printf "skip %s exception %s\n" id (String.concat " " msg)
      | "r" :: id :: dd :: "idx:" :: rest ->
        (try
           let d = int_of_string dd in
           let (flat, ws) = split_at "w:" rest in
           let set = chunks d (List.map int_of_string flat) and impl = List.map int_of_string ws in
           let zset = List.map (List.map z_of_int) set in
           let bad = ref false in
           let one name f =
             let m = List.map int_of_z (f zset) in
             if m = impl then incr nok
             else (bad := true;
                   Printf.printf "MISMATCH %s tensor-weights %s d=%d set=[%s] model=[%s] impl=[%s]\n" id name d (clip (show set)) (clip (showl m)) (clip (showl impl))) in
           one "cpp" tw_cpp;
           one "lines" tw_lines;
           if not !bad then Printf.printf "ok %s n=%d nz=%d\n" id (List.length set) (List.length (List.filter (fun v -> v <> 0) impl))
         with e -> Printf.printf "MISMATCH %s runner-exception %s\n" id (Printexc.to_string e))
      | _ -> ()) outs;
  Printf.printf "agree %d\n" !nok
