(* Runner for the zarith-backed extraction of the local-grid model (see coq/Extract/ExtractCoreFast.v).
   usage: corefast <file>   with lines
     lg <id> <rule> <order> <d> <outs> pidx: i.. vals: v.. coef: c.. xs: x.. ys: y..
     sg <id> <rule> <d> <depth> pidx: i..      (the point set of makeLocalPolynomialGrid vs Model.StdGrid.std_grid; prints sg <id> n=<model points> same=<b>)
   (lg uses surpluses_up / evalAt_up / hier_cert_up of Model/LocalGridUp.v: the ancestor links of computeDAGup)
   prints: lg <id> cert=<b> complete=<b> n=<points> coeferr=.. evalerr=.. nodeerr=.. (errors relative to max(1,max|vals|)) *)
open Common
module ZA = Z
module QA = Q
open Corefast

let z_of_int = ZA.of_int
let float_of_q (x : q) = QA.to_float (QA.make x.qnum x.qden)
let q_of_float (f : float) : q = let r = QA.of_float f in { qnum = QA.num r; qden = QA.den r }

let rec chunks d l = if l = [] then [] else
    let rec take k l = if k = 0 then ([], l) else match l with [] -> ([], []) | x :: r -> let (a, b) = take (k - 1) r in (x :: a, b) in
    let (a, b) = take d l in a :: chunks d b
let idxs d toks = chunks d (List.map (fun t -> z_of_int (int_of_string t)) toks)
let rec keyed (l : string list) : (string * string list) list =
  match l with
  | [] -> []
  | k :: r when String.length k > 0 && k.[String.length k - 1] = ':' ->
    let rec take l = match l with
      | t :: r' when not (String.length t > 0 && t.[String.length t - 1] = ':') -> let (a, b) = take r' in (t :: a, b)
      | _ -> ([], l) in
    let (v, rest) = take r in (k, v) :: keyed rest
  | _ :: r -> keyed r
let get k m = try List.assoc k m with Not_found -> []
let rule_of = function "pwc" -> Pwc | "localp" -> Localp | "semilocalp" -> Semilocalp | "localp0" -> Localp0 | _ -> Localpb

let () =
  let lines = read_lines Sys.argv.(1) in
  List.iter (fun l ->
      match split_ws l with
      | "lg" :: id :: rule :: order :: dd :: outs :: rest ->
        (try
           let m = keyed rest and d = int_of_string dd and outs = int_of_string outs in
           let r = rule_of rule and order = z_of_int (int_of_string order) in
           let pts = idxs d (get "pidx:" m) in
           let n = List.length pts in
           let vals = Array.of_list (List.map float_of_tok (get "vals:" m)) in
           let coef = Array.of_list (List.map float_of_tok (get "coef:" m)) in
           let xs = List.map float_of_tok (get "xs:" m) and ys = Array.of_list (List.map float_of_tok (get "ys:" m)) in
           let scale = Array.fold_left (fun a v -> Float.max a (Float.abs v)) 1.0 vals in
           let cert = hier_cert_up r order pts and complete = parent_complete r pts in
           let coeferr = ref 0.0 and evalerr = ref 0.0 and nodeerr = ref 0.0 in
           let xpts = chunks d xs in
           for k = 0 to outs - 1 do
             let assoc = List.mapi (fun i p -> (p, q2Qc (q_of_float vals.(i * outs + k)))) pts in
             let s = surpluses_up r order pts assoc in
             List.iteri (fun i p ->
                 let sv = float_of_q (this (List.assoc p s)) in
                 if Array.length coef = n * outs then coeferr := Float.max !coeferr (Float.abs (sv -. coef.(i * outs + k)) /. scale)) pts;
             List.iteri (fun xi x ->
                 let e = float_of_q (this (evalAt_up r order pts assoc (List.map q_of_float x))) in
                 if Array.length ys > xi * outs + k then evalerr := Float.max !evalerr (Float.abs (e -. ys.(xi * outs + k)) /. scale)) xpts;
             if cert && k = 0 then List.iteri (fun i p ->
                 let e = evalAt_up r order pts assoc (List.map (fun z -> getNode r z) p) in
                 let dv = float_of_q (this e) -. vals.(i * outs + k) in
                 nodeerr := Float.max !nodeerr (Float.abs dv /. scale)) pts
           done;
           Printf.printf "lg %s cert=%b complete=%b n=%d coeferr=%h evalerr=%h nodeerr=%h\n%!" id cert complete n !coeferr !evalerr !nodeerr
         with e -> Printf.printf "MISMATCH %s runner-exception %s\n%!" id (Printexc.to_string e))
      | "sg" :: id :: rule :: dd :: depth :: rest ->
        (try
           let m = keyed rest and d = int_of_string dd in
           let rec nat_of_int n = if n <= 0 then O else S (nat_of_int (n - 1)) in
           let model = std_grid (rule_of rule) (nat_of_int d) (z_of_int (int_of_string depth)) in
           let impl = idxs d (get "pidx:" m) in
           let key l = List.sort compare (List.map (fun p -> List.map ZA.to_int p) l) in
           Printf.printf "sg %s n=%d same=%b\n%!" id (List.length model) (key model = key impl)
         with e -> Printf.printf "MISMATCH %s runner-exception %s\n%!" id (Printexc.to_string e))
      | "sq" :: id :: dd :: outs :: rest ->
        (* sequence grid: sq <id> <d> <outs> nodes: x0 x1 .. pidx: i.. vals: v.. coef: c..   (exact Newton surpluses vs the implementation) *)
        (try
           let m = keyed rest and d = int_of_string dd and outs = int_of_string outs in
           let nodes = Array.of_list (List.map (fun t -> q2Qc (q_of_float (float_of_tok t))) (get "nodes:" m)) in
           let rec nat_of_int n = if n <= 0 then O else S (nat_of_int (n - 1)) in
           let rec int_of_nat = function O -> 0 | S n -> 1 + int_of_nat n in
           let xs n = let i = int_of_nat n in if i < Array.length nodes then nodes.(i) else q2Qc (q_of_float (1000.0 +. float_of_int i)) in
           let pts = chunks d (List.map (fun t -> nat_of_int (int_of_string t)) (get "pidx:" m)) in
           let n = List.length pts in
           let vals = Array.of_list (List.map float_of_tok (get "vals:" m)) in
           let coef = Array.of_list (List.map float_of_tok (get "coef:" m)) in
           let scale = Array.fold_left (fun a v -> Float.max a (Float.abs v)) 1.0 vals in
           let coeferr = ref 0.0 and nodeerr = ref 0.0 in
           for k = 0 to outs - 1 do
             let tbl = List.mapi (fun i p -> (p, q2Qc (q_of_float vals.(i * outs + k)))) pts in
             let v p = try List.assoc p tbl with Not_found -> q2Qc (q_of_float 0.0) in
             let s = seq_surpluses xs v pts in
             List.iteri (fun i p ->
                 let sv = float_of_q (this (List.assoc p s)) in
                 if Array.length coef = n * outs then coeferr := Float.max !coeferr (Float.abs (sv -. coef.(i * outs + k)) /. scale)) pts;
             if k = 0 && n <= 40 then List.iteri (fun i p ->
                 let e = seq_interp xs v pts (List.map xs p) in
                 nodeerr := Float.max !nodeerr (Float.abs (float_of_q (this e) -. vals.(i * outs + k)) /. scale)) pts
           done;
           Printf.printf "sq %s n=%d coeferr=%h nodeerr=%h\n%!" id n !coeferr !nodeerr
         with e -> Printf.printf "MISMATCH %s runner-exception %s\n%!" id (Printexc.to_string e))
      | _ -> ()) lines
