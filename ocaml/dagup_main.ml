(* Runner for the extracted links of computeDAGup (coq/Extract/ExtractDagUp.v): Model/LocalGridUp.v up_dir / parents_up,
   Model/LocalGrid.v parents / parent_complete, Model/DagUp.v is_complete_up / levels_up.
   usage: dagup <cases> <driver output>        (formats: harness/dagdrv.cpp; only the `dag` cases / `r` lines are read here)
   prints:  ok <id> n=<points> d=<d> complete=<0/1> links=<entries that are not -1> holes=<0/1: parents_up differs from the direct parents>
            MISMATCH <id> <key> <detail>    keys: dagup-differs        an entry of the parent table is not the model's link (per point, per direction:
                                                                       the entries that are not -1, in order, against up_dir; the whole strip against
                                                                       parents_up), or the three overloads of computeDAGup / computeLevels disagree
                                                  is-complete-differs  is_complete is not Model.DagUp.is_complete_up (the flag as the code computes it)
                                                  is-complete-vs-parent-complete   is_complete is not Model.LocalGrid.parent_complete (every existing
                                                                       parent and step-parent of every point is present)
                                                  levels-differ        computeLevels is not the sum of the one-dimensional levels
                                                  model-up-vs-direct   (model only) on a parent-complete set parents_up differs from parents
            skip <id> <reason>    (the driver reported an exception)
            noout <id>            (no result line)
   finally: agree <n comparisons that agreed> *)
open Common
open Dagup

let rec nat_of_int n = if n <= 0 then O else S (nat_of_int (n - 1))
let rec pos_of_int n = if n = 1 then XH else if n land 1 = 0 then XO (pos_of_int (n lsr 1)) else XI (pos_of_int (n lsr 1))
let z_of_int n = if n = 0 then Z0 else if n > 0 then Zpos (pos_of_int n) else Zneg (pos_of_int (-n))
let rec int_of_pos = function XH -> 1 | XO p -> 2 * int_of_pos p | XI p -> 2 * int_of_pos p + 1
let int_of_z = function Z0 -> 0 | Zpos p -> int_of_pos p | Zneg p -> - (int_of_pos p)

let rec take k l = if k = 0 then ([], l) else match l with [] -> ([], []) | x :: r -> let (a, b) = take (k - 1) r in (x :: a, b)
let rec chunks d l = if l = [] then [] else let (a, b) = take d l in a :: chunks d b

let rec keyed (l : string list) : (string * string list) list =
  match l with
  | [] -> []
  | k :: r when String.length k > 0 && k.[String.length k - 1] = ':' ->
    let rec tk l = match l with
      | t :: r' when not (String.length t > 0 && t.[String.length t - 1] = ':') -> let (a, b) = tk r' in (t :: a, b)
      | _ -> ([], l) in
    let (v, rest) = tk r in (k, v) :: keyed rest
  | _ :: r -> keyed r
let get k m = try List.assoc k m with Not_found -> []
let kv toks k = (* the value of k=<v> among the tokens *)
  let pre = k ^ "=" in let n = String.length pre in
  let rec go = function [] -> "" | t :: r -> if String.length t >= n && String.sub t 0 n = pre then String.sub t n (String.length t - n) else go r in go toks

let rule_of = function
  | "pwc" -> Pwc | "localp" -> Localp | "semilocalp" -> Semilocalp | "localp0" -> Localp0 | "localpb" -> Localpb
  | s -> failwith ("unknown effective rule " ^ s)

let show_p (p : int list) = "(" ^ String.concat "," (List.map string_of_int p) ^ ")"
let show (s : int list list) = String.concat " " (List.map show_p s)
let clip s = if String.length s > 900 then String.sub s 0 900 ^ "..." else s
let of_z = List.map (List.map int_of_z)

let () =
  let cases = read_lines Sys.argv.(1) and outs = read_lines Sys.argv.(2) in
  let res = Hashtbl.create 997 in
  List.iter (fun l -> match split_ws l with
      | ("r" | "x") :: id :: _ -> Hashtbl.replace res id l
      | _ -> ()) outs;
  let agree = ref 0 in
  List.iter (fun c ->
      match split_ws c with
      | "dag" :: id :: rule :: dd :: _ ->
        (match (try Some (Hashtbl.find res id) with Not_found -> None) with
         | None -> Printf.printf "noout %s\n%!" id
         | Some l when String.length l > 1 && l.[0] = 'x' -> Printf.printf "skip %s %s\n%!" id (clip l)
         | Some l ->
           (try
              let t = split_ws l in
              let d = int_of_string dd and r = rule_of rule in
              let m = keyed t in
              let n = int_of_string (kv t "n") and slots = int_of_string (kv t "slots") in
              let complete = kv t "complete" = "1" in
              let ipts = chunks d (List.map int_of_string (get "pts:" m)) in
              let links = Array.of_list (chunks d (List.map int_of_string (get "links:" m))) in
              let lev = List.map int_of_string (get "lev:" m) in
              if List.length ipts <> n || Array.length links <> n * d * slots || List.length lev <> n then failwith "malformed result line";
              let pts = List.map (List.map z_of_int) ipts in
              let bad = ref [] in
              let fail key detail = if not (List.mem_assoc key !bad) then bad := (key, detail) :: !bad in
              if int_of_z (if multi_parent r then z_of_int 2 else z_of_int 1) <> slots then fail "dagup-differs" "number of parent slots per direction";
              if kv t "same2" <> "1" then fail "dagup-differs" "computeDAGup(mset) and computeDAGup(mset, is_complete) return different tables";
              if kv t "sameR" <> "1" then fail "dagup-differs" "the run-time erule overloads of computeDAGup / computeLevels differ from the templates";
              let nlinks = ref 0 and holes = ref false in
              let pc = parent_complete r pts in
              List.iteri (fun i p ->
                  let strip = ref [] in
                  for j = 0 to d - 1 do
                    let impl = List.filter (fun q -> not (List.for_all (fun v -> v = -1) q))
                        (List.init slots (fun k -> links.((i * d + j) * slots + k))) in
                    let model = of_z (up_dir r pts p (nat_of_int j)) in
                    strip := !strip @ impl;
                    nlinks := !nlinks + List.length impl;
                    if impl = model then incr agree
                    else fail "dagup-differs" (Printf.sprintf "point %s direction %d: implementation links %s model %s" (show_p (List.nth ipts i)) j (show impl) (show model))
                  done;
                  let up = of_z (parents_up r pts p) and direct = of_z (parents r pts p) in
                  if !strip = up then incr agree
                  else fail "dagup-differs" (Printf.sprintf "point %s: implementation strip %s parents_up %s" (show_p (List.nth ipts i)) (show !strip) (show up));
                  if up <> direct then begin
                    holes := true;
                    if pc then fail "model-up-vs-direct" (Printf.sprintf "point %s: parents_up %s parents %s on a parent-complete set" (show_p (List.nth ipts i)) (show up) (show direct))
                  end) pts;
              let mc = is_complete_up r pts in
              if mc = complete then incr agree
              else fail "is-complete-differs" (Printf.sprintf "implementation is_complete=%b model is_complete_up=%b (parent_complete=%b)" complete mc pc);
              if pc = complete then incr agree
              else fail "is-complete-vs-parent-complete" (Printf.sprintf "implementation is_complete=%b parent_complete=%b (is_complete_up=%b)" complete pc mc);
              let ml = List.map int_of_z (levels_up r pts) in
              if ml = lev then incr agree
              else fail "levels-differ" (Printf.sprintf "implementation %s model %s" (String.concat " " (List.map string_of_int lev)) (String.concat " " (List.map string_of_int ml)));
              if !bad = [] then Printf.printf "ok %s n=%d d=%d complete=%d links=%d holes=%d\n%!" id n d (if complete then 1 else 0) !nlinks (if !holes then 1 else 0)
              else List.iter (fun (k, dt) -> Printf.printf "MISMATCH %s %s %s\n%!" id k (clip dt)) (List.rev !bad)
            with e -> Printf.printf "MISMATCH %s runner-exception %s\n%!" id (Printexc.to_string e)))
      | _ -> ()) cases;
  Printf.printf "agree %d\n%!" !agree
