(* The local-polynomial instance: a grid that passes the decidable certificate [hier_cert] satisfies the hypotheses
   of the generic theorems, hence reproduces its nodal values, has unique coefficients and obeys the dual identity. *)
From TV Require Import Common.Prelude Model.IndexSets Model.RuleLocal Model.Selection Model.Hier Model.LocalGrid.
From TV Require Import Proofs.IndexSetsProofs Proofs.HierProofs.
From Coq Require Import QArith Qcanon.
Local Open Scope Z_scope.

Lemma idx_eqb_spec a b : reflect (a = b) (idx_eqb a b).
Proof.
  unfold idx_eqb. destruct (cmp a b) eqn:E; try (constructor; intros ->; rewrite cmp_refl in E; discriminate).
  destruct (Nat.eqb_spec (length a) (length b)) as [Hl|Hl]; constructor.
  - apply cmp_same_eq; assumption.
  - intros ->. apply Hl. reflexivity.
Qed.

Lemma memb_In x l : memb x l = true <-> In x l.
Proof.
  induction l as [|y l IH]; cbn; [split; [discriminate|tauto]|].
  rewrite orb_true_iff, IH. destruct (idx_eqb_spec x y) as [->|Hn]; split; auto.
  - intros [H|H]; [discriminate|auto].
  - intros [H|H]; [congruence|auto].
Qed.

Lemma nodupb_NoDup l : nodupb l = true -> NoDup l.
Proof.
  induction l as [|x l IH]; cbn; intros H; [constructor|].
  apply andb_true_iff in H. destruct H as [H1 H2]. constructor; [|apply IH; exact H2].
  intro Hin. apply memb_In in Hin. rewrite Hin in H1. discriminate.
Qed.

Lemma topob_spec reachf : forall rest p0, topob reachf p0 rest = true ->
  forall pre i post, rest = pre ++ i :: post -> forall j, In j (reachf i) -> In j (p0 ++ pre).
Proof.
  induction rest as [|a rest IH]; intros p0 H pre i post E j Hj; [destruct pre; discriminate|].
  cbn [topob] in H. apply andb_true_iff in H. destruct H as [H1 H2].
  destruct pre as [|b pre]; cbn in E; injection E as E1 E2.
  - subst a. rewrite app_nil_r. rewrite forallb_forall in H1. apply memb_In. apply H1. exact Hj.
  - subst b. specialize (IH (p0 ++ [a]) H2 pre i post E2 j Hj). rewrite <- app_assoc in IH. exact IH.
Qed.

Section Instance.
  Variable r : erule.
  Variable order : Z.
  Variable pts : list idx.
  Variable vals : list (idx * Qc).
  Hypothesis Hcert : hier_cert r order pts = true.

  Notation nodes := (by_level r pts).
  Notation B := (Bc r order).
  Notation rch := (reach r pts).

  Lemma cert_parts :
    NoDup nodes /\
    (forall i, In i nodes -> B i i = 1%Qc) /\
    (forall i, In i nodes -> NoDup (rch i)) /\
    (forall i j, In i nodes -> In j (rch i) -> In j nodes /\ j <> i) /\
    (forall i j, In i nodes -> In j nodes -> j <> i -> ~ In j (rch i) -> B i j = 0%Qc) /\
    (forall pre i post, nodes = pre ++ i :: post -> forall j, In j (rch i) -> In j pre).
  Proof.
    pose proof Hcert as Hc. unfold hier_cert in Hc.
    apply andb_true_iff in Hc; destruct Hc as [Hc Htop].
    apply andb_true_iff in Hc; destruct Hc as [Hc Hg2].
    apply andb_true_iff in Hc; destruct Hc as [Hc Hrin].
    apply andb_true_iff in Hc; destruct Hc as [Hc Hrnd].
    apply andb_true_iff in Hc; destruct Hc as [Hc Hg1].
    apply andb_true_iff in Hc; destruct Hc as [Hlen Hnd].
    rewrite forallb_forall in Hg1, Hrnd, Hrin, Hg2.
    split; [apply nodupb_NoDup; exact Hnd|].
    split; [intros i Hi; apply Qc_eq_bool_correct; apply Hg1; exact Hi|].
    split; [intros i Hi; apply nodupb_NoDup; apply Hrnd; exact Hi|].
    split.
    { intros i j Hi Hj. specialize (Hrin i Hi). rewrite forallb_forall in Hrin. specialize (Hrin j Hj).
      apply andb_true_iff in Hrin. destruct Hrin as [Ha Hb]. split; [apply memb_In; exact Ha|].
      destruct (idx_eqb_spec j i); [discriminate|assumption]. }
    split.
    { intros i j Hi Hj Hne Hnr. specialize (Hg2 i Hi). cbv zeta in Hg2. rewrite forallb_forall in Hg2. specialize (Hg2 j Hj).
      apply orb_true_iff in Hg2. destruct Hg2 as [Hg2|Hg2]; [|apply Qc_eq_bool_correct; exact Hg2].
      apply orb_true_iff in Hg2. destruct Hg2 as [Hg2|Hg2].
      - destruct (idx_eqb_spec j i); [contradiction|discriminate].
      - apply memb_In in Hg2. contradiction. }
    intros pre i post E j Hj. exact (topob_spec _ _ _ Htop pre i post E j Hj).
  Qed.

  Notation v := (assoc vals).

  (* C01 (Local Polynomial, certified instance): the interpolant equals the supplied value at every node *)
  Theorem localgrid_reproduces : forall i, In i nodes -> evalAt r order pts vals (node_of r i) = v i.
  Proof.
    destruct cert_parts as [Hnd [G1 [Hrn [Hri [G2 Htopo]]]]]. intros i Hi. unfold evalAt.
    change (fun j : idx => Q2Qc (basisQ r order j (node_of r i))) with (fun j : idx => B i j).
    apply (interp_at_node Qc 0%Qc 1%Qc Qcplus Qcmult Qcminus Qcopp Qcrt idx idx_eqb idx_eqb_spec B rch v nodes Hnd G1 Hrn Hri G2 Htopo i Hi).
  Qed.

  (* the surpluses are the ONLY coefficients that reproduce the values (C04: set/get coefficients, C09/C11 equality of surrogates) *)
  Theorem localgrid_unique : forall c1 c2 : idx -> Qc,
    (forall i, In i nodes -> Hier.sum Qc 0%Qc Qcplus idx nodes (fun j => (B i j * c1 j)%Qc) = v i) ->
    (forall i, In i nodes -> Hier.sum Qc 0%Qc Qcplus idx nodes (fun j => (B i j * c2 j)%Qc) = v i) ->
    forall i, In i nodes -> c1 i = c2 i.
  Proof.
    destruct cert_parts as [Hnd [G1 [Hrn [Hri [G2 Htopo]]]]].
    exact (hier_unique Qc 0%Qc 1%Qc Qcplus Qcmult Qcminus Qcopp Qcrt idx idx_eqb idx_eqb_spec B rch v nodes Hnd G1 Hrn Hri G2 Htopo).
  Qed.
End Instance.

(* the dual identity needs no structure at all: weights solving the transposed system give  w . v = b . c  *)
Theorem localgrid_dual r order (nodes : list idx) (v w c b : idx -> Qc) :
  (forall j, In j nodes -> Hier.sum Qc 0%Qc Qcplus idx nodes (fun i => (w i * Bc r order i j)%Qc) = b j) ->
  (forall i, In i nodes -> Hier.sum Qc 0%Qc Qcplus idx nodes (fun j => (Bc r order i j * c j)%Qc) = v i) ->
  Hier.sum Qc 0%Qc Qcplus idx nodes (fun i => (w i * v i)%Qc) = Hier.sum Qc 0%Qc Qcplus idx nodes (fun j => (b j * c j)%Qc).
Proof.
  exact (dual_identity Qc 0%Qc 1%Qc Qcplus Qcmult Qcminus Qcopp Qcrt idx (Bc r order) v nodes w c b).
Qed.
