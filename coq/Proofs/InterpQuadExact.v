(* Interpolatory quadrature is exact on polynomials of degree < n, for an arbitrary moment functional.
   Field: Qc.  No axioms.
   Setting: n pairwise distinct nodes; a moment functional mu (mu k = the integral of t^k against any weight function);
   L mu c = sum_k c_k * mu k = the integral of the polynomial with coefficient list c (lowest degree first, the convention of
   `peval`).  The interpolatory weights are w_i = L mu (coefficient list of the i-th Lagrange basis polynomial).  Every rule
   whose weights are the integrals of the Lagrange basis polynomials of its nodes (Clenshaw-Curtis, Fejer, Leja, R-Leja,
   Chebyshev, ...) has this form.
   Route: (1) L is linear over padd / scaling; (2) coefficient-level uniqueness: a coefficient list of length <= n whose
   evaluation vanishes at n distinct points has ALL coefficients zero (explicit synthetic division `sdiv`, induction on the
   nodes), hence L of it is 0; (3) the coefficient list  sum_i c(x_i) * lagrange_coeffs i  minus c has length <= n and
   vanishes everywhere (lagrange_exact_peval), so L of the two agree.                                                        *)
From TV Require Import Proofs.LagrangeExact.
From Coq Require Import List Arith Lia QArith Qcanon Field.
Import ListNotations.
Local Open Scope Qc_scope.

(* ---------- the moment functional on coefficient lists ---------- *)
Fixpoint L (mu : nat -> Qc) (c : list Qc) : Qc :=
  match c with [] => 0 | a :: r => a * mu 0%nat + L (fun k => mu (S k)) r end.

Lemma qsum_map_ext {A} (l : list A) (f g : A -> Qc) : (forall i, In i l -> f i = g i) -> qsum (map f l) = qsum (map g l).
Proof. intros H. rewrite (map_ext_in f g l H). reflexivity. Qed.

(* L mu c = sum_{k < length c} c_k * mu k *)
Lemma L_closed_form c : forall mu, L mu c = qsum (map (fun k => nth k c 0 * mu k) (seq 0 (length c))).
Proof.
  induction c as [|a r IH]; intros mu; [reflexivity|].
  cbn [L length seq map]. rewrite qsum_cons. cbn [nth]. rewrite IH. f_equal.
  rewrite <- seq_shift, map_map. reflexivity.
Qed.

Lemma L_padd c1 : forall mu c2, L mu (padd c1 c2) = L mu c1 + L mu c2.
Proof.
  induction c1 as [|a r1 IH]; intros mu [|b r2]; cbn [padd L]; try ring.
  rewrite IH. ring.
Qed.

Lemma L_scale a c : forall mu, L mu (map (Qcmult a) c) = a * L mu c.
Proof. induction c as [|b r IH]; intros mu; cbn [map L]; [ring|]. rewrite IH. ring. Qed.

(* ---------- multiplication of a coefficient list by the linear factor (t - a) / b ---------- *)
Definition plin (a b : Qc) (c : list Qc) : list Qc :=
  padd (map (Qcmult (/ b)) (0 :: c)) (map (Qcmult (- (a / b))) c).

Lemma plin_eval a b c x : peval (plin a b c) x = (x - a) / b * peval c x.
Proof. unfold plin. rewrite padd_eval, !pscale_eval. cbn [peval]. unfold Qcdiv. ring. Qed.

Lemma plin_length a b c : (length (plin a b c) <= S (length c))%nat.
Proof. unfold plin. apply padd_length; rewrite map_length; cbn [length]; lia. Qed.

(* ---------- the Lagrange basis polynomials as coefficient lists ---------- *)
Definition lagrange_coeffs (nodes : list Qc) (i : nat) : list Qc :=
  fold_right (fun xj c => plin xj (nth i nodes 0 - xj) c) [1] (others nodes i).

Lemma lagrange_coeffs_eval nodes i x : peval (lagrange_coeffs nodes i) x = lagrange_basis nodes i x.
Proof.
  unfold lagrange_coeffs, lagrange_basis. generalize (nth i nodes 0) as xi. intros xi.
  induction (others nodes i) as [|a l IH]; cbn [fold_right map].
  - cbn [peval qprod fold_right]. ring.
  - rewrite plin_eval, IH, qprod_cons. reflexivity.
Qed.

Lemma lagrange_coeffs_length nodes i : (i < length nodes)%nat -> (length (lagrange_coeffs nodes i) <= length nodes)%nat.
Proof.
  intros H. unfold lagrange_coeffs. pose proof (others_length nodes i H) as Lo.
  assert (G : forall (xi : Qc) (l : list Qc), (length (fold_right (fun xj c => plin xj (xi - xj)%Qc c) [1%Qc] l) <= S (length l))%nat).
  { intros xi l. induction l as [|a l IH]; cbn [fold_right length]; [lia|].
    eapply Nat.le_trans; [apply plin_length|]. lia. }
  eapply Nat.le_trans; [apply G|]. rewrite Lo. lia.
Qed.

(* ---------- the interpolatory quadrature weights ---------- *)
Definition weights (mu : nat -> Qc) (nodes : list Qc) : list Qc :=
  map (fun i => L mu (lagrange_coeffs nodes i)) (seq 0 (length nodes)).

Lemma weights_length mu nodes : length (weights mu nodes) = length nodes.
Proof. unfold weights. rewrite map_length, seq_length. reflexivity. Qed.

Lemma nth_map_seq {A} (f : nat -> A) (d : A) n i : (i < n)%nat -> nth i (map f (seq 0 n)) d = f i.
Proof.
  intros H. rewrite (nth_indep _ d (f 0%nat)) by (rewrite map_length, seq_length; exact H).
  rewrite map_nth, seq_nth by exact H. reflexivity.
Qed.

Lemma weights_nth mu nodes i : (i < length nodes)%nat -> nth i (weights mu nodes) 0 = L mu (lagrange_coeffs nodes i).
Proof. intros H. unfold weights. rewrite nth_map_seq by exact H. reflexivity. Qed.

(* ---------- explicit synthetic division: sdiv a c = [peval (skipn k c) a | k < length c] ---------- *)
(* head = the remainder peval c a, tail = the quotient of c by (t - a) *)
Fixpoint sdiv (a : Qc) (c : list Qc) : list Qc :=
  match c with [] => [] | c0 :: c' => (c0 + a * hd 0 (sdiv a c')) :: sdiv a c' end.

Lemma sdiv_length a c : length (sdiv a c) = length c.
Proof. induction c as [|c0 c' IH]; cbn [sdiv length]; [reflexivity|]. rewrite IH. reflexivity. Qed.

Lemma sdiv_hd a c : hd 0 (sdiv a c) = peval c a.
Proof. induction c as [|c0 c' IH]; cbn [sdiv hd peval]; [reflexivity|]. rewrite IH. reflexivity. Qed.

Lemma peval_hd_tl s x : peval s x = hd 0 s + x * peval (tl s) x.
Proof. destruct s as [|b s]; cbn [peval hd tl]; ring. Qed.

Lemma sdiv_eval a c x : peval c x = peval c a + (x - a) * peval (tl (sdiv a c)) x.
Proof.
  induction c as [|c0 c' IH]; cbn [sdiv tl peval]; [ring|].
  rewrite (peval_hd_tl (sdiv a c') x), sdiv_hd. rewrite IH at 1. ring.
Qed.

(* all coefficients are zero *)
Definition pzero (c : list Qc) : Prop := Forall (fun a => a = 0) c.

Lemma pzero_hd s : pzero s -> hd 0 s = 0.
Proof. intros H; destruct H as [|b r Hb Hr]; [reflexivity|exact Hb]. Qed.

Lemma pzero_tl s : pzero s -> pzero (tl s).
Proof. intros H; destruct H as [|b r Hb Hr]; [constructor|exact Hr]. Qed.

Lemma pzero_of_hd_tl s : hd 0 s = 0 -> pzero (tl s) -> pzero s.
Proof. destruct s as [|b s]; cbn [hd tl]; intros H1 H2; constructor; assumption. Qed.

Lemma sdiv_pzero a c : pzero (sdiv a c) -> pzero c.
Proof.
  induction c as [|c0 c' IH]; cbn [sdiv]; intros H; [constructor|].
  inversion H as [|b s Hb Hs]; subst. constructor; [|apply IH; exact Hs].
  rewrite (pzero_hd _ Hs) in Hb. rewrite <- Hb. ring.
Qed.

Lemma pzero_eval c x : pzero c -> peval c x = 0.
Proof. induction 1 as [|a r Ha Hr IH]; cbn [peval]; [reflexivity|]. rewrite Ha, IH. ring. Qed.

Lemma pzero_L c : pzero c -> forall mu, L mu c = 0.
Proof. induction 1 as [|a r Ha Hr IH]; intros mu; cbn [L]; [reflexivity|]. rewrite Ha, IH. ring. Qed.

(* coefficient-level uniqueness: length <= n and n distinct roots force every coefficient to be zero *)
Theorem roots_coeffs_zero nodes : NoDup nodes -> forall c, (length c <= length nodes)%nat ->
  (forall a, In a nodes -> peval c a = 0) -> pzero c.
Proof.
  induction nodes as [|a r IH]; intros ND c Hl Hr.
  - destruct c; [constructor|cbn in Hl; lia].
  - inversion ND as [|a' r' Ha NDr]; subst.
    apply (sdiv_pzero a). apply pzero_of_hd_tl.
    + rewrite sdiv_hd. apply Hr. left. reflexivity.
    + apply (IH NDr).
      * pose proof (sdiv_length a c) as Ls. destruct (sdiv a c); cbn [tl length] in *; lia.
      * intros b Hb. pose proof (sdiv_eval a c b) as E.
        rewrite (Hr b) in E by (right; exact Hb). rewrite (Hr a) in E by (left; reflexivity).
        assert (E' : (b - a) * peval (tl (sdiv a c)) b = 0) by (rewrite E; ring).
        destruct (Qcmult_integral _ _ E') as [H0|H0]; [|exact H0].
        apply Qcminus_eq0 in H0. subst b. contradiction.
Qed.

(* two coefficient lists of length <= n that agree at n distinct points have the same integral *)
Corollary L_unique nodes mu : NoDup nodes -> forall c1 c2, (length c1 <= length nodes)%nat -> (length c2 <= length nodes)%nat ->
  (forall a, In a nodes -> peval c1 a = peval c2 a) -> L mu c1 = L mu c2.
Proof.
  intros ND c1 c2 L1 L2 E.
  assert (Z : L mu (padd c1 (map (Qcmult (- (1))) c2)) = 0).
  { apply pzero_L. apply (roots_coeffs_zero nodes ND).
    - apply padd_length; [exact L1|rewrite map_length; exact L2].
    - intros a Ha. rewrite padd_eval, pscale_eval, (E a Ha). ring. }
  rewrite L_padd, L_scale in Z.
  replace (L mu c1) with ((L mu c1 + - (1) * L mu c2) + L mu c2) by ring. rewrite Z. ring.
Qed.

(* ---------- finite sums of coefficient lists ---------- *)
Definition psum (l : list (list Qc)) : list Qc := fold_right padd [] l.

Lemma psum_eval l x : peval (psum l) x = qsum (map (fun c => peval c x) l).
Proof. induction l as [|c l IH]; cbn [psum fold_right map]; [reflexivity|]. rewrite padd_eval, qsum_cons. fold (psum l). rewrite IH. reflexivity. Qed.

Lemma psum_L l mu : L mu (psum l) = qsum (map (L mu) l).
Proof. induction l as [|c l IH]; cbn [psum fold_right map]; [reflexivity|]. rewrite L_padd, qsum_cons. fold (psum l). rewrite IH. reflexivity. Qed.

Lemma psum_length l n : (forall c, In c l -> (length c <= n)%nat) -> (length (psum l) <= n)%nat.
Proof.
  induction l as [|c l IH]; intros H; cbn [psum fold_right]; [cbn; lia|].
  apply padd_length; [apply H; left; reflexivity|]. apply IH. intros c' Hc'. apply H. right. exact Hc'.
Qed.

(* the coefficient list of the Lagrange interpolant of f *)
Definition interp_coeffs (nodes : list Qc) (f : Qc -> Qc) : list Qc :=
  psum (map (fun i => map (Qcmult (f (nth i nodes 0))) (lagrange_coeffs nodes i)) (seq 0 (length nodes))).

Lemma interp_coeffs_eval nodes f x : peval (interp_coeffs nodes f) x = lagrange nodes f x.
Proof.
  unfold interp_coeffs, lagrange. rewrite psum_eval, map_map. apply qsum_map_ext. intros i _.
  rewrite pscale_eval, lagrange_coeffs_eval. reflexivity.
Qed.

Lemma interp_coeffs_length nodes f : (length (interp_coeffs nodes f) <= length nodes)%nat.
Proof.
  unfold interp_coeffs. apply psum_length. intros c Hc. apply in_map_iff in Hc. destruct Hc as [i [<- Hi]].
  apply in_seq in Hi. rewrite map_length. apply lagrange_coeffs_length. lia.
Qed.

(* integrating the interpolant = applying the quadrature rule *)
Lemma interp_coeffs_L nodes f mu :
  L mu (interp_coeffs nodes f)
  = qsum (map (fun i => nth i (weights mu nodes) 0 * f (nth i nodes 0)) (seq 0 (length nodes))).
Proof.
  unfold interp_coeffs. rewrite psum_L, map_map. apply qsum_map_ext. intros i Hi. apply in_seq in Hi.
  rewrite L_scale, weights_nth by lia. ring.
Qed.

(* ---------- exactness ---------- *)
(* every polynomial of degree < n is integrated exactly *)
Theorem interp_quad_exact_poly : forall mu nodes, NoDup nodes -> forall c, (length c <= length nodes)%nat ->
  qsum (map (fun i => nth i (weights mu nodes) 0 * peval c (nth i nodes 0)) (seq 0 (length nodes))) = L mu c.
Proof.
  intros mu nodes ND c Hl. rewrite <- interp_coeffs_L.
  apply (L_unique nodes mu ND); [apply interp_coeffs_length|exact Hl|].
  intros a _. rewrite interp_coeffs_eval. apply lagrange_exact_peval; assumption.
Qed.

(* the coefficient list of t^k *)
Definition pmono (k : nat) : list Qc := repeat 0 k ++ [1].

Lemma pmono_eval k x : peval (pmono k) x = x ^ k.
Proof.
  unfold pmono. induction k as [|k IH]; cbn [repeat app peval Qcpower]; [ring|]. rewrite IH. ring.
Qed.

Lemma pmono_L k : forall mu, L mu (pmono k) = mu k.
Proof.
  unfold pmono. induction k as [|k IH]; intros mu; cbn [repeat app L]; [ring|]. rewrite IH. ring.
Qed.

Lemma pmono_length k : length (pmono k) = S k.
Proof. unfold pmono. rewrite app_length, repeat_length. cbn. lia. Qed.

(* every monomial of degree < n is integrated exactly: the rule returns the moment *)
Theorem interp_quad_exact : forall mu nodes, NoDup nodes -> forall k, (k < length nodes)%nat ->
  qsum (map (fun i => nth i (weights mu nodes) 0 * (nth i nodes 0) ^ k) (seq 0 (length nodes))) = mu k.
Proof.
  intros mu nodes ND k Hk. rewrite <- (pmono_L k mu).
  rewrite <- (interp_quad_exact_poly mu nodes ND (pmono k)) by (rewrite pmono_length; lia).
  apply qsum_map_ext. intros i _. rewrite pmono_eval. reflexivity.
Qed.

(* in particular the weights sum to the zeroth moment (the measure of the domain) *)
Corollary weights_sum : forall mu nodes, NoDup nodes -> nodes <> [] -> qsum (weights mu nodes) = mu 0%nat.
Proof.
  intros mu nodes ND Hne. rewrite <- (interp_quad_exact mu nodes ND 0) by (destruct nodes; [contradiction|cbn; lia]).
  unfold weights at 1. apply qsum_map_ext. intros i Hi. apply in_seq in Hi. rewrite weights_nth by lia. cbn [Qcpower]. ring.
Qed.

(* ---------- tests / non-vacuity ---------- *)
(* Legendre moments: integral over [-1,1] of t^k dt = 2/(k+1) for even k, 0 for odd k *)
Definition legendre_mu (k : nat) : Qc := if Nat.even k then qc 2 (Pos.of_succ_nat k) else 0.

(* nodes -1, 0, 1 give the Simpson weights 1/3, 4/3, 1/3 *)
Example simpson_weights : weights legendre_mu [qc (-1) 1; qc 0 1; qc 1 1] = [qc 1 3; qc 4 3; qc 1 3].
Proof. repeat (f_equal; [apply Qc_is_canon; vm_compute; reflexivity|]). reflexivity. Qed.

(* the coefficient list of the middle basis polynomial 1 - t^2 *)
Example simpson_basis_1 : lagrange_coeffs [qc (-1) 1; qc 0 1; qc 1 1] 1 = [qc 1 1; qc 0 1; qc (-1) 1].
Proof. repeat (f_equal; [apply Qc_is_canon; vm_compute; reflexivity|]). reflexivity. Qed.

(* a non-symmetric weight: integral over [0,1] of t^k dt = 1/(k+1); nodes 0, 1/2, 1 give 1/6, 4/6, 1/6 *)
Definition unit_mu (k : nat) : Qc := qc 1 (Pos.of_succ_nat k).
Example simpson_unit_weights : weights unit_mu [qc 0 1; qc 1 2; qc 1 1] = [qc 1 6; qc 2 3; qc 1 6].
Proof. repeat (f_equal; [apply Qc_is_canon; vm_compute; reflexivity|]). reflexivity. Qed.

(* degree 2 < 3 is exact (value 2/3), by computation *)
Example simpson_exact_2 :
  let nodes := [qc (-1) 1; qc 0 1; qc 1 1] in
  qsum (map (fun i => nth i (weights legendre_mu nodes) 0 * (nth i nodes 0) ^ 2) (seq 0 (length nodes))) = qc 2 3.
Proof. apply Qc_is_canon. vm_compute. reflexivity. Qed.

(* the bound k < n of the theorem is sharp in general: 2 nodes -1, 1 do not integrate t^2 (2 <> 2/3) *)
Example trapezoid_not_exact_2 :
  let nodes := [qc (-1) 1; qc 1 1] in
  qsum (map (fun i => nth i (weights legendre_mu nodes) 0 * (nth i nodes 0) ^ 2) (seq 0 (length nodes))) <> legendre_mu 2.
Proof. cbv zeta. intro H. apply (f_equal this) in H. vm_compute in H. discriminate H. Qed.

Print Assumptions interp_quad_exact.
Print Assumptions interp_quad_exact_poly.
Print Assumptions roots_coeffs_zero.
