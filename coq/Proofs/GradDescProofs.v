(* Proofs about the GradientDescent model (C19). *)
From TV Require Import Common.Prelude Model.GradDesc.
From Coq Require Import QArith Lqa.
Local Close Scope Q_scope.

Section Generic.
  Variable R : Type.
  Variables (zero one two numtol : R).
  Variables (add sub mul div : R -> R -> R) (sqrt : R -> R).
  Variable gtb : R -> R -> bool.
  Variable f : list R -> R.
  Variables (grad proj : list R -> list R).
  Variables (inc dec tol : R).

  Notation attempts := (attempts R zero two numtol add sub mul div sqrt gtb f grad proj inc dec tol).
  Notation run := (run R zero one two numtol add sub mul div sqrt gtb f grad proj inc dec tol).
  Notation begin_outer := (begin_outer R mul inc).
  Notation restore := (restore R).
  Notation init := (init R zero one add div f grad inc tol).
  Notation gd := (gd R).

  (* ---------- a single induction principle for [attempts] ---------- *)
  (* P st : invariant of states at the head of the do-while body; Q st res : postcondition *)
  Section AttemptsInd.
    Variable P : gd -> Prop.
    Variable Post : gd -> bool -> Prop.
    Hypothesis Hearly : forall st, P st -> Post (restore st) true.
    Hypothesis Hfail : forall st z0 xs, P st ->
        z0 = trial_point R sub mul (x0 R st) (gx0 R st) (step R st) -> xs = proj z0 ->
        P (mkgd (x0 R st) (fx0 R st) (gx0 R st) (cur R st) (fcur R st) (gcur R st)
                (div (step R st) dec) (S (iters R st)) (resid R st)
                (trace R st ++ [CallP z0; CallF xs]) (accepted R st)).
    Hypothesis Haccept : forall st z0 xs lhs rhs, P st ->
        z0 = trial_point R sub mul (x0 R st) (gx0 R st) (step R st) -> xs = proj z0 ->
        descent_sums R two add sub mul div (add zero (sub (f xs) (fx0 R st))) zero xs (x0 R st) (gx0 R st) (step R st) = (lhs, rhs) ->
        gtb lhs (add rhs numtol) = false ->
        let step2 := mul (div (step R st) dec) dec in
        let g := grad xs in
        let st2 := mkgd (x0 R st) (fx0 R st) (gx0 R st) xs (f xs) g step2 (S (iters R st))
                        (residual R zero add sub mul div sqrt xs (x0 R st) g (gx0 R st) step2)
                        ((trace R st ++ [CallP z0; CallF xs]) ++ [CallG xs]) (accepted R st ++ [xs]) in
        Post st2 false /\ P (begin_outer st2).

    Lemma attempts_ind k : forall st, P st -> Post (fst (attempts k st)) (snd (attempts k st)).
    Proof.
      induction k as [|k IH]; intros st HP.
      - cbn. apply Hearly; exact HP.
      - cbn [GradDesc.attempts].
        destruct (descent_sums R two add sub mul div _ zero _ (x0 R st) (gx0 R st) (step R st)) as [lhs rhs] eqn:Eds.
        destruct (gtb lhs (add rhs numtol)) eqn:Eg.
        + apply IH. eapply Hfail; eauto.
        + destruct (Haccept st _ _ lhs rhs HP eq_refl eq_refl Eds Eg) as [HQ HP2].
          destruct (gtb _ tol).
          * destruct k as [|k']; [exact HQ|]. apply IH. exact HP2.
          * exact HQ.
    Qed.
  End AttemptsInd.

  (* ---------- iteration cap ---------- *)
  Lemma attempts_iters k st :
    iters R (fst (attempts k st)) <= iters R st + k /\
    (snd (attempts k st) = true -> iters R (fst (attempts k st)) = iters R st + k).
  Proof.
    revert st; induction k as [|k IH]; intros st.
    - cbn. split; [lia|intros _; lia].
    - cbn [GradDesc.attempts].
      destruct (descent_sums R two add sub mul div _ zero _ (x0 R st) (gx0 R st) (step R st)) as [lhs rhs].
      destruct (gtb lhs (add rhs numtol)).
      + match goal with |- context [attempts k ?s] => destruct (IH s) as [H1 H2] end.
        cbn [iters] in *. split; [lia|intros E; specialize (H2 E); lia].
      + destruct (gtb _ tol).
        * destruct k as [|k'].
          -- cbn. split; [lia|discriminate].
          -- match goal with |- context [attempts (S k') ?s] => destruct (IH s) as [H1 H2] end.
             cbn [iters GradDesc.begin_outer] in *. split; [lia|intros E; specialize (H2 E); lia].
        * cbn. split; [lia|discriminate].
  Qed.

  Lemma attempts_count_f k st :
    count_f R (trace R (fst (attempts k st))) <= count_f R (trace R st) + k.
  Proof.
    revert st; induction k as [|k IH]; intros st.
    - cbn [GradDesc.attempts fst GradDesc.restore trace]. lia.
    - cbn [GradDesc.attempts].
      destruct (descent_sums R two add sub mul div _ zero _ (x0 R st) (gx0 R st) (step R st)) as [lhs rhs].
      assert (Hc : forall z xs, count_f R (trace R st ++ [CallP z; CallF xs]) = S (count_f R (trace R st))).
      { intros. unfold count_f. rewrite filter_app, app_length. cbn. lia. }
      assert (Hg : forall tr xs, count_f R (tr ++ [CallG xs]) = count_f R tr).
      { intros. unfold count_f. rewrite filter_app, app_length. cbn. lia. }
      destruct (gtb lhs (add rhs numtol)).
      + match goal with |- context [attempts k ?s] => specialize (IH s) end.
        cbn [trace] in IH. rewrite Hc in IH. lia.
      + destruct (gtb _ tol).
        * destruct k as [|k'].
          -- cbn [fst trace]. rewrite Hg, Hc. lia.
          -- match goal with |- context [attempts (S k') ?s] => specialize (IH s) end.
             cbn [trace GradDesc.begin_outer] in IH. rewrite Hg, Hc in IH. lia.
        * cbn [fst trace]. rewrite Hg, Hc. lia.
  Qed.

  Theorem run_iters_le_cap maxit xinit step0 :
    (Z.of_nat (iters R (fst (run maxit xinit step0))) <= Z.max 0 maxit)%Z.
  Proof.
    unfold GradDesc.run. destruct (gtb _ tol); [|cbn; lia].
    destruct (Z.to_nat maxit) as [|k] eqn:Ek; [cbn; lia|].
    pose proof (attempts_iters (S k) (begin_outer (init xinit step0))) as [H _].
    cbn [iters GradDesc.begin_outer GradDesc.init] in H. lia.
  Qed.

  Theorem run_objective_calls maxit xinit step0 :
    (Z.of_nat (count_f R (trace R (fst (run maxit xinit step0)))) <= Z.max 0 maxit + 1)%Z.
  Proof.
    unfold GradDesc.run. destruct (gtb _ tol); [|cbn; lia].
    destruct (Z.to_nat maxit) as [|k] eqn:Ek; [cbn; lia|].
    pose proof (attempts_count_f (S k) (begin_outer (init xinit step0))) as H.
    cbn [trace GradDesc.begin_outer GradDesc.init] in H.
    change (count_f R [CallF xinit; CallG xinit]) with 1 in H. lia.
  Qed.

  (* a return from inside the line search means the cap was exhausted *)
  Theorem run_early_means_cap maxit xinit step0 :
    snd (run maxit xinit step0) = true -> Z.of_nat (iters R (fst (run maxit xinit step0))) = maxit.
  Proof.
    unfold GradDesc.run. destruct (gtb _ tol); [|cbn; discriminate].
    destruct (Z.to_nat maxit) as [|k] eqn:Ek; [cbn; discriminate|].
    pose proof (attempts_iters (S k) (begin_outer (init xinit step0))) as [_ H].
    intros E. specialize (H E). cbn [iters GradDesc.begin_outer GradDesc.init] in H. lia.
  Qed.

  (* ---------- the returned state is the last accepted iterate ---------- *)
  Lemma attempts_last_accepted xinit k st :
    x0 R st = last_or (accepted R st) xinit ->
    cur R (fst (attempts k st)) = last_or (accepted R (fst (attempts k st))) xinit.
  Proof.
    intros H0.
    apply (attempts_ind (fun st => x0 R st = last_or (accepted R st) xinit)
                        (fun st _ => cur R st = last_or (accepted R st) xinit)); [| | |exact H0].
    - intros s Hs. cbn. exact Hs.
    - intros s z0 xs Hs _ _. cbn. exact Hs.
    - intros s z0 xs lhs rhs Hs _ _ _ _. cbn. rewrite last_or_app. split; reflexivity.
  Qed.

  Theorem run_state_is_last_accepted maxit xinit step0 :
    cur R (fst (run maxit xinit step0)) = last_or (accepted R (fst (run maxit xinit step0))) xinit.
  Proof.
    unfold GradDesc.run. destruct (gtb _ tol); [|reflexivity].
    destruct (Z.to_nat maxit) as [|k]; [reflexivity|].
    apply attempts_last_accepted. reflexivity.
  Qed.

  (* every accepted iterate is a value returned by the projection *)
  Lemma attempts_accepted_proj k st :
    Forall (fun a => exists z, a = proj z) (accepted R st) ->
    Forall (fun a => exists z, a = proj z) (accepted R (fst (attempts k st))).
  Proof.
    intros H0.
    apply (attempts_ind (fun st => Forall (fun a => exists z, a = proj z) (accepted R st))
                        (fun st _ => Forall (fun a => exists z, a = proj z) (accepted R st))); [| | |exact H0].
    - intros s Hs. exact Hs.
    - intros s z0 xs Hs _ _. exact Hs.
    - intros s z0 xs lhs rhs Hs _ Hxs _ _. cbn.
      assert (Forall (fun a => exists z, a = proj z) (accepted R s ++ [xs])).
      { apply Forall_app. split; [exact Hs|]. constructor; [exists z0; exact Hxs|constructor]. }
      split; assumption.
  Qed.

  Theorem run_state_origin maxit xinit step0 :
    cur R (fst (run maxit xinit step0)) = xinit \/
    exists z, cur R (fst (run maxit xinit step0)) = proj z.
  Proof.
    rewrite run_state_is_last_accepted.
    assert (HF : Forall (fun a => exists z, a = proj z) (accepted R (fst (run maxit xinit step0)))).
    { unfold GradDesc.run. destruct (gtb _ tol); [|constructor].
      destruct (Z.to_nat maxit) as [|k]; [constructor|].
      apply attempts_accepted_proj. constructor. }
    destruct (accepted R (fst (run maxit xinit step0))) as [|a l] using rev_ind.
    - left. reflexivity.
    - right. rewrite last_or_app. apply Forall_app in HF. destruct HF as [_ HF].
      inversion HF; subst; assumption.
  Qed.

  (* ---------- runs with a larger cap extend runs with a smaller cap ---------- *)
  Lemma attempts_accepted_ext k st : prefix (accepted R st) (accepted R (fst (attempts k st))).
  Proof.
    revert st; induction k as [|k IH]; intros st.
    - cbn. apply prefix_refl.
    - cbn [GradDesc.attempts].
      destruct (descent_sums R two add sub mul div _ zero _ (x0 R st) (gx0 R st) (step R st)) as [lhs rhs].
      destruct (gtb lhs (add rhs numtol)).
      + match goal with |- context [attempts k ?s] => specialize (IH s) end. exact IH.
      + destruct (gtb _ tol).
        * destruct k as [|k'].
          -- cbn. apply prefix_app_r.
          -- match goal with |- context [attempts (S k') ?s] => specialize (IH s) end.
             cbn [accepted GradDesc.begin_outer] in IH.
             eapply prefix_trans; [apply prefix_app_r|exact IH].
        * cbn. apply prefix_app_r.
  Qed.

  Lemma attempts_mono k1 : forall k2 st, k1 <= k2 ->
    prefix (accepted R (fst (attempts k1 st))) (accepted R (fst (attempts k2 st))).
  Proof.
    induction k1 as [|k1 IH]; intros k2 st Hle.
    - cbn [GradDesc.attempts fst GradDesc.restore accepted]. apply attempts_accepted_ext.
    - destruct k2 as [|k2]; [lia|].
      cbn [GradDesc.attempts].
      destruct (descent_sums R two add sub mul div _ zero _ (x0 R st) (gx0 R st) (step R st)) as [lhs rhs].
      destruct (gtb lhs (add rhs numtol)).
      + apply IH. lia.
      + destruct (gtb _ tol).
        * destruct k1 as [|k1'].
          -- destruct k2 as [|k2']; [apply prefix_refl|].
             match goal with |- context [attempts (S k2') ?s] => pose proof (attempts_accepted_ext (S k2') s) as H end.
             cbn [accepted GradDesc.begin_outer] in H. cbn [fst accepted]. exact H.
          -- destruct k2 as [|k2']; [lia|]. apply IH. lia.
        * apply prefix_refl.
  Qed.

  Theorem run_accepted_mono cap1 cap2 xinit step0 : (cap1 <= cap2)%Z ->
    prefix (accepted R (fst (run cap1 xinit step0))) (accepted R (fst (run cap2 xinit step0))).
  Proof.
    intros Hle. unfold GradDesc.run. destruct (gtb _ tol); [|apply prefix_refl].
    destruct (Z.to_nat cap1) as [|k1] eqn:E1.
    - destruct (Z.to_nat cap2) as [|k2]; [apply prefix_refl|].
      cbn [fst accepted GradDesc.init]. exists (accepted R (fst (attempts (S k2) (begin_outer (init xinit step0))))).
      reflexivity.
    - destruct (Z.to_nat cap2) as [|k2] eqn:E2; [lia|].
      apply attempts_mono. lia.
  Qed.

  (* ---------- constant step variant ---------- *)
  Notation cs_loop := (cs_loop R zero add sub mul sqrt gtb grad tol).
  Notation cs_step := (cs_step R zero add sub mul sqrt grad).
  Notation cs_init := (cs_init R one add grad tol).
  Notation run_const := (run_const R zero one add sub mul sqrt gtb grad tol).

  Fixpoint cs_pure (stepsize : R) (t : nat) (s : cs R) : cs R :=
    match t with O => s | S t' => cs_pure stepsize t' (cs_step stepsize s) end.

  Lemma cs_pure_iters stepsize t s : citers R (cs_pure stepsize t s) = citers R s + t.
  Proof. revert s; induction t as [|t IH]; intros s; cbn [cs_pure]; [lia|]. rewrite IH. cbn. lia. Qed.

  (* the loop stops at the first t (counted from the current state) whose residual is not above the
     tolerance, or when the budget k is used up, whichever comes first *)
  Lemma cs_loop_spec stepsize k : forall s,
    exists t, t <= k /\ cs_loop stepsize k s = cs_pure stepsize t s /\
              (forall u, u < t -> gtb (cres R (cs_pure stepsize u s)) tol = true) /\
              (t = k \/ gtb (cres R (cs_pure stepsize t s)) tol = false).
  Proof.
    induction k as [|k IH]; intros s.
    - exists 0. cbn. destruct (gtb (cres R s) tol); repeat split; auto; intros; lia.
    - cbn [GradDesc.cs_loop]. destruct (gtb (cres R s) tol) eqn:E.
      + destruct (IH (cs_step stepsize s)) as [t [Ht [Heq [Hbefore Hstop]]]].
        exists (S t). cbn [cs_pure]. repeat split; [lia|exact Heq| |].
        * intros u Hu. destruct u as [|u]; [exact E|]. cbn [cs_pure]. apply Hbefore. lia.
        * destruct Hstop as [->|Hs]; [left; reflexivity|right; exact Hs].
      + exists 0. cbn [cs_pure]. repeat split; [lia| |right; exact E]. intros; lia.
  Qed.

  Theorem run_const_steps stepsize maxit xinit :
    let r := run_const stepsize maxit xinit in
    exists t, citers R r = t /\ (Z.of_nat t <= Z.max 0 maxit)%Z /\
      r = cs_pure stepsize t (cs_init xinit) /\
      (forall u, u < t -> gtb (cres R (cs_pure stepsize u (cs_init xinit))) tol = true) /\
      (Z.of_nat t = Z.max 0 maxit \/ gtb (cres R (cs_pure stepsize t (cs_init xinit))) tol = false).
  Proof.
    cbn zeta. unfold GradDesc.run_const.
    destruct (cs_loop_spec stepsize (Z.to_nat maxit) (cs_init xinit)) as [t [Ht [Heq [Hb Hs]]]].
    exists t. rewrite Heq. rewrite cs_pure_iters. cbn [citers GradDesc.cs_init].
    repeat split; [lia|exact Hb|]. destruct Hs as [->|Hs]; [left; lia|right; exact Hs].
  Qed.
End Generic.

(* ------------------------------------------------------------------------------------------- *)
(* Order properties over exact rationals. *)
Section OverQ.
  Local Open Scope Q_scope.
  Variable numtol : Q.
  Variable f : list Q -> Q.
  Variables (grad proj : list Q -> list Q).
  Variables (inc dec tol : Q).
  Variable qsqrt : Q -> Q.   (* any function: only the residual (a stopping criterion) uses it *)

  Definition qgtb (a b : Q) : bool := negb (Qle_bool a b).

  Notation attemptsQ := (attempts Q 0 2 numtol Qplus Qminus Qmult Qdiv qsqrt qgtb f grad proj inc dec tol).
  Notation runQ := (run Q 0 1 2 numtol Qplus Qminus Qmult Qdiv qsqrt qgtb f grad proj inc dec tol).

  (* the two sums of the descent test, in mathematical form *)
  Fixpoint lin (xs x0 g : list Q) : Q :=
    match xs, x0, g with
    | a :: xs', b :: x0', c :: g' => c * (a - b) + lin xs' x0' g'
    | _, _, _ => 0
    end.
  Fixpoint quad (xs x0 g : list Q) (s : Q) : Q :=
    match xs, x0, g with
    | a :: xs', b :: x0', _ :: g' => (a - b) * (a - b) / (2 * s) + quad xs' x0' g' s
    | _, _, _ => 0
    end.

  Lemma descent_sums_spec xs : forall x0 g s l r,
    fst (descent_sums Q 2 Qplus Qminus Qmult Qdiv l r xs x0 g s) == l - lin xs x0 g /\
    snd (descent_sums Q 2 Qplus Qminus Qmult Qdiv l r xs x0 g s) == r + quad xs x0 g s.
  Proof.
    induction xs as [|a xs IH]; intros x0 g s l r.
    - cbn. split; ring.
    - destruct x0 as [|b x0]; [cbn; split; ring|]. destruct g as [|c g]; [cbn; split; ring|].
      cbn [descent_sums lin quad]. destruct (IH x0 g s (l - c * (a - b)) (r + (a - b) * (a - b) / (2 * s))) as [H1 H2].
      rewrite H1, H2. split; ring.
  Qed.

  Hypothesis Hnumtol : 0 <= numtol.
  Hypothesis Hinc : 0 < inc.
  Hypothesis Hdec : 0 < dec.
  (* the variational inequality satisfied by every projection onto a convex set containing x
     (and by the identity): the linear plus the quadratic term of the descent test is non-positive *)
  Hypothesis Hproj : forall x g s, 0 < s ->
    let xs := proj (trial_point Q Qminus Qmult x g s) in lin xs x g + quad xs x g s <= 0.

  Fixpoint chain (prev : list Q) (l : list (list Q)) : Prop :=
    match l with
    | [] => True
    | a :: r => f a <= f prev + numtol /\ chain a r
    end.

  Lemma chain_app prev l a : chain prev (l ++ [a]) <-> chain prev l /\ f a <= f (last_or l prev) + numtol.
  Proof.
    revert prev; induction l as [|b l IH]; intros prev.
    - cbn. tauto.
    - cbn [app chain]. rewrite IH. unfold last_or.
      rewrite last_cons_default. tauto.
  Qed.

  Lemma chain_bound l2 : forall prev l1, chain prev (l1 ++ l2) ->
    f (last_or (l1 ++ l2) prev) <= f (last_or l1 prev) + inject_Z (Z.of_nat (length l2)) * numtol.
  Proof.
    induction l2 as [|a l2 IH] using rev_ind; intros prev l1 Hc.
    - rewrite app_nil_r. cbn [length Z.of_nat]. change (inject_Z 0) with 0. lra.
    - rewrite app_assoc in Hc |- *. rewrite last_or_app.
      apply chain_app in Hc. destruct Hc as [Hc Ha].
      specialize (IH prev l1 Hc). rewrite app_length. cbn [length].
      rewrite Nat.add_1_r, Nat2Z.inj_succ. unfold Z.succ. rewrite inject_Z_plus.
      change (inject_Z 1) with 1. lra.
  Qed.

  Lemma qgtb_false a b : qgtb a b = false -> a <= b.
  Proof. unfold qgtb. intros H. apply negb_false_iff in H. apply Qle_bool_iff. exact H. Qed.

  Definition PQ (xinit : list Q) (st : gd Q) : Prop :=
    fx0 Q st = f (x0 Q st) /\ 0 < step Q st /\ x0 Q st = last_or (accepted Q st) xinit /\ chain xinit (accepted Q st).

  Lemma attempts_chain xinit k st : PQ xinit st -> chain xinit (accepted Q (fst (attemptsQ k st))).
  Proof.
    intros H0.
    apply (attempts_ind Q 0 2 numtol Qplus Qminus Qmult Qdiv qsqrt qgtb f grad proj inc dec tol
             (PQ xinit) (fun st _ => chain xinit (accepted Q st))); [| | |exact H0].
    - intros s [_ [_ [_ Hc]]]. exact Hc.
    - intros s z0 xs [Hf [Hs [Hx Hc]]] _ _. unfold PQ. cbn.
      repeat split; try assumption. apply Qlt_shift_div_l; [exact Hdec|]. lra.
    - intros s z0 xs lhs rhs [Hf [Hs [Hx Hc]]] Hz Hxs Hds Hg. cbn zeta.
      assert (Hch : chain xinit (accepted Q s ++ [xs])).
      { apply chain_app. split; [exact Hc|]. rewrite <- Hx.
        apply qgtb_false in Hg.
        pose proof (descent_sums_spec xs (x0 Q s) (gx0 Q s) (step Q s) (0 + (f xs - fx0 Q s)) 0) as [H1 H2].
        rewrite Hds in H1, H2. cbn [fst snd] in H1, H2.
        pose proof (Hproj (x0 Q s) (gx0 Q s) (step Q s) Hs) as Hp. cbn zeta in Hp.
        rewrite <- Hz, <- Hxs in Hp. rewrite Hf in H1. lra. }
      split; [exact Hch|]. unfold PQ. cbn. rewrite last_or_app.
      repeat split; try assumption.
      apply Qmult_lt_0_compat; [|exact Hinc]. apply Qmult_lt_0_compat; [|exact Hdec].
      apply Qlt_shift_div_l; [exact Hdec|]. lra.
  Qed.

  Lemma run_chain maxit xinit step0 : 0 < step0 -> chain xinit (accepted Q (fst (runQ maxit xinit step0))).
  Proof.
    intros Hs. unfold run. destruct (qgtb _ tol); [|exact I].
    destruct (Z.to_nat maxit) as [|k]; [exact I|].
    apply attempts_chain. unfold PQ. cbn. repeat split.
    apply Qmult_lt_0_compat; [|exact Hinc]. apply Qlt_shift_div_l; [exact Hinc|]. lra.
  Qed.

  Theorem run_not_worse_than_start maxit xinit step0 : 0 < step0 ->
    let r := fst (runQ maxit xinit step0) in
    f (cur Q r) <= f xinit + inject_Z (Z.of_nat (length (accepted Q r))) * numtol.
  Proof.
    intros Hs r. subst r.
    rewrite (run_state_is_last_accepted Q 0 1 2 numtol Qplus Qminus Qmult Qdiv qsqrt qgtb f grad proj inc dec tol).
    pose proof (chain_bound (accepted Q (fst (runQ maxit xinit step0))) xinit [] (run_chain maxit xinit step0 Hs)) as H.
    cbn [app] in H. exact H.
  Qed.

  Theorem run_monotone_in_cap cap1 cap2 xinit step0 : 0 < step0 -> (cap1 <= cap2)%Z ->
    let r1 := fst (runQ cap1 xinit step0) in
    let r2 := fst (runQ cap2 xinit step0) in
    f (cur Q r2) <= f (cur Q r1)
       + inject_Z (Z.of_nat (length (accepted Q r2) - length (accepted Q r1))) * numtol.
  Proof.
    intros Hs Hle r1 r2. subst r1 r2.
    rewrite !(run_state_is_last_accepted Q 0 1 2 numtol Qplus Qminus Qmult Qdiv qsqrt qgtb f grad proj inc dec tol).
    destruct (run_accepted_mono Q 0 1 2 numtol Qplus Qminus Qmult Qdiv qsqrt qgtb f grad proj inc dec tol
                cap1 cap2 xinit step0 Hle) as [ext Hext].
    pose proof (run_chain cap2 xinit step0 Hs) as Hc. rewrite Hext in Hc |- *.
    rewrite app_length. replace (length (accepted Q (fst (runQ cap1 xinit step0))) + length ext
                                 - length (accepted Q (fst (runQ cap1 xinit step0))))%nat with (length ext) by lia.
    apply chain_bound. exact Hc.
  Qed.
End OverQ.

(* Non-vacuity: the identity projection satisfies the variational inequality. *)
Lemma identity_satisfies_Hproj : forall (x g : list Q) (s : Q), (0 < s)%Q -> length x = length g ->
  let xs := trial_point Q Qminus Qmult x g s in (lin xs x g + quad xs x g s <= 0)%Q.
Proof.
  intros x g s Hs. revert g. induction x as [|a x IH]; intros [|c g] Hl; cbn in *; try lra; try discriminate.
  injection Hl as Hl. specialize (IH g Hl).
  assert (E : ((a - c * s - a) * (a - c * s - a) / (2 * s) == c * c * s / 2)%Q) by (field; lra).
  rewrite E.
  unfold trial_point in IH.
  assert (H1 : (0 <= c * c)%Q) by nra.
  assert (H2 : (0 <= c * c * s)%Q) by (apply Qmult_le_0_compat; lra).
  clear E. unfold Qdiv. change (/ 2)%Q with (1#2)%Q. lra.
Qed.
