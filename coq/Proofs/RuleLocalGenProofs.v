(* The integer hierarchy functions REGENERATED from the current C++ source (gen/RuleLocalGen.v, translator/rulelocal.py) are
   equal to the hand-written model Model/RuleLocal.v on the domain the library uses (point numbers >= 0, levels >= 0), and the
   hierarchy facts proved about the model (kid_level, kid_parent of RuleLocalProofs.v, tf_level / tf_level_nonneg of the
   one-dimensional tree facts of LocalTree1D.v) are transported to the generated functions.  When the header changes, either
   these proofs still go through (the change is semantically neutral on the domain) or the build of this file fails and
   props/rulelocalgen.py searches a concrete differing input. *)
From TV Require Import Common.Prelude Model.RuleLocal Model.LocalGrid gen.RuleLocalGen.
From TV Require Import Proofs.RuleLocalProofs Proofs.LocalTreeSpec Proofs.LocalTree1D.
Local Open Scope Z_scope.

(* case analysis on every boolean test of the goal, then conversion or linear arithmetic (Z.quot / Z.rem through the zify hook) *)
Ltac split_ifs :=
  repeat match goal with
         | |- context [if ?c then _ else _] => let E := fresh "E" in destruct c eqn:E
         end.
Ltac same := first [ reflexivity | split_ifs; first [ reflexivity | lia ] ].

(* ---- tsgMathUtils.hpp ---- *)
Theorem g_intlog2_eq i : 0 <= i -> g_intlog2 i = intlog2 i.
Proof.
  intros _. cbv beta iota zeta delta [g_intlog2 intlog2].
  destruct (i <=? 0) eqn:E; [rewrite (Z.log2_nonpos i) by lia|]; lia.
Qed.

Theorem g_int2log2_eq i : 0 <= i -> g_int2log2 i = int2log2 i.
Proof.
  intros _. cbv beta iota zeta delta [g_int2log2 int2log2].
  destruct (i <=? 0) eqn:E; [rewrite (Z.log2_nonpos i) by lia; reflexivity|]; lia.
Qed.

Lemma g_int3log3_loop1_eq f : forall i r, snd (g_int3log3_loop1 f i r) = r * int3log3_f f i.
Proof.
  induction f as [|f IH]; intros i r; cbn [g_int3log3_loop1 int3log3_f]; [cbn [snd]; lia|].
  destruct (1 <=? i); [cbv zeta; rewrite IH; lia|cbn [snd]; lia].
Qed.

Theorem g_int3log3_eq i : 0 <= i -> g_int3log3 i = int3log3 i.
Proof.
  intros _. cbv beta iota zeta delta [g_int3log3 int3log3].
  pose proof (g_int3log3_loop1_eq 42 i 1) as H. destruct (g_int3log3_loop1 42 i 1) as [a b]. cbn [snd] in H. lia.
Qed.

(* ---- tsgRuleLocalPolynomial.hpp ---- *)
Lemma g_getNumPoints_Pwc_loop1_eq f : forall l n, snd (g_getNumPoints_Pwc_loop1 f l n) = pow3_f f n l.
Proof.
  induction f as [|f IH]; intros l n; cbn [g_getNumPoints_Pwc_loop1 pow3_f]; [reflexivity|].
  destruct (0 <? l); [cbv zeta; apply IH|reflexivity].
Qed.

Theorem g_getNumPoints_eq r level : 0 <= level -> g_getNumPoints r level = getNumPoints r level.
Proof.
  intros H. destruct r; cbv beta iota zeta delta [g_getNumPoints getNumPoints]; try same.
  pose proof (g_getNumPoints_Pwc_loop1_eq 42 level 1) as E. destruct (g_getNumPoints_Pwc_loop1 42 level 1) as [a b]. exact E.
Qed.

Theorem g_getMaxNumKids_eq r : g_getMaxNumKids r = getMaxNumKids r.
Proof. destruct r; reflexivity. Qed.

Theorem g_getMaxNumParents_eq r : g_getMaxNumParents r = getMaxNumParents r.
Proof. destruct r; reflexivity. Qed.

Theorem g_getParent_eq r p : 0 <= p -> g_getParent r p = getParent r p.
Proof. intros H. destruct r; cbv beta iota zeta delta [g_getParent getParent]; same. Qed.

Theorem g_getStepParent_eq r p : 0 <= p -> g_getStepParent r p = getStepParent r p.
Proof.
  intros H. destruct r; cbv beta iota zeta delta [g_getStepParent getStepParent]; rewrite ?(g_int3log3_eq p H); same.
Qed.

Theorem g_getKid_eq r p k : 0 <= p -> (k = 0 \/ k = 1 \/ k = 2 \/ k = 3) -> g_getKid r p k = getKid r p k.
Proof.
  intros H Hk. destruct r; cbv beta iota zeta delta [g_getKid getKid]; rewrite ?(g_int3log3_eq p H); same.
Qed.

Lemma g_getLevel_Pwc_loop1_eq f : forall p l, snd (g_getLevel_Pwc_loop1 f p l) = pwc_level_f f p l.
Proof.
  induction f as [|f IH]; intros p l; cbn [g_getLevel_Pwc_loop1 pwc_level_f]; [reflexivity|].
  destruct (1 <=? p); [cbv zeta; apply IH|reflexivity].
Qed.

Theorem g_getLevel_eq r p : 0 <= p -> g_getLevel r p = getLevel r p.
Proof.
  intros H. destruct r; cbv beta iota zeta delta [g_getLevel getLevel].
  1: { pose proof (g_getLevel_Pwc_loop1_eq 42 p 0) as E. destruct (g_getLevel_Pwc_loop1 42 p 0) as [a b]. exact E. }
  all: split_ifs; rewrite ?g_intlog2_eq by lia; first [ reflexivity | lia ].
Qed.

(* all seven functions at once *)
Theorem g_rulelocal_agrees r p : 0 <= p ->
  g_getNumPoints r p = getNumPoints r p /\ g_getMaxNumKids r = getMaxNumKids r /\ g_getMaxNumParents r = getMaxNumParents r /\
  g_getParent r p = getParent r p /\ g_getStepParent r p = getStepParent r p /\ g_getLevel r p = getLevel r p /\
  (forall k, k = 0 \/ k = 1 \/ k = 2 \/ k = 3 -> g_getKid r p k = getKid r p k).
Proof.
  intros H. repeat split; auto using g_getNumPoints_eq, g_getMaxNumKids_eq, g_getMaxNumParents_eq, g_getParent_eq,
    g_getStepParent_eq, g_getLevel_eq. intros k Hk. apply g_getKid_eq; assumption.
Qed.

(* ---- the hierarchy facts of the model, stated purely over the generated functions ---- *)
Lemma getKid_nonneg r p k : binary_rule r -> 0 <= p -> (k = 0 \/ k = 1) -> getKid r p k <> -1 -> 0 <= getKid r p k.
Proof.
  intros Hr Hp Hk. destruct r; try (exfalso; apply Hr; reflexivity); unfold getKid; split_ifs; lia.
Qed.

Theorem g_kid_level r p k : binary_rule r -> 0 <= p -> (k = 0 \/ k = 1) ->
  g_getKid r p k <> -1 -> g_getLevel r (g_getKid r p k) = g_getLevel r p + 1.
Proof.
  intros Hr Hp Hk. rewrite (g_getKid_eq r p k Hp) by tauto. intros Hn.
  rewrite (g_getLevel_eq r p Hp), g_getLevel_eq by (apply getKid_nonneg; assumption).
  apply kid_level; assumption.
Qed.

Theorem g_kid_parent r p k : binary_rule r -> 0 <= p -> (k = 0 \/ k = 1) ->
  g_getKid r p k <> -1 -> g_getParent r (g_getKid r p k) = p \/ g_getStepParent r (g_getKid r p k) = p.
Proof.
  intros Hr Hp Hk. rewrite (g_getKid_eq r p k Hp) by tauto. intros Hn.
  rewrite g_getParent_eq, g_getStepParent_eq by (apply getKid_nonneg; assumption).
  apply kid_parent; assumption.
Qed.

Lemma tree1d_facts_binary r : binary_rule r -> tree1d_facts r 1.
Proof.
  intros Hr. destruct r; try (exfalso; apply Hr; reflexivity).
  - apply tree1d_facts_localp_any.
  - apply tree1d_facts_semilocalp_any.
  - apply tree1d_facts_localp0_any.
  - apply tree1d_facts_localpb_any.
Qed.

(* every parent / step-parent of a point is a point, strictly higher in the hierarchy *)
Theorem g_parents_level r p q : binary_rule r -> 0 <= p -> (q = g_getParent r p \/ q = g_getStepParent r p) -> q <> -1 ->
  0 <= q /\ g_getLevel r q < g_getLevel r p.
Proof.
  intros Hr Hp Hq Hn. rewrite (g_getParent_eq r p Hp), (g_getStepParent_eq r p Hp) in Hq.
  assert (Hin : In q (parents1d r p)).
  { unfold parents1d. apply filter_In. split; [cbn [In]; intuition auto|]. lia. }
  destruct (tf_level r 1 (tree1d_facts_binary r Hr) p q Hp Hin) as [H0 Hl].
  rewrite (g_getLevel_eq r q H0), (g_getLevel_eq r p Hp). split; assumption.
Qed.

Theorem g_level_nonneg r p : binary_rule r -> 0 <= p -> 0 <= g_getLevel r p.
Proof.
  intros Hr Hp. rewrite (g_getLevel_eq r p Hp). exact (tf_level_nonneg r 1 (tree1d_facts_binary r Hr) p Hp).
Qed.
