(* Sequence grids reproduce their nodal values for EVERY index set, dimension and pairwise-distinct node sequence. *)
From TV Require Import Common.Prelude Model.Hier Model.SequenceGrid Proofs.HierProofs.
From Coq Require Import QArith Qcanon Sorting.Sorted Permutation.
Local Close Scope Qc_scope.
Local Close Scope Q_scope.
Local Open Scope nat_scope.

Section Seq.
  Variable xs : nat -> Qc.
  Hypothesis xs_distinct : forall a b, a <> b -> xs a <> xs b.      (* H-NODES *)

  Notation newton_aux := (newton_aux xs).
  Notation newton := (newton xs).
  Notation Bseq := (Bseq xs).

  Lemma newton_aux_zero n m l : l < n -> newton_aux n m (xs l) = 0%Qc.
  Proof.
    induction n as [|n IH]; intros H; [lia|]. cbn [SequenceGrid.newton_aux].
    destruct (Nat.eq_dec l n) as [->|Hn].
    - assert (E : (xs n - xs n = 0)%Qc) by ring. rewrite E. unfold Qcdiv. ring.
    - rewrite IH by lia. ring.
  Qed.

  Lemma newton_aux_one n m : n <= m -> newton_aux n m (xs m) = 1%Qc.
  Proof.
    induction n as [|n IH]; intros H; [reflexivity|]. cbn [SequenceGrid.newton_aux]. rewrite IH by lia.
    assert (Hd : (xs m - xs n)%Qc <> 0%Qc).
    { intro E. apply (xs_distinct m n); [lia|]. 
      assert (E2 : (xs m = xs m - xs n + xs n)%Qc) by ring. rewrite E2, E. ring. }
    field. exact Hd.
  Qed.

  Lemma newton_at_own_node m : newton m (xs m) = 1%Qc.
  Proof. apply newton_aux_one. lia. Qed.
  Lemma newton_at_lower_node m l : l < m -> newton m (xs l) = 0%Qc.
  Proof. intros H. apply newton_aux_zero. exact H. Qed.

  Lemma mi_eqb_spec a : forall b, reflect (a = b) (mi_eqb a b).
  Proof.
    induction a as [|x a IH]; intros [|y b]; cbn; try (constructor; congruence).
    destruct (Nat.eqb_spec x y) as [->|Hn]; cbn; [|constructor; congruence].
    destruct (IH b) as [->|Hn]; constructor; congruence.
  Qed.

  Lemma B_diag i : Bseq i i = 1%Qc.
  Proof. unfold SequenceGrid.Bseq, node_of. induction i as [|m i IH]; cbn; [reflexivity|]. rewrite newton_at_own_node, IH. ring. Qed.

  (* the basis of j vanishes at the node of i unless j <= i componentwise *)
  Lemma B_zero i : forall j, length j = length i -> mi_le j i = false -> Bseq i j = 0%Qc.
  Proof.
    unfold SequenceGrid.Bseq, node_of. induction i as [|a i IHi]; intros j Hl Hle; destruct j as [|m j]; cbn in *; try discriminate.
    destruct (Nat.leb m a) eqn:E.
    - cbn in Hle. rewrite (IHi j); [ring|lia|exact Hle].
    - apply Nat.leb_gt in E. rewrite newton_at_lower_node by exact E. ring.
  Qed.

  (* ---- ordering by the index sum is a topological order for componentwise-smaller indexes ---- *)
  Lemma insert_by_sum_In x l y : In y (insert_by_sum x l) <-> y = x \/ In y l.
  Proof.
    induction l as [|z l IH]; cbn [insert_by_sum].
    - cbn. split; [intros [H|[]]; left; symmetry; exact H|intros [H|[]]; left; symmetry; exact H].
    - destruct (Nat.ltb (isum x) (isum z)); cbn [In].
      + split; [intros [H|H]; [left; symmetry; exact H|right; exact H]|intros [H|H]; [left; symmetry; exact H|right; exact H]].
      + rewrite IH. tauto.
  Qed.
  Lemma by_sum_In Theta y : In y (by_sum Theta) <-> In y Theta.
  Proof.
    induction Theta as [|x l IH]; cbn [by_sum fold_right]; [cbn; tauto|]. rewrite insert_by_sum_In, IH. cbn [In].
    split; [intros [H|H]; [left; symmetry; exact H|right; exact H]|intros [H|H]; [left; symmetry; exact H|right; exact H]].
  Qed.

  Lemma insert_by_sum_sorted x l : StronglySorted (fun a b => isum a <= isum b) l ->
    StronglySorted (fun a b => isum a <= isum b) (insert_by_sum x l).
  Proof.
    induction l as [|z l IH]; intros Hs; cbn [insert_by_sum]; [repeat constructor|].
    inversion Hs as [|? ? Hs' Hz]; subst. destruct (Nat.ltb_spec (isum x) (isum z)) as [Hlt|Hge].
    - constructor; [exact Hs|]. constructor; [lia|]. rewrite Forall_forall in *. intros y Hy. specialize (Hz y Hy). lia.
    - constructor; [apply IH; exact Hs'|]. rewrite Forall_forall in *. intros y Hy. apply insert_by_sum_In in Hy.
      destruct Hy as [->|Hy]; [lia|auto].
  Qed.
  Lemma by_sum_sorted Theta : StronglySorted (fun a b => isum a <= isum b) (by_sum Theta).
  Proof. induction Theta as [|x l IH]; cbn [by_sum fold_right]; [constructor|apply insert_by_sum_sorted; exact IH]. Qed.

  Lemma insert_by_sum_NoDup x l : NoDup l -> ~ In x l -> NoDup (insert_by_sum x l).
  Proof.
    induction l as [|z l IH]; intros Hn Hx; cbn [insert_by_sum]; [repeat constructor; auto|].
    destruct (Nat.ltb (isum x) (isum z)); [constructor; assumption|].
    inversion Hn; subst. constructor.
    - rewrite insert_by_sum_In. intros [->|H]; [apply Hx; left; reflexivity|contradiction].
    - apply IH; [assumption|]. intro H. apply Hx. right. exact H.
  Qed.
  Lemma by_sum_NoDup Theta : NoDup Theta -> NoDup (by_sum Theta).
  Proof.
    induction Theta as [|x l IH]; intros Hn; cbn [by_sum fold_right]; [constructor|]. inversion Hn; subst.
    apply insert_by_sum_NoDup; [apply IH; assumption|]. rewrite by_sum_In. assumption.
  Qed.

  Lemma sorted_split_before (l : list mindex) : StronglySorted (fun a b => isum a <= isum b) l ->
    forall pre i post, l = pre ++ i :: post -> forall j, In j l -> isum j < isum i -> In j pre.
  Proof.
    intros Hs pre i post E j Hj Hlt. subst l. apply in_app_or in Hj. destruct Hj as [Hj|[Hj|Hj]]; [exact Hj|subst; lia|].
    exfalso. clear -Hs Hj Hlt. induction pre as [|a pre IH]; cbn in Hs.
    - inversion Hs as [|? ? _ Hi]; subst. rewrite Forall_forall in Hi. specialize (Hi j Hj). lia.
    - inversion Hs; subst. apply IH. assumption.
  Qed.

  Lemma isum_cons a j : isum (a :: j) = a + isum j.
  Proof. reflexivity. Qed.

  Lemma mi_le_sum_le j : forall i, mi_le j i = true -> isum j <= isum i.
  Proof.
    induction j as [|x j IHj]; intros i H; destruct i as [|y i]; cbn [mi_le] in H; try discriminate; [cbn; lia|].
    apply andb_true_iff in H. destruct H as [Ha Hb]. apply Nat.leb_le in Ha. specialize (IHj i Hb). rewrite !isum_cons. lia.
  Qed.

  Lemma mi_le_sum j : forall i, mi_le j i = true -> mi_eqb j i = false -> isum j < isum i.
  Proof.
    induction j as [|a j IH]; intros i Hle Hne; destruct i as [|b i]; cbn [mi_le mi_eqb] in Hle, Hne; try discriminate.
    apply andb_true_iff in Hle. destruct Hle as [H1 H2]. apply Nat.leb_le in H1. rewrite !isum_cons.
    destruct (Nat.eqb_spec a b) as [->|Hab]; cbn [andb] in Hne.
    - specialize (IH i H2 Hne). lia.
    - pose proof (mi_le_sum_le j i H2). lia.
  Qed.

  Lemma mi_le_length j : forall i, mi_le j i = true -> length j = length i.
  Proof. induction j as [|a j IH]; intros [|b i] H; cbn in *; try discriminate; [reflexivity|]. apply andb_true_iff in H. f_equal. apply IH. tauto. Qed.

  Variable d : nat.
  Variable Theta : list mindex.
  Hypothesis Theta_nodup : NoDup Theta.
  Hypothesis Theta_len : forall t, In t Theta -> length t = d.
  Variable v : mindex -> Qc.

  (* C01 (Sequence grids): for EVERY duplicate-free index set the interpolant equals the supplied value at every node *)
  Theorem sequence_reproduces : forall i, In i Theta -> seq_interp xs v Theta (node_of xs i) = v i.
  Proof.
    intros i Hi. unfold seq_interp.
    change (fun j : mindex => basis xs j (node_of xs i)) with (fun j : mindex => Bseq i j).
    apply (interp_at_node Qc 0%Qc 1%Qc Qcplus Qcmult Qcminus Qcopp Qcrt mindex mi_eqb mi_eqb_spec Bseq (reach_seq Theta) v (by_sum Theta)).
    - apply by_sum_NoDup. exact Theta_nodup.
    - intros k _. apply B_diag.
    - intros k _. unfold reach_seq. apply NoDup_filter. exact Theta_nodup.
    - intros k j Hk Hj. unfold reach_seq in Hj. apply filter_In in Hj. destruct Hj as [Hj Hc].
      apply andb_true_iff in Hc. destruct Hc as [_ Hne]. split; [apply by_sum_In; exact Hj|].
      destruct (mi_eqb_spec j k); [discriminate|assumption].
    - intros k j Hk Hj Hne Hnr. apply (proj1 (by_sum_In Theta k)) in Hk. apply (proj1 (by_sum_In Theta j)) in Hj.
      destruct (mi_le j k) eqn:Ele.
      + exfalso. apply Hnr. unfold reach_seq. apply filter_In. split; [exact Hj|]. rewrite Ele. cbn.
        destruct (mi_eqb_spec j k); [contradiction|reflexivity].
      + apply B_zero; [rewrite (Theta_len j Hj), (Theta_len k Hk); reflexivity|exact Ele].
    - intros pre k post E j Hj. unfold reach_seq in Hj. apply filter_In in Hj. destruct Hj as [Hj Hc].
      apply andb_true_iff in Hc. destruct Hc as [Hle Hne]. apply negb_true_iff in Hne.
      apply (sorted_split_before (by_sum Theta) (by_sum_sorted Theta) pre k post E j); [apply by_sum_In; exact Hj|].
      apply mi_le_sum; assumption.
    - apply by_sum_In. exact Hi.
  Qed.
End Seq.
