(* Local-polynomial grids whose point set is closed under (existing) parents pass the decidable certificate
   [hier_cert]: the level ordering is a topological order, the depth-first ancestor walk [reach] computes exactly the
   strict ancestors through present parents, and a basis function that does not vanish at the node of a point belongs
   to one of those ancestors.  The one-dimensional facts are a premise ([tree1d_facts], Proofs/LocalTreeSpec.v). *)
From TV Require Import Common.Prelude Model.IndexSets Model.RuleLocal Model.Selection Model.Hier Model.LocalGrid.
From TV Require Import Proofs.IndexSetsProofs Proofs.SelectionProofs Proofs.HierProofs Proofs.LocalGridProofs Proofs.LocalTreeSpec.
From Coq Require Import QArith Qcanon Sorting.Sorted.
Local Open Scope Z_scope.

(* ------------------------------------------------------------------------------------------------------------ *)
(* booleans *)

Lemma NoDup_nodupb l : NoDup l -> nodupb l = true.
Proof.
  induction 1 as [|x l Hx Hnd IH]; cbn [nodupb]; [reflexivity|].
  rewrite IH, andb_true_r. apply negb_true_iff. destruct (memb x l) eqn:E; [|reflexivity].
  apply memb_In in E. contradiction.
Qed.

Lemma topob_complete reachf : forall rest p0,
  (forall pre i post, rest = pre ++ i :: post -> forall j, In j (reachf i) -> In j (p0 ++ pre)) ->
  topob reachf p0 rest = true.
Proof.
  induction rest as [|a rest IH]; intros p0 H; [reflexivity|].
  cbn [topob]. apply andb_true_iff. split.
  - apply forallb_forall. intros j Hj. apply memb_In. pose proof (H [] a rest eq_refl j Hj) as H0.
    rewrite app_nil_r in H0. exact H0.
  - apply IH. intros pre i post E j Hj. rewrite <- app_assoc. cbn [app].
    apply (H (a :: pre) i post); [cbn [app]; rewrite E; reflexivity|exact Hj].
Qed.

Lemma Q2Qc_one q : (q == 1)%Q -> Q2Qc q = 1%Qc.
Proof. intros H. apply Qc_is_canon. unfold Q2Qc. cbn [this]. rewrite !Qred_correct. exact H. Qed.

Lemma Q2Qc_zero q : (q == 0)%Q -> Q2Qc q = 0%Qc.
Proof. intros H. apply Qc_is_canon. unfold Q2Qc. cbn [this]. rewrite !Qred_correct. exact H. Qed.

Lemma Qc_eq_bool_refl x : Qc_eq_bool x x = true.
Proof. unfold Qc_eq_bool. destruct (Qc_eq_dec x x); congruence. Qed.

(* ------------------------------------------------------------------------------------------------------------ *)
(* lists *)

Lemma set_nth_twice l : forall n a b, set_nth (set_nth l n a) n b = set_nth l n b.
Proof.
  induction l as [|x l IH]; intros n a b; [reflexivity|].
  destruct n as [|n]; cbn [set_nth]; [reflexivity|]. rewrite IH. reflexivity.
Qed.

Lemma set_nth_app pre : forall a suf b, set_nth (pre ++ a :: suf) (length pre) b = pre ++ b :: suf.
Proof.
  induction pre as [|x pre IH]; intros a suf b; cbn [app length set_nth]; [reflexivity|].
  rewrite IH. reflexivity.
Qed.

Lemma flat_map_length_le {A B} (f : A -> list B) (k : nat) l :
  (forall x, In x l -> length (f x) <= k)%nat -> (length (flat_map f l) <= length l * k)%nat.
Proof.
  induction l as [|a l IH]; cbn [flat_map length Nat.mul]; intros H; [lia|].
  rewrite app_length. pose proof (H a (or_introl eq_refl)) as Ha.
  assert (Hl : (length (flat_map f l) <= length l * k)%nat) by (apply IH; intros x Hx; apply H; right; exact Hx).
  lia.
Qed.

Lemma nth_nonneg i dir : Forall (fun p => 0 <= p) i -> 0 <= nth dir i 0.
Proof.
  intros H. destruct (Nat.lt_ge_cases dir (length i)) as [Hl|Hl].
  - rewrite Forall_forall in H. apply H. apply nth_In. exact Hl.
  - rewrite nth_overflow by exact Hl. lia.
Qed.

(* ------------------------------------------------------------------------------------------------------------ *)
(* ordering by level *)

Section ByLevel.
  Variable r : erule.
  Notation ls := (levelsum r).
  Notation le_level := (fun a b : idx => levelsum r a <= levelsum r b).

  Lemma insert_by_level_In x l y : In y (insert_by_level r x l) <-> y = x \/ In y l.
  Proof.
    induction l as [|z l IH]; cbn [insert_by_level].
    - cbn [In]. intuition congruence.
    - destruct (ls x <? ls z); cbn [In]; [intuition congruence|]. rewrite IH. intuition congruence.
  Qed.

  Lemma by_level_In pts y : In y (by_level r pts) <-> In y pts.
  Proof.
    induction pts as [|x l IH]; unfold by_level; cbn [fold_right]; [tauto|].
    fold (by_level r l). rewrite insert_by_level_In, IH. cbn [In]. intuition congruence.
  Qed.

  Lemma insert_by_level_sorted x l : StronglySorted le_level l -> StronglySorted le_level (insert_by_level r x l).
  Proof.
    induction l as [|z l IH]; intros Hs; cbn [insert_by_level]; [repeat constructor|].
    inversion Hs as [|? ? Hs' Hz]; subst. destruct (Z.ltb_spec (ls x) (ls z)) as [Hlt|Hge].
    - constructor; [exact Hs|]. constructor; [lia|]. rewrite Forall_forall in *. intros y Hy. specialize (Hz y Hy). lia.
    - constructor; [apply IH; exact Hs'|]. rewrite Forall_forall in *. intros y Hy. apply insert_by_level_In in Hy.
      destruct Hy as [->|Hy]; [lia|auto].
  Qed.

  Lemma by_level_sorted pts : StronglySorted le_level (by_level r pts).
  Proof.
    induction pts as [|x l IH]; unfold by_level; cbn [fold_right]; [constructor|].
    apply insert_by_level_sorted. exact IH.
  Qed.

  Lemma insert_by_level_NoDup x l : NoDup l -> ~ In x l -> NoDup (insert_by_level r x l).
  Proof.
    induction l as [|z l IH]; intros Hn Hx; cbn [insert_by_level]; [repeat constructor; auto|].
    destruct (ls x <? ls z); [constructor; assumption|].
    inversion Hn as [|? ? Hz Hn']; subst. constructor.
    - rewrite insert_by_level_In. intros [->|H]; [apply Hx; left; reflexivity|contradiction].
    - apply IH; [assumption|]. intro H. apply Hx. right. exact H.
  Qed.

  Lemma by_level_NoDup pts : NoDup pts -> NoDup (by_level r pts).
  Proof.
    induction pts as [|x l IH]; intros Hn; unfold by_level; cbn [fold_right]; [constructor|].
    inversion Hn as [|? ? Hx Hn']; subst. fold (by_level r l).
    apply insert_by_level_NoDup; [apply IH; assumption|]. rewrite by_level_In. assumption.
  Qed.

  Lemma level_sorted_split_before (l : list idx) : StronglySorted le_level l ->
    forall pre i post, l = pre ++ i :: post -> forall j, In j l -> ls j < ls i -> In j pre.
  Proof.
    intros Hs pre i post E j Hj Hlt. subst l. apply in_app_or in Hj.
    destruct Hj as [Hj|[Hj|Hj]]; [exact Hj|subst; lia|].
    exfalso. clear -Hs Hj Hlt. induction pre as [|a pre IH]; cbn [app] in Hs.
    - inversion Hs as [|? ? _ Hi]; subst. rewrite Forall_forall in Hi. specialize (Hi j Hj). lia.
    - inversion Hs; subst. apply IH. assumption.
  Qed.

  Lemma levelsum_cons a i : ls (a :: i) = getLevel r a + ls i.
  Proof. reflexivity. Qed.

  Lemma levelsum_set_nth i : forall dir q, (dir < length i)%nat ->
    ls (set_nth i dir q) = ls i - getLevel r (nth dir i 0) + getLevel r q.
  Proof.
    induction i as [|a i IH]; intros dir q H; cbn [length] in H; [lia|].
    destruct dir as [|dir]; cbn [set_nth nth]; rewrite !levelsum_cons; [lia|].
    rewrite IH by lia. lia.
  Qed.

  (* ---- membership in [parents] ---- *)
  Lemma parents_In pts i j : In j (parents r pts i) <->
    exists dir q, (dir < length i)%nat /\ In q (parents1d r (nth dir i 0)) /\ j = set_nth i dir q /\ In j pts.
  Proof.
    unfold parents. rewrite in_flat_map. split.
    - intros [dir [Hd Hj]]. apply in_seq in Hd. apply in_flat_map in Hj. destruct Hj as [q [Hq Hj]].
      cbv zeta in Hj. destruct (memb (set_nth i dir q) pts) eqn:E; [|contradiction]. destruct Hj as [<-|[]].
      exists dir, q. split; [lia|]. split; [exact Hq|]. split; [reflexivity|]. apply memb_In. exact E.
    - intros [dir [q [Hd [Hq [-> Hin]]]]]. exists dir. split; [apply in_seq; lia|]. apply in_flat_map. exists q.
      split; [exact Hq|]. cbv zeta. apply memb_In in Hin. rewrite Hin. left; reflexivity.
  Qed.

  Lemma parents1d_length p : (length (parents1d r p) <= 2)%nat.
  Proof.
    unfold parents1d. cbn [filter].
    destruct (negb (getParent r p =? -1)); destruct (negb (getStepParent r p =? -1)); cbn [length]; lia.
  Qed.

  Lemma parents_length pts i : (length (parents r pts i) <= length i * 2)%nat.
  Proof.
    unfold parents. rewrite <- (seq_length (length i) 0) at 2. apply flat_map_length_le. intros dir _.
    pose proof (parents1d_length (nth dir i 0)) as H2.
    pose proof (flat_map_length_le (fun q => let pa := set_nth i dir q in if memb pa pts then [pa] else []) 1
                  (parents1d r (nth dir i 0))) as H.
    cbv beta zeta in H. rewrite Nat.mul_1_r in H. etransitivity; [apply H|exact H2].
    intros q _. destruct (memb (set_nth i dir q) pts); cbn [length]; lia.
  Qed.

  (* ---- unfolding of the fuelled closure ---- *)
  Lemma closure_nil f pts acc : closure r f pts [] acc = acc.
  Proof. destruct f; reflexivity. Qed.
  Lemma closure_S f pts x fr acc : closure r (S f) pts (x :: fr) acc =
    if memb x acc then closure r f pts fr acc else closure r f pts (parents r pts x ++ fr) (x :: acc).
  Proof. reflexivity. Qed.
End ByLevel.

(* ------------------------------------------------------------------------------------------------------------ *)
Section Main.
  Variable r : erule.
  Variable order : Z.
  Hypothesis TF : tree1d_facts r order.
  Variable d : nat.
  Variable pts : list idx.
  Hypothesis Hne : pts <> [].
  Hypothesis Hnd : NoDup pts.
  Hypothesis Hwf : forall i, In i pts -> length i = d /\ Forall (fun p => 0 <= p) i.
  Hypothesis Hpc : parent_complete r pts = true.

  Notation par := (parents r pts).
  Notation nodes := (by_level r pts).
  Notation ls := (levelsum r).

  Lemma pc_spec i dir q : In i pts -> (dir < length i)%nat -> In q (parents1d r (nth dir i 0)) ->
    In (set_nth i dir q) pts.
  Proof.
    intros Hi Hd Hq. pose proof Hpc as H. unfold parent_complete in H. rewrite forallb_forall in H.
    specialize (H i Hi). rewrite forallb_forall in H.
    assert (Hs : In dir (seq 0 (length i))) by (apply in_seq; lia).
    specialize (H dir Hs). rewrite forallb_forall in H. apply memb_In. apply H. exact Hq.
  Qed.

  Lemma par_in_pts i j : In j (par i) -> In j pts.
  Proof. intros H. apply parents_In in H. destruct H as [dir [q [_ [_ [_ H]]]]]. exact H. Qed.

  Lemma par_level i j : In i pts -> In j (par i) -> ls j < ls i.
  Proof.
    intros Hi Hj. apply parents_In in Hj. destruct Hj as [dir [q [Hd [Hq [-> _]]]]].
    rewrite levelsum_set_nth by exact Hd. destruct (Hwf i Hi) as [_ Hnn].
    pose proof (tf_level _ _ TF (nth dir i 0) q (nth_nonneg i dir Hnn) Hq) as H. lia.
  Qed.

  Lemma par_length i : In i pts -> (length (par i) <= d * 2)%nat.
  Proof. intros Hi. destruct (Hwf i Hi) as [<- _]. apply parents_length. Qed.

  (* reachable through >= 0 present-parent steps / through >= 1 steps *)
  Inductive rt : idx -> idx -> Prop :=
  | rt_refl x : rt x x
  | rt_step x m y : In m (par x) -> rt m y -> rt x y.
  Definition anc (x y : idx) : Prop := exists m, In m (par x) /\ rt m y.

  Lemma rt_trans x y z : rt x y -> rt y z -> rt x z.
  Proof.
    induction 1 as [x|x m y Hm Hrt IH]; intros Hz; [exact Hz|].
    eapply rt_step; [exact Hm|apply IH; exact Hz].
  Qed.

  Lemma rt_in_pts x y : rt x y -> In x pts -> In y pts.
  Proof. induction 1 as [x|x m y Hm Hrt IH]; intros Hx; [exact Hx|]. apply IH. eapply par_in_pts. exact Hm. Qed.

  Lemma rt_level x y : rt x y -> In x pts -> ls y <= ls x.
  Proof.
    induction 1 as [x|x m y Hm Hrt IH]; intros Hx; [lia|].
    pose proof (par_level x m Hx Hm). pose proof (IH (par_in_pts x m Hm)). lia.
  Qed.

  Lemma anc_level x y : In x pts -> anc x y -> ls y < ls x.
  Proof.
    intros Hx [m [Hm Hrt]]. pose proof (par_level x m Hx Hm). pose proof (rt_level m y Hrt (par_in_pts x m Hm)). lia.
  Qed.

  Lemma anc_in_pts x y : anc x y -> In y pts.
  Proof. intros [m [Hm Hrt]]. apply (rt_in_pts m y Hrt). eapply par_in_pts. exact Hm. Qed.

  Lemma rt_anc x y : rt x y -> x <> y -> anc x y.
  Proof. intros H Hne'. inversion H as [|? m ? Hm Hrt]; subst; [congruence|]. exists m. split; assumption. Qed.

  (* ---- the depth-first walk ---- *)
  Notation clo f fr acc := (closure r f pts fr acc).

  Lemma closure_acc_incl : forall f fr acc x, In x acc -> In x (clo f fr acc).
  Proof.
    induction f as [|f IH]; intros fr acc x Hx; [exact Hx|].
    destruct fr as [|a fr]; [rewrite closure_nil; exact Hx|]. rewrite closure_S.
    destruct (memb a acc); apply IH; [exact Hx|right; exact Hx].
  Qed.

  Lemma closure_NoDup : forall f fr acc, NoDup acc -> NoDup (clo f fr acc).
  Proof.
    induction f as [|f IH]; intros fr acc Hn; [exact Hn|].
    destruct fr as [|a fr]; [rewrite closure_nil; exact Hn|]. rewrite closure_S.
    destruct (memb a acc) eqn:E; apply IH; [exact Hn|]. constructor; [|exact Hn].
    intro H. apply memb_In in H. congruence.
  Qed.

  Lemma closure_in_pts : forall f fr acc, incl acc pts -> incl fr pts -> incl (clo f fr acc) pts.
  Proof.
    induction f as [|f IH]; intros fr acc Ha Hf; [exact Ha|].
    destruct fr as [|a fr]; [rewrite closure_nil; exact Ha|]. rewrite closure_S.
    destruct (memb a acc); apply IH.
    - exact Ha.
    - intros z Hz. apply Hf. right. exact Hz.
    - intros z [<-|Hz]; [apply Hf; left; reflexivity|apply Ha; exact Hz].
    - intros z Hz. apply in_app_or in Hz. destruct Hz as [Hz|Hz]; [eapply par_in_pts; exact Hz|apply Hf; right; exact Hz].
  Qed.

  Lemma closure_sound : forall f fr acc y, In y (clo f fr acc) -> In y acc \/ exists x, In x fr /\ rt x y.
  Proof.
    induction f as [|f IH]; intros fr acc y Hy; [left; exact Hy|].
    destruct fr as [|a fr]; [rewrite closure_nil in Hy; left; exact Hy|]. rewrite closure_S in Hy.
    destruct (memb a acc).
    - destruct (IH _ _ _ Hy) as [H|[x [Hx Hrt]]]; [left; exact H|]. right. exists x. split; [right; exact Hx|exact Hrt].
    - destruct (IH _ _ _ Hy) as [[<-|H]|[x [Hx Hrt]]].
      + right. exists a. split; [left; reflexivity|apply rt_refl].
      + left. exact H.
      + apply in_app_or in Hx. destruct Hx as [Hx|Hx].
        * right. exists a. split; [left; reflexivity|]. eapply rt_step; [exact Hx|exact Hrt].
        * right. exists x. split; [right; exact Hx|exact Hrt].
  Qed.

  Definition inv (fr acc : list idx) : Prop := forall y, In y acc -> forall p, In p (par y) -> In p acc \/ In p fr.
  Definition closed (l : list idx) : Prop := forall y, In y l -> forall p, In p (par y) -> In p l.

  Lemma closure_complete : forall f fr acc, NoDup acc -> incl acc pts -> incl fr pts ->
    (length fr + (length pts - length acc) * (d * 2) <= f)%nat -> inv fr acc ->
    incl fr (clo f fr acc) /\ closed (clo f fr acc).
  Proof.
    induction f as [|f IH]; intros fr acc Hna Hia Hif Hm Hinv.
    - assert (Hfr : fr = []) by (destruct fr; [reflexivity|cbn [length] in Hm; exfalso; generalize dependent ((length pts - length acc) * (d * 2))%nat; intros; lia]). subst fr. cbn [closure].
      split; [intros x []|]. intros y Hy p Hp. destruct (Hinv y Hy p Hp) as [H|[]]; exact H.
    - destruct fr as [|x fr].
      + rewrite closure_nil. split; [intros x []|]. intros y Hy p Hp. destruct (Hinv y Hy p Hp) as [H|[]]; exact H.
      + rewrite closure_S. destruct (memb x acc) eqn:E.
        * apply memb_In in E. destruct (IH fr acc Hna Hia) as [H1 H2].
          -- intros z Hz; apply Hif; right; exact Hz.
          -- cbn [length] in Hm. generalize dependent ((length pts - length acc) * (d * 2))%nat. intros; lia.
          -- intros y Hy p Hp. destruct (Hinv y Hy p Hp) as [H|[H|H]]; [left; exact H|subst; left; exact E|right; exact H].
          -- split; [|exact H2]. intros z [<-|Hz]; [apply closure_acc_incl; exact E|apply H1; exact Hz].
        * assert (Hnx : ~ In x acc) by (intro H; apply memb_In in H; congruence).
          assert (Hxp : In x pts) by (apply Hif; left; reflexivity).
          assert (Hna' : NoDup (x :: acc)) by (constructor; assumption).
          assert (Hia' : incl (x :: acc) pts) by (intros z [<-|Hz]; [exact Hxp|apply Hia; exact Hz]).
          pose proof (NoDup_incl_length Hna' Hia') as Hlen. cbn [length] in Hlen.
          destruct (IH (par x ++ fr) (x :: acc) Hna' Hia') as [H1 H2].
          -- intros z Hz. apply in_app_or in Hz.
             destruct Hz as [Hz|Hz]; [apply par_in_pts in Hz; exact Hz|apply Hif; right; exact Hz].
          -- rewrite app_length. cbn [length] in Hm |- *. pose proof (par_length x Hxp) as Hpl.
             remember (d * 2)%nat as K eqn:EK.
             replace (length pts - length acc)%nat with (S (length pts - S (length acc))) in Hm by lia.
             cbn [Nat.mul] in Hm. generalize dependent ((length pts - S (length acc)) * K)%nat. intros; lia.
          -- intros y [<-|Hy] p Hp; [right; apply in_or_app; left; exact Hp|].
             destruct (Hinv y Hy p Hp) as [H|[H|H]];
               [left; right; exact H|subst; left; left; reflexivity|right; apply in_or_app; right; exact H].
          -- split; [|exact H2].
             intros z [<-|Hz]; [apply closure_acc_incl; left; reflexivity|apply H1; apply in_or_app; right; exact Hz].
  Qed.

  (* ---- [reach] = strict ancestors through present parents ---- *)
  Lemma reach_iff i j : In i pts -> (In j (reach r pts i) <-> anc i j).
  Proof.
    intros Hi. unfold reach. split.
    - intros H. apply closure_sound in H. destruct H as [[]|[x [Hx Hrt]]]. exists x. split; assumption.
    - intros [m [Hm Hrt]].
      destruct (closure_complete (S (length pts) * (2 * length i + 2)) (par i) []) as [H1 H2].
      + constructor.
      + intros z [].
      + intros z Hz. eapply par_in_pts. exact Hz.
      + pose proof (par_length i Hi) as Hpl. destruct (Hwf i Hi) as [Hl _]. rewrite Hl. cbn [length].
        rewrite Nat.sub_0_r. nia.
      + intros y [].
      + apply H1 in Hm. clear H1. revert Hm. induction Hrt as [x|x m' y Hm' Hrt IH]; intros Hx; [exact Hx|].
        apply IH. apply (H2 x Hx m' Hm').
  Qed.

  Lemma reach_NoDup i : NoDup (reach r pts i).
  Proof. unfold reach. apply closure_NoDup. constructor. Qed.

  Lemma reach_in_pts i j : In j (reach r pts i) -> In j pts.
  Proof.
    unfold reach. apply closure_in_pts; [intros z []|]. intros z Hz. eapply par_in_pts. exact Hz.
  Qed.

  Lemma reach_level i j : In i pts -> In j (reach r pts i) -> ls j < ls i.
  Proof. intros Hi Hj. apply anc_level; [exact Hi|]. apply reach_iff; assumption. Qed.

  (* ---- the product structure of the basis ---- *)
  Lemma lift1 p q : anc1 r p q -> forall x k, In x pts -> (k < length x)%nat -> nth k x 0 = p ->
    In (set_nth x k q) pts /\ rt x (set_nth x k q).
  Proof.
    induction 1 as [p q Hq|p m q Hm Hanc IH]; intros x k Hx Hk Hn.
    - assert (Hin : In (set_nth x k q) pts) by (apply pc_spec; [exact Hx|exact Hk|rewrite Hn; exact Hq]).
      split; [exact Hin|]. eapply rt_step; [|apply rt_refl]. apply parents_In. exists k, q. rewrite Hn.
      split; [exact Hk|]. split; [exact Hq|]. split; [reflexivity|exact Hin].
    - assert (Hin : In (set_nth x k m) pts) by (apply pc_spec; [exact Hx|exact Hk|rewrite Hn; exact Hm]).
      destruct (IH (set_nth x k m) k Hin) as [H1 H2]; [rewrite set_nth_length; exact Hk|apply nth_set_nth; exact Hk|].
      rewrite set_nth_twice in H1, H2. split; [exact H1|]. eapply rt_step; [|exact H2].
      apply parents_In. exists k, m. rewrite Hn.
      split; [exact Hk|]. split; [exact Hm|]. split; [reflexivity|exact Hin].
  Qed.

  Lemma mix ia ja : Forall2 (fun a b => b = a \/ anc1 r a b) ia ja ->
    forall pre, In (pre ++ ia) pts -> rt (pre ++ ia) (pre ++ ja).
  Proof.
    induction 1 as [|a b ia ja Hab Hrest IH]; intros pre Hin; [apply rt_refl|].
    assert (H : In (pre ++ b :: ia) pts /\ rt (pre ++ a :: ia) (pre ++ b :: ia)).
    { destruct Hab as [->|Hanc]; [split; [exact Hin|apply rt_refl]|].
      pose proof (lift1 a b Hanc (pre ++ a :: ia) (length pre) Hin) as H.
      rewrite set_nth_app in H. apply H; [rewrite app_length; cbn [length]; lia|apply nth_middle]. }
    destruct H as [H1 H2]. specialize (IH (pre ++ [b])). rewrite <- !app_assoc in IH. cbn [app] in IH.
    eapply rt_trans; [exact H2|apply IH; exact H1].
  Qed.

  Lemma basis_zero_or_anc : forall i j, length i = length j ->
    Forall (fun p => 0 <= p) i -> Forall (fun p => 0 <= p) j ->
    (basisQ r order j (node_of r i) == 0)%Q \/ Forall2 (fun a b => b = a \/ anc1 r a b) i j.
  Proof.
    unfold node_of. induction i as [|a i IH]; intros [|b j] Hl Hi Hj; cbn [length] in Hl; try discriminate.
    - right. constructor.
    - inversion Hi as [|? ? Ha Hi']; subst. inversion Hj as [|? ? Hb Hj']; subst.
      cbn [map basisQ]. destruct (IH j) as [H0|HF]; [lia|exact Hi'|exact Hj'| |].
      + left. rewrite H0. apply Qmult_0_r.
      + destruct (Z.eq_dec b a) as [->|Hne'].
        * right. constructor; [left; reflexivity|exact HF].
        * destruct (Qeq_dec (evalRaw r order b (getNode r a)) 0) as [H0|Hn0].
          -- left. rewrite H0. apply Qmult_0_l.
          -- right. constructor; [|exact HF]. right. apply (tf_anc _ _ TF a b Ha Hb Hne' Hn0).
  Qed.

  Lemma basis_diag : forall i, Forall (fun p => 0 <= p) i -> (basisQ r order i (node_of r i) == 1)%Q.
  Proof.
    unfold node_of. induction i as [|a i IH]; intros Hi; cbn [map basisQ]; [reflexivity|].
    inversion Hi as [|? ? Ha Hi']; subst. rewrite (tf_unit _ _ TF a Ha), (IH Hi'). apply Qmult_1_l.
  Qed.

  Lemma Bc_diag i : In i pts -> Bc r order i i = 1%Qc.
  Proof. intros Hi. unfold Bc. apply Q2Qc_one. apply basis_diag. apply (Hwf i Hi). Qed.

  Lemma Bc_zero i j : In i pts -> In j pts -> j <> i -> ~ In j (reach r pts i) -> Bc r order i j = 0%Qc.
  Proof.
    intros Hi Hj Hji Hnr. destruct (Hwf i Hi) as [Hli Hni]. destruct (Hwf j Hj) as [Hlj Hnj].
    destruct (basis_zero_or_anc i j) as [H0|HF]; [congruence|exact Hni|exact Hnj| |].
    - unfold Bc. apply Q2Qc_zero. exact H0.
    - exfalso. apply Hnr. apply reach_iff; [exact Hi|]. apply rt_anc; [|congruence].
      apply (mix i j HF []). exact Hi.
  Qed.

  (* ---- the certificate ---- *)
  Lemma nodes_pts i : In i nodes <-> In i pts.
  Proof. apply by_level_In. Qed.

  Lemma cert_len : forallb (fun i => Nat.eqb (length i) (length (hd [] pts))) nodes = true.
  Proof.
    apply forallb_forall. intros i Hi. apply nodes_pts in Hi. apply Nat.eqb_eq.
    assert (Hh : In (hd [] pts) pts) by (destruct pts as [|a l]; [congruence|left; reflexivity]).
    destruct (Hwf i Hi) as [-> _]. destruct (Hwf _ Hh) as [-> _]. reflexivity.
  Qed.

  Lemma cert_nodup : nodupb nodes = true.
  Proof. apply NoDup_nodupb. apply by_level_NoDup. exact Hnd. Qed.

  Lemma cert_diag : forallb (fun i => Qc_eq_bool (Bc r order i i) 1%Qc) nodes = true.
  Proof.
    apply forallb_forall. intros i Hi. apply nodes_pts in Hi. rewrite (Bc_diag i Hi). apply Qc_eq_bool_refl.
  Qed.

  Lemma cert_reach_nodup : forallb (fun i => nodupb (reach r pts i)) nodes = true.
  Proof. apply forallb_forall. intros i _. apply NoDup_nodupb. apply reach_NoDup. Qed.

  Lemma cert_reach_in :
    forallb (fun i => forallb (fun j => memb j nodes && negb (idx_eqb j i)) (reach r pts i)) nodes = true.
  Proof.
    apply forallb_forall. intros i Hi. apply nodes_pts in Hi. apply forallb_forall. intros j Hj.
    apply andb_true_iff. split.
    - apply memb_In. apply nodes_pts. eapply reach_in_pts. exact Hj.
    - apply negb_true_iff. destruct (idx_eqb_spec j i) as [->|Hji]; [|reflexivity].
      pose proof (reach_level i i Hi Hj). lia.
  Qed.

  Lemma cert_zero :
    forallb (fun i => let ri := reach r pts i in
                      forallb (fun j => idx_eqb j i || memb j ri || Qc_eq_bool (Bc r order i j) 0%Qc) nodes) nodes = true.
  Proof.
    apply forallb_forall. intros i Hi. apply nodes_pts in Hi. cbv zeta. apply forallb_forall. intros j Hj.
    apply nodes_pts in Hj. destruct (idx_eqb_spec j i) as [->|Hji]; [reflexivity|]. cbn [orb].
    destruct (memb j (reach r pts i)) eqn:E; [reflexivity|]. cbn [orb].
    rewrite (Bc_zero i j Hi Hj Hji); [apply Qc_eq_bool_refl|]. intro H. apply memb_In in H. congruence.
  Qed.

  Lemma cert_topo : topob (reach r pts) [] nodes = true.
  Proof.
    apply topob_complete. intros pre i post E j Hj. cbn [app].
    assert (Hi : In i pts) by (apply nodes_pts; rewrite E; apply in_or_app; right; left; reflexivity).
    apply (level_sorted_split_before r nodes (by_level_sorted r pts) pre i post E j).
    - apply nodes_pts. eapply reach_in_pts. exact Hj.
    - apply reach_level; assumption.
  Qed.

  Lemma cert_all : hier_cert r order pts = true.
  Proof.
    unfold hier_cert. cbv zeta.
    apply andb_true_iff; split; [|exact cert_topo].
    apply andb_true_iff; split; [|exact cert_zero].
    apply andb_true_iff; split; [|exact cert_reach_in].
    apply andb_true_iff; split; [|exact cert_reach_nodup].
    apply andb_true_iff; split; [|exact cert_diag].
    apply andb_true_iff; split; [exact cert_len|exact cert_nodup].
  Qed.
End Main.

(* ------------------------------------------------------------------------------------------------------------ *)
(* C01 (Local Polynomial, every parent-complete grid): the certificate holds, hence the theorems of LocalGridProofs *)

Theorem complete_grid_cert : forall r order d pts,
  tree1d_facts r order ->
  pts <> [] -> NoDup pts ->
  (forall i, In i pts -> length i = d /\ Forall (fun p => 0 <= p)%Z i) ->
  parent_complete r pts = true ->
  hier_cert r order pts = true.
Proof. intros r order d pts TF Hne Hnd Hwf Hpc. exact (cert_all r order TF d pts Hne Hnd Hwf Hpc). Qed.

Theorem complete_grid_reproduces : forall r order d pts vals,
  tree1d_facts r order ->
  pts <> [] -> NoDup pts ->
  (forall i, In i pts -> length i = d /\ Forall (fun p => 0 <= p)%Z i) ->
  parent_complete r pts = true ->
  forall i, In i (by_level r pts) -> evalAt r order pts vals (node_of r i) = assoc vals i.
Proof.
  intros r order d pts vals TF Hne Hnd Hwf Hpc.
  exact (localgrid_reproduces r order pts vals (complete_grid_cert r order d pts TF Hne Hnd Hwf Hpc)).
Qed.

Theorem complete_grid_unique : forall r order d pts vals,
  tree1d_facts r order ->
  pts <> [] -> NoDup pts ->
  (forall i, In i pts -> length i = d /\ Forall (fun p => 0 <= p)%Z i) ->
  parent_complete r pts = true ->
  forall c1 c2 : idx -> Qc,
  (forall i, In i (by_level r pts) ->
     Hier.sum Qc 0%Qc Qcplus idx (by_level r pts) (fun j => (Bc r order i j * c1 j)%Qc) = assoc vals i) ->
  (forall i, In i (by_level r pts) ->
     Hier.sum Qc 0%Qc Qcplus idx (by_level r pts) (fun j => (Bc r order i j * c2 j)%Qc) = assoc vals i) ->
  forall i, In i (by_level r pts) -> c1 i = c2 i.
Proof.
  intros r order d pts vals TF Hne Hnd Hwf Hpc.
  exact (localgrid_unique r order pts vals (complete_grid_cert r order d pts TF Hne Hnd Hwf Hpc)).
Qed.

(* the points may be given in any order: the interpolant reproduces the value at every point of the grid *)
Corollary complete_grid_reproduces_pts : forall r order d pts vals,
  tree1d_facts r order ->
  pts <> [] -> NoDup pts ->
  (forall i, In i pts -> length i = d /\ Forall (fun p => 0 <= p)%Z i) ->
  parent_complete r pts = true ->
  forall i, In i pts -> evalAt r order pts vals (node_of r i) = assoc vals i.
Proof.
  intros r order d pts vals TF Hne Hnd Hwf Hpc i Hi.
  apply (complete_grid_reproduces r order d pts vals TF Hne Hnd Hwf Hpc). apply by_level_In. exact Hi.
Qed.

Print Assumptions complete_grid_cert.
Print Assumptions complete_grid_reproduces.
Print Assumptions complete_grid_unique.
