(* Goal (A) of the tensor-weights bridge: tw_cpp = tw_lines (Model/TensorWeights.v) on EVERY lexicographically sorted (hence duplicate-free)
   set of multi-indexes of one dimension D >= 1, lower or not.
   (1) sort_pos (the insertion sort standing for std::sort in resortIndexes) returns a permutation of its input that is strongly sorted
       for the comparator, whenever the comparator is a strict total order on the positions; before_d d read on the positions of a sorted
       set IS such an order (it is the lexicographic order of the rotated index  outkey d t ++ [t_d]);  map_d of the last dimension
       (the identity) is sorted for before_d (D-1) as well.
   (2) `runs` cuts the sorted position list into the classes of match_outside d: two neighbours in a run are neighbours in map[d] with the
       same outer key; the last position of a run is followed in map[d] by a position with another key (or by nothing).  With (1): the
       neighbour of x in its run is the FIRST later member (in set order) of the line of x, and the last position of a run has no later member.
   (3) the sweeps of different runs touch disjoint positions: fold_left sweep_line over the runs is described position by position
       (sweep_all_at), the initial pass likewise (init_all_at); these are sweep_dim / init_lines read by position (sweep_dim_at, init_lines_at).
   (4) induction over the directions D-2 .. 0.
   No axioms. *)
From TV Require Import Common.Prelude Model.IndexSets Model.TensorWeights.
From TV Require Import Proofs.IndexSetsProofs Proofs.TensorWeightsProofs.
From Coq Require Import Sorting.Sorted Permutation.
Local Open Scope Z_scope.

(* ================================================================ (1) the insertion sort of positions *)
Section Sort.
  Variable lt : nat -> nat -> bool.
  Variable P : nat -> Prop.
  Hypothesis lt_trans : forall a b c, P a -> P b -> P c -> lt a b = true -> lt b c = true -> lt a c = true.
  Hypothesis lt_total : forall a b, P a -> P b -> a <> b -> lt a b = false -> lt b a = true.

  Lemma insert_pos_perm p l : Permutation (insert_pos lt p l) (p :: l).
  Proof.
    induction l as [|q r IH]; cbn; [apply Permutation_refl|]. destruct (lt q p).
    - apply perm_trans with (q :: p :: r); [apply perm_skip; exact IH|apply perm_swap].
    - apply Permutation_refl.
  Qed.

  Lemma insert_pos_sorted p : forall l, P p -> Forall P l -> ~ In p l -> StronglySorted (fun a b => lt a b = true) l ->
    StronglySorted (fun a b => lt a b = true) (insert_pos lt p l).
  Proof.
    induction l as [|q r IH]; intros Hp HP Hn Hs; cbn [insert_pos].
    - constructor; constructor.
    - inversion HP as [|? ? Hq HPr]; subst. inversion Hs as [|? ? Hsr Hqr]; subst.
      destruct (lt q p) eqn:E.
      + constructor.
        * apply IH; auto. intro H; apply Hn; right; exact H.
        * apply Forall_forall. intros x Hx. apply (Permutation_in _ (insert_pos_perm p r)) in Hx. destruct Hx as [<-|Hx]; [exact E|].
          rewrite Forall_forall in Hqr. apply Hqr. exact Hx.
      + assert (Hpq : lt p q = true).
        { apply lt_total; auto. intro Eq. subst. apply Hn. left. reflexivity. }
        constructor; [exact Hs|]. constructor; [exact Hpq|]. apply Forall_forall. intros x Hx.
        rewrite Forall_forall in Hqr, HPr. apply (lt_trans p q x); auto.
  Qed.

  Lemma sort_pos_spec : forall l, NoDup l -> Forall P l ->
    Permutation (sort_pos lt l) l /\ StronglySorted (fun a b => lt a b = true) (sort_pos lt l).
  Proof.
    induction l as [|p r IH]; intros Hnd HP; [split; constructor|].
    change (sort_pos lt (p :: r)) with (insert_pos lt p (sort_pos lt r)).
    inversion Hnd as [|? ? Hn Hnd']; subst. inversion HP as [|? ? Hp HPr]; subst. destruct (IH Hnd' HPr) as [Hperm Hs].
    split.
    - apply perm_trans with (p :: sort_pos lt r); [apply insert_pos_perm|apply perm_skip; exact Hperm].
    - apply insert_pos_sorted; auto.
      + apply Forall_forall. intros x Hx. rewrite Forall_forall in HPr. apply HPr. apply (Permutation_in _ Hperm). exact Hx.
      + intro H. apply Hn. apply (Permutation_in _ Hperm). exact H.
  Qed.
End Sort.

(* ================================================================ generic list facts *)
Lemma ssorted_split {A} (R : A -> A -> Prop) : forall a x b, StronglySorted R (a ++ x :: b) ->
  (forall z, In z a -> R z x) /\ (forall z, In z b -> R x z).
Proof.
  induction a as [|a0 a IH]; intros x b H; cbn [app] in H; inversion H as [|? ? Hs Hf]; subst.
  - split; [intros z []|]. rewrite Forall_forall in Hf. exact Hf.
  - destruct (IH x b Hs) as [H1 H2]. split; [|exact H2]. intros z [<-|Hz]; [|apply H1; exact Hz].
    rewrite Forall_forall in Hf. apply Hf. apply in_elt.
Qed.

Lemma seq_sorted (R : nat -> nat -> Prop) : forall k a, (forall i j, (a <= i)%nat -> (i < j)%nat -> (j < a + k)%nat -> R i j) ->
  StronglySorted R (seq a k).
Proof.
  induction k as [|k IH]; intros a H; cbn [seq]; constructor.
  - apply IH. intros i j H1 H2 H3. apply H; lia.
  - apply Forall_forall. intros j Hj. apply in_seq in Hj. apply H; lia.
Qed.

Lemma NoDup_app_inv {A} (l1 l2 : list A) : NoDup (l1 ++ l2) -> NoDup l1 /\ NoDup l2 /\ (forall x, In x l1 -> ~ In x l2).
Proof.
  induction l1 as [|a l1 IH]; cbn [app]; intros H.
  - repeat split; [constructor|exact H|intros x []].
  - inversion H as [|? ? Hn Hnd]; subst. destruct (IH Hnd) as [A1 [A2 A3]]. repeat split.
    + constructor; [intro Hx; apply Hn; apply in_or_app; left; exact Hx|exact A1].
    + exact A2.
    + intros x [<-|Hx] Hx2; [apply Hn; apply in_or_app; right; exact Hx2|exact (A3 x Hx Hx2)].
Qed.

Lemma split_nth {A} (dflt : A) : forall l x, (x < length l)%nat -> l = firstn x l ++ nth x l dflt :: skipn (S x) l.
Proof.
  induction l as [|a l IH]; intros x Hx; [cbn in Hx; lia|]. destruct x as [|x]; [reflexivity|].
  cbn [firstn nth skipn app]. f_equal. apply IH. cbn in Hx. lia.
Qed.

Lemma nth_skipn_add {A} (dflt : A) : forall k l j, nth j (skipn k l) dflt = nth (k + j) l dflt.
Proof.
  induction k as [|k IH]; intros l j; [reflexivity|]. destruct l as [|a l]; [destruct j; reflexivity|]. cbn [skipn Nat.add nth]. apply IH.
Qed.

Lemma filter_none_nth {A} (f : A -> bool) (dflt : A) l : (forall i, (i < length l)%nat -> f (nth i l dflt) = false) -> filter f l = [].
Proof.
  induction l as [|a l IH]; intros H; [reflexivity|]. cbn [filter]. pose proof (H 0%nat ltac:(cbn; lia)) as H0. cbn [nth] in H0. rewrite H0. apply IH.
  intros i Hi. apply (H (S i)). cbn. lia.
Qed.

Lemma filter_first_nth {A} (f : A -> bool) (dflt : A) : forall l j, (j < length l)%nat -> f (nth j l dflt) = true ->
  (forall i, (i < j)%nat -> f (nth i l dflt) = false) -> exists L, filter f l = nth j l dflt :: L.
Proof.
  induction l as [|a l IH]; intros j Hj Hf Hb; [cbn in Hj; lia|]. destruct j as [|j]; cbn [nth filter] in *.
  - rewrite Hf. eexists. reflexivity.
  - pose proof (Hb 0%nat ltac:(lia)) as H0. cbn [nth] in H0. rewrite H0. cbn [length] in Hj. apply IH; [lia|exact Hf|]. intros i Hi. apply (Hb (S i)). lia.
Qed.

(* neighbours / last element of a list of positions *)
Definition adj (l : list nat) (x y : nat) : Prop := exists a b, l = a ++ x :: y :: b.
Definition lastof (l : list nat) (x : nat) : Prop := exists a, l = a ++ [x].

Lemma adj_app_l l0 l x y : adj l x y -> adj (l0 ++ l) x y.
Proof. intros [a [b ->]]. exists (l0 ++ a), b. rewrite <- app_assoc. reflexivity. Qed.
Lemma adj_app_r l0 l x y : adj l x y -> adj (l ++ l0) x y.
Proof. intros [a [b ->]]. exists a, (b ++ l0). rewrite <- app_assoc. reflexivity. Qed.
Lemma lastof_app_l l0 l x : lastof l x -> lastof (l0 ++ l) x.
Proof. intros [a ->]. exists (l0 ++ a). rewrite <- app_assoc. reflexivity. Qed.
Lemma adj_in l x y : adj l x y -> In x l /\ In y l.
Proof. intros [a [b ->]]. split; apply in_or_app; right; [left|right; left]; reflexivity. Qed.
Lemma lastof_in l x : lastof l x -> In x l.
Proof. intros [a ->]. apply in_or_app. right. left. reflexivity. Qed.

(* ================================================================ the comparator of resortIndexes as a lexicographic order *)
Definition rot (d : nat) (a : idx) : idx := outkey d a ++ [nth d a 0].

Lemma cmp_app k1 : forall k2 u v, length k1 = length k2 ->
  cmp (k1 ++ u) (k2 ++ v) = match cmp k1 k2 with ASameB => cmp u v | r => r end.
Proof.
  induction k1 as [|x k1 IH]; intros [|y k2] u v Hl; cbn in Hl; try discriminate; [reflexivity|].
  cbn [app cmp]. destruct (x <? y); [reflexivity|]. destruct (y <? x); [reflexivity|]. apply IH. lia.
Qed.

Lemma outkey_length d a : (d < length a)%nat -> length (outkey d a) = (length a - 1)%nat.
Proof. intros H. unfold outkey. rewrite app_length, firstn_length, skipn_length. lia. Qed.

Lemma rot_length d a : (d < length a)%nat -> length (rot d a) = length a.
Proof. intros H. unfold rot. rewrite app_length, outkey_length by exact H. cbn. lia. Qed.

Lemma before_d_rot d a b : length a = length b -> (d < length a)%nat -> (before_d d a b = true <-> lt_idx (rot d a) (rot d b)).
Proof.
  intros Hl Hd. unfold before_d, lt_idx, rot. rewrite cmp_app by (rewrite !outkey_length by lia; lia).
  destruct (cmp (outkey d a) (outkey d b)); [split; reflexivity|split; discriminate|]. cbn [cmp].
  destruct (nth d a 0 <? nth d b 0) eqn:E; [split; reflexivity|]. destruct (nth d b 0 <? nth d a 0); split; discriminate.
Qed.

Lemma rot_inj d a b : length a = length b -> rot d a = rot d b -> a = b.
Proof.
  intros Hl H. unfold rot in H. apply app_inj_tail in H. destruct H as [H1 H2]. apply (outkey_nth_eq d); assumption.
Qed.

Lemma rot_last : forall x, x <> [] -> rot (length x - 1) x = x.
Proof.
  induction x as [|a x IH]; intros H; [congruence|]. destruct x as [|b r]; [reflexivity|].
  replace (length (a :: b :: r) - 1)%nat with (S (length (b :: r) - 1)) by (cbn; lia).
  unfold rot in *. rewrite outkey_consS. cbn [nth app]. f_equal. apply IH. discriminate.
Qed.

Lemma sorted_nth_lt : forall (l : list idx), sorted l -> forall i j, (i < j)%nat -> (j < length l)%nat -> lt_idx (nth i l []) (nth j l []).
Proof.
  induction l as [|x l IH]; intros Hs i j Hij Hj; [cbn in Hj; lia|]. apply sorted_cons_inv in Hs. destruct Hs as [Hs Hx].
  destruct j as [|j]; [lia|]. cbn in Hj. destruct i as [|i]; cbn [nth].
  - rewrite Forall_forall in Hx. apply Hx. apply nth_In. lia.
  - apply IH; [exact Hs|lia|lia].
Qed.

Lemma getw_nth : forall W x, NoDup (map fst W) -> (x < length W)%nat -> getw W (nth x (map fst W) []) = nth x (map snd W) 0.
Proof.
  induction W as [|[k v] W IH]; intros x Hnd Hx; [cbn in Hx; lia|]. cbn [map fst snd] in *. inversion Hnd as [|? ? Hn Hnd']; subst.
  destruct x as [|x]; cbn [nth getw].
  - rewrite idx_eqb_refl. reflexivity.
  - cbn in Hx. rewrite idx_eqb_neq; [apply IH; [exact Hnd'|lia]|]. intro E. apply Hn. rewrite E. apply nth_In. rewrite map_length. lia.
Qed.

(* ================================================================ (3) sweeps of several disjoint lines, by position *)
Lemma sweep_line_cons p rest w : rest <> [] ->
  sweep_line (p :: rest) w = set_pos (sweep_line rest w) p (nth p (sweep_line rest w) 0 - zsum (map (fun q => nth q (sweep_line rest w) 0) rest)).
Proof. intros H. destruct rest; [congruence|reflexivity]. Qed.

Lemma sweep_line_at : forall a p b w, NoDup (a ++ p :: b) -> (forall q, In q (a ++ p :: b) -> (q < length w)%nat) ->
  nth p (sweep_line (a ++ p :: b) w) 0 = nth p w 0 - match b with [] => 0 | q :: _ => nth q w 0 end.
Proof.
  induction a as [|x a IH]; intros p b w Hnd Hin; cbn [app] in *.
  - destruct b as [|q b']; [cbn; lia|]. rewrite sweep_line_cons by discriminate.
    inversion Hnd as [|? ? Hnot Hnd']; subst.
    rewrite nth_set_pos_same by (rewrite sweep_line_length; apply Hin; left; reflexivity).
    rewrite sweep_line_untouched by exact Hnot.
    rewrite (sweep_line_vals (q :: b') w Hnd') by (intros q0 Hq0; apply Hin; right; exact Hq0).
    rewrite zsum_sweep_vals. reflexivity.
  - inversion Hnd as [|? ? Hnot Hnd']; subst. rewrite sweep_line_cons by (destruct a; discriminate).
    rewrite nth_set_pos_other by (intro E; subst; apply Hnot; apply in_elt).
    apply IH; [exact Hnd'|]. intros q Hq. apply Hin. right. exact Hq.
Qed.

Definition sweep_all (L : list (list nat)) (w : list Z) : list Z := fold_left (fun w ps => sweep_line ps w) L w.

Lemma sweep_all_length L : forall w, length (sweep_all L w) = length w.
Proof. induction L as [|ps L IH]; intros w; [reflexivity|]. cbn. unfold sweep_all in IH. rewrite IH. apply sweep_line_length. Qed.

Lemma sweep_all_untouched L : forall w q, ~ In q (concat L) -> nth q (sweep_all L w) 0 = nth q w 0.
Proof.
  induction L as [|ps L IH]; intros w q H; [reflexivity|]. cbn [concat] in H. cbn. unfold sweep_all in IH. rewrite IH.
  - apply sweep_line_untouched. intro Hq. apply H. apply in_or_app. left. exact Hq.
  - intro Hq. apply H. apply in_or_app. right. exact Hq.
Qed.

Lemma sweep_all_at : forall L w ps a p b, NoDup (concat L) -> (forall q, In q (concat L) -> (q < length w)%nat) -> In ps L -> ps = a ++ p :: b ->
  nth p (sweep_all L w) 0 = nth p w 0 - match b with [] => 0 | q :: _ => nth q w 0 end.
Proof.
  induction L as [|ps0 L IH]; intros w ps a p b Hnd Hin Hps E; [destruct Hps|]. cbn [concat] in *.
  destruct (NoDup_app_inv _ _ Hnd) as [N1 [N2 N3]].
  change (sweep_all (ps0 :: L) w) with (sweep_all L (sweep_line ps0 w)).
  destruct Hps as [->|Hps].
  - subst ps. rewrite sweep_all_untouched by (apply N3; apply in_elt).
    apply sweep_line_at; [exact N1|]. intros q Hq. apply Hin. apply in_or_app. left. exact Hq.
  - assert (Hsub : forall q, In q ps -> In q (concat L)) by (intros q Hq; apply in_concat; exists ps; split; assumption).
    rewrite (IH (sweep_line ps0 w) ps a p b N2); [| |exact Hps|exact E].
    + assert (Hp : In p ps) by (rewrite E; apply in_elt).
      rewrite sweep_line_untouched by (intro Hq; exact (N3 p Hq (Hsub p Hp))).
      destruct b as [|q b']; [reflexivity|].
      assert (Hq : In q ps) by (rewrite E; apply in_or_app; right; right; left; reflexivity).
      rewrite (sweep_line_untouched ps0 w q) by (intro Hq'; exact (N3 q Hq' (Hsub q Hq))). reflexivity.
    + intros q Hq. rewrite sweep_line_length. apply Hin. apply in_or_app. right. exact Hq.
Qed.

(* the initial pass *)
Definition init_step (w : list Z) (ps : list nat) : list Z := match rev ps with [] => w | p :: _ => set_pos w p 1 end.
Definition init_all (L : list (list nat)) (w : list Z) : list Z := fold_left init_step L w.

Lemma init_step_length w ps : length (init_step w ps) = length w.
Proof. unfold init_step. destruct (rev ps); [reflexivity|apply set_pos_length]. Qed.

Lemma init_step_other w ps p : ~ lastof ps p -> nth p (init_step w ps) 0 = nth p w 0.
Proof.
  intros H. unfold init_step. destruct (rev ps) as [|q r] eqn:E; [reflexivity|]. apply nth_set_pos_other. intro Eq. subst q. apply H.
  exists (rev r). rewrite <- (rev_involutive ps), E. reflexivity.
Qed.

Lemma init_all_length L : forall w, length (init_all L w) = length w.
Proof. induction L as [|ps L IH]; intros w; [reflexivity|]. cbn. unfold init_all in IH. rewrite IH. apply init_step_length. Qed.

Lemma init_all_untouched L : forall w q, ~ In q (concat L) -> nth q (init_all L w) 0 = nth q w 0.
Proof.
  induction L as [|ps L IH]; intros w q H; [reflexivity|]. cbn [concat] in H. cbn. unfold init_all in IH. rewrite IH.
  - apply init_step_other. intro Hq. apply H. apply in_or_app. left. apply lastof_in. exact Hq.
  - intro Hq. apply H. apply in_or_app. right. exact Hq.
Qed.

Lemma init_all_at : forall L w ps a p b, NoDup (concat L) -> (forall q, In q (concat L) -> (q < length w)%nat) -> In ps L -> ps = a ++ p :: b ->
  nth p (init_all L w) 0 = match b with [] => 1 | _ :: _ => nth p w 0 end.
Proof.
  induction L as [|ps0 L IH]; intros w ps a p b Hnd Hin Hps E; [destruct Hps|]. cbn [concat] in *.
  destruct (NoDup_app_inv _ _ Hnd) as [N1 [N2 N3]].
  change (init_all (ps0 :: L) w) with (init_all L (init_step w ps0)).
  destruct Hps as [->|Hps].
  - subst ps. rewrite init_all_untouched by (apply N3; apply in_elt). destruct b as [|q b'].
    + unfold init_step. rewrite rev_unit. apply nth_set_pos_same. apply Hin. apply in_or_app. left. apply in_elt.
    + apply init_step_other. intros [a' Ea].
      destruct (exists_last (l := q :: b') ltac:(discriminate)) as [b1 [z Eb]]. rewrite Eb in Ea, N1.
      replace (a ++ p :: b1 ++ [z]) with ((a ++ p :: b1) ++ [z]) in Ea by (rewrite <- app_assoc; reflexivity).
      apply app_inj_tail in Ea. destruct Ea as [_ Ez]. subst z.
      apply NoDup_remove_2 in N1. apply N1. apply in_or_app. right. apply in_or_app. right. left. reflexivity.
  - assert (Hsub : forall q, In q ps -> In q (concat L)) by (intros q Hq; apply in_concat; exists ps; split; assumption).
    rewrite (IH (init_step w ps0) ps a p b N2); [| |exact Hps|exact E].
    + assert (Hp : In p ps) by (rewrite E; apply in_elt).
      rewrite init_step_other by (intro Hq; apply lastof_in in Hq; exact (N3 p Hq (Hsub p Hp))). reflexivity.
    + intros q Hq. rewrite init_step_length. apply Hin. apply in_or_app. right. exact Hq.
Qed.

(* ================================================================ one sorted set *)
Section Cpp.
  Variable D : nat.
  Variable s : list idx.
  Hypothesis Hsorted : sorted s.
  Hypothesis Hwf : wf D s.
  Local Notation n := (length s).
  Local Notation T p := (nth p s []).

  Lemma T_len p : (p < n)%nat -> length (T p) = D.
  Proof. intros H. apply (Theta_len D s Hwf). apply nth_In. exact H. Qed.

  Definition Bd (d : nat) (a b : nat) : bool := before_d d (T a) (T b).

  (* inside one class of match_outside d the comparator is the order of the positions *)
  Lemma class_order d i j : (i < n)%nat -> (j < n)%nat -> outkey d (T i) = outkey d (T j) -> (Bd d i j = true <-> (i < j)%nat).
  Proof.
    intros Hi Hj Hk. unfold Bd, before_d. rewrite Hk, cmp_refl.
    assert (Hlt : forall a b, (a < b)%nat -> (b < n)%nat -> outkey d (T a) = outkey d (T b) -> nth d (T a) 0 < nth d (T b) 0).
    { intros a b Hab Hb Hkk. apply cmp_outkey_lt; [rewrite !T_len by lia; reflexivity|apply sorted_nth_lt; assumption|exact Hkk]. }
    split; intros H.
    - apply Z.ltb_lt in H. destruct (lt_eq_lt_dec i j) as [[Hc|Hc]|Hc]; [exact Hc|subst; lia|].
      pose proof (Hlt j i Hc Hi (eq_sym Hk)). lia.
    - apply Z.ltb_lt. apply Hlt; assumption.
  Qed.

  Lemma Bd_rot d a b : (d < D)%nat -> (a < n)%nat -> (b < n)%nat -> (Bd d a b = true <-> lt_idx (rot d (T a)) (rot d (T b))).
  Proof. intros Hd Ha Hb. unfold Bd. apply before_d_rot; rewrite !T_len by assumption; [reflexivity|exact Hd]. Qed.

  Lemma Bd_trans d a b c : (d < D)%nat -> (a < n)%nat -> (b < n)%nat -> (c < n)%nat -> Bd d a b = true -> Bd d b c = true -> Bd d a c = true.
  Proof.
    intros Hd Ha Hb Hc H1 H2. apply Bd_rot in H1; try assumption. apply Bd_rot in H2; try assumption. apply Bd_rot; try assumption.
    apply (lt_idx_trans _ (rot d (T b))); try assumption; rewrite !rot_length by (rewrite T_len by assumption; exact Hd); rewrite !T_len by assumption; reflexivity.
  Qed.

  Lemma Bd_total d a b : (d < D)%nat -> (a < n)%nat -> (b < n)%nat -> a <> b -> Bd d a b = false -> Bd d b a = true.
  Proof.
    intros Hd Ha Hb Hne H.
    assert (Hl : length (rot d (T a)) = length (rot d (T b))) by (rewrite !rot_length by (rewrite T_len by assumption; exact Hd); rewrite !T_len by assumption; reflexivity).
    destruct (cmp_total_cases _ _ Hl) as [[H1 _]|[[_ H2]|[_ H3]]].
    - apply Bd_rot in H1; try assumption. congruence.
    - apply Bd_rot; assumption.
    - exfalso. apply Hne. apply rot_inj in H3; [|rewrite !T_len by assumption; reflexivity].
      pose proof (sorted_nodup _ Hsorted) as Hnd. rewrite (NoDup_nth s []) in Hnd. apply Hnd; assumption.
  Qed.

  (* (1) for map[d]: a permutation of the positions, strongly sorted for the comparator (also for the last dimension: the identity) *)
  Lemma map_d_spec d : (d < D)%nat ->
    Permutation (map_d D d s) (seq 0 n) /\ StronglySorted (fun a b => Bd d a b = true) (map_d D d s).
  Proof.
    intros Hd. unfold map_d. destruct (S d =? D)%nat eqn:E.
    - apply Nat.eqb_eq in E. split; [apply Permutation_refl|]. apply seq_sorted. intros i j _ Hij Hj. cbn in Hj.
      apply Bd_rot; [exact Hd|lia|lia|].
      assert (Hr : forall p, (p < n)%nat -> rot d (T p) = T p).
      { intros p Hp. replace d with (length (T p) - 1)%nat by (rewrite T_len by exact Hp; lia). apply rot_last.
        intro E0. pose proof (T_len p Hp) as Hl. rewrite E0 in Hl. cbn in Hl. lia. }
      rewrite !Hr by lia. apply sorted_nth_lt; assumption.
    - apply (sort_pos_spec (Bd d) (fun p => (p < n)%nat)).
      + intros a b c Ha Hb Hc. apply Bd_trans; assumption.
      + intros a b Ha Hb. apply Bd_total; assumption.
      + apply seq_NoDup.
      + apply Forall_forall. intros x Hx. apply in_seq in Hx. lia.
  Qed.

  (* (2) runs *)
  Lemma runs_concat d : forall l cur c, concat (runs d s cur c l) = rev cur ++ l.
  Proof.
    induction l as [|p r IH]; intros cur c; cbn [runs].
    - cbn. rewrite !app_nil_r. reflexivity.
    - destruct (match_outside d c (T p)).
      + rewrite IH. cbn [rev]. rewrite <- app_assoc. reflexivity.
      + cbn [concat]. rewrite IH. reflexivity.
  Qed.

  Lemma runs_spec d : forall l cur c, (forall x, In x cur -> outkey d (T x) = outkey d c) ->
    forall ps, In ps (runs d s cur c l) ->
      (forall x y, adj ps x y -> adj (rev cur ++ l) x y /\ outkey d (T x) = outkey d (T y)) /\
      (forall x, lastof ps x -> lastof (rev cur ++ l) x \/ exists y, adj (rev cur ++ l) x y /\ outkey d (T x) <> outkey d (T y)).
  Proof.
    induction l as [|p r IH]; intros cur c Hc ps Hps; cbn [runs] in Hps.
    - destruct Hps as [<-|[]]. rewrite app_nil_r. split.
      + intros x y Ha. split; [exact Ha|]. apply adj_in in Ha. destruct Ha as [Hx Hy]. apply in_rev in Hx, Hy. rewrite (Hc x Hx), (Hc y Hy). reflexivity.
      + intros x Hx. left. exact Hx.
    - destruct (match_outside d c (T p)) eqn:E.
      + apply match_outside_iff in E.
        assert (Hc' : forall x, In x (p :: cur) -> outkey d (T x) = outkey d c) by (intros x [<-|Hx]; [symmetry; exact E|apply Hc; exact Hx]).
        pose proof (IH (p :: cur) c Hc' ps Hps) as H. cbn [rev] in H. rewrite <- app_assoc in H. exact H.
      + assert (Hne : outkey d c <> outkey d (T p)) by (intro Eq; apply match_outside_iff in Eq; congruence).
        destruct Hps as [<-|Hps].
        * split.
          -- intros x y Ha. split; [apply adj_app_r; exact Ha|]. apply adj_in in Ha. destruct Ha as [Hx Hy]. apply in_rev in Hx, Hy.
             rewrite (Hc x Hx), (Hc y Hy). reflexivity.
          -- intros x [a Ea]. right. exists p. split.
             ++ exists a, r. rewrite Ea, <- app_assoc. reflexivity.
             ++ assert (Hx : In x cur) by (apply in_rev; rewrite Ea; apply in_or_app; right; left; reflexivity).
                rewrite (Hc x Hx). exact Hne.
        * assert (Hc' : forall x, In x [p] -> outkey d (T x) = outkey d (T p)) by (intros x [<-|[]]; reflexivity).
          destruct (IH [p] (T p) Hc' ps Hps) as [H1 H2]. cbn [rev app] in H1, H2. split.
          -- intros x y Ha. destruct (H1 x y Ha) as [Hadj Hk]. split; [apply adj_app_l; exact Hadj|exact Hk].
          -- intros x Hx. destruct (H2 x Hx) as [Hl|[y [Hadj Hk]]]; [left; apply lastof_app_l; exact Hl|].
             right. exists y. split; [apply adj_app_l; exact Hadj|exact Hk].
  Qed.

  (* the next member of the line of x after x in set order / no later member *)
  Definition nxt (d x y : nat) : Prop :=
    (x < y)%nat /\ (y < n)%nat /\ outkey d (T x) = outkey d (T y) /\ forall z, (x < z)%nat -> (z < y)%nat -> outkey d (T z) <> outkey d (T x).
  Definition nonext (d x : nat) : Prop := forall z, (x < z)%nat -> (z < n)%nat -> outkey d (T z) <> outkey d (T x).

  Lemma lines_d_spec d : (d < D)%nat -> D <> 1%nat ->
    concat (lines_d D d s) = map_d D d s /\
    forall ps, In ps (lines_d D d s) -> (forall x y, adj ps x y -> nxt d x y) /\ (forall x, lastof ps x -> nonext d x).
  Proof.
    intros Hd HD1. destruct (map_d_spec d Hd) as [Hperm Hsort]. unfold lines_d.
    destruct (D =? 1)%nat eqn:E1; [apply Nat.eqb_eq in E1; contradiction|]. clear E1.
    set (m := map_d D d s) in *. destruct m as [|p r] eqn:Em; [split; [reflexivity|intros ps []]|].
    split; [rewrite runs_concat; reflexivity|]. intros ps Hps.
    assert (Hc : forall x, In x [p] -> outkey d (T x) = outkey d (T p)) by (intros x [<-|[]]; reflexivity).
    destruct (runs_spec d r [p] (T p) Hc ps Hps) as [H1 H2]. cbn [rev app] in H1, H2.
    assert (Hin : forall z, In z (p :: r) <-> (z < n)%nat).
    { intros z. split; intros H.
      - apply (Permutation_in _ Hperm) in H. apply in_seq in H. lia.
      - apply (Permutation_in _ (Permutation_sym Hperm)). apply in_seq. lia. }
    assert (Hbefore : forall a x b z, p :: r = a ++ x :: b -> In z a -> outkey d (T z) = outkey d (T x) -> (z < x)%nat).
    { intros a x b z Em' Hz Hk. rewrite Em' in Hsort. destruct (ssorted_split _ _ _ _ Hsort) as [S1 _].
      apply (class_order d z x); [apply Hin; rewrite Em'; apply in_or_app; left; exact Hz|apply Hin; rewrite Em'; apply in_elt|exact Hk|apply S1; exact Hz]. }
    assert (Hafter : forall a x b z, p :: r = a ++ x :: b -> In z b -> outkey d (T z) = outkey d (T x) -> (x < z)%nat).
    { intros a x b z Em' Hz Hk. rewrite Em' in Hsort. destruct (ssorted_split _ _ _ _ Hsort) as [_ S2].
      apply (class_order d x z); [apply Hin; rewrite Em'; apply in_elt|apply Hin; rewrite Em'; apply in_or_app; right; right; exact Hz|symmetry; exact Hk|apply S2; exact Hz]. }
    split.
    - intros x y Ha. destruct (H1 x y Ha) as [[a [b Eab]] Hk].
      assert (Hxy : (x < y)%nat) by (apply (Hafter a x (y :: b) y Eab); [left; reflexivity|symmetry; exact Hk]).
      assert (Hy : (y < n)%nat) by (apply Hin; rewrite Eab; apply in_or_app; right; right; left; reflexivity).
      split; [exact Hxy|]. split; [exact Hy|]. split; [exact Hk|]. intros z Hxz Hzy Hkz.
      assert (Hz : In z (p :: r)) by (apply Hin; lia). rewrite Eab in Hz. apply in_app_or in Hz. destruct Hz as [Hz|[Hz|[Hz|Hz]]]; try lia.
      + pose proof (Hbefore a x (y :: b) z Eab Hz Hkz). lia.
      + assert (Eab' : p :: r = (a ++ [x]) ++ y :: b) by (rewrite Eab, <- app_assoc; reflexivity).
        pose proof (Hafter (a ++ [x]) y b z Eab' Hz ltac:(congruence)). lia.
    - intros x Hl z Hxz Hz Hkz. assert (Hzm : In z (p :: r)) by (apply Hin; exact Hz).
      destruct (H2 x Hl) as [[a Ea]|[y [[a [b Eab]] Hk]]].
      + rewrite Ea in Hzm. apply in_app_or in Hzm. destruct Hzm as [Hza|[Hzx|[]]]; [|lia].
        pose proof (Hbefore a x [] z Ea Hza Hkz). lia.
      + rewrite Eab in Hzm. apply in_app_or in Hzm. destruct Hzm as [Hza|[Hzx|[Hzy|Hzb]]]; try lia.
        * pose proof (Hbefore a x (y :: b) z Eab Hza Hkz). lia.
        * subst z. apply Hk. symmetry. exact Hkz.
        * (* x < y < z in map[d], key x = key z <> key y: impossible for a sorted list *)
          assert (Eab' : p :: r = (a ++ [x]) ++ y :: b) by (rewrite Eab, <- app_assoc; reflexivity).
          pose proof Hsort as Hs1. rewrite Eab in Hs1. destruct (ssorted_split _ _ _ _ Hs1) as [_ S2].
          pose proof Hsort as Hs2. rewrite Eab' in Hs2. destruct (ssorted_split _ _ _ _ Hs2) as [_ S3].
          pose proof (S2 y (or_introl eq_refl)) as Bxy. pose proof (S3 z Hzb) as Byz. cbv beta in Bxy, Byz.
          assert (Hx : (x < n)%nat) by (apply Hin; rewrite Eab; apply in_elt).
          assert (Hy : (y < n)%nat) by (apply Hin; rewrite Eab; apply in_or_app; right; right; left; reflexivity).
          assert (Hlk : length (outkey d (T x)) = length (outkey d (T y))) by (rewrite !outkey_length by (rewrite T_len by assumption; exact Hd); rewrite !T_len by assumption; reflexivity).
          unfold Bd, before_d in Bxy, Byz. rewrite Hkz in Byz.
          destruct (cmp_total_cases _ _ Hlk) as [[C1 C2]|[[C1 C2]|[C1 C2]]].
          -- rewrite C2 in Byz. discriminate.
          -- rewrite C1 in Bxy. discriminate.
          -- apply Hk. exact C2.
  Qed.

  (* the store of tw_lines read by position *)
  Lemma getw_pos W x : map fst W = s -> (x < n)%nat -> getw W (T x) = nth x (map snd W) 0.
  Proof.
    intros Hk Hx. rewrite <- Hk. apply getw_nth; [rewrite Hk; apply sorted_nodup; exact Hsorted|].
    rewrite <- (map_length fst), Hk. exact Hx.
  Qed.

  Lemma filter_nxt d x y : nxt d x y -> exists L, filter (match_outside d (T x)) (skipn (S x) s) = T y :: L.
  Proof.
    intros [Hxy [Hy [Hk Hno]]].
    destruct (filter_first_nth (match_outside d (T x)) [] (skipn (S x) s) (y - S x)) as [L HL].
    - rewrite skipn_length. lia.
    - rewrite nth_skipn_add. replace (S x + (y - S x))%nat with y by lia. apply match_outside_iff. exact Hk.
    - intros i Hi. rewrite nth_skipn_add. apply Bool.not_true_is_false. intro E.
      apply match_outside_iff in E. apply (Hno (S x + i)%nat); [lia|lia|symmetry; exact E].
    - exists L. rewrite HL, nth_skipn_add. replace (S x + (y - S x))%nat with y by lia. reflexivity.
  Qed.

  Lemma filter_nonext d x : nonext d x -> filter (match_outside d (T x)) (skipn (S x) s) = [].
  Proof.
    intros Hno. apply (filter_none_nth _ []). intros i Hi. rewrite skipn_length in Hi. rewrite nth_skipn_add.
    apply Bool.not_true_is_false. intro E.
    apply match_outside_iff in E. apply (Hno (S x + i)%nat); [lia|lia|symmetry; exact E].
  Qed.

  Lemma sweep_dim_pos d W x : map fst W = s -> (x < n)%nat ->
    nth x (map snd (sweep_dim d s W)) 0 = nth x (map snd W) 0 - next_val d W (T x) (skipn (S x) s).
  Proof.
    intros Hk Hx. rewrite <- (getw_pos (sweep_dim d s W) x (eq_trans (sweep_dim_keys d s W) Hk) Hx).
    rewrite <- (getw_pos W x Hk Hx).
    apply (sweep_dim_at d s (firstn x s) (T x) (skipn (S x) s) W);
      [apply split_nth; exact Hx|apply sorted_nodup; exact Hsorted|rewrite Hk; apply incl_refl].
  Qed.

  Lemma lines_cover d : (d < D)%nat -> D <> 1%nat ->
    NoDup (concat (lines_d D d s)) /\ (forall q, In q (concat (lines_d D d s)) <-> (q < n)%nat).
  Proof.
    intros Hd HD1. destruct (lines_d_spec d Hd HD1) as [Hcat _]. destruct (map_d_spec d Hd) as [Hperm _]. rewrite Hcat. split.
    - apply (Permutation_NoDup (Permutation_sym Hperm)). apply seq_NoDup.
    - intros q. split; intros H; [apply (Permutation_in _ Hperm) in H; apply in_seq in H; lia|].
      apply (Permutation_in _ (Permutation_sym Hperm)). apply in_seq. lia.
  Qed.

  (* (3) one direction: the sweeps of the runs of map[d] are sweep_dim read by position *)
  Lemma sweep_dim_cpp_eq d W : (d < D)%nat -> D <> 1%nat -> map fst W = s ->
    sweep_dim_cpp D d s (map snd W) = map snd (sweep_dim d s W).
  Proof.
    intros Hd HD1 Hk. destruct (lines_d_spec d Hd HD1) as [_ Hlines]. destruct (lines_cover d Hd HD1) as [Hnd Hin].
    assert (HlenW : length (map snd W) = n) by (rewrite map_length, <- (map_length fst), Hk; reflexivity).
    change (sweep_dim_cpp D d s (map snd W)) with (sweep_all (lines_d D d s) (map snd W)).
    apply (nth_ext _ _ 0 0).
    - rewrite sweep_all_length, HlenW, map_length, <- (map_length fst), sweep_dim_keys, Hk. reflexivity.
    - intros x Hx. rewrite sweep_all_length, HlenW in Hx.
      pose proof (proj2 (Hin x) Hx) as Hxc. apply in_concat in Hxc. destruct Hxc as [ps [Hps Hxps]].
      apply in_split in Hxps. destruct Hxps as [a [b E]].
      rewrite (sweep_all_at (lines_d D d s) (map snd W) ps a x b Hnd) by (try (intros q Hq; rewrite HlenW; apply Hin; exact Hq); assumption).
      rewrite (sweep_dim_pos d W x Hk Hx). f_equal. unfold next_val. destruct b as [|q b'].
      + rewrite filter_nonext; [reflexivity|]. apply (proj2 (Hlines ps Hps)). exists a. exact E.
      + assert (Hn : nxt d x q) by (apply (proj1 (Hlines ps Hps)); exists a, b'; exact E).
        destruct (filter_nxt d x q Hn) as [L' ->]. symmetry. apply getw_pos; [exact Hk|]. destruct Hn as [_ [Hq _]]. exact Hq.
  Qed.

  (* the initial pass *)
  Lemma init_cpp_eq : (1 <= D)%nat -> D <> 1%nat -> init_cpp D s = map snd (init_lines (D - 1) s).
  Proof.
    intros HD HD1. assert (Hd : (D - 1 < D)%nat) by lia.
    destruct (lines_d_spec (D - 1) Hd HD1) as [_ Hlines]. destruct (lines_cover (D - 1) Hd HD1) as [Hnd Hin].
    change (init_cpp D s) with (init_all (lines_d D (D - 1) s) (repeat 0 n)).
    pose proof (init_lines_keys (D - 1) s) as Hk.
    apply (nth_ext _ _ 0 0).
    - rewrite init_all_length, repeat_length, map_length, <- (map_length fst), Hk. reflexivity.
    - intros x Hx. rewrite init_all_length, repeat_length in Hx.
      pose proof (proj2 (Hin x) Hx) as Hxc. apply in_concat in Hxc. destruct Hxc as [ps [Hps Hxps]].
      apply in_split in Hxps. destruct Hxps as [a [b E]].
      rewrite (init_all_at (lines_d D (D - 1) s) (repeat 0 n) ps a x b Hnd) by (try (intros q Hq; rewrite repeat_length; apply Hin; exact Hq); assumption).
      rewrite <- (getw_pos _ x Hk Hx).
      pose proof (init_lines_at (D - 1) (firstn x s) (T x) (skipn (S x) s)) as H. pose proof (split_nth [] s x Hx) as Hsp.
      pose proof (eq_ind_r (fun l => NoDup l -> getw (init_lines (D - 1) l) (T x) = (if existsb (match_outside (D - 1) (T x)) (skipn (S x) s) then 0 else 1)) H Hsp) as H2.
      cbv beta in H2. rewrite (H2 (sorted_nodup _ Hsorted)). rewrite existsb_filter. destruct b as [|q b'].
      + rewrite filter_nonext; [reflexivity|]. apply (proj2 (Hlines ps Hps)). exists a. exact E.
      + assert (Hn : nxt (D - 1) x q) by (apply (proj1 (Hlines ps Hps)); exists a, b'; exact E).
        destruct (filter_nxt (D - 1) x q Hn) as [L' ->]. apply nth_repeat.
  Qed.

  (* (4) all the directions *)
  Lemma sweep_down_cpp_eq : forall k W, (k < D)%nat -> D <> 1%nat -> map fst W = s ->
    sweep_down_cpp D s k (map snd W) = map snd (sweep_down s k W).
  Proof.
    induction k as [|d IH]; intros W Hk HD1 HW; [reflexivity|]. cbn [sweep_down_cpp sweep_down].
    rewrite (sweep_dim_cpp_eq d W) by (assumption || lia). apply IH; [lia|exact HD1|rewrite sweep_dim_keys; exact HW].
  Qed.

  Lemma tw_cpp_eq_lines_sec : (1 <= D)%nat -> s <> [] -> tw_cpp s = tw_lines s.
  Proof.
    intros HD Hne. unfold tw_cpp, tw_lines. rewrite (dim_of_wf D s Hwf Hne). destruct (D =? 1)%nat eqn:E1; [reflexivity|].
    apply Nat.eqb_neq in E1. rewrite init_cpp_eq by assumption. apply sweep_down_cpp_eq; [lia|exact E1|apply init_lines_keys].
  Qed.
End Cpp.

(* ================================================================ the theorems *)
Theorem tw_cpp_eq_tw_lines : forall (D : nat) (s : list idx), sorted s -> wf D s -> (1 <= D)%nat -> tw_cpp s = tw_lines s.
Proof.
  intros D s Hs Hw HD. destruct s as [|t r]; [reflexivity|]. apply (tw_cpp_eq_lines_sec D (t :: r)); auto. discriminate.
Qed.

Theorem tw_cpp_incl_excl : forall (D : nat) (s : list idx), sorted s -> wf D s -> (forall t, In t s -> TensorSelectProofs.nonneg t) ->
  TensorSelectProofs.lowerZ s -> (1 <= D)%nat -> s <> [] -> tw_cpp s = map (incl_excl s) s.
Proof.
  intros D s Hs Hw Hn Hl HD Hne. rewrite (tw_cpp_eq_tw_lines D s Hs Hw HD). apply (tw_lines_incl_excl D); assumption.
Qed.

(* the components, in the form quoted by the statements file *)
Theorem sort_pos_sorted_permutation : forall (lt : nat -> nat -> bool) (P : nat -> Prop),
  (forall a b c, P a -> P b -> P c -> lt a b = true -> lt b c = true -> lt a c = true) ->
  (forall a b, P a -> P b -> a <> b -> lt a b = false -> lt b a = true) ->
  forall l, NoDup l -> Forall P l -> Permutation (sort_pos lt l) l /\ StronglySorted (fun a b => lt a b = true) (sort_pos lt l).
Proof. exact sort_pos_spec. Qed.

Theorem map_d_sorted_permutation : forall (D : nat) (s : list idx) (d : nat), sorted s -> wf D s -> (d < D)%nat ->
  Permutation (map_d D d s) (seq 0 (length s)) /\
  StronglySorted (fun a b => before_d d (nth a s []) (nth b s []) = true) (map_d D d s).
Proof. intros D s d Hs Hw Hd. exact (map_d_spec D s Hs Hw d Hd). Qed.

Theorem lines_d_are_the_lines : forall (D : nat) (s : list idx) (d : nat), sorted s -> wf D s -> (d < D)%nat -> D <> 1%nat ->
  concat (lines_d D d s) = map_d D d s /\
  forall ps, In ps (lines_d D d s) ->
    (forall x y, adj ps x y -> (x < y)%nat /\ (y < length s)%nat /\ outkey d (nth x s []) = outkey d (nth y s []) /\
                                forall z, (x < z)%nat -> (z < y)%nat -> outkey d (nth z s []) <> outkey d (nth x s [])) /\
    (forall x, lastof ps x -> forall z, (x < z)%nat -> (z < length s)%nat -> outkey d (nth z s []) <> outkey d (nth x s [])).
Proof. intros D s d Hs Hw Hd HD1. exact (lines_d_spec D s Hs Hw d Hd HD1). Qed.

Theorem sweep_dim_cpp_is_sweep_dim : forall (D : nat) (s : list idx) (d : nat) (W : wstate), sorted s -> wf D s -> (d < D)%nat -> D <> 1%nat ->
  map fst W = s -> sweep_dim_cpp D d s (map snd W) = map snd (sweep_dim d s W).
Proof. intros D s d W Hs Hw. exact (sweep_dim_cpp_eq D s Hs Hw d W). Qed.

Theorem init_cpp_is_init_lines : forall (D : nat) (s : list idx), sorted s -> wf D s -> (1 <= D)%nat -> D <> 1%nat ->
  init_cpp D s = map snd (init_lines (D - 1) s).
Proof. intros D s Hs Hw. exact (init_cpp_eq D s Hs Hw). Qed.

(* ---------- data for the non-vacuity examples ---------- *)
From TV Require Import Proofs.CombinationProofs Proofs.TensorSelectProofs Proofs.TensorWeightsBridge.
(* a 3-d set that is NOT lower (gaps in every direction, lines with holes) *)
Definition exC_set : list idx := [[0;0;2];[0;1;0];[0;3;1];[1;0;0];[1;0;2];[1;1;0];[2;0;2];[2;3;1];[2;3;4]].
(* a 3-d lower set, given as `list nat` level vectors and read in Z *)
Definition exC_lowerN : list (list nat) := [[0;0;0];[0;0;1];[0;1;0];[0;2;0];[1;0;0];[1;0;1];[1;1;0];[2;0;0]]%nat.
Definition exC_lower : list idx := map zi exC_lowerN.

Ltac prove_sorted := repeat first [apply SSorted_nil | apply SSorted_cons | apply Forall_nil | apply Forall_cons; [reflexivity|]].
Lemma exC_sorted : sorted exC_set.
Proof. unfold exC_set, sorted. prove_sorted. Qed.
Lemma exC_wf : wf 3 exC_set.
Proof. unfold exC_set, wf. repeat constructor. Qed.
Lemma exC_not_lower : ~ lowerZ exC_set.
Proof.
  intros H. assert (Hin : In [0;0;0] exC_set).
  { apply (H [0;0;2]); [left; reflexivity|]. repeat constructor; lia. }
  unfold exC_set in Hin. cbn in Hin. intuition discriminate.
Qed.
Lemma exC_lowerN_len : forall t, In t exC_lowerN -> length t = 3%nat.
Proof. intros t [<-|[<-|[<-|[<-|[<-|[<-|[<-|[<-|[]]]]]]]]]; reflexivity. Qed.
Lemma exC_lowerN_lower : lower exC_lowerN.
Proof.
  intros t s [<-|[<-|[<-|[<-|[<-|[<-|[<-|[<-|[]]]]]]]]] Hl Hle; destruct s as [|a [|b [|c [|? ?]]]]; try discriminate;
    destruct a as [|[|[|a]]], b as [|[|[|b]]], c as [|[|c]]; try discriminate; cbn; auto 12.
Qed.
Lemma exC_lower_hyps : sorted exC_lower /\ wf 3 exC_lower /\ (forall t, In t exC_lower -> nonneg t) /\ lowerZ exC_lower /\ exC_lower <> [].
Proof.
  split; [unfold exC_lower, exC_lowerN, sorted; cbn; prove_sorted|]. split; [apply wf_zi; exact exC_lowerN_len|].
  split; [apply nonneg_zi_set|]. split; [apply lowerZ_zi; exact exC_lowerN_lower|discriminate].
Qed.
