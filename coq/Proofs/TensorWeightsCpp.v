(* Goal (A) of the tensor-weights bridge: tw_cpp = tw_lines (Model/TensorWeights.v) on EVERY lexicographically sorted (hence duplicate-free)
   set of multi-indexes of one dimension D >= 1, lower or not.
   (1) sort_pos (the insertion sort standing for std::sort in resortIndexes) returns a permutation of its input that is strongly sorted
       for the comparator, whenever the comparator is a strict total order on the positions; before_d d read on the positions of a sorted
       set IS such an order (it is the lexicographic order of the rotated index  outkey d t ++ [t_d]);  map_d of the last dimension
       (the identity) is sorted for before_d (D-1) as well.
   (2) `runs` cuts the sorted position list into the classes of match_outside d: two neighbours in a run are neighbours in map[d] with the
       same outer key; the last position of a run is followed in map[d] by a position with another key (or by nothing).  With (1): the
       neighbour of x in its run is the FIRST later member (in set order) of the line of x, and the last position of a run has no later member.
   (3) the sweeps of different runs touch disjoint positions: fold_left sweep_line over the runs is described position by position
       (sweep_all_at), the initial pass likewise (init_all_at); these are sweep_dim / init_lines read by position (sweep_dim_at, init_lines_at).
   (4) induction over the directions D-2 .. 0.
   No axioms. *)
From TV Require Import Common.Prelude Model.IndexSets Model.TensorWeights.
From TV Require Import Proofs.IndexSetsProofs Proofs.TensorWeightsProofs.
From Coq Require Import Sorting.Sorted Permutation.
Local Open Scope Z_scope.

(* ================================================================ (1) the insertion sort of positions *)
Section Sort.
  Variable lt : nat -> nat -> bool.
  Variable P : nat -> Prop.
  Hypothesis lt_trans : forall a b c, P a -> P b -> P c -> lt a b = true -> lt b c = true -> lt a c = true.
  Hypothesis lt_total : forall a b, P a -> P b -> a <> b -> lt a b = false -> lt b a = true.

  Lemma insert_pos_perm p l : Permutation (insert_pos lt p l) (p :: l).
  Proof.
    induction l as [|q r IH]; cbn; [apply Permutation_refl|]. destruct (lt q p).
    - apply perm_trans with (q :: p :: r); [apply perm_skip; exact IH|apply perm_swap].
    - apply Permutation_refl.
  Qed.

  Lemma insert_pos_sorted p : forall l, P p -> Forall P l -> ~ In p l -> StronglySorted (fun a b => lt a b = true) l ->
    StronglySorted (fun a b => lt a b = true) (insert_pos lt p l).
  Proof.
    induction l as [|q r IH]; intros Hp HP Hn Hs; cbn [insert_pos].
    - constructor; constructor.
    - inversion HP as [|? ? Hq HPr]; subst. inversion Hs as [|? ? Hsr Hqr]; subst.
      destruct (lt q p) eqn:E.
      + constructor.
        * apply IH; auto. intro H; apply Hn; right; exact H.
        * apply Forall_forall. intros x Hx. apply (Permutation_in _ (insert_pos_perm p r)) in Hx. destruct Hx as [<-|Hx]; [exact E|].
          rewrite Forall_forall in Hqr. apply Hqr. exact Hx.
      + assert (Hpq : lt p q = true).
        { apply lt_total; auto. intro Eq. subst. apply Hn. left. reflexivity. }
        constructor; [exact Hs|]. constructor; [exact Hpq|]. apply Forall_forall. intros x Hx.
        rewrite Forall_forall in Hqr, HPr. apply (lt_trans p q x); auto.
  Qed.

  Lemma sort_pos_spec : forall l, NoDup l -> Forall P l ->
    Permutation (sort_pos lt l) l /\ StronglySorted (fun a b => lt a b = true) (sort_pos lt l).
  Proof.
    induction l as [|p r IH]; intros Hnd HP; [split; constructor|].
    change (sort_pos lt (p :: r)) with (insert_pos lt p (sort_pos lt r)).
    inversion Hnd as [|? ? Hn Hnd']; subst. inversion HP as [|? ? Hp HPr]; subst. destruct (IH Hnd' HPr) as [Hperm Hs].
    split.
    - apply perm_trans with (p :: sort_pos lt r); [apply insert_pos_perm|apply perm_skip; exact Hperm].
    - apply insert_pos_sorted; auto.
      + apply Forall_forall. intros x Hx. rewrite Forall_forall in HPr. apply HPr. apply (Permutation_in _ Hperm). exact Hx.
      + intro H. apply Hn. apply (Permutation_in _ Hperm). exact H.
  Qed.
End Sort.

(* ================================================================ generic list facts *)
Lemma ssorted_split {A} (R : A -> A -> Prop) : forall a x b, StronglySorted R (a ++ x :: b) ->
  (forall z, In z a -> R z x) /\ (forall z, In z b -> R x z).
Proof.
  induction a as [|a0 a IH]; intros x b H; cbn [app] in H; inversion H as [|? ? Hs Hf]; subst.
  - split; [intros z []|]. rewrite Forall_forall in Hf. exact Hf.
  - destruct (IH x b Hs) as [H1 H2]. split; [|exact H2]. intros z [<-|Hz]; [|apply H1; exact Hz].
    rewrite Forall_forall in Hf. apply Hf. apply in_elt.
Qed.

Lemma seq_sorted (R : nat -> nat -> Prop) : forall k a, (forall i j, (a <= i)%nat -> (i < j)%nat -> (j < a + k)%nat -> R i j) ->
  StronglySorted R (seq a k).
Proof.
  induction k as [|k IH]; intros a H; cbn [seq]; constructor.
  - apply IH. intros i j H1 H2 H3. apply H; lia.
  - apply Forall_forall. intros j Hj. apply in_seq in Hj. apply H; lia.
Qed.

Lemma NoDup_app_inv {A} (l1 l2 : list A) : NoDup (l1 ++ l2) -> NoDup l1 /\ NoDup l2 /\ (forall x, In x l1 -> ~ In x l2).
Proof.
  induction l1 as [|a l1 IH]; cbn [app]; intros H.
  - repeat split; [constructor|exact H|intros x []].
  - inversion H as [|? ? Hn Hnd]; subst. destruct (IH Hnd) as [A1 [A2 A3]]. repeat split.
    + constructor; [intro Hx; apply Hn; apply in_or_app; left; exact Hx|exact A1].
    + exact A2.
    + intros x [<-|Hx] Hx2; [apply Hn; apply in_or_app; right; exact Hx2|exact (A3 x Hx Hx2)].
Qed.

Lemma split_nth {A} (dflt : A) : forall l x, (x < length l)%nat -> l = firstn x l ++ nth x l dflt :: skipn (S x) l.
Proof.
  induction l as [|a l IH]; intros x Hx; [cbn in Hx; lia|]. destruct x as [|x]; [reflexivity|].
  cbn [firstn nth skipn app]. f_equal. apply IH. cbn in Hx. lia.
Qed.

Lemma nth_skipn_add {A} (dflt : A) : forall k l j, nth j (skipn k l) dflt = nth (k + j) l dflt.
Proof.
  induction k as [|k IH]; intros l j; [reflexivity|]. destruct l as [|a l]; [destruct j; reflexivity|]. cbn [skipn Nat.add nth]. apply IH.
Qed.

Lemma filter_none_nth {A} (f : A -> bool) (dflt : A) l : (forall i, (i < length l)%nat -> f (nth i l dflt) = false) -> filter f l = [].
Proof.
  induction l as [|a l IH]; intros H; [reflexivity|]. cbn [filter]. pose proof (H 0%nat ltac:(cbn; lia)) as H0. cbn [nth] in H0. rewrite H0. apply IH.
  intros i Hi. apply (H (S i)). cbn. lia.
Qed.

Lemma filter_first_nth {A} (f : A -> bool) (dflt : A) : forall l j, (j < length l)%nat -> f (nth j l dflt) = true ->
  (forall i, (i < j)%nat -> f (nth i l dflt) = false) -> exists L, filter f l = nth j l dflt :: L.
Proof.
  induction l as [|a l IH]; intros j Hj Hf Hb; [cbn in Hj; lia|]. destruct j as [|j]; cbn [nth filter] in *.
  - rewrite Hf. eexists. reflexivity.
  - pose proof (Hb 0%nat ltac:(lia)) as H0. cbn [nth] in H0. rewrite H0. cbn [length] in Hj. apply IH; [lia|exact Hf|]. intros i Hi. apply (Hb (S i)). lia.
Qed.

(* neighbours / last element of a list of positions *)
Definition adj (l : list nat) (x y : nat) : Prop := exists a b, l = a ++ x :: y :: b.
Definition lastof (l : list nat) (x : nat) : Prop := exists a, l = a ++ [x].

Lemma adj_app_l l0 l x y : adj l x y -> adj (l0 ++ l) x y.
Proof. intros [a [b ->]]. exists (l0 ++ a), b. rewrite <- app_assoc. reflexivity. Qed.
Lemma adj_app_r l0 l x y : adj l x y -> adj (l ++ l0) x y.
Proof. intros [a [b ->]]. exists a, (b ++ l0). rewrite <- app_assoc. reflexivity. Qed.
Lemma lastof_app_l l0 l x : lastof l x -> lastof (l0 ++ l) x.
Proof. intros [a ->]. exists (l0 ++ a). rewrite <- app_assoc. reflexivity. Qed.
Lemma adj_in l x y : adj l x y -> In x l /\ In y l.
Proof. intros [a [b ->]]. split; apply in_or_app; right; [left|right; left]; reflexivity. Qed.
Lemma lastof_in l x : lastof l x -> In x l.
Proof. intros [a ->]. apply in_or_app. right. left. reflexivity. Qed.

(* ================================================================ the comparator of resortIndexes as a lexicographic order *)
Definition rot (d : nat) (a : idx) : idx := outkey d a ++ [nth d a 0].

Lemma cmp_app k1 : forall k2 u v, length k1 = length k2 ->
  cmp (k1 ++ u) (k2 ++ v) = match cmp k1 k2 with ASameB => cmp u v | r => r end.
Proof.
  induction k1 as [|x k1 IH]; intros [|y k2] u v Hl; cbn in Hl; try discriminate; [reflexivity|].
  cbn [app cmp]. destruct (x <? y); [reflexivity|]. destruct (y <? x); [reflexivity|]. apply IH. lia.
Qed.

Lemma outkey_length d a : (d < length a)%nat -> length (outkey d a) = (length a - 1)%nat.
Proof. intros H. unfold outkey. rewrite app_length, firstn_length, skipn_length. lia. Qed.

Lemma rot_length d a : (d < length a)%nat -> length (rot d a) = length a.
Proof. intros H. unfold rot. rewrite app_length, outkey_length by exact H. cbn. lia. Qed.

Lemma before_d_rot d a b : length a = length b -> (d < length a)%nat -> (before_d d a b = true <-> lt_idx (rot d a) (rot d b)).
Proof.
  intros Hl Hd. unfold before_d, lt_idx, rot. rewrite cmp_app by (rewrite !outkey_length by lia; lia).
  destruct (cmp (outkey d a) (outkey d b)); [split; reflexivity|split; discriminate|]. cbn [cmp].
  destruct (nth d a 0 <? nth d b 0) eqn:E; [split; reflexivity|]. destruct (nth d b 0 <? nth d a 0); split; discriminate.
Qed.

Lemma rot_inj d a b : length a = length b -> rot d a = rot d b -> a = b.
Proof.
  intros Hl H. unfold rot in H. apply app_inj_tail in H. destruct H as [H1 H2]. apply (outkey_nth_eq d); assumption.
Qed.

Lemma rot_last : forall x, x <> [] -> rot (length x - 1) x = x.
Proof.
  induction x as [|a x IH]; intros H; [congruence|]. destruct x as [|b r]; [reflexivity|].
  replace (length (a :: b :: r) - 1)%nat with (S (length (b :: r) - 1)) by (cbn; lia).
  unfold rot in *. rewrite outkey_consS. cbn [nth app]. f_equal. apply IH. discriminate.
Qed.

Lemma sorted_nth_lt : forall (l : list idx), sorted l -> forall i j, (i < j)%nat -> (j < length l)%nat -> lt_idx (nth i l []) (nth j l []).
Proof.
  induction l as [|x l IH]; intros Hs i j Hij Hj; [cbn in Hj; lia|]. apply sorted_cons_inv in Hs. destruct Hs as [Hs Hx].
  destruct j as [|j]; [lia|]. cbn in Hj. destruct i as [|i]; cbn [nth].
  - rewrite Forall_forall in Hx. apply Hx. apply nth_In. lia.
  - apply IH; [exact Hs|lia|lia].
Qed.

Lemma getw_nth : forall W x, NoDup (map fst W) -> (x < length W)%nat -> getw W (nth x (map fst W) []) = nth x (map snd W) 0.
Proof.
  induction W as [|[k v] W IH]; intros x Hnd Hx; [cbn in Hx; lia|]. cbn [map fst snd] in *. inversion Hnd as [|? ? Hn Hnd']; subst.
  destruct x as [|x]; cbn [nth getw].
  - rewrite idx_eqb_refl. reflexivity.
  - cbn in Hx. rewrite idx_eqb_neq; [apply IH; [exact Hnd'|lia]|]. intro E. apply Hn. rewrite E. apply nth_In. rewrite map_length. lia.
Qed.

(* ================================================================ (3) sweeps of several disjoint lines, by position *)
Lemma sweep_line_cons p rest w : rest <> [] ->
  sweep_line (p :: rest) w = set_pos (sweep_line rest w) p (nth p (sweep_line rest w) 0 - zsum (map (fun q => nth q (sweep_line rest w) 0) rest)).
Proof. intros H. destruct rest; [congruence|reflexivity]. Qed.

Lemma sweep_line_at : forall a p b w, NoDup (a ++ p :: b) -> (forall q, In q (a ++ p :: b) -> (q < length w)%nat) ->
  nth p (sweep_line (a ++ p :: b) w) 0 = nth p w 0 - match b with [] => 0 | q :: _ => nth q w 0 end.
Proof.
  induction a as [|x a IH]; intros p b w Hnd Hin; cbn [app] in *.
  - destruct b as [|q b']; [cbn; lia|]. rewrite sweep_line_cons by discriminate.
    inversion Hnd as [|? ? Hnot Hnd']; subst.
    rewrite nth_set_pos_same by (rewrite sweep_line_length; apply Hin; left; reflexivity).
    rewrite sweep_line_untouched by exact Hnot.
    rewrite (sweep_line_vals (q :: b') w Hnd') by (intros q0 Hq0; apply Hin; right; exact Hq0).
    rewrite zsum_sweep_vals. reflexivity.
  - inversion Hnd as [|? ? Hnot Hnd']; subst. rewrite sweep_line_cons by (destruct a; discriminate).
    rewrite nth_set_pos_other by (intro E; subst; apply Hnot; apply in_elt).
    apply IH; [exact Hnd'|]. intros q Hq. apply Hin. right. exact Hq.
Qed.

Definition sweep_all (L : list (list nat)) (w : list Z) : list Z := fold_left (fun w ps => sweep_line ps w) L w.

Lemma sweep_all_length L : forall w, length (sweep_all L w) = length w.
Proof. induction L as [|ps L IH]; intros w; [reflexivity|]. cbn. unfold sweep_all in IH. rewrite IH. apply sweep_line_length. Qed.

Lemma sweep_all_untouched L : forall w q, ~ In q (concat L) -> nth q (sweep_all L w) 0 = nth q w 0.
Proof.
  induction L as [|ps L IH]; intros w q H; [reflexivity|]. cbn [concat] in H. cbn. unfold sweep_all in IH. rewrite IH.
  - apply sweep_line_untouched. intro Hq. apply H. apply in_or_app. left. exact Hq.
  - intro Hq. apply H. apply in_or_app. right. exact Hq.
Qed.

Lemma sweep_all_at : forall L w ps a p b, NoDup (concat L) -> (forall q, In q (concat L) -> (q < length w)%nat) -> In ps L -> ps = a ++ p :: b ->
  nth p (sweep_all L w) 0 = nth p w 0 - match b with [] => 0 | q :: _ => nth q w 0 end.
Proof.
  induction L as [|ps0 L IH]; intros w ps a p b Hnd Hin Hps E; [destruct Hps|]. cbn [concat] in *.
  destruct (NoDup_app_inv _ _ Hnd) as [N1 [N2 N3]].
  change (sweep_all (ps0 :: L) w) with (sweep_all L (sweep_line ps0 w)).
  destruct Hps as [->|Hps].
  - subst ps. rewrite sweep_all_untouched by (apply N3; apply in_elt).
    apply sweep_line_at; [exact N1|]. intros q Hq. apply Hin. apply in_or_app. left. exact Hq.
  - assert (Hsub : forall q, In q ps -> In q (concat L)) by (intros q Hq; apply in_concat; exists ps; split; assumption).
    rewrite (IH (sweep_line ps0 w) ps a p b N2); [| |exact Hps|exact E].
    + assert (Hp : In p ps) by (rewrite E; apply in_elt).
      rewrite sweep_line_untouched by (intro Hq; exact (N3 p Hq (Hsub p Hp))).
      destruct b as [|q b']; [reflexivity|].
      assert (Hq : In q ps) by (rewrite E; apply in_or_app; right; right; left; reflexivity).
      rewrite (sweep_line_untouched ps0 w q) by (intro Hq'; exact (N3 q Hq' (Hsub q Hq))). reflexivity.
    + intros q Hq. rewrite sweep_line_length. apply Hin. apply in_or_app. right. exact Hq.
Qed.

(* the initial pass *)
Definition init_step (w : list Z) (ps : list nat) : list Z := match rev ps with [] => w | p :: _ => set_pos w p 1 end.
Definition init_all (L : list (list nat)) (w : list Z) : list Z := fold_left init_step L w.

Lemma init_step_length w ps : length (init_step w ps) = length w.
Proof. unfold init_step. destruct (rev ps); [reflexivity|apply set_pos_length]. Qed.

Lemma init_step_other w ps p : ~ lastof ps p -> nth p (init_step w ps) 0 = nth p w 0.
Proof.
  intros H. unfold init_step. destruct (rev ps) as [|q r] eqn:E; [reflexivity|]. apply nth_set_pos_other. intro Eq. subst q. apply H.
  exists (rev r). rewrite <- (rev_involutive ps), E. reflexivity.
Qed.

Lemma init_all_length L : forall w, length (init_all L w) = length w.
Proof. induction L as [|ps L IH]; intros w; [reflexivity|]. cbn. unfold init_all in IH. rewrite IH. apply init_step_length. Qed.

Lemma init_all_untouched L : forall w q, ~ In q (concat L) -> nth q (init_all L w) 0 = nth q w 0.
Proof.
  induction L as [|ps L IH]; intros w q H; [reflexivity|]. cbn [concat] in H. cbn. unfold init_all in IH. rewrite IH.
  - apply init_step_other. intro Hq. apply H. apply in_or_app. left. apply lastof_in. exact Hq.
  - intro Hq. apply H. apply in_or_app. right. exact Hq.
Qed.

Lemma init_all_at : forall L w ps a p b, NoDup (concat L) -> (forall q, In q (concat L) -> (q < length w)%nat) -> In ps L -> ps = a ++ p :: b ->
  nth p (init_all L w) 0 = match b with [] => 1 | _ :: _ => nth p w 0 end.
Proof.
  induction L as [|ps0 L IH]; intros w ps a p b Hnd Hin Hps E; [destruct Hps|]. cbn [concat] in *.
  destruct (NoDup_app_inv _ _ Hnd) as [N1 [N2 N3]].
  change (init_all (ps0 :: L) w) with (init_all L (init_step w ps0)).
  destruct Hps as [->|Hps].
  - subst ps. rewrite init_all_untouched by (apply N3; apply in_elt). destruct b as [|q b'].
    + unfold init_step. rewrite rev_unit. apply nth_set_pos_same. apply Hin. apply in_or_app. left. apply in_elt.
    + apply init_step_other. intros [a' Ea].
      destruct (exists_last (l := q :: b') ltac:(discriminate)) as [b1 [z Eb]]. rewrite Eb in Ea, N1.
      replace (a ++ p :: b1 ++ [z]) with ((a ++ p :: b1) ++ [z]) in Ea by (rewrite <- app_assoc; reflexivity).
      apply app_inj_tail in Ea. destruct Ea as [_ Ez]. subst z.
      apply NoDup_remove_2 in N1. apply N1. apply in_or_app. right. apply in_or_app. right. left. reflexivity.
  - assert (Hsub : forall q, In q ps -> In q (concat L)) by (intros q Hq; apply in_concat; exists ps; split; assumption).
    rewrite (IH (init_step w ps0) ps a p b N2); [| |exact Hps|exact E].
    + assert (Hp : In p ps) by (rewrite E; apply in_elt).
      rewrite init_step_other by (intro Hq; apply lastof_in in Hq; exact (N3 p Hq (Hsub p Hp))). reflexivity.
    + intros q Hq. rewrite init_step_length. apply Hin. apply in_or_app. right. exact Hq.
Qed.
