(* C08 / C02: the ACTIVE tensors (createActiveTensors: the tensors with a non-zero weight) of a lower set dominate the set, so the
   domination hypothesis of NestedPointsProofs.nested_points_active can be discharged for the weights computeTensorWeights computes.
     maximal Theta t   : t in Theta and no t + e_j (j < length t) in Theta;
     (1) a maximal element of a lower set has inclusion-exclusion value 1 (every other corner t + e, e <> 0, is outside the set);
     (2) every element of a finite set is dominated by a maximal element (induction on  bound - sum of the coordinates);
     (3) hence the tensors with a non-zero inclusion-exclusion value dominate the set; for the computed weights (tw_lines, tw_cpp on a
         sorted lower set) these are the active tensors of the model;
     (4) nested_points n Theta = full_points n (active_tensors Theta (tw_cpp Theta)), no domination hypothesis;
     (5) the inclusion-exclusion value depends only on the corner {t + e : e in {0,1}^D} of the set; the active weights sum to 1.
   Indexes are `list Z` (idx), `lowerZ`, `le_idx`, `nonneg` of Proofs/TensorSelectProofs.v in both developments: no conversion needed.
   No axioms. *)
From TV Require Import Common.Prelude Model.IndexSets gen.ExactnessGen Model.TensorSelect Model.NestedPoints Model.TensorWeights.
From TV Require Import Proofs.IndexSetsProofs Proofs.ExactnessProofs Proofs.TensorSelectProofs Proofs.NestedPointsProofs.
From TV Require Import Proofs.TensorWeightsProofs Proofs.TensorWeightsCpp.
From Coq Require Import Sorting.Sorted.
Local Open Scope Z_scope.

(* ================================================================ 0. order facts *)
Lemma le_idx_trans' a b c : le_idx a b -> le_idx b c -> le_idx a c.
Proof.
  intros H. revert c. induction H as [|x y a b Hxy _ IH]; intros c Hc; inversion Hc; subst; constructor; [lia|].
  apply IH. assumption.
Qed.

Definition maximal (Theta : list idx) (t : idx) : Prop :=
  In t Theta /\ forall j, (j < length t)%nat -> ~ In (bump j t) Theta.

(* ================================================================ 1. a maximal element has weight 1 *)
(* an iterated difference is a combination of values of f above its argument *)
Lemma iter_diff_zero_above (f : idx -> Z) (u0 : idx) : (forall u, le_idx u0 u -> f u = 0) ->
  forall ds u, le_idx u0 u -> iter_diff f ds u = 0.
Proof.
  intros Hf. induction ds as [|d r IH]; intros u Hu; cbn [iter_diff]; [apply Hf; exact Hu|].
  rewrite (IH u Hu). rewrite (IH (bump d u)); [reflexivity|].
  apply (le_idx_trans' _ u); [exact Hu|]. apply le_bump. apply (le_idx_nonneg _ _ Hu).
Qed.

Lemma iter_diff_top (f : idx -> Z) (t : idx) : nonneg t -> f t = 1 ->
  forall ds, (forall j u, In j ds -> le_idx (bump j t) u -> f u = 0) -> iter_diff f ds t = 1.
Proof.
  intros Hn Ht. induction ds as [|d r IH]; intros Hz; cbn [iter_diff]; [exact Ht|].
  rewrite IH by (intros j u Hj; apply Hz; right; exact Hj).
  rewrite (iter_diff_zero_above f (bump d t)).
  - reflexivity.
  - intros u Hu. apply (Hz d); [left; reflexivity|exact Hu].
  - apply le_idx_refl. apply nonneg_bump. exact Hn.
Qed.

Theorem maximal_weight_one Theta t : lowerZ Theta -> nonneg t -> maximal Theta t -> incl_excl Theta t = 1.
Proof.
  intros Hl Hn [Hin Hmax]. rewrite incl_excl_iter_diff. apply iter_diff_top; [exact Hn|apply chi_in; exact Hin|].
  intros j u Hj Hu. apply in_seq in Hj. apply chi_notin. intros Hu'. apply (Hmax j); [lia|].
  apply (Hl u); assumption.
Qed.

(* ================================================================ 2. every element is below a maximal one *)
Definition sum_bound (Theta : list idx) : Z := fold_right Z.max 0 (map zsum Theta).

Lemma sum_bound_ge Theta t : In t Theta -> zsum t <= sum_bound Theta.
Proof.
  unfold sum_bound. induction Theta as [|a l IH]; intros H; [destruct H|]. cbn [map fold_right].
  destruct H as [<-|H]; [lia|]. specialize (IH H). lia.
Qed.

Lemma zsum_bump j : forall t, (j < length t)%nat -> zsum (bump j t) = zsum t + 1.
Proof.
  unfold zsum. induction j as [|j IH]; intros [|x t] H; cbn in H; try lia; cbn [bump fold_right]; [lia|].
  rewrite IH by lia. lia.
Qed.

Lemma in_idx_dec (t : idx) (l : list idx) : {In t l} + {~ In t l}.
Proof. apply in_dec. apply list_eq_dec. apply Z.eq_dec. Qed.

Lemma bump_search Theta t : forall k,
  (forall j, (j < k)%nat -> ~ In (bump j t) Theta) \/ (exists j, (j < k)%nat /\ In (bump j t) Theta).
Proof.
  induction k as [|k IH]; [left; intros j Hj; lia|].
  destruct IH as [IH|[j [Hj Hin]]]; [|right; exists j; split; [lia|exact Hin]].
  destruct (in_idx_dec (bump k t) Theta) as [Hin|Hno]; [right; exists k; split; [lia|exact Hin]|].
  left. intros j Hj. destruct (Nat.eq_dec j k) as [->|Hne]; [exact Hno|apply IH; lia].
Qed.

Lemma dominated_by_maximal_fuel Theta : (forall t, In t Theta -> nonneg t) ->
  forall n t, In t Theta -> sum_bound Theta - zsum t <= Z.of_nat n -> exists s, maximal Theta s /\ le_idx t s.
Proof.
  intros Hnn. induction n as [|n IH]; intros t Hin Hb.
  - exists t. split; [|apply le_idx_refl; apply Hnn; exact Hin]. split; [exact Hin|]. intros j Hj Hbj.
    pose proof (sum_bound_ge Theta _ Hbj) as H. rewrite zsum_bump in H by exact Hj. lia.
  - destruct (bump_search Theta t (length t)) as [Hmax|[j [Hj Hbj]]].
    + exists t. split; [split; assumption|apply le_idx_refl; apply Hnn; exact Hin].
    + destruct (IH (bump j t) Hbj) as [s [Hs Hle]]; [rewrite zsum_bump by exact Hj; lia|].
      exists s. split; [exact Hs|]. apply (le_idx_trans' _ (bump j t)); [|exact Hle]. apply le_bump. apply Hnn. exact Hin.
Qed.

Theorem dominated_by_maximal Theta t : (forall t, In t Theta -> nonneg t) -> In t Theta ->
  exists s, maximal Theta s /\ le_idx t s.
Proof.
  intros Hnn Hin. apply (dominated_by_maximal_fuel Theta Hnn (Z.to_nat (sum_bound Theta - zsum t)) t Hin).
  pose proof (sum_bound_ge Theta t Hin). lia.
Qed.

(* ================================================================ 3. the active tensors dominate *)
Theorem nonzero_weight_dominate Theta : (forall t, In t Theta -> nonneg t) -> lowerZ Theta ->
  forall t, In t Theta -> exists s, In s Theta /\ incl_excl Theta s <> 0 /\ le_idx t s.
Proof.
  intros Hnn Hl t Hin. destruct (dominated_by_maximal Theta t Hnn Hin) as [s [Hs Hle]].
  exists s. split; [exact (proj1 Hs)|]. split; [|exact Hle].
  rewrite (maximal_weight_one Theta s Hl (Hnn s (proj1 Hs)) Hs). discriminate.
Qed.

Lemma active_tensors_map (f : idx -> Z) : forall l, active_tensors l (map f l) = filter (fun t => negb (f t =? 0)) l.
Proof. induction l as [|a l IH]; [reflexivity|]. cbn. destruct (f a =? 0); cbn; rewrite IH; reflexivity. Qed.

Lemma active_tensors_map_in (f : idx -> Z) l s : In s (active_tensors l (map f l)) <-> In s l /\ f s <> 0.
Proof.
  rewrite active_tensors_map, filter_In. split; intros [H1 H2]; (split; [exact H1|]).
  - intros E. rewrite E in H2. discriminate.
  - destruct (Z.eqb_spec (f s) 0); [contradiction|reflexivity].
Qed.

(* the maximal elements are active with weight exactly 1 *)
Theorem maximal_active Theta s : (forall t, In t Theta -> nonneg t) -> lowerZ Theta -> maximal Theta s ->
  In s (active_tensors Theta (map (incl_excl Theta) Theta)).
Proof.
  intros Hnn Hl Hs. apply active_tensors_map_in. split; [exact (proj1 Hs)|].
  rewrite (maximal_weight_one Theta s Hl (Hnn s (proj1 Hs)) Hs). discriminate.
Qed.

Theorem active_dominate_incl_excl Theta : (forall t, In t Theta -> nonneg t) -> lowerZ Theta ->
  forall t, In t Theta -> exists s, In s (active_tensors Theta (map (incl_excl Theta) Theta)) /\ le_idx t s.
Proof.
  intros Hnn Hl t Hin. destruct (nonzero_weight_dominate Theta Hnn Hl t Hin) as [s [H1 [H2 H3]]].
  exists s. split; [|exact H3]. apply active_tensors_map_in. split; assumption.
Qed.

Theorem active_dominate_lines D Theta : sorted Theta -> wf D Theta -> (forall t, In t Theta -> nonneg t) -> lowerZ Theta -> (1 <= D)%nat ->
  forall t, In t Theta -> exists s, In s (active_tensors Theta (tw_lines Theta)) /\ le_idx t s.
Proof.
  intros Hs Hw Hnn Hl HD t Hin.
  assert (Hne : Theta <> []) by (intros E; rewrite E in Hin; destruct Hin).
  rewrite (tw_lines_incl_excl D Theta Hs Hw Hnn Hl HD Hne). apply active_dominate_incl_excl; assumption.
Qed.

Theorem active_dominate_cpp D Theta : sorted Theta -> wf D Theta -> (forall t, In t Theta -> nonneg t) -> lowerZ Theta -> (1 <= D)%nat ->
  forall t, In t Theta -> exists s, In s (active_tensors Theta (tw_cpp Theta)) /\ le_idx t s.
Proof.
  intros Hs Hw Hnn Hl HD t Hin.
  assert (Hne : Theta <> []) by (intros E; rewrite E in Hin; destruct Hin).
  rewrite (tw_cpp_incl_excl D Theta Hs Hw Hnn Hl HD Hne). apply active_dominate_incl_excl; assumption.
Qed.

Theorem maximal_active_cpp D Theta s : sorted Theta -> wf D Theta -> (forall t, In t Theta -> nonneg t) -> lowerZ Theta -> (1 <= D)%nat ->
  maximal Theta s -> In s (active_tensors Theta (tw_cpp Theta)).
Proof.
  intros Hs Hw Hnn Hl HD Hm.
  assert (Hne : Theta <> []) by (intros E; destruct Hm as [Hin _]; rewrite E in Hin; destruct Hin).
  rewrite (tw_cpp_incl_excl D Theta Hs Hw Hnn Hl HD Hne). apply maximal_active; assumption.
Qed.

(* the statement (3) in one piece *)
Theorem active_dominate D Theta : sorted Theta -> wf D Theta -> (forall t, In t Theta -> nonneg t) -> lowerZ Theta -> (1 <= D)%nat ->
  forall t, In t Theta ->
    (exists s, In s Theta /\ incl_excl Theta s <> 0 /\ le_idx t s) /\
    (exists s, In s (active_tensors Theta (tw_lines Theta)) /\ le_idx t s) /\
    (exists s, In s (active_tensors Theta (tw_cpp Theta)) /\ le_idx t s).
Proof.
  intros Hs Hw Hnn Hl HD t Hin. split; [apply nonzero_weight_dominate; assumption|].
  split; [apply (active_dominate_lines D)|apply (active_dominate_cpp D)]; assumption.
Qed.

(* ================================================================ 4. the points of the grid = the full blocks of the active tensors *)
Theorem points_of_active_tensors_unconditional n d Theta : growth_ok n -> sorted Theta -> tensors_ok d Theta -> lowerZ Theta -> (1 <= d)%nat ->
  nested_points n Theta = full_points n (active_tensors Theta (tw_cpp Theta)).
Proof.
  intros Hg Hs Hok Hl Hd. apply (nested_points_active n d); [exact Hg|exact Hok|exact Hl|].
  destruct Hok as [Hw Hnn]. apply (active_dominate_cpp d); assumption.
Qed.

Theorem points_of_active_tensors_lines n d Theta : growth_ok n -> sorted Theta -> tensors_ok d Theta -> lowerZ Theta -> (1 <= d)%nat ->
  nested_points n Theta = full_points n (active_tensors Theta (tw_lines Theta)).
Proof.
  intros Hg Hs Hok Hl Hd. apply (nested_points_active n d); [exact Hg|exact Hok|exact Hl|].
  destruct Hok as [Hw Hnn]. apply (active_dominate_lines d); assumption.
Qed.

(* ================================================================ 5. locality; the active weights sum to 1 *)
Lemma chi_iff s s' t : (In t s <-> In t s') -> chi s t = chi s' t.
Proof.
  intros H. destruct (in_idx_dec t s) as [Hin|Hno].
  - rewrite (chi_in s t Hin), (chi_in s' t (proj1 H Hin)). reflexivity.
  - rewrite (chi_notin s t Hno), (chi_notin s' t (fun H' => Hno (proj2 H H'))). reflexivity.
Qed.

Theorem incl_excl_corner Theta Theta' t :
  (forall e z, In (e, z) (cube (length t)) -> (In (map2 Z.add t e) Theta <-> In (map2 Z.add t e) Theta')) ->
  incl_excl Theta t = incl_excl Theta' t.
Proof.
  intros H. unfold incl_excl. f_equal. apply map_ext_in. intros [e z] He. cbn [fst snd]. f_equal. apply chi_iff. apply (H e z He).
Qed.

Lemma zsum_active_weights w : zsum (active_weights w) = zsum w.
Proof.
  unfold active_weights, zsum. induction w as [|x w IH]; [reflexivity|]. cbn [filter fold_right].
  destruct (Z.eqb_spec x 0) as [->|Hx]; cbn [negb fold_right]; lia.
Qed.

Theorem active_weights_sum_one D Theta : sorted Theta -> wf D Theta -> (forall t, In t Theta -> nonneg t) -> lowerZ Theta ->
  (1 <= D)%nat -> Theta <> [] -> zsum (active_weights (tw_cpp Theta)) = 1.
Proof.
  intros Hs Hw Hnn Hl HD Hne. rewrite zsum_active_weights, (tw_cpp_eq_tw_lines D Theta Hs Hw HD).
  apply (weights_sum_one D); assumption.
Qed.

(* ================================================================ data for the non-vacuity examples *)
Definition exA2 : list idx := [[0;0];[0;1];[0;2];[1;0];[1;1];[2;0]].
Lemma exA2_hyps : sorted exA2 /\ wf 2 exA2 /\ (forall t, In t exA2 -> nonneg t) /\ lowerZ exA2 /\ exA2 <> [].
Proof.
  split; [unfold exA2, sorted; prove_sorted|]. split; [unfold exA2, wf; repeat constructor|].
  split; [intros t [<-|[<-|[<-|[<-|[<-|[<-|[]]]]]]]; repeat constructor; lia|]. split; [|discriminate].
  intros t s Hin Hle.
  destruct Hin as [<-|[<-|[<-|[<-|[<-|[<-|[]]]]]]]; inversion Hle as [|a x s1 t1 Ha H1]; subst; inversion H1 as [|b y s2 t2 Hb H2]; subst;
    inversion H2; subst;
    assert (Ea : a = 0 \/ a = 1 \/ a = 2) by lia; assert (Eb : b = 0 \/ b = 1 \/ b = 2) by lia;
    destruct Ea as [-> | [-> | ->]]; destruct Eb as [-> | [-> | ->]]; try lia; cbn; auto 10.
Qed.
Lemma exA2_maximal : maximal exA2 [1;1] /\ maximal exA2 [0;2] /\ maximal exA2 [2;0] /\ ~ maximal exA2 [0;1].
Proof.
  assert (H : forall t, In t exA2 -> ~ In (bump 0 t) exA2 -> ~ In (bump 1 t) exA2 -> length t = 2%nat -> maximal exA2 t).
  { intros t H0 H1 H2 Hlen. split; [exact H0|]. intros j Hj. rewrite Hlen in Hj. destruct j as [|[|j]]; [exact H1|exact H2|lia]. }
  repeat split; try (apply H; [cbn; auto 10| cbn; intuition discriminate | cbn; intuition discriminate | reflexivity]).
  intros [_ Hm]. apply (Hm 1%nat); [cbn; lia|cbn; auto 10].
Qed.
