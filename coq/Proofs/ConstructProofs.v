(* Proofs about the dynamic-construction model (C09) and the output-range split (C11). *)
From TV Require Import Common.Prelude Model.IndexSets Model.RuleLocal Model.Selection Model.Hier Model.LocalGrid Model.Construct.
From TV Require Import Proofs.IndexSetsProofs Proofs.SelectionProofs Proofs.HierProofs Proofs.LocalGridProofs.
From Coq Require Import Permutation.
Local Open Scope Z_scope.

(* ---------------------------------------------------------------------------------------------------------- *)
(* small list facts                                                                                             *)
(* ---------------------------------------------------------------------------------------------------------- *)
Lemma filter_perm {A} (f : A -> bool) l : Permutation l (filter f l ++ filter (fun x => negb (f x)) l).
Proof.
  induction l as [|a l IH]; cbn; [constructor|].
  destruct (f a); cbn; [constructor; exact IH | apply Permutation_cons_app; exact IH].
Qed.

Lemma filter_nil_all {A} (f : A -> bool) l : filter f l = [] -> forall x, In x l -> f x = false.
Proof.
  induction l as [|a l IH]; cbn; intros E x Hx; [contradiction|].
  destruct (f a) eqn:Ea; [discriminate|]. destruct Hx as [->|Hx]; [exact Ea | apply IH; assumption].
Qed.

Lemma filter_length_split {A} (f : A -> bool) l :
  (length (filter f l) + length (filter (fun x => negb (f x)) l) = length l)%nat.
Proof. rewrite <- app_length. symmetry. apply Permutation_length. apply filter_perm. Qed.

Definition mono (a : list idx -> idx -> bool) : Prop :=
  forall S S' p, incl S S' -> a S p = true -> a S' p = true.

(* S is closed under adding the admissible members of P *)
Definition closed (a : list idx -> idx -> bool) (P S : list idx) : Prop :=
  forall x, In x P -> a S x = true -> In x S.

Section ConstructProofs.
  Variable V : Type.
  Variable adm1 admB : list idx -> idx -> bool.

  Notation sample := (sample V).
  Notation cstate := (cstate V).
  Notation completion := (completion V admB).
  Notation largest_completion := (largest_completion V admB).
  Notation deliver := (deliver V admB).
  Notation deliver_one := (deliver_one V adm1 admB).
  Notation api_deliver := (api_deliver V adm1 admB).
  Notation run := (run V adm1 admB).

  Definition stable (a : list idx -> idx -> bool) (st : cstate) : Prop :=
    forall s, In s (parked st) -> a (keys (loaded st)) (fst s) = false.

  Lemma keys_app (a b : list sample) : keys (a ++ b) = keys a ++ keys b.
  Proof. unfold keys. apply map_app. Qed.

  Lemma in_keys (l : list sample) s : In s l -> In (fst s) (keys l).
  Proof. intros H. unfold keys. apply in_map. exact H. Qed.

  Lemma keys_in (l : list sample) x : In x (keys l) -> exists s, In s l /\ fst s = x.
  Proof. unfold keys. intros H. apply in_map_iff in H. destruct H as [s [E H]]. exists s. split; assumption. Qed.

  (* ---- the completion pass ---- *)
  Lemma completion_perm fuel : forall ld pk,
    Permutation (loaded (completion fuel ld pk) ++ parked (completion fuel ld pk)) (ld ++ pk).
  Proof.
    induction fuel as [|f IH]; intros ld pk; cbn [Construct.completion]; [apply Permutation_refl|].
    destruct (filter (fun s => admB (keys ld) (fst s)) pk) as [|s mv] eqn:E; [apply Permutation_refl|].
    eapply Permutation_trans; [apply IH|]. rewrite <- E, <- app_assoc.
    apply Permutation_app_head. apply Permutation_sym. apply filter_perm.
  Qed.

  Lemma completion_grows fuel : forall ld pk, exists mv, loaded (completion fuel ld pk) = ld ++ mv.
  Proof.
    induction fuel as [|f IH]; intros ld pk; cbn [Construct.completion]; [exists []; cbn; rewrite app_nil_r; reflexivity|].
    destruct (filter (fun s => admB (keys ld) (fst s)) pk) as [|s mv] eqn:E; [exists []; cbn; rewrite app_nil_r; reflexivity|].
    destruct (IH (ld ++ s :: mv) (filter (fun s0 => negb (admB (keys ld) (fst s0))) pk)) as [mv' Hm].
    exists ((s :: mv) ++ mv'). rewrite Hm. rewrite app_assoc. reflexivity.
  Qed.

  Lemma completion_stable fuel : forall ld pk, (length pk <= fuel)%nat -> stable admB (completion fuel ld pk).
  Proof.
    induction fuel as [|f IH]; intros ld pk Hl; cbn [Construct.completion].
    - destruct pk; [|cbn in Hl; lia]. intros s [].
    - destruct (filter (fun s => admB (keys ld) (fst s)) pk) as [|s mv] eqn:E.
      + intros x Hx. cbn in Hx |- *. exact (filter_nil_all _ _ E x Hx).
      + apply IH. pose proof (filter_length_split (fun s0 => admB (keys ld) (fst s0)) pk) as Hs.
        rewrite E in Hs. cbn beta in Hs. cbn [length] in Hs. unfold Construct.sample in *. lia.
  Qed.

  (* everything the pass moves was parked and admissible w.r.t. a subset of the final loaded set *)
  Lemma completion_below (hi : list idx -> idx -> bool) (P S : list idx) :
    mono hi -> (forall T p, admB T p = true -> hi T p = true) -> closed hi P S ->
    forall fuel ld pk, incl (keys ld) S -> incl (keys pk) P ->
      incl (keys (loaded (completion fuel ld pk))) S /\ incl (keys (parked (completion fuel ld pk))) P.
  Proof.
    intros Hm HB Hc. induction fuel as [|f IH]; intros ld pk Hl Hp; cbn [Construct.completion]; [split; assumption|].
    destruct (filter (fun s => admB (keys ld) (fst s)) pk) as [|s mv] eqn:E; [split; assumption|].
    apply IH.
    - rewrite keys_app. apply incl_app; [exact Hl|]. rewrite <- E. intros x Hx.
      apply keys_in in Hx. destruct Hx as [s0 [Hs0 <-]]. apply filter_In in Hs0. destruct Hs0 as [Hin Ha].
      apply Hc; [apply Hp; apply in_keys; exact Hin|]. eapply Hm; [exact Hl|]. apply HB. exact Ha.
    - intros x Hx. apply keys_in in Hx. destruct Hx as [s0 [Hs0 <-]]. apply filter_In in Hs0.
      apply Hp. apply in_keys. tauto.
  Qed.

  (* ---- one API call ---- *)
  Lemma deliver_perm st b : Permutation (loaded (deliver st b) ++ parked (deliver st b)) (loaded st ++ parked st ++ b).
  Proof.
    unfold Construct.deliver, Construct.largest_completion. cbn [loaded parked].
    eapply Permutation_trans; [apply completion_perm|]. apply Permutation_app_head.
    eapply Permutation_trans; [apply Permutation_app_comm|]. apply Permutation_app_head. apply Permutation_sym, Permutation_rev.
  Qed.

  Lemma deliver_one_perm st s :
    Permutation (loaded (deliver_one st s) ++ parked (deliver_one st s)) (loaded st ++ parked st ++ [s]).
  Proof.
    unfold Construct.deliver_one. destruct (adm1 (keys (loaded st)) (fst s)).
    - unfold Construct.largest_completion. cbn [loaded parked]. eapply Permutation_trans; [apply completion_perm|].
      rewrite <- app_assoc. apply Permutation_app_head. apply Permutation_app_comm.
    - cbn [loaded parked]. apply Permutation_app_head. change (s :: parked st) with ([s] ++ parked st). apply Permutation_app_comm.
  Qed.

  Lemma api_deliver_perm st b :
    Permutation (loaded (api_deliver st b) ++ parked (api_deliver st b)) (loaded st ++ parked st ++ b).
  Proof.
    unfold Construct.api_deliver. destruct b as [|s [|s2 b]]; [apply deliver_perm|apply deliver_one_perm|apply deliver_perm].
  Qed.

  (* c09_nothing_dropped: loaded + parked is, as a multiset of (index, value) pairs, everything that was there plus
     everything delivered - for every history *)
  Theorem run_perm hist : forall st,
    Permutation (loaded (run st hist) ++ parked (run st hist)) (loaded st ++ parked st ++ concat hist).
  Proof.
    induction hist as [|b h IH]; intros st; cbn [Construct.run fold_left concat].
    - rewrite app_nil_r. apply Permutation_refl.
    - eapply Permutation_trans; [apply IH|]. rewrite !app_assoc. apply Permutation_app_tail.
      rewrite <- app_assoc. apply api_deliver_perm.
  Qed.

  Lemma run_loaded_grows hist : forall st, exists mv, loaded (run st hist) = loaded st ++ mv.
  Proof.
    induction hist as [|b h IH]; intros st; cbn [Construct.run fold_left]; [exists []; rewrite app_nil_r; reflexivity|].
    destruct (IH (api_deliver st b)) as [mv Hm]. fold (run (api_deliver st b) h) in Hm.
    assert (Hs : exists mv0, loaded (api_deliver st b) = loaded st ++ mv0).
    { unfold Construct.api_deliver, Construct.deliver, Construct.deliver_one, Construct.largest_completion.
      destruct b as [|s [|s2 b]]; cbn [loaded parked]; try apply completion_grows.
      destruct (adm1 (keys (loaded st)) (fst s)); cbn [loaded parked].
      - destruct (completion_grows (length (parked st)) (loaded st ++ [s]) (parked st)) as [m Hm0].
        exists ([s] ++ m). rewrite Hm0, app_assoc. reflexivity.
      - exists []. rewrite app_nil_r. reflexivity. }
    destruct Hs as [mv0 Hs]. exists (mv0 ++ mv).
    change (fold_left api_deliver h (api_deliver st b)) with (run (api_deliver st b) h).
    rewrite Hm, Hs, app_assoc. reflexivity.
  Qed.

  (* c09_values_as_supplied *)
  Theorem run_values hist st p v :
    In (p, v) (loaded (run st hist)) -> In (p, v) (loaded st ++ parked st ++ concat hist).
  Proof.
    intros H. eapply Permutation_in; [apply run_perm|]. apply in_or_app. left. exact H.
  Qed.

  Theorem run_keys_nodup hist st :
    NoDup (keys (loaded st ++ parked st ++ concat hist)) -> NoDup (keys (loaded (run st hist) ++ parked (run st hist))).
  Proof.
    intros H. eapply Permutation_NoDup; [|exact H]. unfold keys. apply Permutation_map. apply Permutation_sym. apply run_perm.
  Qed.

  Lemma nodup_keys_unique (l : list sample) p v v' : NoDup (keys l) -> In (p, v) l -> In (p, v') l -> v = v'.
  Proof.
    induction l as [|[q w] l IH]; cbn; intros Hn H1 H2; [contradiction|].
    inversion Hn as [|? ? Hq Hn']; subst.
    destruct H1 as [E1|H1]; destruct H2 as [E2|H2].
    - congruence.
    - injection E1 as -> ->. exfalso. apply Hq. apply (in_keys l (p, v')). exact H2.
    - injection E2 as -> ->. exfalso. apply Hq. apply (in_keys l (p, v)). exact H1.
    - apply IH; assumption.
  Qed.

  (* each loaded point carries exactly the value supplied for it *)
  Theorem run_value_is_supplied hist st p v v' :
    NoDup (keys (loaded st ++ parked st ++ concat hist)) ->
    In (p, v) (loaded (run st hist)) -> In (p, v') (loaded st ++ parked st ++ concat hist) -> v = v'.
  Proof.
    intros Hn H1 H2. eapply nodup_keys_unique; [exact Hn| |exact H2]. eapply run_values. exact H1.
  Qed.

  (* ---- bounds on the final loaded set ---- *)
  Section Bounds.
    Variable lo hi : list idx -> idx -> bool.
    Hypothesis hi_mono : mono hi.
    Hypothesis lo_1 : forall S p, lo S p = true -> adm1 S p = true.
    Hypothesis lo_B : forall S p, lo S p = true -> admB S p = true.
    Hypothesis hi_1 : forall S p, adm1 S p = true -> hi S p = true.
    Hypothesis hi_B : forall S p, admB S p = true -> hi S p = true.

    Lemma stable_B_lo st : stable admB st -> stable lo st.
    Proof.
      intros H s Hs. specialize (H s Hs). destruct (lo (keys (loaded st)) (fst s)) eqn:E; [|reflexivity].
      apply lo_B in E. congruence.
    Qed.

    Lemma api_deliver_stable st b : stable lo st -> stable lo (api_deliver st b).
    Proof.
      intros Hst. unfold Construct.api_deliver.
      assert (Hd : forall bb, stable lo (deliver st bb)).
      { intros bb. apply stable_B_lo. unfold Construct.deliver, Construct.largest_completion. apply completion_stable. cbn. lia. }
      destruct b as [|s [|s2 b]]; try apply Hd.
      unfold Construct.deliver_one. destruct (adm1 (keys (loaded st)) (fst s)) eqn:Ea.
      - apply stable_B_lo. unfold Construct.largest_completion. apply completion_stable. cbn. lia.
      - intros x Hx. cbn [loaded parked] in Hx |- *. destruct Hx as [<-|Hx]; [|apply Hst; exact Hx].
        destruct (lo (keys (loaded st)) (fst s)) eqn:E; [|reflexivity]. apply lo_1 in E. congruence.
    Qed.

    Lemma run_stable hist : forall st, stable lo st -> stable lo (run st hist).
    Proof.
      induction hist as [|b h IH]; intros st Hst; cbn [Construct.run fold_left]; [exact Hst|].
      apply IH. apply api_deliver_stable. exact Hst.
    Qed.

    Lemma api_deliver_below P S st b :
      closed hi P S -> incl (keys (loaded st)) S -> incl (keys (parked st)) P -> incl (keys b) P ->
      incl (keys (loaded (api_deliver st b))) S /\ incl (keys (parked (api_deliver st b))) P.
    Proof.
      intros Hc Hl Hp Hb.
      assert (Hd : forall bb, incl (keys bb) P ->
                incl (keys (loaded (deliver st bb))) S /\ incl (keys (parked (deliver st bb))) P).
      { intros bb Hbb. unfold Construct.deliver, Construct.largest_completion. cbn [loaded parked].
        apply (completion_below hi P S hi_mono hi_B Hc); [exact Hl|].
        rewrite keys_app. apply incl_app; [|exact Hp]. intros x Hx. apply Hbb. unfold keys in *. rewrite map_rev in Hx.
        apply in_rev. exact Hx. }
      unfold Construct.api_deliver. destruct b as [|s [|s2 b]]; try (apply Hd; exact Hb).
      unfold Construct.deliver_one. destruct (adm1 (keys (loaded st)) (fst s)) eqn:Ea.
      - unfold Construct.largest_completion. cbn [loaded parked].
        apply (completion_below hi P S hi_mono hi_B Hc); [|exact Hp].
        rewrite keys_app. apply incl_app; [exact Hl|]. intros x [<-|[]].
        apply Hc; [apply Hb; left; reflexivity|]. eapply hi_mono; [exact Hl|]. apply hi_1. exact Ea.
      - cbn [loaded parked]. split; [exact Hl|]. intros x [<-|Hx]; [apply Hb; left; reflexivity|apply Hp; exact Hx].
    Qed.

    Lemma run_below P S hist : forall st,
      closed hi P S -> incl (keys (loaded st)) S -> incl (keys (parked st)) P -> incl (keys (concat hist)) P ->
      incl (keys (loaded (run st hist))) S.
    Proof.
      induction hist as [|b h IH]; intros st Hc Hl Hp Hh; cbn [Construct.run fold_left]; [exact Hl|].
      cbn [concat] in Hh. rewrite keys_app in Hh.
      destruct (api_deliver_below P S st b Hc Hl Hp (fun x Hx => Hh x (in_or_app _ _ x (or_introl Hx)))) as [H1 H2].
      apply IH; try assumption. intros x Hx. apply Hh. apply in_or_app. right. exact Hx.
    Qed.

    (* the final loaded set contains the start set and is closed under [lo] over everything parked or delivered *)
    Theorem final_closed_lo hist st : stable lo st ->
      incl (keys (loaded st)) (keys (loaded (run st hist))) /\
      closed lo (keys (parked st) ++ keys (concat hist)) (keys (loaded (run st hist))).
    Proof.
      intros Hst. split.
      - destruct (run_loaded_grows hist st) as [mv Hm]. rewrite Hm, keys_app. apply incl_appl. apply incl_refl.
      - intros x Hx Ha.
        assert (Hin : In x (keys (loaded (run st hist) ++ parked (run st hist)))).
        { unfold keys. eapply Permutation_in; [apply Permutation_map; apply Permutation_sym; apply run_perm|].
          rewrite !map_app. apply in_or_app. right. unfold keys in Hx. exact Hx. }
        rewrite keys_app in Hin. apply in_app_or in Hin. destruct Hin as [Hin|Hin]; [exact Hin|].
        apply keys_in in Hin. destruct Hin as [s [Hs <-]].
        pose proof (run_stable hist st Hst s Hs) as Hf. congruence.
    Qed.

    (* and it is contained in every set that contains the start set and is closed under [hi] *)
    Theorem final_below_hi hist st S :
      incl (keys (loaded st)) S -> closed hi (keys (parked st) ++ keys (concat hist)) S ->
      incl (keys (loaded (run st hist))) S.
    Proof.
      intros Hl Hc. apply (run_below (keys (parked st) ++ keys (concat hist)) S hist st Hc Hl).
      - apply incl_appl. apply incl_refl.
      - apply incl_appr. apply incl_refl.
    Qed.

    (* the final loaded set never leaves the supplied indexes *)
    Lemma final_within hist st : incl (keys (loaded (run st hist))) (keys (loaded st) ++ keys (parked st) ++ keys (concat hist)).
    Proof.
      intros x Hx. apply keys_in in Hx. destruct Hx as [[p v] [Hs <-]]. apply run_values in Hs.
      rewrite <- !keys_app. apply (in_keys _ (p, v)). exact Hs.
    Qed.

    (* a target that is completely [lo]-admissible is loaded completely, whatever the order and the batching *)
    Theorem complete_target_all_loaded hist st : stable lo st ->
      (forall S, incl (keys (loaded st)) S -> closed lo (keys (parked st) ++ keys (concat hist)) S ->
                 incl (keys (parked st) ++ keys (concat hist)) S) ->
      forall x, In x (keys (loaded (run st hist))) <-> In x (keys (loaded st) ++ keys (parked st) ++ keys (concat hist)).
    Proof.
      intros Hst Hall x. split; [apply final_within|].
      destruct (final_closed_lo hist st Hst) as [H1 H2]. intros Hx. apply in_app_or in Hx. destruct Hx as [Hx|Hx].
      - apply H1. exact Hx.
      - apply (Hall _ H1 H2). exact Hx.
    Qed.

    (* if the two bounds agree on the supplied universe U, the final set is exactly the least [hi]-closed set *)
    Theorem final_least_when_agree hist st U : stable lo st ->
      incl (keys (loaded st) ++ keys (parked st) ++ keys (concat hist)) U ->
      (forall S x, incl S U -> In x U -> hi S x = true -> lo S x = true) ->
      incl (keys (loaded st)) (keys (loaded (run st hist))) /\
      closed hi (keys (parked st) ++ keys (concat hist)) (keys (loaded (run st hist))) /\
      (forall S, incl (keys (loaded st)) S -> closed hi (keys (parked st) ++ keys (concat hist)) S ->
                 incl (keys (loaded (run st hist))) S).
    Proof.
      intros Hst HU Hag. destruct (final_closed_lo hist st Hst) as [H1 H2]. split; [exact H1|]. split.
      - intros x Hx Ha. apply H2; [exact Hx|]. apply Hag; [|apply HU; apply in_or_app; right; exact Hx|exact Ha].
        intros y Hy. apply HU. apply final_within. exact Hy.
      - intros S. apply final_below_hi.
    Qed.

    Theorem order_independent_when_agree h1 h2 st U : stable lo st ->
      incl (keys (loaded st) ++ keys (parked st) ++ keys (concat h1)) U ->
      (forall x, In x (keys (concat h1)) <-> In x (keys (concat h2))) ->
      (forall S x, incl S U -> In x U -> hi S x = true -> lo S x = true) ->
      forall x, In x (keys (loaded (run st h1))) <-> In x (keys (loaded (run st h2))).
    Proof.
      intros Hst HU He Hag.
      assert (HU2 : incl (keys (loaded st) ++ keys (parked st) ++ keys (concat h2)) U).
      { intros y Hy. apply HU. rewrite !in_app_iff in *. rewrite (He y). exact Hy. }
      destruct (final_least_when_agree h1 st U Hst HU Hag) as [A1 [B1 C1]].
      destruct (final_least_when_agree h2 st U Hst HU2 Hag) as [A2 [B2 C2]].
      intros x. split; intros Hx.
      - apply (C1 _ A2); [|exact Hx]. intros y Hy. apply B2. rewrite in_app_iff in *. rewrite <- (He y). exact Hy.
      - apply (C2 _ A1); [|exact Hx]. intros y Hy. apply B1. rewrite in_app_iff in *. rewrite (He y). exact Hy.
    Qed.
  End Bounds.
End ConstructProofs.

(* ---------------------------------------------------------------------------------------------------------- *)
(* one admissibility predicate for both entry points: exact characterisation and order independence            *)
(* ---------------------------------------------------------------------------------------------------------- *)
Section OneAdm.
  Variable V : Type.
  Variable adm : list idx -> idx -> bool.
  Hypothesis adm_mono : mono adm.
  Notation run := (run V adm adm).

  Definition least_closed (L P F : list idx) : Prop :=
    incl L F /\ closed adm P F /\ forall S, incl L S -> closed adm P S -> incl F S.

  (* the final loaded set is the LEAST set that contains the start set and is closed under adding admissible
     delivered points, i.e. the largest admissible subset of what was supplied *)
  Theorem run_least_closed hist (st : cstate V) : stable V adm st ->
    least_closed (keys (loaded st)) (keys (parked st) ++ keys (concat hist)) (keys (loaded (run st hist))).
  Proof.
    intros Hst.
    destruct (final_closed_lo V adm adm adm (fun _ _ h => h) (fun _ _ h => h) hist st Hst) as [H1 H2].
    split; [exact H1|]. split; [exact H2|]. intros S Hl Hc.
    apply (final_below_hi V adm adm adm adm_mono (fun _ _ h => h) (fun _ _ h => h) hist st S Hl Hc).
  Qed.

  (* the completion pass alone: least closed extension of the loaded set by parked samples *)
  Theorem largest_completion_least (st : cstate V) :
    let c := largest_completion V adm st in
    incl (keys (loaded st)) (keys (loaded c)) /\ closed adm (keys (parked st)) (keys (loaded c)) /\
    (forall S, incl (keys (loaded st)) S -> closed adm (keys (parked st)) S -> incl (keys (loaded c)) S).
  Proof.
    cbv zeta. unfold Construct.largest_completion. split; [|split].
    - destruct (completion_grows V adm (length (parked st)) (loaded st) (parked st)) as [mv Hm].
      rewrite Hm, keys_app. apply incl_appl. apply incl_refl.
    - intros x Hx Ha.
      assert (Hin : In x (keys (loaded (completion V adm (length (parked st)) (loaded st) (parked st)) ++
                                 parked (completion V adm (length (parked st)) (loaded st) (parked st))))).
      { unfold keys. eapply Permutation_in; [apply Permutation_map; apply Permutation_sym; apply completion_perm|].
        rewrite map_app. apply in_or_app. right. exact Hx. }
      rewrite keys_app in Hin. apply in_app_or in Hin. destruct Hin as [Hin|Hin]; [exact Hin|].
      apply keys_in in Hin. destruct Hin as [s [Hs <-]].
      pose proof (completion_stable V adm (length (parked st)) (loaded st) (parked st) (le_n _) s Hs) as Hf. congruence.
    - intros S Hl Hc.
      apply (completion_below V adm adm adm (keys (parked st)) S adm_mono (fun _ _ e => e) Hc (length (parked st)) (loaded st) (parked st) Hl (incl_refl _)).
  Qed.

  Lemma closed_ext P P' S : (forall x, In x P <-> In x P') -> closed adm P S -> closed adm P' S.
  Proof. intros He Hc x Hx. apply Hc. apply He. exact Hx. Qed.

  (* c09_order_independent: two histories (any order, any batch partition, single-point or batch entry) that deliver
     the same set of indexes from the same state end with the same loaded set *)
  Theorem order_independent h1 h2 (st : cstate V) : stable V adm st ->
    (forall x, In x (keys (concat h1)) <-> In x (keys (concat h2))) ->
    forall x, In x (keys (loaded (run st h1))) <-> In x (keys (loaded (run st h2))).
  Proof.
    intros Hst He.
    destruct (run_least_closed h1 st Hst) as [A1 [B1 C1]]. destruct (run_least_closed h2 st Hst) as [A2 [B2 C2]].
    assert (E12 : forall x, In x (keys (parked st) ++ keys (concat h1)) <-> In x (keys (parked st) ++ keys (concat h2))).
    { intros x. rewrite !in_app_iff. rewrite (He x). tauto. }
    intros x. split; intros Hx.
    - apply (C1 _ A2); [|exact Hx]. eapply closed_ext; [|exact B2]. intros y. symmetry. apply E12.
    - apply (C2 _ A1); [|exact Hx]. eapply closed_ext; [|exact B1]. exact E12.
  Qed.

  (* every chain of admissible additions stays inside the final loaded set (it is the largest admissible extension) *)
  Fixpoint adm_chain (L P : list idx) (chain : list idx) : Prop :=
    match chain with
    | [] => True
    | x :: rest => adm_chain L P rest /\ In x P /\ adm (L ++ rest) x = true
    end.

  Theorem chain_within_final hist (st : cstate V) chain : stable V adm st ->
    adm_chain (keys (loaded st)) (keys (parked st) ++ keys (concat hist)) chain ->
    incl chain (keys (loaded (run st hist))).
  Proof.
    intros Hst. destruct (run_least_closed hist st Hst) as [A [B _]].
    induction chain as [|x rest IH]; intros Hc; [intros y []|].
    destruct Hc as [Hr [Hx Ha]]. specialize (IH Hr). intros y [<-|Hy]; [|apply IH; exact Hy].
    apply B; [exact Hx|]. eapply adm_mono; [|exact Ha]. apply incl_app; assumption.
  Qed.
End OneAdm.

(* ---------------------------------------------------------------------------------------------------------- *)
(* admissibility predicates of the families                                                                    *)
(* ---------------------------------------------------------------------------------------------------------- *)
Lemma memb_incl S S' x : incl S S' -> memb x S = true -> memb x S' = true.
Proof. intros Hi H. apply memb_In. apply Hi. apply memb_In. exact H. Qed.

Lemma lower_adm_mono : mono lower_adm.
Proof.
  intros S S' p Hi H. unfold lower_adm in *. rewrite forallb_forall in *. intros dir Hd. specialize (H dir Hd).
  cbv zeta in *. apply orb_true_iff in H. apply orb_true_iff. destruct H as [H|H]; [left; exact H|right].
  eapply memb_incl; eauto.
Qed.

Lemma conn_adm1_mono rel root : mono (conn_adm1 rel root).
Proof.
  intros S S' p Hi H. unfold conn_adm1 in *. apply orb_true_iff in H. apply orb_true_iff. destruct H as [H|H]; [left; exact H|right].
  rewrite existsb_exists in *. destruct H as [dir [Hd H]]. exists dir. split; [exact Hd|].
  rewrite existsb_exists in *. destruct H as [q [Hq H]]. exists q. split; [exact Hq|]. eapply memb_incl; eauto.
Qed.

Lemma conn_admB_mono rel root : mono (conn_admB rel root).
Proof.
  intros S S' p Hi H. unfold conn_admB in *. apply orb_true_iff in H. apply orb_true_iff. destruct H as [H|H]; [left; exact H|right].
  rewrite existsb_exists in *. destruct H as [t [Ht H]]. exists t. split; [apply Hi; exact Ht|exact H].
Qed.

(* the two connectivity tests agree when the relatives relation is symmetric *)
Lemma set_nth_same l : forall n, set_nth l n (nth n l 0) = l.
Proof. induction l as [|a l IH]; intros [|n]; cbn; try reflexivity. rewrite IH. reflexivity. Qed.

Lemma set_nth_twice l : forall n a b, set_nth (set_nth l n a) n b = set_nth l n b.
Proof. induction l as [|x l IH]; intros [|n] a b; cbn; try reflexivity. rewrite IH. reflexivity. Qed.

Definition coords_ok (ok : Z -> Prop) (S : list idx) : Prop := Forall (Forall ok) S.

Lemma nth_ok (ok : Z -> Prop) (p : idx) dir : Forall ok p -> (dir < length p)%nat -> ok (nth dir p 0).
Proof. intros H Hd. rewrite Forall_forall in H. apply H. apply nth_In. exact Hd. Qed.

Lemma conn_adm_agree rel root (ok : Z -> Prop) (d : nat) S p :
  (forall a b, ok a -> ok b -> In b (rel a) -> In a (rel b)) -> wf d S -> coords_ok ok S -> length p = d -> Forall ok p ->
  conn_adm1 rel root S p = conn_admB rel root S p.
Proof.
  intros Hsym Hw Hok Hp Hokp. unfold conn_adm1, conn_admB. destruct (root p); [reflexivity|]. cbn [orb].
  apply eq_true_iff_eq. rewrite !existsb_exists. split.
  - intros [dir [Hd H]]. rewrite existsb_exists in H. destruct H as [q [Hq Hm]].
    apply memb_In in Hm. exists (set_nth p dir q). split; [exact Hm|].
    rewrite existsb_exists. exists dir. apply in_seq in Hd. split; [apply in_seq; rewrite set_nth_length; exact Hd|].
    rewrite existsb_exists. exists (nth dir p 0). rewrite nth_set_nth by lia. split.
    + apply Hsym; [apply nth_ok; [exact Hokp|lia]| |exact Hq].
      unfold coords_ok in Hok. rewrite Forall_forall in Hok. specialize (Hok _ Hm).
      rewrite <- (nth_set_nth p dir q) by lia. apply nth_ok; [exact Hok|rewrite set_nth_length; lia].
    + rewrite set_nth_twice, set_nth_same. destruct (idx_eqb_spec p p); congruence.
  - intros [t [Ht H]]. rewrite existsb_exists in H. destruct H as [dir [Hd H]].
    rewrite existsb_exists in H. destruct H as [q [Hq He]]. destruct (idx_eqb_spec (set_nth t dir q) p) as [E|]; [|discriminate].
    assert (Hlt : length t = d) by (unfold wf in Hw; rewrite Forall_forall in Hw; apply Hw; exact Ht).
    apply in_seq in Hd. exists dir. split; [apply in_seq; rewrite Hp, <- Hlt; exact Hd|].
    rewrite existsb_exists. exists (nth dir t 0).
    assert (Hokt : Forall ok t) by (unfold coords_ok in Hok; rewrite Forall_forall in Hok; apply Hok; exact Ht).
    subst p. rewrite nth_set_nth by lia. split.
    + apply Hsym; [apply nth_ok; [exact Hokt|lia]| |exact Hq].
      rewrite <- (nth_set_nth t dir q) by lia. apply nth_ok; [exact Hokp|rewrite set_nth_length; lia].
    + rewrite set_nth_twice, set_nth_same. apply memb_In. exact Ht.
Qed.

(* decidable symmetry of the one-dimensional relatives relation for points 0 .. n-1 *)
Definition zmem (a : Z) (l : list Z) : bool := existsb (Z.eqb a) l.
Definition rel_sym_upto (rel : Z -> list Z) (n : nat) : bool :=
  forallb (fun a => forallb (fun b => negb ((0 <=? b) && (b <? Z.of_nat n)) || zmem a (rel b)) (rel a)) (map Z.of_nat (seq 0 n)).

Lemma zmem_In a l : zmem a l = true <-> In a l.
Proof.
  unfold zmem. rewrite existsb_exists. split; [intros [x [Hx E]]; apply Z.eqb_eq in E; subst; exact Hx|].
  intros H. exists a. split; [exact H|apply Z.eqb_refl].
Qed.

Lemma rel_sym_upto_spec rel n : rel_sym_upto rel n = true ->
  forall a b, 0 <= a < Z.of_nat n -> 0 <= b < Z.of_nat n -> In b (rel a) -> In a (rel b).
Proof.
  intros H a b Ha Hb Hin. unfold rel_sym_upto in H. rewrite forallb_forall in H.
  assert (Hia : In a (map Z.of_nat (seq 0 n))).
  { apply in_map_iff. exists (Z.to_nat a). split; [lia|]. apply in_seq. lia. }
  specialize (H a Hia). rewrite forallb_forall in H. specialize (H b Hin).
  apply orb_true_iff in H. destruct H as [H|H]; [|apply zmem_In; exact H].
  apply negb_true_iff in H. apply andb_false_iff in H. destruct H as [H|H]; lia.
Qed.

(* Local Polynomial grids: order independence whenever the relatives relation of the rule is symmetric on the points
   that occur (decided by rel_sym_upto; it holds for localp, localp-zero, localp-boundary and order 0, not for semi-localp) *)
Section LocalOrder.
  Variable V : Type.
  Variable rel : Z -> list Z.
  Variable root : idx -> bool.
  Variable n : nat.
  Variable d : nat.
  Hypothesis Hsym : rel_sym_upto rel n = true.

  Definition lo_conn (S : list idx) (p : idx) : bool := conn_adm1 rel root S p && conn_admB rel root S p.
  Definition hi_conn (S : list idx) (p : idx) : bool := conn_adm1 rel root S p || conn_admB rel root S p.
  Definition bounded_idx (p : idx) : Prop := length p = d /\ Forall (fun k => 0 <= k < Z.of_nat n) p.

  Lemma hi_conn_mono : mono hi_conn.
  Proof.
    intros S S' p Hi H. unfold hi_conn in *. apply orb_true_iff in H. apply orb_true_iff.
    destruct H as [H|H]; [left; eapply conn_adm1_mono; eauto|right; eapply conn_admB_mono; eauto].
  Qed.

  Theorem local_order_independent h1 h2 (st : cstate V) :
    stable V lo_conn st ->
    (forall x, In x (keys (loaded st) ++ keys (parked st) ++ keys (concat h1)) -> bounded_idx x) ->
    (forall x, In x (keys (concat h1)) <-> In x (keys (concat h2))) ->
    forall x, In x (keys (loaded (run V (conn_adm1 rel root) (conn_admB rel root) st h1))) <->
              In x (keys (loaded (run V (conn_adm1 rel root) (conn_admB rel root) st h2))).
  Proof.
    intros Hst Hb He.
    apply (order_independent_when_agree V (conn_adm1 rel root) (conn_admB rel root) lo_conn hi_conn hi_conn_mono
             (fun S p H => proj1 (proj1 (andb_true_iff _ _) H)) (fun S p H => proj2 (proj1 (andb_true_iff _ _) H))
             (fun S p H => proj2 (orb_true_iff _ _) (or_introl H)) (fun S p H => proj2 (orb_true_iff _ _) (or_intror H))
             h1 h2 st (keys (loaded st) ++ keys (parked st) ++ keys (concat h1)) Hst (incl_refl _) He).
    intros S x HS Hx Hh. unfold hi_conn in Hh. unfold lo_conn.
    assert (Hw : wf d S) by (unfold wf; rewrite Forall_forall; intros y Hy; apply (Hb y (HS y Hy))).
    assert (Hok : coords_ok (fun k => 0 <= k < Z.of_nat n) S).
    { unfold coords_ok. rewrite Forall_forall. intros y Hy. apply (Hb y (HS y Hy)). }
    destruct (Hb x Hx) as [Hlx Hbx].
    rewrite (conn_adm_agree rel root (fun k => 0 <= k < Z.of_nat n) d S x (rel_sym_upto_spec rel n Hsym) Hw Hok Hlx Hbx) in *.
    apply andb_true_iff. destruct (conn_admB rel root S x); [split; reflexivity|discriminate].
  Qed.
End LocalOrder.

(* ---------------------------------------------------------------------------------------------------------- *)
(* candidates                                                                                                  *)
(* ---------------------------------------------------------------------------------------------------------- *)
Lemma sort_unique_In l x : In x (sort_unique l) -> In x l.
Proof.
  induction l as [|a l IH]; cbn; [tauto|]. intros H. apply insert_In in H. destruct H as [->|H]; [left; reflexivity|right; apply IH; exact H].
Qed.

Lemma memb_false_notin x l : memb x l = false -> ~ In x l.
Proof. intros H Hin. apply memb_In in Hin. congruence. Qed.

Theorem exclusive_children_spec pts excl limits p : In p (exclusive_children pts excl limits) ->
  ~ In p pts /\ ~ In p excl /\ lower_adm pts p = true.
Proof.
  unfold exclusive_children. intros H. apply sort_unique_In in H. apply in_flat_map in H. destruct H as [t [Ht H]].
  apply in_flat_map in H. destruct H as [dir [Hd H]]. cbv zeta in H.
  destruct (negb (memb (set_nth t dir (nth dir t 0 + 1)) excl) && negb (memb (set_nth t dir (nth dir t 0 + 1)) pts) &&
            lower_adm pts (set_nth t dir (nth dir t 0 + 1)) && child_limit_ok limits dir (nth dir t 0 + 1)) eqn:E; [|contradiction].
  destruct H as [<-|[]]. apply andb_true_iff in E. destruct E as [E _]. apply andb_true_iff in E. destruct E as [E E3].
  apply andb_true_iff in E. destruct E as [E1 E2]. apply negb_true_iff in E1, E2.
  split; [apply memb_false_notin; exact E2|]. split; [apply memb_false_notin; exact E1|exact E3].
Qed.

Theorem seq_candidates_fresh pts initial limits p :
  (forall x, In x initial -> ~ In x pts) -> In p (seq_candidates pts initial limits) -> ~ In p pts.
Proof.
  intros Hd H. unfold seq_candidates in H. apply in_app_or in H. destruct H as [H|H]; [apply Hd; exact H|].
  apply exclusive_children_spec in H. tauto.
Qed.

Theorem local_candidates_fresh rc initial pts p :
  (forall x, In x initial -> ~ In x pts) -> (forall x, In x rc -> ~ In x pts) -> In p (local_candidates rc initial) -> ~ In p pts.
Proof.
  intros Hd Hr H. unfold local_candidates in H. apply in_app_or in H. destruct H as [H|H]; [apply Hd; exact H|].
  apply filter_In in H. apply Hr. tauto.
Qed.

(* the remaining initial points never contain a loaded point *)
Theorem initial_after_fresh V adm1 admB init hist (st : cstate V) p :
  (forall x, In x init -> ~ In x (keys (loaded st ++ parked st))) ->
  In p (initial_after V init hist) -> ~ In p (keys (loaded (run V adm1 admB st hist))).
Proof.
  intros Hd H Hl. unfold initial_after in H. apply filter_In in H. destruct H as [Hi Hm]. apply negb_true_iff in Hm.
  apply keys_in in Hl. destruct Hl as [[q v] [Hs E]]. cbn in E. subst q. apply run_values in Hs.
  rewrite app_assoc in Hs. apply in_app_or in Hs. destruct Hs as [Hs|Hs].
  - apply (Hd p Hi). apply (in_keys V _ (p, v)). exact Hs.
  - apply memb_false_notin in Hm. apply Hm. apply (in_keys V _ (p, v)). exact Hs.
Qed.

(* ---------------------------------------------------------------------------------------------------------- *)
(* Global / Fourier: the tensor parking model                                                                  *)
(* ---------------------------------------------------------------------------------------------------------- *)
Section TensorProofs.
  Variable V : Type.
  Variable npts : Z -> Z.
  Variable maxlevel : nat.
  Variable flag keep : bool.
  Notation gstate := (gstate V).
  Notation eject := (eject V npts maxlevel).
  Notation add_node := (add_node V npts maxlevel).
  Notation g_api_deliver := (g_api_deliver V npts maxlevel flag).
  Notation g_run := (g_run V npts maxlevel flag keep).

  Lemma eject_perm (st : gstate) : Permutation (gpoints (eject st) ++ gdata (eject st)) (gpoints st ++ gdata st).
  Proof.
    unfold Construct.eject. cbv zeta. cbn [gpoints gdata]. rewrite <- app_assoc. apply Permutation_app_head.
    apply Permutation_sym. apply filter_perm.
  Qed.

  Lemma add_node_perm (st : gstate) s :
    Permutation (gpoints (fst (fst (add_node st s))) ++ gdata (fst (fst (add_node st s)))) (gpoints st ++ gdata st ++ [s]).
  Proof.
    unfold Construct.add_node. cbv zeta. destruct (registered V st (tensor_of npts maxlevel (fst s))); cbn [fst gpoints gdata];
      apply Permutation_app_head; change (s :: gdata st) with ([s] ++ gdata st); apply Permutation_app_comm.
  Qed.

  Lemma fold_add_perm b : forall (st : gstate),
    Permutation (gpoints (fold_left (fun a s => fst (fst (add_node a s))) b st) ++ gdata (fold_left (fun a s => fst (fst (add_node a s))) b st))
                (gpoints st ++ gdata st ++ b).
  Proof.
    induction b as [|s b IH]; intros st; cbn [fold_left]; [rewrite app_nil_r; apply Permutation_refl|].
    eapply Permutation_trans; [apply IH|]. rewrite !app_assoc. change (s :: b) with ([s] ++ b). rewrite !app_assoc.
    apply Permutation_app_tail. rewrite <- app_assoc. apply add_node_perm.
  Qed.

  Lemma g_api_deliver_perm (st : gstate) b :
    Permutation (gpoints (g_api_deliver st b) ++ gdata (g_api_deliver st b)) (gpoints st ++ gdata st ++ b).
  Proof.
    assert (Hb : forall bb, Permutation (gpoints (g_deliver V npts maxlevel st bb) ++ gdata (g_deliver V npts maxlevel st bb)) (gpoints st ++ gdata st ++ bb)).
    { intros bb. unfold Construct.g_deliver. eapply Permutation_trans; [apply eject_perm|apply fold_add_perm]. }
    unfold Construct.g_api_deliver. destruct b as [|s [|s2 b]]; try apply Hb.
    unfold Construct.g_deliver_one. pose proof (add_node_perm st s) as Hp.
    destruct (add_node st s) as [[st' c] m]. cbn [fst] in Hp.
    destruct c; [eapply Permutation_trans; [apply eject_perm|exact Hp]|].
    destruct (m && flag); [eapply Permutation_trans; [apply eject_perm|exact Hp]|exact Hp].
  Qed.

  (* nothing is dropped by any history of deliveries and candidate requests, with or without the repair *)
  Theorem g_run_perm ops : forall (st : gstate),
    Permutation (gpoints (g_run st ops) ++ gdata (g_run st ops))
                (gpoints st ++ gdata st ++ flat_map (fun o => match o with GDeliver b => b | GCand _ => [] end) ops).
  Proof.
    induction ops as [|o ops IH]; intros st; cbn [Construct.g_run fold_left flat_map]; [rewrite app_nil_r; apply Permutation_refl|].
    eapply Permutation_trans; [apply IH|]. destruct o as [b|l]; cbn [Construct.g_step].
    - rewrite !app_assoc. apply Permutation_app_tail. rewrite <- app_assoc. apply g_api_deliver_perm.
    - cbn [Construct.g_candidates_step gpoints gdata app]. apply Permutation_refl.
  Qed.

  (* one ejection: the loaded tensors become the least lower-closed extension by complete registered tensors *)
  Theorem eject_least_closed (st : gstate) :
    let cands := filter (tcomplete V npts (gdata st)) (ginit st ++ greg st) in
    incl (gtensors st) (gtensors (eject st)) /\
    closed lower_adm cands (gtensors (eject st)) /\
    (forall S, incl (gtensors st) S -> closed lower_adm cands S -> incl (gtensors (eject st)) S).
  Proof.
    cbv zeta. set (cands := filter (tcomplete V npts (gdata st)) (ginit st ++ greg st)).
    set (st0 := mkcs (map (fun t => (t, tt)) (gtensors st)) (map (fun t => (t, tt)) cands)).
    assert (K0 : keys (loaded st0) = gtensors st) by (unfold st0, keys; cbn; rewrite map_map; cbn; apply map_id).
    assert (K1 : keys (parked st0) = cands) by (unfold st0, keys; cbn; rewrite map_map; cbn; apply map_id).
    pose proof (largest_completion_least unit lower_adm lower_adm_mono st0) as [A [B C]].
    rewrite K0, K1 in *.
    assert (Hg : forall x, In x (gtensors (eject st)) <-> In x (keys (loaded (largest_completion unit lower_adm st0)))).
    { intros x. unfold Construct.eject. cbv zeta. cbn [gtensors]. fold cands. fold st0.
      destruct (completion_grows unit lower_adm (length (parked st0)) (loaded st0) (parked st0)) as [mv Hm].
      unfold Construct.largest_completion. rewrite Hm, keys_app, K0. rewrite skipn_app, skipn_all, Nat.sub_diag. cbn [skipn app]. tauto. }
    split; [|split].
    - intros x Hx. apply Hg. apply A. exact Hx.
    - intros x Hx Ha. apply Hg. apply B; [exact Hx|].
      eapply lower_adm_mono; [|exact Ha]. intros y Hy. apply Hg. exact Hy.
    - intros S Hl Hc x Hx. apply Hg in Hx. apply (C S Hl Hc). exact Hx.
  Qed.
End TensorProofs.

(* ---------------------------------------------------------------------------------------------------------- *)
(* C11: output-range split                                                                                     *)
(* ---------------------------------------------------------------------------------------------------------- *)
Section SplitProofs.
  Variable T : Type.

  Lemma nth_error_firstn (l : list T) : forall n k, (k < n)%nat -> nth_error (firstn n l) k = nth_error l k.
  Proof.
    induction l as [|a l IH]; intros n k Hk; [destruct n, k; reflexivity|].
    destruct n; [lia|]. destruct k; cbn; [reflexivity|]. apply IH. lia.
  Qed.

  Lemma nth_error_skipn (l : list T) : forall n k, nth_error (skipn n l) k = nth_error l (n + k).
  Proof.
    induction l as [|a l IH]; intros n k; [destruct n, k; reflexivity|].
    destruct n; cbn; [reflexivity|]. apply IH.
  Qed.

  Lemma restrict_block_nth (v : list T) b e k : (k < e - b)%nat ->
    nth_error (restrict_block T v b e) k = nth_error v (b + k).
  Proof. intros Hk. unfold restrict_block. rewrite nth_error_firstn by exact Hk. apply nth_error_skipn. Qed.

  Lemma restrict_block_length (v : list T) b e : (b <= e)%nat -> (e <= length v)%nat -> length (restrict_block T v b e) = (e - b)%nat.
  Proof. intros H1 H2. unfold restrict_block. rewrite firstn_length, skipn_length. lia. Qed.

  Lemma split_strips_length n : forall (x : list T) stride b len,
    (b + len <= stride)%nat -> (n * stride <= length x)%nat -> length (split_strips T n x stride b len) = (n * len)%nat.
  Proof.
    induction n as [|n IH]; intros x stride b len H1 H2; cbn [split_strips]; [reflexivity|].
    rewrite app_length, firstn_length, skipn_length, IH; [cbn in H2 |- *; lia|exact H1|].
    rewrite skipn_length. cbn in H2. lia.
  Qed.

  Lemma split_strips_nth n : forall (x : list T) stride b len i k,
    (b + len <= stride)%nat -> (n * stride <= length x)%nat -> (i < n)%nat -> (k < len)%nat ->
    nth_error (split_strips T n x stride b len) (i * len + k) = nth_error x (i * stride + b + k).
  Proof.
    induction n as [|n IH]; intros x stride b len i k H1 H2 Hi Hk; [lia|]. cbn [split_strips].
    assert (Hl : length (firstn len (skipn b x)) = len).
    { rewrite firstn_length, skipn_length. cbn in H2. lia. }
    destruct i as [|i].
    - cbn [Nat.mul Nat.add]. rewrite nth_error_app1 by lia. rewrite nth_error_firstn by exact Hk. apply nth_error_skipn.
    - rewrite nth_error_app2 by (rewrite Hl; cbn; lia). rewrite Hl.
      replace (S i * len + k - len)%nat with (i * len + k)%nat by (cbn; lia).
      rewrite IH; try assumption; [|rewrite skipn_length; cbn in H2; lia|lia].
      rewrite nth_error_skipn. f_equal. cbn. lia.
  Qed.

  (* c11_split_nth: entry (i, k) of the split array is entry (i, ibegin + k) of the source; the result has the same
     number of strips and the new stride *)
  Theorem split2D_nth (x : list T) stride b e i k :
    (0 < stride)%nat -> (b <= e)%nat -> (e <= stride)%nat -> (i < length x / stride)%nat -> (k < e - b)%nat ->
    nth_error (split2D T x stride b e) (i * (e - b) + k) = nth_error x (i * stride + b + k).
  Proof.
    intros Hs Hb He Hi Hk. unfold split2D. apply split_strips_nth; try assumption; [lia|].
    rewrite Nat.mul_comm. apply Nat.mul_div_le. lia.
  Qed.

  Theorem split2D_length (x : list T) stride b e :
    (0 < stride)%nat -> (b <= e)%nat -> (e <= stride)%nat -> length (split2D T x stride b e) = (length x / stride * (e - b))%nat.
  Proof.
    intros Hs Hb He. unfold split2D. apply split_strips_length; [lia|]. rewrite Nat.mul_comm. apply Nat.mul_div_le. lia.
  Qed.

  (* the parked samples of a copy with an output range: same indexes in the same order, every block cut to the range *)
  Theorem restrict_data_spec (data : list (idx * list T)) b e :
    map fst (restrict_data T data b e) = map fst data /\
    forall p v, In (p, v) data -> In (p, restrict_block T v b e) (restrict_data T data b e).
  Proof.
    unfold restrict_data. split; [rewrite map_map; reflexivity|].
    intros p v H. apply in_map_iff. exists (p, v). split; [reflexivity|exact H].
  Qed.
End SplitProofs.

(* ---------------------------------------------------------------------------------------------------------- *)
(* C11: the hierarchical transform commutes with every homomorphism of the coefficient algebra; the restriction *)
(* of value blocks to an output range is one                                                                   *)
(* ---------------------------------------------------------------------------------------------------------- *)
Section HierHom.
  Variables R1 R2 : Type.
  Variables (o1 : R1) (add1 mul1 sub1 : R1 -> R1 -> R1).
  Variables (o2 : R2) (add2 mul2 sub2 : R2 -> R2 -> R2).
  Variable h : R1 -> R2.
  Hypothesis h_o : h o1 = o2.
  Hypothesis h_add : forall a b, h (add1 a b) = add2 (h a) (h b).
  Hypothesis h_mul : forall a b, h (mul1 a b) = mul2 (h a) (h b).
  Hypothesis h_sub : forall a b, h (sub1 a b) = sub2 (h a) (h b).
  Variable I : Type.
  Variable ieqb : I -> I -> bool.
  Variable B1 : I -> I -> R1.
  Variable B2 : I -> I -> R2.
  Hypothesis h_B : forall i j, h (B1 i j) = B2 i j.
  Variable reach : I -> list I.
  Variable v1 : I -> R1.
  Variable v2 : I -> R2.
  Hypothesis h_v : forall i, h (v1 i) = v2 i.

  Definition hmap (l : list (I * R1)) : list (I * R2) := map (fun p => (fst p, h (snd p))) l.

  Lemma lookup_hom x l : Hier.lookup R2 o2 I ieqb x (hmap l) = h (Hier.lookup R1 o1 I ieqb x l).
  Proof. induction l as [|[y s] l IH]; cbn; [symmetry; exact h_o|]. destruct (ieqb x y); [reflexivity|exact IH]. Qed.

  Lemma sum_hom l (f : I -> R1) (g : I -> R2) : (forall j, g j = h (f j)) ->
    Hier.sum R2 o2 add2 I l g = h (Hier.sum R1 o1 add1 I l f).
  Proof. intros E. induction l as [|a l IH]; cbn; [symmetry; exact h_o|]. rewrite h_add, IH, E. reflexivity. Qed.

  Lemma forward_hom todo : forall acc,
    forward R2 o2 add2 mul2 sub2 I ieqb B2 reach v2 (hmap acc) todo =
    hmap (forward R1 o1 add1 mul1 sub1 I ieqb B1 reach v1 acc todo).
  Proof.
    induction todo as [|i r IH]; intros acc; cbn [forward]; [reflexivity|].
    rewrite <- IH. f_equal. cbn [hmap map fst snd]. f_equal. f_equal. unfold surp1.
    rewrite h_sub, h_v. f_equal. apply sum_hom. intros j. rewrite h_mul, h_B, lookup_hom. reflexivity.
  Qed.

  (* surpluses of the image data = image of the surpluses *)
  Theorem coef_hom nodes :
    coef R2 o2 add2 mul2 sub2 I ieqb B2 reach v2 nodes = hmap (coef R1 o1 add1 mul1 sub1 I ieqb B1 reach v1 nodes).
  Proof. unfold coef. apply (forward_hom nodes []). Qed.

  (* and the same for the value of the interpolant *)
  Theorem interp_hom nodes (phi1 : I -> R1) (phi2 : I -> R2) : (forall j, h (phi1 j) = phi2 j) ->
    interp R2 o2 add2 mul2 sub2 I ieqb B2 reach v2 nodes phi2 = h (interp R1 o1 add1 mul1 sub1 I ieqb B1 reach v1 nodes phi1).
  Proof.
    intros Hp. unfold interp. cbv zeta. rewrite coef_hom. apply sum_hom. intros j. rewrite h_mul, Hp, lookup_hom. reflexivity.
  Qed.
End HierHom.

(* the single-point path: the surplus of a point appended after all others is its value minus the current
   interpolant over the visited ancestors - exactly one more step of the forward pass *)
Lemma coef_snoc R rO radd rmul rsub I ieqb B reach v nodes p :
  coef R rO radd rmul rsub I ieqb B reach v (nodes ++ [p]) =
  (p, surp1 R rO radd rmul rsub I ieqb B reach v (coef R rO radd rmul rsub I ieqb B reach v nodes) p)
    :: coef R rO radd rmul rsub I ieqb B reach v nodes.
Proof.
  unfold coef. generalize (@nil (I * R)) as acc. induction nodes as [|a l IH]; intros acc; cbn; [reflexivity|]. apply IH.
Qed.

(* blocks of num_outputs numbers with componentwise operations; the scalar B i j acts on a block as repeat (B i j) *)
Section Blocks.
  Variable R : Type.
  Variable rO : R.
  Variables radd rmul rsub : R -> R -> R.

  Lemma firstn_map2 (f : R -> R -> R) n : forall a b, firstn n (map2 f a b) = map2 f (firstn n a) (firstn n b).
  Proof. induction n as [|n IH]; intros [|x a] [|y b]; cbn; try reflexivity. rewrite IH. reflexivity. Qed.

  Lemma map2_nil_r (f : R -> R -> R) a : map2 f a [] = [].
  Proof. destruct a; reflexivity. Qed.

  Lemma skipn_map2 (f : R -> R -> R) n : forall a b, skipn n (map2 f a b) = map2 f (skipn n a) (skipn n b).
  Proof.
    induction n as [|n IH]; intros [|x a] [|y b]; cbn; try reflexivity.
    - rewrite map2_nil_r. reflexivity.
    - apply IH.
  Qed.

  Lemma restrict_map2 (f : R -> R -> R) b e x y :
    restrict_block R (map2 f x y) b e = map2 f (restrict_block R x b e) (restrict_block R y b e).
  Proof. unfold restrict_block. rewrite skipn_map2. apply firstn_map2. Qed.

  Lemma restrict_repeat (c : R) n b e : (b <= e)%nat -> (e <= n)%nat -> restrict_block R (repeat c n) b e = repeat c (e - b).
  Proof.
    intros H1 H2. unfold restrict_block.
    assert (Hs : forall m k, (k <= m)%nat -> skipn k (repeat c m) = repeat c (m - k)).
    { induction m as [|m IH]; intros [|k] Hk; cbn; try reflexivity; try lia. apply IH. lia. }
    assert (Hf : forall m k, (k <= m)%nat -> firstn k (repeat c m) = repeat c k).
    { induction m as [|m IH]; intros [|k] Hk; cbn; try reflexivity; try lia. rewrite IH by lia. reflexivity. }
    rewrite Hs by lia. apply Hf. lia.
  Qed.

  (* c11_restrict_commutes: computing the surpluses of all outputs and cutting every block to the range [b, e) gives the
     surpluses of the data cut to [b, e) *)
  Theorem restrict_commutes I ieqb (B : I -> I -> R) reach (v : I -> list R) nodes n b e : (b <= e)%nat -> (e <= n)%nat ->
    coef (list R) (repeat rO (e - b)) (map2 radd) (map2 rmul) (map2 rsub) I ieqb (fun i j => repeat (B i j) (e - b)) reach
         (fun i => restrict_block R (v i) b e) nodes =
    map (fun p => (fst p, restrict_block R (snd p) b e))
        (coef (list R) (repeat rO n) (map2 radd) (map2 rmul) (map2 rsub) I ieqb (fun i j => repeat (B i j) n) reach v nodes).
  Proof.
    intros H1 H2.
    apply (coef_hom (list R) (list R) (repeat rO n) (map2 radd) (map2 rmul) (map2 rsub) (repeat rO (e - b)) (map2 radd) (map2 rmul) (map2 rsub)
             (fun x => restrict_block R x b e)).
    - apply restrict_repeat; assumption.
    - intros; apply restrict_map2.
    - intros; apply restrict_map2.
    - intros; apply restrict_map2.
    - intros; apply restrict_repeat; assumption.
    - intros; reflexivity.
  Qed.

  Theorem restrict_commutes_eval I ieqb (B : I -> I -> R) reach (v : I -> list R) nodes (phi : I -> R) n b e : (b <= e)%nat -> (e <= n)%nat ->
    interp (list R) (repeat rO (e - b)) (map2 radd) (map2 rmul) (map2 rsub) I ieqb (fun i j => repeat (B i j) (e - b)) reach
           (fun i => restrict_block R (v i) b e) nodes (fun j => repeat (phi j) (e - b)) =
    restrict_block R (interp (list R) (repeat rO n) (map2 radd) (map2 rmul) (map2 rsub) I ieqb (fun i j => repeat (B i j) n) reach v nodes
                             (fun j => repeat (phi j) n)) b e.
  Proof.
    intros H1 H2.
    apply (interp_hom (list R) (list R) (repeat rO n) (map2 radd) (map2 rmul) (map2 rsub) (repeat rO (e - b)) (map2 radd) (map2 rmul) (map2 rsub)
             (fun x => restrict_block R x b e)).
    - apply restrict_repeat; assumption.
    - intros; apply restrict_map2.
    - intros; apply restrict_map2.
    - intros; apply restrict_map2.
    - intros; apply restrict_repeat; assumption.
    - intros; reflexivity.
    - intros; apply restrict_repeat; assumption.
  Qed.

End Blocks.
