(* Proofs about the point set of Global / Fourier grids (Model/NestedPoints.v): for every dimension, every strictly increasing point
   count n with n(0) >= 1 and every list of tensors with non-negative entries:
     membership (the vector of minimal levels of the point belongs to the tensor set), the delta blocks are disjoint,
     a lower set gives the union of the full blocks (also through any dominating subset: the active tensors),
     sorted / duplicate free / number of points, monotone, needed = new minus loaded, the points of a lower set are a lower set.
   No axioms. *)
From TV Require Import Common.Prelude Model.IndexSets gen.ExactnessGen Model.TensorSelect Model.NestedPoints.
From TV Require Import Proofs.IndexSetsProofs Proofs.ExactnessProofs Proofs.TensorSelectProofs.
From Coq Require Import Sorting.Sorted.
Local Open Scope Z_scope.

(* ================================================================ 0. the point count *)
Definition growth_ok (n : Z -> Z) : Prop := 1 <= n 0 /\ forall l, 0 <= l -> n l < n (l + 1).

Lemma growth_mono n : growth_ok n -> forall a b, 0 <= a <= b -> n a <= n b.
Proof.
  intros [_ H] a b Hab. replace b with (a + Z.of_nat (Z.to_nat (b - a))) by lia.
  induction (Z.to_nat (b - a)) as [|k IH]; [rewrite Z.add_0_r; lia|].
  rewrite Nat2Z.inj_succ. replace (a + Z.succ (Z.of_nat k)) with (a + Z.of_nat k + 1) by lia.
  specialize (H (a + Z.of_nat k)). lia.
Qed.

Lemma growth_strict n : growth_ok n -> forall a b, 0 <= a < b -> n a < n b.
Proof.
  intros Hg a b Hab. pose proof (growth_mono n Hg (a + 1) b ltac:(lia)) as Hm. destruct Hg as [_ H]. specialize (H a). lia.
Qed.

Lemma growth_ge n : growth_ok n -> forall l, 0 <= l -> l + 1 <= n l.
Proof.
  intros [H0 H] l Hl. replace l with (Z.of_nat (Z.to_nat l)) by lia. induction (Z.to_nat l) as [|k IH]; [cbn; lia|].
  rewrite Nat2Z.inj_succ. replace (Z.succ (Z.of_nat k)) with (Z.of_nat k + 1) by lia. specialize (H (Z.of_nat k)). lia.
Qed.

Lemma offset_bounds n l : growth_ok n -> 0 <= l -> 0 <= offset_of n l < n l.
Proof.
  intros Hg Hl. unfold offset_of. destruct (0 <? l) eqn:E.
  - pose proof (growth_ge n Hg (l - 1) ltac:(lia)). pose proof (growth_strict n Hg (l - 1) l ltac:(lia)). lia.
  - assert (l = 0) by lia. subst l. destruct Hg. lia.
Qed.

Lemma delta_counts_pos n t : growth_ok n -> nonneg t -> Forall (fun c => 0 < c) (map (delta_count n) t).
Proof.
  intros Hg Ht. apply Forall_forall. intros c Hc. apply in_map_iff in Hc. destruct Hc as [l [<- Hl]].
  unfold nonneg in Ht. rewrite Forall_forall in Ht. pose proof (offset_bounds n l Hg (Ht l Hl)). unfold delta_count. lia.
Qed.

(* ================================================================ 1. one delta block *)
(* p lies in the delta block of the tensor t *)
Definition in_delta (n : Z -> Z) (p t : idx) : Prop := Forall2 (fun pj tj => offset_of n tj <= pj < n tj) p t.

Lemma in_delta_length n p t : in_delta n p t -> length p = length t.
Proof. induction 1; cbn; [reflexivity|f_equal; assumption]. Qed.

Lemma in_box_shift n : forall t q, in_box q (map (delta_count n) t) -> in_delta n (add_idx (map (offset_of n) t) q) t.
Proof.
  induction t as [|a t IH]; intros q H; cbn [map] in H; inversion H; subst; cbn; constructor; [|apply IH; assumption].
  unfold delta_count in *. lia.
Qed.

Lemma in_delta_unshift n : forall p t, in_delta n p t -> exists q, in_box q (map (delta_count n) t) /\ p = add_idx (map (offset_of n) t) q.
Proof.
  induction 1 as [|pj tj p t Hj _ [q [Hq ->]]]; [exists []; split; [constructor|reflexivity]|].
  exists ((pj - offset_of n tj) :: q). split; [cbn; constructor; [unfold delta_count; lia|exact Hq]|].
  cbn. f_equal. lia.
Qed.

Lemma delta_product_spec n t p : In p (delta_product n t) <-> in_delta n p t.
Proof.
  unfold delta_product. rewrite in_map_iff. split.
  - intros [q [<- Hq]]. apply in_box_shift. apply full_tensor_spec. exact Hq.
  - intros H. apply in_delta_unshift in H. destruct H as [q [Hq ->]]. exists q. split; [reflexivity|]. apply full_tensor_spec. exact Hq.
Qed.

Lemma add_idx_lt : forall o a b, length a = length o -> length b = length o -> lt_idx a b -> lt_idx (add_idx o a) (add_idx o b).
Proof.
  unfold lt_idx, add_idx. induction o as [|c o IH]; intros [|x a] [|y b] Ha Hb H; cbn in *; try discriminate.
  replace (c + x <? c + y) with (x <? y) by lia. replace (c + y <? c + x) with (y <? x) by lia.
  destruct (x <? y); [reflexivity|]. destruct (y <? x); [discriminate|]. apply IH; [lia|lia|exact H].
Qed.

Lemma add_idx_sorted o (L : list idx) : wf (length o) L -> sorted L -> sorted (map (add_idx o) L).
Proof.
  intros Hw Hs. induction Hs as [|a L HL IH Ha]; cbn; constructor.
  - apply IH. inversion Hw; assumption.
  - inversion Hw as [|? ? La Hw']; subst. unfold wf in Hw'. rewrite Forall_forall in *. intros y Hy. apply in_map_iff in Hy.
    destruct Hy as [b [<- Hb]]. apply add_idx_lt; [exact La|apply Hw'; exact Hb|apply Ha; exact Hb].
Qed.

Lemma delta_product_wf n t : wf (length t) (delta_product n t).
Proof.
  unfold wf. apply Forall_forall. intros p Hp. apply delta_product_spec in Hp. apply in_delta_length in Hp. exact Hp.
Qed.

Lemma delta_product_sorted n t : sorted (delta_product n t).
Proof.
  unfold delta_product. apply add_idx_sorted; [|apply full_tensor_sorted].
  rewrite map_length. rewrite <- (map_length (delta_count n) t). apply full_tensor_wf.
Qed.

Lemma sort_unique_sorted d L : wf d L -> sorted L -> sort_unique L = L.
Proof.
  intros Hw Hs. destruct (sort_unique_spec d L Hw) as [H1 [H2 H3]]. apply (sorted_ext d); assumption.
Qed.

(* the decoding loop followed by the sorting constructor lists the nested product *)
Theorem delta_block_product n t : growth_ok n -> nonneg t -> delta_block n t = delta_product n t.
Proof.
  intros Hg Ht. unfold delta_block, delta_raw. rewrite full_tensor_decode_eq by (apply delta_counts_pos; assumption).
  apply (sort_unique_sorted (length t)); [apply delta_product_wf|apply delta_product_sorted].
Qed.

(* the loop appends the points already in the order of the set: the sort of the constructor moves nothing *)
Theorem delta_raw_sorted n t : growth_ok n -> nonneg t -> delta_raw n t = delta_block n t.
Proof.
  intros Hg Ht. rewrite delta_block_product by assumption. unfold delta_raw.
  rewrite full_tensor_decode_eq by (apply delta_counts_pos; assumption). reflexivity.
Qed.

(* ================================================================ 2. the minimal level of a point *)
Lemma level_search_spec n x : growth_ok n -> forall fuel l, 0 <= l <= x -> Z.of_nat fuel = x - l -> (forall k, 0 <= k < l -> n k <= x) ->
  l <= level_search fuel n x l /\ x < n (level_search fuel n x l) /\ forall k, 0 <= k < level_search fuel n x l -> n k <= x.
Proof.
  intros Hg. induction fuel as [|f IH]; intros l Hl Hf Hk; cbn [level_search].
  - assert (l = x) by lia. subst l. pose proof (growth_ge n Hg x ltac:(lia)). split; [lia|]. split; [lia|exact Hk].
  - destruct (x <? n l) eqn:E; [split; [lia|]; split; [lia|exact Hk]|].
    pose proof (growth_ge n Hg l ltac:(lia)).
    destruct (IH (l + 1)) as [H1 H2]; [lia|lia| |split; [lia|exact H2]].
    intros k Hk'. destruct (Z.eq_dec k l) as [->|Hne]; [lia|apply Hk; lia].
Qed.

Lemma level1_spec n x : growth_ok n -> 0 <= x ->
  0 <= level1 n x /\ x < n (level1 n x) /\ forall k, 0 <= k < level1 n x -> n k <= x.
Proof.
  intros Hg Hx. unfold level1. destruct (level_search_spec n x Hg (Z.to_nat x) 0) as [H1 H2]; [lia|lia|intros; lia|].
  split; [exact H1|exact H2].
Qed.

Lemma level1_in n x : growth_ok n -> 0 <= x -> 0 <= level1 n x /\ offset_of n (level1 n x) <= x < n (level1 n x).
Proof.
  intros Hg Hx. destruct (level1_spec n x Hg Hx) as [H0 [H1 H2]]. split; [exact H0|]. split; [|exact H1].
  unfold offset_of. destruct (0 <? level1 n x) eqn:E; [apply H2; lia|exact Hx].
Qed.

(* the level of a point is unique: the delta blocks of different levels are disjoint *)
Lemma level1_unique n x l : growth_ok n -> 0 <= l -> offset_of n l <= x < n l -> l = level1 n x.
Proof.
  intros Hg Hl Hx. pose proof (offset_bounds n l Hg Hl) as Ho. destruct (level1_spec n x Hg ltac:(lia)) as [H0 [H1 H2]].
  destruct (Z.lt_trichotomy l (level1 n x)) as [H|[H|H]]; [|exact H|].
  - specialize (H2 l ltac:(lia)). lia.
  - unfold offset_of in Hx. destruct (0 <? l) eqn:E; [|lia].
    pose proof (growth_mono n Hg (level1 n x) (l - 1) ltac:(lia)). lia.
Qed.

Lemma level1_le n x l : growth_ok n -> 0 <= l -> 0 <= x < n l -> 0 <= level1 n x <= l.
Proof.
  intros Hg Hl Hx. destruct (level1_spec n x Hg ltac:(lia)) as [H0 [H1 H2]]. split; [exact H0|].
  destruct (Z_le_gt_dec (level1 n x) l) as [H|H]; [exact H|]. specialize (H2 l ltac:(lia)). lia.
Qed.

Lemma in_delta_level n p t : growth_ok n -> nonneg t -> in_delta n p t -> t = level_of n p /\ nonneg p.
Proof.
  intros Hg Ht H. induction H as [|pj tj p t Hj _ IH]; [split; [reflexivity|constructor]|].
  inversion Ht as [|? ? Htj Ht']; subst. destruct (IH Ht') as [E Hp]. pose proof (offset_bounds n tj Hg Htj). split.
  - cbn. f_equal; [apply level1_unique; assumption|exact E].
  - constructor; [lia|exact Hp].
Qed.

Lemma level_in_delta n p : growth_ok n -> nonneg p -> in_delta n p (level_of n p) /\ nonneg (level_of n p).
Proof.
  intros Hg Hp. induction Hp as [|x p Hx _ [IH1 IH2]]; [split; constructor|].
  destruct (level1_in n x Hg Hx) as [H0 H1]. split; cbn; constructor; assumption.
Qed.

Lemma in_delta_in_box n p t : growth_ok n -> nonneg t -> in_delta n p t -> in_box p (map n t).
Proof.
  intros Hg Ht H. induction H as [|pj tj p t Hj _ IH]; cbn; constructor; inversion Ht as [|? ? Htj Ht']; subst; [|apply IH; exact Ht'].
  pose proof (offset_bounds n tj Hg Htj). lia.
Qed.

Lemma in_box_level_le n : growth_ok n -> forall t p, nonneg t -> in_box p (map n t) -> le_idx (level_of n p) t /\ nonneg p.
Proof.
  intros Hg. induction t as [|tj t IH]; intros p Ht H; cbn [map] in H; inversion H; subst; [split; constructor|].
  inversion Ht as [|? ? Htj Ht']; subst. destruct (IH l Ht' ltac:(assumption)) as [H1 H2].
  split; cbn; constructor; try assumption; [apply level1_le; assumption|lia].
Qed.

Lemma in_box_mono n : growth_ok n -> forall s t p, le_idx s t -> in_box p (map n s) -> in_box p (map n t).
Proof.
  intros Hg s t p Hst. revert p. induction Hst as [|sj tj s t Hj _ IH]; intros p H; cbn [map] in *; [exact H|].
  inversion H; subst. constructor; [|apply IH; assumption]. pose proof (growth_mono n Hg sj tj Hj). lia.
Qed.

Lemma in_box_down np : forall p q, le_idx q p -> in_box p np -> in_box q np.
Proof.
  intros p q Hqp. revert np. induction Hqp as [|qj pj q p Hj _ IH]; intros np H; [exact H|].
  inversion H; subst. constructor; [lia|apply IH; assumption].
Qed.

(* ================================================================ 3. the union *)
Lemma length_merge_disjoint d a : forall b, wf d a -> wf d b -> (forall x, In x a -> In x b -> False) ->
  length (merge a b) = (length a + length b)%nat.
Proof.
  induction a as [|p a IHa]; intros b Ha Hb Hd; [cbn; destruct b; reflexivity|].
  induction b as [|q b IHb]; [cbn; lia|].
  inversion Ha as [|? ? Hp Ha']; subst. inversion Hb as [|? ? Hq Hb']; subst.
  rewrite merge_cons. destruct (cmp p q) eqn:E; cbn [length].
  - rewrite IHa; [cbn [length]; lia|exact Ha'|exact Hb|]. intros x H1 H2. apply (Hd x); [right; exact H1|exact H2].
  - rewrite IHb; [cbn [length]; lia|exact Hb'|]. intros x H1 H2. apply (Hd x); [exact H1|right; exact H2].
  - exfalso. apply (Hd p); [left; reflexivity|left]. symmetry. apply cmp_same_eq; [lia|exact E].
Qed.

Lemma flat_map_length_const {A B} (f : A -> list B) k l : (forall a, In a l -> length (f a) = k) -> length (flat_map f l) = (length l * k)%nat.
Proof.
  induction l as [|x l IH]; intros H; cbn; [reflexivity|]. rewrite app_length, (H x (or_introl eq_refl)), IH; [lia|].
  intros a Ha. apply H. right. exact Ha.
Qed.

Lemma full_tensor_length np : Forall (fun c => 0 <= c) np -> Z.of_nat (length (full_tensor np)) = prodl np.
Proof.
  induction 1 as [|c np Hc _ IH]; [reflexivity|]. cbn [full_tensor]. change (prodl (c :: np)) with (c * prodl np).
  rewrite (flat_map_length_const _ (length (full_tensor np))); [|intros a _; apply map_length].
  unfold zseq. rewrite map_length, seq_length. rewrite Nat2Z.inj_mul, IH. lia.
Qed.

(* number of points of the delta block of t: prod_j (n(t_j) - offset(t_j)) *)
Definition block_size (n : Z -> Z) (t : idx) : Z := prodl (map (delta_count n) t).
Definition sum_sizes (n : Z -> Z) (Theta : list idx) : Z := fold_right (fun t acc => block_size n t + acc) 0 Theta.

Section Points.
  Variables (n : Z -> Z) (d : nat).
  Hypothesis Hg : growth_ok n.

  Definition tensors_ok (Theta : list idx) : Prop := wf d Theta /\ forall t, In t Theta -> nonneg t.

  Lemma tensors_ok_cons t Theta : tensors_ok (t :: Theta) -> length t = d /\ nonneg t /\ tensors_ok Theta.
  Proof.
    intros [Hw Hn]. inversion Hw as [|? ? Hlt Hw']. split; [exact Hlt|]. split; [apply Hn; left; reflexivity|].
    split; [exact Hw'|]. intros s Hs. apply Hn. right. exact Hs.
  Qed.

  Lemma tensors_ok_incl S Theta : tensors_ok Theta -> incl S Theta -> tensors_ok S.
  Proof.
    intros [Hw Hn] Hi. split; [|intros t Ht; apply Hn; apply Hi; exact Ht].
    unfold wf in *. rewrite Forall_forall in *. intros t Ht. apply Hw. apply Hi. exact Ht.
  Qed.

  Lemma delta_blocks Theta : tensors_ok Theta -> Forall (fun L => wf d L /\ sorted L) (map (delta_block n) Theta).
  Proof.
    intros [Hw Hn]. apply Forall_forall. intros L HL. apply in_map_iff in HL. destruct HL as [t [<- Ht]].
    rewrite delta_block_product by (try apply Hn; assumption). unfold wf in Hw. rewrite Forall_forall in Hw. rewrite <- (Hw t Ht).
    split; [apply delta_product_wf|apply delta_product_sorted].
  Qed.

  Theorem nested_points_wf Theta : tensors_ok Theta -> wf d (nested_points n Theta).
  Proof. intros H. apply (fold_merge_spec d _ (delta_blocks Theta H)). Qed.
  Theorem nested_points_sorted Theta : tensors_ok Theta -> sorted (nested_points n Theta).
  Proof. intros H. apply (fold_merge_spec d _ (delta_blocks Theta H)). Qed.
  Theorem nested_points_nodup Theta : tensors_ok Theta -> NoDup (nested_points n Theta).
  Proof. intros H. apply sorted_nodup. apply nested_points_sorted. exact H. Qed.

  (* (a) p is a point iff it lies in the delta block of some tensor of Theta *)
  Theorem nested_points_spec Theta : tensors_ok Theta -> forall p, In p (nested_points n Theta) <-> exists t, In t Theta /\ in_delta n p t.
  Proof.
    intros H p. unfold nested_points. destruct (fold_merge_spec d _ (delta_blocks Theta H)) as [_ [_ HI]]. rewrite HI. destruct H as [Hw Hn]. split.
    - intros [L [HL Hp]]. apply in_map_iff in HL. destruct HL as [t [<- Ht]]. exists t. split; [exact Ht|].
      rewrite delta_block_product in Hp by (try apply Hn; assumption). apply delta_product_spec. exact Hp.
    - intros [t [Ht Hp]]. exists (delta_block n t). split; [apply in_map; exact Ht|].
      rewrite delta_block_product by (try apply Hn; assumption). apply delta_product_spec. exact Hp.
  Qed.

  (* (a) ... iff its vector of minimal levels is a tensor of Theta *)
  Theorem nested_points_level Theta : tensors_ok Theta -> forall p, In p (nested_points n Theta) <-> nonneg p /\ In (level_of n p) Theta.
  Proof.
    intros H p. rewrite (nested_points_spec Theta H). destruct H as [Hw Hn]. split.
    - intros [t [Ht Hp]]. destruct (in_delta_level n p t Hg (Hn t Ht) Hp) as [E Hnp]. split; [exact Hnp|]. rewrite <- E. exact Ht.
    - intros [Hnp Hl]. exists (level_of n p). split; [exact Hl|]. apply level_in_delta; assumption.
  Qed.

  (* the delta blocks of two different tensors share no point *)
  Theorem delta_blocks_disjoint s t p : nonneg s -> nonneg t -> In p (delta_block n s) -> In p (delta_block n t) -> s = t.
  Proof.
    intros Hs Ht H1 H2. rewrite delta_block_product in H1, H2 by assumption. apply delta_product_spec in H1, H2.
    destruct (in_delta_level n p s Hg Hs H1) as [E1 _]. destruct (in_delta_level n p t Hg Ht H2) as [E2 _]. congruence.
  Qed.

  (* (c) number of points: the sum of the sizes of the delta blocks *)
  Theorem nested_points_count Theta : tensors_ok Theta -> NoDup Theta -> Z.of_nat (length (nested_points n Theta)) = sum_sizes n Theta.
  Proof.
    intros H Hnd. induction Theta as [|t Theta IH]; [reflexivity|].
    apply tensors_ok_cons in H. destruct H as [Hl [Hnt Hok]]. inversion Hnd as [|? ? Hnotin Hnd']; subst.
    change (nested_points n (t :: Theta)) with (merge (delta_block n t) (nested_points n Theta)).
    rewrite (length_merge_disjoint d).
    - rewrite Nat2Z.inj_add, (IH Hok Hnd'). cbn [sum_sizes fold_right]. f_equal.
      rewrite delta_block_product by assumption. unfold delta_product. rewrite map_length. unfold block_size. apply full_tensor_length.
      pose proof (delta_counts_pos n t Hg Hnt) as Hp. rewrite Forall_forall in *. intros c Hc. specialize (Hp c Hc). lia.
    - rewrite delta_block_product by assumption. rewrite <- Hl. apply delta_product_wf.
    - apply nested_points_wf. exact Hok.
    - intros p H1 H2. apply (nested_points_spec Theta Hok) in H2. destruct H2 as [s [Hs Hp]]. apply Hnotin.
      rewrite delta_block_product in H1 by assumption. apply delta_product_spec in H1.
      destruct (in_delta_level n p t Hg Hnt H1) as [E1 _]. destruct Hok as [_ Hn]. destruct (in_delta_level n p s Hg (Hn s Hs) Hp) as [E2 _].
      rewrite E1, <- E2. exact Hs.
  Qed.

  (* the union of the full blocks *)
  Lemma full_blocks S : wf d S -> Forall (fun L => wf d L /\ sorted L) (map (fun t => full_tensor (map n t)) S).
  Proof.
    intros Hw. apply Forall_forall. intros L HL. apply in_map_iff in HL. destruct HL as [t [<- Ht]].
    unfold wf in Hw. rewrite Forall_forall in Hw. rewrite <- (Hw t Ht). split; [|apply full_tensor_sorted].
    rewrite <- (map_length n t). apply full_tensor_wf.
  Qed.

  Theorem full_points_spec S : wf d S -> forall p, In p (full_points n S) <-> exists t, In t S /\ in_box p (map n t).
  Proof.
    intros Hw p. unfold full_points. destruct (fold_merge_spec d _ (full_blocks S Hw)) as [_ [_ HI]]. rewrite HI. split.
    - intros [L [HL Hp]]. apply in_map_iff in HL. destruct HL as [t [<- Ht]]. exists t. split; [exact Ht|apply full_tensor_spec; exact Hp].
    - intros [t [Ht Hp]]. exists (full_tensor (map n t)). split; [apply in_map_iff; exists t; split; [reflexivity|exact Ht]|apply full_tensor_spec; exact Hp].
  Qed.
  Theorem full_points_wf S : wf d S -> wf d (full_points n S).
  Proof. intros Hw. apply (fold_merge_spec d _ (full_blocks S Hw)). Qed.
  Theorem full_points_sorted S : wf d S -> sorted (full_points n S).
  Proof. intros Hw. apply (fold_merge_spec d _ (full_blocks S Hw)). Qed.

  (* (b) for a lower set: the union of the delta blocks is the union of the full blocks *)
  Theorem nested_points_lower_box Theta : tensors_ok Theta -> lowerZ Theta ->
    forall p, In p (nested_points n Theta) <-> exists t, In t Theta /\ in_box p (map n t).
  Proof.
    intros H Hlow p. split.
    - intros Hp. apply (nested_points_spec Theta H) in Hp. destruct Hp as [t [Ht Hp]]. exists t. split; [exact Ht|].
      apply in_delta_in_box; [exact Hg|apply H; exact Ht|exact Hp].
    - intros [t [Ht Hp]]. apply (nested_points_level Theta H). destruct H as [Hw Hn].
      destruct (in_box_level_le n Hg t p (Hn t Ht) Hp) as [Hle Hnp]. split; [exact Hnp|]. apply (Hlow t); assumption.
  Qed.

  (* (b) ... and the full blocks of any subset that dominates Theta (the active tensors) give the same set *)
  Theorem nested_points_dominating Theta S : tensors_ok Theta -> lowerZ Theta -> incl S Theta ->
    (forall t, In t Theta -> exists s, In s S /\ le_idx t s) -> nested_points n Theta = full_points n S.
  Proof.
    intros H Hlow Hi Hdom. pose proof (tensors_ok_incl S Theta H Hi) as [HwS HnS].
    apply (sorted_ext d); [apply nested_points_wf; exact H|apply full_points_wf; exact HwS|apply nested_points_sorted; exact H|apply full_points_sorted; exact HwS|].
    intros p. rewrite (nested_points_lower_box Theta H Hlow), (full_points_spec S HwS). split.
    - intros [t [Ht Hp]]. destruct (Hdom t Ht) as [s [Hs Hts]]. exists s. split; [exact Hs|]. apply (in_box_mono n Hg t s); assumption.
    - intros [s [Hs Hp]]. exists s. split; [apply Hi; exact Hs|exact Hp].
  Qed.

  Theorem nested_points_lower_full Theta : tensors_ok Theta -> lowerZ Theta -> nested_points n Theta = full_points n Theta.
  Proof.
    intros H Hlow. apply nested_points_dominating; [exact H|exact Hlow|apply incl_refl|].
    intros t Ht. exists t. split; [exact Ht|]. apply le_idx_refl. apply H. exact Ht.
  Qed.

  (* (d) monotone *)
  Theorem nested_points_mono Theta Theta' : tensors_ok Theta -> tensors_ok Theta' -> incl Theta Theta' ->
    incl (nested_points n Theta) (nested_points n Theta').
  Proof.
    intros H H' Hi p Hp. apply (nested_points_spec Theta' H'). apply (nested_points_spec Theta H) in Hp.
    destruct Hp as [t [Ht Hp]]. exists t. split; [apply Hi; exact Ht|exact Hp].
  Qed.

  (* (d) needed = new minus loaded, for any loaded set *)
  Theorem needed_points_spec Theta' loaded : tensors_ok Theta' -> wf d loaded -> sorted loaded ->
    forall p, In p (needed_points n Theta' loaded) <-> In p (nested_points n Theta') /\ ~ In p loaded.
  Proof.
    intros H' Hw Hs p. unfold needed_points. apply (diff_spec d); [apply nested_points_wf; exact H'|exact Hw|apply nested_points_sorted; exact H'|exact Hs].
  Qed.

  Theorem needed_points_sorted Theta' loaded : tensors_ok Theta' -> sorted (needed_points n Theta' loaded) /\ wf d (needed_points n Theta' loaded).
  Proof.
    intros H'. unfold needed_points. split; [apply diff_sorted; apply nested_points_sorted; exact H'|apply diff_wf; apply nested_points_wf; exact H'].
  Qed.

  (* (d) after acceptUpdatedTensors the loaded points are exactly the points of the updated tensors *)
  Theorem accepted_points_eq Theta Theta' : tensors_ok Theta -> tensors_ok Theta' -> incl Theta Theta' ->
    accepted_points (nested_points n Theta) (needed_points n Theta' (nested_points n Theta)) = nested_points n Theta'.
  Proof.
    intros H H' Hi. pose proof (nested_points_wf Theta H) as Hw. pose proof (nested_points_sorted Theta H) as Hs.
    destruct (needed_points_sorted Theta' (nested_points n Theta) H') as [Hs2 Hw2]. unfold accepted_points.
    apply (sorted_ext d); [apply merge_wf; assumption|apply nested_points_wf; exact H'|apply (merge_sorted d); assumption|apply nested_points_sorted; exact H'|].
    intros p. split.
    - intros Hp. apply merge_In in Hp. destruct Hp as [Hp|Hp]; [apply (nested_points_mono Theta Theta' H H' Hi); exact Hp|].
      apply (needed_points_spec Theta' _ H' Hw Hs) in Hp. apply Hp.
    - intros Hp. apply (In_merge d); [exact Hw|exact Hw2|].
      destruct (in_dec (list_eq_dec Z.eq_dec) p (nested_points n Theta)) as [Hin|Hnot]; [left; exact Hin|right].
      apply (needed_points_spec Theta' _ H' Hw Hs). split; assumption.
  Qed.

  (* (e) the points of a lower tensor set are a lower set of point indexes *)
  Theorem nested_points_lower Theta : tensors_ok Theta -> lowerZ Theta -> lowerZ (nested_points n Theta).
  Proof.
    intros H Hlow p q Hp Hqp. apply (nested_points_lower_box Theta H Hlow). apply (nested_points_lower_box Theta H Hlow) in Hp.
    destruct Hp as [t [Ht Hp]]. exists t. split; [exact Ht|]. apply (in_box_down (map n t) p q); assumption.
  Qed.
End Points.

(* ================================================================ 4. active tensors *)
Lemma active_tensors_incl : forall T w, incl (active_tensors T w) T.
Proof.
  induction T as [|t T IH]; intros [|x w]; cbn; try (intros a []). destruct (x =? 0).
  - intros a Ha. right. apply (IH w). exact Ha.
  - intros a [<-|Ha]; [left; reflexivity|right; apply (IH w); exact Ha].
Qed.

Lemma active_tensors_spec : forall T w t, length T = length w ->
  (In t (active_tensors T w) <-> exists k, nth_error T k = Some t /\ exists x, nth_error w k = Some x /\ x <> 0).
Proof.
  induction T as [|a T IH]; intros [|x w] t Hl; cbn in Hl; try discriminate.
  - cbn. split; [intros []|intros [[|k] [Hk _]]; discriminate].
  - cbn [active_tensors]. split.
    + intros H. destruct (x =? 0) eqn:E.
      * apply IH in H; [|lia]. destruct H as [k [H1 [y [H2 H3]]]]. exists (S k). split; [exact H1|]. exists y. split; assumption.
      * destruct H as [<-|H]; [exists 0%nat; split; [reflexivity|]; exists x; split; [reflexivity|lia]|].
        apply IH in H; [|lia]. destruct H as [k [H1 [y [H2 H3]]]]. exists (S k). split; [exact H1|]. exists y. split; assumption.
    + intros [[|k] [H1 [y [H2 H3]]]]; cbn in H1, H2.
      * injection H1 as <-. injection H2 as <-. destruct (x =? 0) eqn:E; [lia|left; reflexivity].
      * assert (In t (active_tensors T w)) by (apply IH; [lia|]; exists k; split; [exact H1|]; exists y; split; assumption).
        destruct (x =? 0); [assumption|right; assumption].
Qed.

Lemma active_weights_length : forall T w, length T = length w -> length (active_tensors T w) = length (active_weights w).
Proof.
  induction T as [|a T IH]; intros [|x w] Hl; cbn in Hl; try discriminate; [reflexivity|].
  cbn. destruct (x =? 0); cbn; [apply IH; lia|f_equal; apply IH; lia].
Qed.

(* (b) with the active tensors: when every tensor of the lower set is dominated by one with a non-zero weight, the full blocks of the
   active tensors (what generateNonNestedPoints walks, and what the interpolant sums over) cover exactly the points of the grid *)
Theorem nested_points_active n d Theta w : growth_ok n -> tensors_ok d Theta -> lowerZ Theta ->
  (forall t, In t Theta -> exists s, In s (active_tensors Theta w) /\ le_idx t s) ->
  nested_points n Theta = full_points n (active_tensors Theta w).
Proof.
  intros Hg H Hlow Hdom. apply (nested_points_dominating n d Hg); [exact H|exact Hlow|apply active_tensors_incl|exact Hdom].
Qed.

(* ================================================================ 5. getMaxIndexes *)
Lemma max_step_length m t : length m = length t -> length (map2 Z.max m t) = length m.
Proof. intros H. rewrite map2_length. lia. Qed.

Lemma max_indexes_ge d : forall Theta m, wf d Theta -> length m = d ->
  length (fold_left (fun m t => map2 Z.max m t) Theta m) = d /\
  Forall2 Z.le m (fold_left (fun m t => map2 Z.max m t) Theta m) /\
  forall t, In t Theta -> Forall2 Z.le t (fold_left (fun m t => map2 Z.max m t) Theta m).
Proof.
  assert (Hrefl : forall a : list Z, Forall2 Z.le a a) by (induction a; constructor; [lia|assumption]).
  assert (Htrans : forall a b c : list Z, Forall2 Z.le a b -> Forall2 Z.le b c -> Forall2 Z.le a c).
  { intros a b c H. revert c. induction H; intros c Hc; inversion Hc; subst; constructor; [lia|auto]. }
  assert (Hmax : forall m t : list Z, length m = length t -> Forall2 Z.le m (map2 Z.max m t) /\ Forall2 Z.le t (map2 Z.max m t)).
  { induction m as [|x m IH]; intros [|y t] Hl; cbn in Hl; try discriminate; cbn; [split; constructor|].
    destruct (IH t ltac:(lia)). split; constructor; try assumption; lia. }
  induction Theta as [|s Theta IH]; intros m Hw Hm; cbn [fold_left].
  - split; [exact Hm|]. split; [apply Hrefl|intros t []].
  - inversion Hw as [|? ? Hs Hw']; subst. destruct (Hmax m s ltac:(lia)) as [M1 M2].
    destruct (IH (map2 Z.max m s) Hw' ltac:(rewrite map2_length; lia)) as [I1 [I2 I3]].
    split; [exact I1|]. split; [apply (Htrans _ _ _ M1 I2)|]. intros t [<-|Ht]; [apply (Htrans _ _ _ M2 I2)|apply I3; exact Ht].
Qed.

(* every tensor is below the vector getMaxIndexes returns *)
Theorem max_indexes_bound d Theta t : wf d Theta -> In t Theta -> Forall2 Z.le t (max_indexes d Theta).
Proof. intros Hw Ht. unfold max_indexes. apply (max_indexes_ge d Theta (repeat 0 d) Hw (repeat_length 0 d)). exact Ht. Qed.

(* ================================================================ 6. the generated point counts grow *)
Theorem numPoints_growth_ok r : growth_ok (g_numPoints r).
Proof.
  split; [pose proof (numPoints_ge r 0 ltac:(lia)); lia|]. intros l Hl. apply numPoints_mono. exact Hl.
Qed.
