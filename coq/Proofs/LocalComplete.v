(* Local Polynomial grids with a complete hierarchy: the one-dimensional tree facts (LocalTree1D.v) discharge the premise of the
   closure argument (LocalClosure.v) for every binary rule and every order. *)
From TV Require Import Common.Prelude Model.IndexSets Model.RuleLocal Model.Selection Model.Hier Model.LocalGrid.
From TV Require Import Proofs.HierProofs Proofs.LocalGridProofs Proofs.LocalTreeSpec Proofs.LocalTree1D Proofs.LocalClosure.
From Coq Require Import QArith Qcanon.
Local Open Scope Z_scope.

Definition binary (r : erule) : Prop := r = Localp \/ r = Semilocalp \/ r = Localp0 \/ r = Localpb.

Lemma binary_tree1d_facts r order : binary r -> tree1d_facts r order.
Proof.
  intros [-> | [-> | [-> | ->]]];
    [apply tree1d_facts_localp_any | apply tree1d_facts_semilocalp_any | apply tree1d_facts_localp0_any | apply tree1d_facts_localpb_any].
Qed.

Definition wellformed (d : nat) (pts : list idx) : Prop :=
  pts <> [] /\ NoDup pts /\ forall i, In i pts -> length i = d /\ Forall (fun p => 0 <= p) i.

Theorem localpoly_complete_cert r order d pts :
  binary r -> wellformed d pts -> parent_complete r pts = true -> hier_cert r order pts = true.
Proof. intros Hb [Hne [Hnd Hwf]]. exact (complete_grid_cert r order d pts (binary_tree1d_facts r order Hb) Hne Hnd Hwf). Qed.

Theorem localpoly_complete_reproduces r order d pts (vals : list (idx * Qc)) :
  binary r -> wellformed d pts -> parent_complete r pts = true ->
  forall i, In i pts -> evalAt r order pts vals (node_of r i) = assoc vals i.
Proof. intros Hb [Hne [Hnd Hwf]]. exact (complete_grid_reproduces_pts r order d pts vals (binary_tree1d_facts r order Hb) Hne Hnd Hwf). Qed.

Theorem localpoly_complete_unique r order d pts (vals : list (idx * Qc)) :
  binary r -> wellformed d pts -> parent_complete r pts = true ->
  forall c1 c2 : idx -> Qc,
  (forall i, In i (by_level r pts) ->
     Hier.sum Qc 0%Qc Qcplus idx (by_level r pts) (fun j => (Bc r order i j * c1 j)%Qc) = assoc vals i) ->
  (forall i, In i (by_level r pts) ->
     Hier.sum Qc 0%Qc Qcplus idx (by_level r pts) (fun j => (Bc r order i j * c2 j)%Qc) = assoc vals i) ->
  forall i, In i (by_level r pts) -> c1 i = c2 i.
Proof. intros Hb [Hne [Hnd Hwf]]. exact (complete_grid_unique r order d pts vals (binary_tree1d_facts r order Hb) Hne Hnd Hwf). Qed.

(* non-vacuity: the 13-point two-dimensional grid of depth 2 meets the premises *)
Example wellformed_example : wellformed 2 [[0;0];[0;1];[0;2];[0;3];[0;4];[1;0];[1;1];[1;2];[2;0];[2;1];[2;2];[3;0];[4;0]] /\
  parent_complete Localp [[0;0];[0;1];[0;2];[0;3];[0;4];[1;0];[1;1];[1;2];[2;0];[2;1];[2;2];[3;0];[4;0]] = true.
Proof.
  split; [|vm_compute; reflexivity]. split; [discriminate|]. split.
  - apply nodupb_NoDup. vm_compute. reflexivity.
  - intros i Hi. cbn in Hi. repeat (destruct Hi as [<- | Hi]; [split; [reflexivity|repeat constructor; lia]|]). contradiction.
Qed.
