(* The combination technique is exact on the declared polynomial space (M-E `comb_exact`).
   Setting: a commutative ring R; d dimensions; one-dimensional operators U^j_l (dimension j, level l) are represented
   by their values  u j l k  on the monomial of degree k;  I j k  is the exact value;  m l  the degree up to which level l
   is exact (monotone).  For a lower set Theta of level multi-indexes the operator
        A = sum_{t in Theta} tensor_j (U^j_{t_j} - U^j_{t_j - 1})
   reproduces the exact value on every monomial k that lies in the polynomial space
        { k : exists s in Theta, forall j, k_j <= m (s_j) }       (createPolynomialSpace).                                   *)
From TV Require Import Common.Prelude.
From Coq Require Import Ring Permutation.

Lemma NoDup_app_intro {A} (l1 l2 : list A) : NoDup l1 -> NoDup l2 -> (forall x, In x l1 -> ~ In x l2) -> NoDup (l1 ++ l2).
Proof.
  induction l1 as [|a l1 IH]; intros H1 H2 Hd; [exact H2|]. cbn. inversion H1; subst. constructor.
  - intro Hin. apply in_app_or in Hin. destruct Hin as [Hin|Hin]; [contradiction|]. apply (Hd a); [left; reflexivity|exact Hin].
  - apply IH; auto. intros x Hx. apply Hd. right. exact Hx.
Qed.

Section Comb.
  Variable R : Type.
  Variables (rO rI : R) (radd rmul rsub : R -> R -> R) (ropp : R -> R).
  Hypothesis Rth : ring_theory rO rI radd rmul rsub ropp eq.
  Add Ring RringC : Rth.
  Infix "+" := radd. Infix "*" := rmul. Infix "-" := rsub.

  Variable u : nat -> nat -> nat -> R.     (* u j l k : operator of dimension j, level l, applied to the monomial of degree k *)
  Variable I : nat -> nat -> R.            (* exact value in dimension j on degree k *)
  Variable m : nat -> nat.                 (* exactness of level l *)
  Hypothesis m_mono : forall l, m l <= m (S l).
  Hypothesis exact : forall j l k, k <= m l -> u j l k = I j k.

  Lemma m_mono_le a b : a <= b -> m a <= m b.
  Proof. induction 1 as [|b H IH]; [lia|]. pose proof (m_mono b). lia. Qed.

  Definition delta (j l k : nat) : R := match l with O => u j O k | S l' => u j l k - u j l' k end.

  Fixpoint sumf {A} (l : list A) (f : A -> R) : R := match l with [] => rO | x :: r => f x + sumf r f end.

  Lemma sumf_ext {A} (l : list A) f g : (forall x, In x l -> f x = g x) -> sumf l f = sumf l g.
  Proof. induction l as [|a l IH]; cbn; intros H; [reflexivity|]. rewrite H by (left; reflexivity). rewrite IH; [reflexivity|]. intros; apply H; right; auto. Qed.
  Lemma sumf_zero {A} (l : list A) f : (forall x, In x l -> f x = rO) -> sumf l f = rO.
  Proof. induction l as [|a l IH]; cbn; intros H; [reflexivity|]. rewrite H by (left; reflexivity). rewrite IH; [ring|]. intros; apply H; right; auto. Qed.
  Lemma sumf_app {A} (l1 l2 : list A) f : sumf (l1 ++ l2) f = sumf l1 f + sumf l2 f.
  Proof. induction l1 as [|a l IH]; cbn; [ring|]. rewrite IH. ring. Qed.
  Lemma sumf_scale {A} (l : list A) (a : R) f : a * sumf l f = sumf l (fun x => a * f x).
  Proof. induction l as [|x l IH]; cbn; [ring|]. rewrite <- IH. ring. Qed.
  Lemma sumf_map {A B} (l : list A) (g : A -> B) f : sumf (map g l) f = sumf l (fun x => f (g x)).
  Proof. induction l as [|x l IH]; cbn; [reflexivity|]. rewrite IH. reflexivity. Qed.
  Lemma sumf_flat_map {A B} (l : list A) (g : A -> list B) f : sumf (flat_map g l) f = sumf l (fun x => sumf (g x) f).
  Proof. induction l as [|x l IH]; cbn; [reflexivity|]. rewrite sumf_app, IH. reflexivity. Qed.
  Lemma sumf_perm {A} (l1 l2 : list A) f : Permutation l1 l2 -> sumf l1 f = sumf l2 f.
  Proof.
    induction 1 as [|x l l' H IH|x y l|l l' l'' H1 IH1 H2 IH2]; cbn.
    - reflexivity.
    - rewrite IH. reflexivity.
    - ring.
    - rewrite IH1. exact IH2.
  Qed.
  Lemma sumf_filter_split {A} (l : list A) (p : A -> bool) f :
    sumf l f = sumf (filter p l) f + sumf (filter (fun x => negb (p x)) l) f.
  Proof. induction l as [|x l IH]; cbn; [ring|]. rewrite IH. destruct (p x); cbn; ring. Qed.

  (* telescoping in one dimension *)
  Lemma telescope j k n : sumf (seq 0 (S n)) (fun l => delta j l k) = u j n k.
  Proof.
    induction n as [|n IH]; [cbn; ring|].
    rewrite seq_S. rewrite sumf_app, IH. cbn. ring.
  Qed.

  (* a level above one whose exactness already covers the degree contributes nothing *)
  Lemma delta_zero j l s k : k <= m s -> s < l -> delta j l k = rO.
  Proof.
    intros Hk Hl. destruct l as [|l']; [lia|]. cbn.
    rewrite (exact j (S l') k) by (pose proof (m_mono_le s (S l')); lia).
    rewrite (exact j l' k) by (pose proof (m_mono_le s l'); lia). ring.
  Qed.

  (* tensor product of the one-dimensional differences; j is the dimension of the head of the lists *)
  Fixpoint dprod (j : nat) (t k : list nat) : R :=
    match t, k with
    | tj :: t', kj :: k' => delta j tj kj * dprod (S j) t' k'
    | _, _ => rI
    end.
  Fixpoint iprod (j : nat) (k : list nat) : R := match k with [] => rI | kj :: k' => I j kj * iprod (S j) k' end.

  Fixpoint box (s : list nat) : list (list nat) :=
    match s with
    | [] => [[]]
    | n :: s' => flat_map (fun l => map (cons l) (box s')) (seq 0 (S n))
    end.

  Fixpoint le_all (t s : list nat) : bool :=
    match t, s with
    | a :: t', b :: s' => (a <=? b) && le_all t' s'
    | [], [] => true
    | _, _ => false
    end.

  Lemma box_In s : forall t, In t (box s) <-> le_all t s = true.
  Proof.
    induction s as [|n s IH]; intros t.
    - destruct t as [|a t']; cbn; split; intros H; auto; try discriminate.
      destruct H as [H|[]]. discriminate.
    - cbn [box]. rewrite in_flat_map. split.
      + intros [l [Hl Ht]]. apply in_map_iff in Ht. destruct Ht as [t' [<- Ht']]. apply in_seq in Hl. cbn [le_all].
        apply andb_true_iff. split; [apply Nat.leb_le; lia|apply IH; exact Ht'].
      + destruct t as [|a t']; [discriminate|]. cbn [le_all]. intros H. apply andb_true_iff in H. destruct H as [H1 H2].
        exists a. split; [apply in_seq; apply Nat.leb_le in H1; lia|]. apply in_map. apply IH. exact H2.
  Qed.

  Lemma box_NoDup s : NoDup (box s).
  Proof.
    induction s as [|n s IH]; [cbn; repeat constructor; auto|]. cbn [box].
    assert (H : forall a len, NoDup (flat_map (fun l => map (cons l) (box s)) (seq a len))).
    { intros a len. revert a. induction len as [|len IHl]; intros a; cbn; [constructor|].
      apply NoDup_app_intro; [| apply IHl |].
      - apply FinFun.Injective_map_NoDup; [intros x y E; congruence|exact IH].
      - intros x Hx Hy. apply in_map_iff in Hx. destruct Hx as [t' [<- _]]. apply in_flat_map in Hy.
        destruct Hy as [l [Hl Hy]]. apply in_map_iff in Hy. destruct Hy as [t'' [E _]]. apply in_seq in Hl. injection E as E. lia. }
    exact (H 0 (S n)).
  Qed.

  Lemma sumf_scale_r {A} (l : list A) (a : R) f : sumf l f * a = sumf l (fun x => f x * a).
  Proof. induction l as [|x l IH]; cbn; [ring|]. rewrite <- IH. ring. Qed.

  Fixpoint uprod (j : nat) (s k : list nat) : R :=
    match s, k with n :: s', kj :: k' => u j n kj * uprod (S j) s' k' | _, _ => rI end.

  (* the sum over a box factorises into one-dimensional telescoping sums *)
  Lemma box_factor s : forall j k, length k = length s -> sumf (box s) (fun t => dprod j t k) = uprod j s k.
  Proof.
    induction s as [|n s IH]; intros j k Hk.
    - destruct k; [|discriminate]. cbn. ring.
    - destruct k as [|kj k']; [discriminate|]. cbn [box uprod]. rewrite sumf_flat_map.
      rewrite (sumf_ext _ _ (fun l => delta j l kj * sumf (box s) (fun t => dprod (S j) t k'))).
      + rewrite <- sumf_scale_r. rewrite telescope. rewrite IH by (cbn in Hk; lia). reflexivity.
      + intros l _. rewrite sumf_map. cbn [dprod]. rewrite sumf_scale. reflexivity.
  Qed.

  Lemma uprod_exact s : forall j k, length k = length s -> Forall2 (fun kj sj => kj <= m sj) k s -> uprod j s k = iprod j k.
  Proof.
    induction s as [|n s IH]; intros j k Hk HF.
    - destruct k; [reflexivity|discriminate].
    - destruct k as [|kj k']; [discriminate|]. inversion HF; subst. cbn. rewrite exact by assumption. rewrite IH; auto.
  Qed.

  (* a multi-index that exceeds s in some coordinate contributes nothing *)
  Lemma dprod_zero s : forall j t k, length t = length s -> length k = length s ->
    Forall2 (fun kj sj => kj <= m sj) k s -> le_all t s = false -> dprod j t k = rO.
  Proof.
    induction s as [|n s IH]; intros j t k Ht Hk HF Hle.
    - destruct t; [discriminate|discriminate].
    - destruct t as [|a t']; [discriminate|]. destruct k as [|kj k']; [discriminate|]. inversion HF; subst.
      cbn in Hle. cbn [dprod]. destruct (a <=? n) eqn:E.
      + cbn in Hle. cbn in Ht, Hk.
        rewrite (IH (S j) t' k'); [ring|lia|lia|assumption|exact Hle].
      + apply Nat.leb_gt in E. rewrite (delta_zero j a n kj); [ring|assumption|assumption].
  Qed.

  Definition lower (Theta : list (list nat)) : Prop :=
    forall t s, In t Theta -> length s = length t -> le_all s t = true -> In s Theta.

  Variable d : nat.
  Variable Theta : list (list nat).
  Hypothesis Theta_nodup : NoDup Theta.
  Hypothesis Theta_len : forall t, In t Theta -> length t = d.
  Hypothesis Theta_lower : lower Theta.

  Lemma le_all_length t s : le_all t s = true -> length t = length s.
  Proof. revert s; induction t as [|a t IH]; intros [|b s] H; cbn in *; try discriminate; [reflexivity|]. apply andb_true_iff in H. f_equal. apply IH. tauto. Qed.

  (* combination technique: exact on every monomial of the declared polynomial space *)
  Theorem comb_exact k s : In s Theta -> length k = d -> Forall2 (fun kj sj => kj <= m sj) k s ->
    sumf Theta (fun t => dprod 0 t k) = iprod 0 k.
  Proof.
    intros Hs Hk HF. pose proof (Theta_len s Hs) as Hsl.
    rewrite (sumf_filter_split Theta (fun t => le_all t s)).
    rewrite (sumf_zero (filter (fun x => negb (le_all x s)) Theta)).
    2:{ intros t Ht. apply filter_In in Ht. destruct Ht as [Ht Hn]. apply negb_true_iff in Hn.
        apply (dprod_zero s 0 t k); auto; [rewrite (Theta_len t Ht); lia|lia]. }
    rewrite (sumf_perm (filter (fun t => le_all t s) Theta) (box s)).
    - rewrite box_factor by lia. rewrite uprod_exact by (auto; lia). ring.
    - apply NoDup_Permutation; [apply NoDup_filter; exact Theta_nodup|apply box_NoDup|].
      intros t. rewrite filter_In, box_In. split; [tauto|]. intros H. split; [|exact H].
      apply (Theta_lower s t Hs); [apply le_all_length in H; lia|exact H].
  Qed.
End Comb.
