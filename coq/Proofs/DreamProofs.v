(* Proofs about the SampleDREAM model (C15). *)
From TV Require Import Common.Prelude Model.Dream.
From Coq Require Import QArith Qround.
Local Close Scope Q_scope.

Ltac fin := repeat match goal with
  | |- _ /\ _ => split | |- _ <-> _ => split | |- _ -> _ => intro
  | H : _ /\ _ |- _ => destruct H | H : _ \/ _ |- _ => destruct H end;
  try discriminate; try reflexivity; try (left; reflexivity); try (right; reflexivity).

Section Generic.
  Variables R W : Type.
  Variables add sub mul div : R -> R -> R.
  Variable logf : R -> R.
  Variable ofnat : nat -> R.
  Variable trunc : R -> Z.
  Variables gtb geb : R -> R -> bool.
  Variable is_zero : R -> bool.
  Variable logform : bool.
  Variable fixed : bool.
  Variable pdf : list R -> R.
  Variable inside : list R -> bool.
  Variable rnd : W -> R * W.
  Variable diff : W -> R * W.
  Variable upd : W -> list R -> list R * W.

  Notation draw_jk := (draw_jk R mul ofnat trunc fixed).
  Notation ijk_delta := (ijk_delta R add sub mul is_zero).
  Notation propose1 := (propose1 R W add sub mul ofnat trunc is_zero fixed inside rnd diff upd).
  Notation propose_all := (propose_all R W add sub mul ofnat trunc is_zero fixed inside rnd diff upd).
  Notation candidates := (candidates R).
  Notation eval_batch := (eval_batch R pdf).
  Notation accept_test := (accept_test R W sub div logf gtb geb logform rnd).
  Notation decide := (decide R W sub div logf gtb geb logform rnd).
  Notation step := (step R W add sub mul div logf ofnat trunc gtb geb is_zero logform fixed pdf inside rnd diff upd).
  Notation save := (save R).
  Notation loop := (loop R W add sub mul div logf ofnat trunc gtb geb is_zero logform fixed pdf inside rnd diff upd).
  Notation init_pdf := (init_pdf R pdf).
  Notation run := (run R W add sub mul div logf ofnat trunc gtb geb is_zero logform fixed pdf inside rnd diff upd).
  Notation accept1 := (accept1 R W sub div logf gtb geb logform pdf inside rnd).
  Notation accept_all := (accept_all R W sub div logf gtb geb logform pdf inside rnd).
  Notation dstate := (dstate R).
  Notation event := (event R).

  (* the invariant the C++ class maintains by its size checks: one cached value per chain *)
  Definition wf (st : dstate) : Prop := pdf_ready R st = true -> length (pdfv R st) = length (chains R st).

  (* ---------------------------------------------------------------- shapes *)
  Lemma propose_all_length cs n idx w :
    length (fst (fst (propose_all cs n idx w))) = length idx.
  Proof.
    revert w; induction idx as [|i r IH]; intros w; cbn [Dream.propose_all]; [reflexivity|].
    destruct (propose1 cs n i w) as [[pb w1] e1].
    specialize (IH w1). destruct (propose_all cs n r w1) as [[ps w2] e2]. cbn in *. lia.
  Qed.

  Lemma propose1_valid cs n i w :
    snd (fst (fst (propose1 cs n i w))) = inside (fst (fst (fst (propose1 cs n i w)))).
  Proof.
    unfold Dream.propose1.
    destruct (rnd w) as [rj w1]. destruct (rnd w1) as [rk w2].
    destruct (draw_jk n rj rk) as [[[jz kz] j] k]. destruct (diff w2) as [wd w3].
    destruct (upd w3 _) as [p w4]. reflexivity.
  Qed.

  Lemma propose_all_valid cs n idx w :
    Forall (fun pb => snd pb = inside (fst pb)) (fst (fst (propose_all cs n idx w))).
  Proof.
    revert w; induction idx as [|i r IH]; intros w; cbn [Dream.propose_all]; [constructor|].
    pose proof (propose1_valid cs n i w) as Hv.
    destruct (propose1 cs n i w) as [[pb w1] e1].
    specialize (IH w1). destruct (propose_all cs n r w1) as [[ps w2] e2]. cbn in *.
    constructor; assumption.
  Qed.

  Lemma candidates_inside ps :
    Forall (fun pb => snd pb = inside (fst pb)) ps ->
    Forall (fun x => inside x = true) (candidates ps).
  Proof.
    unfold Dream.candidates. induction 1 as [|[p b] ps Hpb _ IH]; cbn; [constructor|].
    cbn in Hpb. destruct b; cbn; [constructor; [congruence|exact IH]|exact IH].
  Qed.

  Lemma eval_batch_vals cands : fst (eval_batch cands) = map pdf cands.
  Proof. destruct cands; reflexivity. Qed.

  (* ---------------------------------------------------------------- the accept loop *)
  (* one induction principle for [decide]: everything that holds of the old chains and of the
     candidates (with their values) holds of the new chains (with their cached values) *)
  Lemma decide_pairs (P : list R -> R -> Prop) valid : forall olds curs cands vals w,
    Forall2 P olds curs -> Forall2 P cands vals ->
    let '(ns, nv, _, _, _) := decide valid olds curs cands vals w in Forall2 P ns nv.
  Proof.
    induction valid as [|b valid IH]; intros olds curs cands vals w Ho Hc; cbn [Dream.decide]; [constructor|].
    destruct Ho as [|o c olds curs Hoc Ho]; [constructor|].
    destruct b.
    - destruct Hc as [|cd v cands vals Hcv Hc].
      + specialize (IH olds curs [] [] w Ho (Forall2_nil P)).
        destruct (decide valid olds curs [] [] w) as [[[[ns nv] k] w2] e2]. constructor; assumption.
      + destruct (accept_test v c w) as [[keep w1] e1].
        specialize (IH olds curs cands vals w1 Ho Hc).
        destruct (decide valid olds curs cands vals w1) as [[[[ns nv] k] w2] e2].
        destruct keep; constructor; assumption.
    - specialize (IH olds curs cands vals w Ho Hc).
      destruct (decide valid olds curs cands vals w) as [[[[ns nv] k] w2] e2]. constructor; assumption.
  Qed.

  Lemma decide_length valid : forall olds curs cands vals w,
    length valid = length olds -> length curs = length olds ->
    let '(ns, nv, _, _, _) := decide valid olds curs cands vals w in
    length ns = length olds /\ length nv = length olds.
  Proof.
    induction valid as [|b valid IH]; intros olds curs cands vals w Hv Hc; cbn [Dream.decide].
    - destruct olds; [split; reflexivity|discriminate].
    - destruct olds as [|o olds]; [discriminate|]. destruct curs as [|c curs]; [discriminate|].
      cbn in Hv, Hc.
      destruct b; [destruct cands as [|cd cands]; [|destruct vals as [|v vals]]|].
      + specialize (IH olds curs [] vals w ltac:(lia) ltac:(lia)).
        destruct (decide valid olds curs [] vals w) as [[[[ns nv] k] w2] e2]. cbn. lia.
      + specialize (IH olds curs (cd :: cands) [] w ltac:(lia) ltac:(lia)).
        destruct (decide valid olds curs (cd :: cands) [] w) as [[[[ns nv] k] w2] e2]. cbn. lia.
      + destruct (accept_test v c w) as [[keep w1] e1].
        specialize (IH olds curs cands vals w1 ltac:(lia) ltac:(lia)).
        destruct (decide valid olds curs cands vals w1) as [[[[ns nv] k] w2] e2].
        destruct keep; cbn; lia.
      + specialize (IH olds curs cands vals w ltac:(lia) ltac:(lia)).
        destruct (decide valid olds curs cands vals w) as [[[[ns nv] k] w2] e2]. cbn. lia.
  Qed.

  Lemma Forall2_same_map {A B} (f : A -> B) (P : A -> B -> Prop) l :
    (forall x, In x l -> P x (f x)) -> Forall2 P l (map f l).
  Proof. induction l; cbn; intros H; constructor; auto. Qed.

  Lemma Forall2_eq_map {A B} (f : A -> B) l m : Forall2 (fun x y => y = f x) l m -> m = map f l.
  Proof. induction 1; cbn; congruence. Qed.

  Lemma Forall2_len {A B} (P : A -> B -> Prop) l m : Forall2 P l m -> length l = length m.
  Proof. induction 1; cbn; congruence. Qed.

  Lemma Forall2_left {A B} (P : A -> Prop) (l : list A) (m : list B) :
    Forall2 (fun x _ => P x) l m -> Forall P l.
  Proof. induction 1; constructor; assumption. Qed.

  Lemma Forall2_of_left {A B} (P : A -> Prop) (l : list A) (m : list B) :
    length l = length m -> Forall P l -> Forall2 (fun x _ => P x) l m.
  Proof.
    revert m; induction l as [|a l IH]; intros [|b m] Hl HP; try discriminate; constructor.
    - inversion HP; assumption.
    - apply IH; [cbn in Hl; lia|inversion HP; assumption].
  Qed.

  (* the batched evaluation with two iterators implements the point-wise rule [accept_all] *)
  Lemma decide_spec ps : forall olds curs w,
    Forall (fun pb => snd pb = inside (fst pb)) ps ->
    let '(ns, nv, k, w2, _) := decide (map snd ps) olds curs (candidates ps) (map pdf (candidates ps)) w in
    (ns, nv, k, w2) = accept_all (map fst ps) olds curs w.
  Proof.
    induction ps as [|[p b] ps IH]; intros olds curs w Hv; cbn [map Dream.decide Dream.accept_all]; [reflexivity|].
    inversion Hv as [|? ? Hb Hv']; subst. cbn [fst snd] in Hb.
    destruct olds as [|o olds]; [reflexivity|]. destruct curs as [|c curs]; [reflexivity|].
    unfold Dream.candidates. cbn [filter snd fst]. unfold Dream.accept1. rewrite <- Hb.
    destruct b; cbn [map fst].
    - unfold Dream.accept_test.
      fold (candidates ps).
      destruct (gtb (pdf p) c).
      + specialize (IH olds curs w Hv').
        destruct (decide (map snd ps) olds curs (candidates ps) (map pdf (candidates ps)) w) as [[[[ns nv] k] w2] e2].
        rewrite <- IH. reflexivity.
      + destruct (rnd w) as [u w'].
        specialize (IH olds curs w' Hv').
        destruct (decide (map snd ps) olds curs (candidates ps) (map pdf (candidates ps)) w') as [[[[ns nv] k] w2] e2].
        destruct (if logform then geb (sub (pdf p) c) (logf u) else geb (div (pdf p) c) u);
          rewrite <- IH; reflexivity.
    - fold (candidates ps). specialize (IH olds curs w Hv').
      destruct (decide (map snd ps) olds curs (candidates ps) (map pdf (candidates ps)) w) as [[[[ns nv] k] w2] e2].
      rewrite <- IH. reflexivity.
  Qed.
  (* ---------------------------------------------------------------- one iteration *)
  Definition wf1 (st : dstate) : Prop := length (pdfv R st) = length (chains R st).

  Definition step_st (st : dstate) (w : W) : dstate := fst (fst (fst (step st w))).
  Definition step_ev (st : dstate) (w : W) : list event := snd (step st w).

  Lemma step_shape st w : wf1 st ->
    length (chains R (step_st st w)) = length (chains R st) /\ wf1 (step_st st w) /\
    pdf_ready R (step_st st w) = true /\ hist R (step_st st w) = hist R st /\
    pdfh R (step_st st w) = pdfh R st /\ acc R (step_st st w) = acc R st.
  Proof.
    intros Hwf. unfold step_st, Dream.step, wf1 in *.
    pose proof (propose_all_length (chains R st) (length (chains R st)) (seq 0 (length (chains R st))) w) as Hl.
    destruct (propose_all _ _ _ w) as [[ps w1] e1]. cbn [fst] in Hl. rewrite seq_length in Hl.
    destruct (eval_batch (candidates ps)) as [vals e2].
    pose proof (decide_length (map snd ps) (chains R st) (pdfv R st) (candidates ps) vals w1) as Hd.
    rewrite map_length in Hd. specialize (Hd Hl Hwf).
    destruct (decide _ _ _ _ vals w1) as [[[[ns nv] k] w2] e3]. cbn. repeat split; lia.
  Qed.

  Lemma step_pairs (P : list R -> R -> Prop) st w :
    (forall p, inside p = true -> P p (pdf p)) ->
    Forall2 P (chains R st) (pdfv R st) ->
    Forall2 P (chains R (step_st st w)) (pdfv R (step_st st w)).
  Proof.
    intros HP Ho. unfold step_st, Dream.step.
    pose proof (propose_all_valid (chains R st) (length (chains R st)) (seq 0 (length (chains R st))) w) as Hv.
    destruct (propose_all _ _ _ w) as [[ps w1] e1]. cbn [fst] in Hv.
    pose proof (eval_batch_vals (candidates ps)) as Hb.
    destruct (eval_batch (candidates ps)) as [vals e2]. cbn [fst] in Hb. subst vals.
    assert (Hc : Forall2 P (candidates ps) (map pdf (candidates ps))).
    { apply Forall2_same_map. intros x Hx. apply HP.
      pose proof (candidates_inside ps Hv) as Hci. rewrite Forall_forall in Hci. auto. }
    pose proof (decide_pairs P (map snd ps) (chains R st) (pdfv R st) _ _ w1 Ho Hc) as Hd.
    destruct (decide _ _ _ _ _ w1) as [[[[ns nv] k] w2] e3]. cbn. exact Hd.
  Qed.

  (* the iteration in terms of the point-wise rule *)
  Lemma step_accept st w :
    let '(ps, w1, _) := propose_all (chains R st) (length (chains R st)) (seq 0 (length (chains R st))) w in
    let '(st', k, w2, _) := step st w in
    (chains R st', pdfv R st', k, w2) = accept_all (map fst ps) (chains R st) (pdfv R st) w1.
  Proof.
    unfold Dream.step.
    pose proof (propose_all_valid (chains R st) (length (chains R st)) (seq 0 (length (chains R st))) w) as Hv.
    destruct (propose_all _ _ _ w) as [[ps w1] e1]. cbn [fst] in Hv.
    pose proof (eval_batch_vals (candidates ps)) as Hb.
    destruct (eval_batch (candidates ps)) as [vals e2]. cbn [fst] in Hb. subst vals.
    pose proof (decide_spec ps (chains R st) (pdfv R st) w1 Hv) as Hd.
    destruct (decide _ _ _ _ _ w1) as [[[[ns nv] k] w2] e3]. cbn. exact Hd.
  Qed.

  (* ---- events of one iteration ---- *)
  (* indices handed to getIJKdelta, before and after clamping; pdf batches *)
  (* c0: the whole state, evaluated once by setPDFvalues when the cached values are not initialised *)
  Definition ev_ok (n : nat) (c0 : list (list R)) (e : event) : Prop :=
    match e with
    | EvGet i jz kz j k => i < n /\ j < n /\ k < n /\ (0 <= jz <= Z.of_nat n)%Z /\ (0 <= kz <= Z.of_nat n)%Z
    | EvPdf cands vals => cands <> [] /\ vals = map pdf cands /\ (Forall (fun x => inside x = true) cands \/ cands = c0)
    | _ => True
    end.

  Lemma draw_jk_ok n rj rk : fixed = true -> 1 <= n ->
    (0 <= trunc (mul rj (ofnat n)) <= Z.of_nat n)%Z -> (0 <= trunc (mul rk (ofnat n)) <= Z.of_nat n)%Z ->
    let '(jz, kz, j, k) := draw_jk n rj rk in
    j < n /\ k < n /\ (0 <= jz <= Z.of_nat n)%Z /\ (0 <= kz <= Z.of_nat n)%Z.
  Proof.
    intros Hf Hn Hj Hk. unfold Dream.draw_jk. rewrite Hf.
    destruct (n <=? Z.to_nat (trunc (mul rj (ofnat n)))) eqn:E1;
    destruct (n <=? Z.to_nat (trunc (mul rk (ofnat n)))) eqn:E2; repeat split; lia.
  Qed.

  Section Events.
    Variable n : nat.
    Variable c0 : list (list R).
    Hypothesis Hfixed : fixed = true.
    Hypothesis Hn : 1 <= n.
    Hypothesis Hrange : forall w, (0 <= trunc (mul (fst (rnd w)) (ofnat n)) <= Z.of_nat n)%Z.

    Lemma propose1_events cs i w : i < n -> Forall (ev_ok n c0) (snd (propose1 cs n i w)).
    Proof.
      intros Hi. unfold Dream.propose1.
      pose proof (Hrange w) as H1. destruct (rnd w) as [rj w1].
      pose proof (Hrange w1) as H2. destruct (rnd w1) as [rk w2]. cbn [fst] in H1, H2.
      pose proof (draw_jk_ok n rj rk Hfixed Hn H1 H2) as Hd.
      destruct (draw_jk n rj rk) as [[[jz kz] j] k]. destruct (diff w2) as [wd w3].
      destruct (upd w3 _) as [p w4]. cbn [snd].
      repeat (apply Forall_cons); try apply Forall_nil; try exact I.
      cbn. destruct Hd as (? & ? & ? & ?). repeat split; lia.
    Qed.

    Lemma propose_all_events cs idx w : Forall (fun i => i < n) idx ->
      Forall (ev_ok n c0) (snd (propose_all cs n idx w)).
    Proof.
      revert w; induction idx as [|i r IH]; intros w Hi; cbn [Dream.propose_all]; [constructor|].
      inversion Hi as [|? ? Hi1 Hi2].
      pose proof (propose1_events cs i w Hi1) as H1.
      destruct (propose1 cs n i w) as [[pb w1] e1].
      specialize (IH w1 Hi2). destruct (propose_all cs n r w1) as [[ps w2] e2]. cbn in *.
      apply Forall_app; split; assumption.
    Qed.
  End Events.

  Lemma decide_events m c0 valid : forall olds curs cands vals w,
    let '(_, _, _, _, e) := decide valid olds curs cands vals w in Forall (ev_ok m c0) e.
  Proof.
    induction valid as [|b valid IH]; intros olds curs cands vals w; cbn [Dream.decide]; [constructor|].
    destruct olds as [|o olds]; [constructor|]. destruct curs as [|c curs]; [constructor|].
    destruct b; [destruct cands as [|cd cands]; [|destruct vals as [|v vals]]|].
    - specialize (IH olds curs [] vals w).
      destruct (decide valid olds curs [] vals w) as [[[[ns nv] k] w2] e2]. exact IH.
    - specialize (IH olds curs (cd :: cands) [] w).
      destruct (decide valid olds curs (cd :: cands) [] w) as [[[[ns nv] k] w2] e2]. exact IH.
    - assert (He : Forall (ev_ok m c0) (snd (accept_test v c w))).
      { unfold Dream.accept_test. destruct (gtb v c); [constructor|]. destruct (rnd w).
        apply Forall_cons; [exact I|apply Forall_nil]. }
      destruct (accept_test v c w) as [[keep w1] e1]. cbn [snd] in He.
      specialize (IH olds curs cands vals w1).
      destruct (decide valid olds curs cands vals w1) as [[[[ns nv] k] w2] e2].
      destruct keep; apply Forall_app; split; assumption.
    - specialize (IH olds curs cands vals w).
      destruct (decide valid olds curs cands vals w) as [[[[ns nv] k] w2] e2]. exact IH.
  Qed.

  Lemma step_events c0 st w : fixed = true -> 1 <= length (chains R st) ->
    (forall w, (0 <= trunc (mul (fst (rnd w)) (ofnat (length (chains R st)))) <= Z.of_nat (length (chains R st)))%Z) ->
    Forall (ev_ok (length (chains R st)) c0) (step_ev st w).
  Proof.
    intros Hf Hn Hr. unfold step_ev, Dream.step.
    pose proof (propose_all_events (length (chains R st)) c0 Hf Hn Hr (chains R st) (seq 0 (length (chains R st))) w) as He.
    pose proof (propose_all_valid (chains R st) (length (chains R st)) (seq 0 (length (chains R st))) w) as Hv.
    destruct (propose_all _ _ _ w) as [[ps w1] e1]. cbn [fst snd] in *.
    assert (Hs : Forall (fun i => i < length (chains R st)) (seq 0 (length (chains R st)))).
    { apply Forall_forall. intros i Hi. apply in_seq in Hi. lia. }
    specialize (He Hs).
    pose proof (candidates_inside ps Hv) as Hci.
    assert (Hb : Forall (ev_ok (length (chains R st)) c0) (snd (eval_batch (candidates ps)))).
    { destruct (candidates ps) as [|cd cs] eqn:Ec; cbn; [constructor|].
      apply Forall_cons; [|apply Forall_nil].
      split; [discriminate|split; [reflexivity|left; exact Hci]]. }
    destruct (eval_batch (candidates ps)) as [vals e2]. cbn [snd] in Hb.
    pose proof (decide_events (length (chains R st)) c0 (map snd ps) (chains R st) (pdfv R st) (candidates ps) vals w1) as Hd.
    destruct (decide _ _ _ _ vals w1) as [[[[ns nv] k] w2] e3]. cbn [snd].
    apply Forall_app; split; [exact He|apply Forall_app; split; assumption].
  Qed.

  (* ---------------------------------------------------------------- the loop over t *)
  Lemma loop_inv (P : dstate -> Prop) (Q : event -> Prop) :
    (forall st w, P st -> P (step_st st w) /\ Forall Q (step_ev st w)) ->
    (forall st k, P st -> P (save st k)) ->
    forall fuel t nb st w, P st ->
      P (fst (fst (loop fuel t nb st w))) /\ Forall Q (snd (loop fuel t nb st w)).
  Proof.
    intros Hstep Hsave. induction fuel as [|f IH]; intros t nb st w HP; cbn [Dream.loop].
    - split; [exact HP|constructor].
    - destruct (Hstep st w HP) as [HP1 HQ1]. unfold step_st, step_ev in *.
      destruct (step st w) as [[[st1 k] w1] e1]. cbn [fst snd] in *.
      assert (HP2 : P (if (nb <=? t)%Z then save st1 k else st1)) by (destruct (nb <=? t)%Z; auto).
      destruct (IH (t + 1)%Z nb _ w1 HP2) as [HP3 HQ3].
      destruct (loop f (t + 1)%Z nb _ w1) as [[st3 w3] e3]. cbn [fst snd] in *.
      split; [exact HP3|apply Forall_app; split; assumption].
  Qed.

  (* number of iterations u in [t, t + fuel) with u >= nb *)
  Fixpoint saved (fuel : nat) (t nb : Z) : nat :=
    match fuel with
    | O => 0
    | S f => (if (nb <=? t)%Z then 1 else 0) + saved f (t + 1)%Z nb
    end.

  Lemma saved_closed fuel : forall t nb,
    Z.of_nat (saved fuel t nb) = Z.max 0 (t + Z.of_nat fuel - Z.max t nb).
  Proof.
    induction fuel as [|f IH]; intros t nb; cbn [saved]; [lia|].
    rewrite Nat2Z.inj_add, IH. destruct (nb <=? t)%Z eqn:E; lia.
  Qed.

  Lemma saved_run nb nc :
    saved (Z.to_nat (Z.max nb 0 + Z.max nc 0)) 0 nb = Z.to_nat (Z.max nc 0).
  Proof. apply Nat2Z.inj. rewrite saved_closed. lia. Qed.

  Lemma loop_count fuel : forall t nb st w, wf1 st ->
    let st' := fst (fst (loop fuel t nb st w)) in
    length (chains R st') = length (chains R st) /\ wf1 st' /\
    length (hist R st') = length (hist R st) + saved fuel t nb * length (chains R st) /\
    length (pdfh R st') = length (pdfh R st) + saved fuel t nb * length (chains R st) /\
    (pdf_ready R st = true -> pdf_ready R st' = true).
  Proof.
    induction fuel as [|f IH]; intros t nb st w Hwf; cbn [Dream.loop saved].
    - cbn. repeat split; try lia; auto.
    - destruct (step_shape st w Hwf) as (H1 & H2 & H3 & H4 & H5 & H6). unfold step_st in *.
      destruct (step st w) as [[[st1 k] w1] e1]. cbn [fst] in *.
      assert (Hs : wf1 (save st1 k) /\ length (chains R (save st1 k)) = length (chains R st) /\
                   pdf_ready R (save st1 k) = true /\
                   length (hist R (save st1 k)) = length (hist R st) + length (chains R st) /\
                   length (pdfh R (save st1 k)) = length (pdfh R st) + length (chains R st)).
      { unfold wf1 in *. cbn [Dream.save chains pdfv pdf_ready hist pdfh]. rewrite !app_length, H4, H5. repeat split; try lia; auto. }
      destruct Hs as (S1 & S2 & S3 & S4 & S5).
      destruct (nb <=? t)%Z.
      + specialize (IH (t + 1)%Z nb (save st1 k) w1 S1).
        destruct (loop f (t + 1)%Z nb (save st1 k) w1) as [[st3 w3] e3]. cbn [fst] in *.
        destruct IH as (I1 & I2 & I3 & I4 & I5). repeat split; try lia; auto.
      + specialize (IH (t + 1)%Z nb st1 w1 H2).
        destruct (loop f (t + 1)%Z nb st1 w1) as [[st3 w3] e3]. cbn [fst] in *.
        destruct IH as (I1 & I2 & I3 & I4 & I5). rewrite H4 in I3. rewrite H5 in I4. repeat split; try lia; auto.
  Qed.

  Lemma loop_app f1 : forall f2 t nb st w,
    loop (f1 + f2) t nb st w =
    let '(st1, w1, e1) := loop f1 t nb st w in
    let '(st2, w2, e2) := loop f2 (t + Z.of_nat f1)%Z nb st1 w1 in (st2, w2, e1 ++ e2).
  Proof.
    induction f1 as [|f1 IH]; intros f2 t nb st w.
    - cbn [Nat.add Dream.loop]. replace (t + Z.of_nat 0)%Z with t by lia.
      destruct (loop f2 t nb st w) as [[st2 w2] e2]. reflexivity.
    - cbn [Nat.add Dream.loop]. destruct (step st w) as [[[st1 k] w1] e1].
      rewrite IH. replace (t + 1 + Z.of_nat f1)%Z with (t + Z.of_nat (S f1))%Z by lia.
      destruct (loop f1 (t + 1)%Z nb _ w1) as [[st3 w3] e3].
      destruct (loop f2 _ nb st3 w3) as [[st4 w4] e4]. rewrite app_assoc. reflexivity.
  Qed.

  (* once t >= num_burnup every iteration is saved, whatever t and num_burnup are *)
  Lemma loop_all_saved f : forall t nb t' nb' st w, (nb <= t)%Z -> (nb' <= t')%Z ->
    loop f t nb st w = loop f t' nb' st w.
  Proof.
    induction f as [|f IH]; intros t nb t' nb' st w H1 H2; cbn [Dream.loop]; [reflexivity|].
    destruct (step st w) as [[[st1 k] w1] e1].
    replace (nb <=? t)%Z with true by (symmetry; apply Z.leb_le; lia).
    replace (nb' <=? t')%Z with true by (symmetry; apply Z.leb_le; lia).
    rewrite (IH (t + 1)%Z nb (t' + 1)%Z nb') by lia. reflexivity.
  Qed.
  (* history appended by the loop: every property P of (sample, value) pairs that holds of the current
     chains and of every in-domain point with its pdf value holds of the appended records *)
  Lemma loop_pairs (P : list R -> R -> Prop) :
    (forall p, inside p = true -> P p (pdf p)) ->
    forall fuel t nb st w, Forall2 P (chains R st) (pdfv R st) ->
    let st' := fst (fst (loop fuel t nb st w)) in
    Forall2 P (chains R st') (pdfv R st') /\
    exists new newp, hist R st' = hist R st ++ new /\ pdfh R st' = pdfh R st ++ newp /\ Forall2 P new newp.
  Proof.
    intros HP fuel t nb st w H0.
    pose (Inv := fun s : dstate => Forall2 P (chains R s) (pdfv R s) /\
      exists new newp, hist R s = hist R st ++ new /\ pdfh R s = pdfh R st ++ newp /\ Forall2 P new newp).
    assert (Hstep : forall s w', Inv s -> Inv (step_st s w') /\ Forall (fun _ : event => True) (step_ev s w')).
    { intros s w' [Hp (new & newp & E1 & E2 & Hn)]. split; [|apply Forall_forall; auto].
      assert (Hwf : wf1 s) by (unfold wf1; symmetry; eapply Forall2_len; eauto).
      destruct (step_shape s w' Hwf) as (_ & _ & _ & H4 & H5 & _).
      split; [apply step_pairs; assumption|]. exists new, newp. rewrite H4, H5. auto. }
    assert (Hsave : forall s k, Inv s -> Inv (save s k)).
    { intros s k [Hp (new & newp & E1 & E2 & Hn)]. split; [exact Hp|].
      exists (new ++ chains R s), (newp ++ pdfv R s). cbn [Dream.save hist pdfh].
      rewrite E1, E2, !app_assoc. repeat split. apply Forall2_app; assumption. }
    assert (H00 : Inv st).
    { split; [exact H0|]. exists [], []. rewrite !app_nil_r. repeat split. constructor. }
    exact (proj1 (loop_inv Inv (fun _ => True) Hstep Hsave fuel t nb st w H00)).
  Qed.

  (* ---------------------------------------------------------------- the run *)
  Lemma init_pdf_shape st : wf st ->
    let st0 := fst (init_pdf st) in
    wf1 st0 /\ chains R st0 = chains R st /\ hist R st0 = hist R st /\ pdfh R st0 = pdfh R st /\
    acc R st0 = acc R st /\ pdf_ready R st0 = true.
  Proof.
    intros Hwf. unfold Dream.init_pdf, wf, wf1 in *. destruct (pdf_ready R st) eqn:E; cbn.
    - repeat split; auto.
    - rewrite map_length. repeat split; auto.
  Qed.

  (* T1 (+ the pdf is evaluated on in-domain proposals only, in non-empty batches) *)
  Lemma run_events nb nc st w : fixed = true -> wf st ->
    (forall w, (0 <= trunc (mul (fst (rnd w)) (ofnat (length (chains R st)))) <= Z.of_nat (length (chains R st)))%Z) ->
    Forall (ev_ok (length (chains R st)) (chains R st)) (snd (run nb nc st w)).
  Proof.
    intros Hf Hwf Hr. unfold Dream.run. destruct (chains R st) as [|c0 cs] eqn:Ec; [constructor|].
    rewrite <- Ec in *.
    destruct (init_pdf_shape st Hwf) as (I1 & I2 & _).
    assert (He0 : Forall (ev_ok (length (chains R st)) (chains R st)) (snd (init_pdf st))).
    { unfold Dream.init_pdf. destruct (pdf_ready R st); [constructor|].
      apply Forall_cons; [|apply Forall_nil]. split; [rewrite Ec; discriminate|split; [reflexivity|right; reflexivity]]. }
    destruct (init_pdf st) as [st0 e0]. cbn [fst snd] in *.
    set (n := length (chains R st)) in *.
    pose (Inv := fun s : dstate => wf1 s /\ length (chains R s) = n).
    assert (Hstep : forall s w', Inv s -> Inv (step_st s w') /\ Forall (ev_ok n (chains R st)) (step_ev s w')).
    { intros s w' [H1 H2]. destruct (step_shape s w' H1) as (S1 & S2 & _). split; [split; [exact S2|lia]|].
      rewrite <- H2. apply step_events; [exact Hf| |rewrite H2; exact Hr].
      rewrite H2. unfold n. rewrite Ec. cbn. lia. }
    assert (Hsave : forall s k, Inv s -> Inv (save s k)) by (intros s k [H1 H2]; split; assumption).
    assert (H00 : Inv st0) by (split; [exact I1|rewrite I2; reflexivity]).
    pose proof (loop_inv Inv _ Hstep Hsave (Z.to_nat (Z.max nb 0 + Z.max nc 0)) 0%Z nb st0 w H00) as [_ HQ].
    destruct (loop _ 0%Z nb st0 w) as [[st1 w1] e1]. cbn [snd] in *.
    apply Forall_app; split; assumption.
  Qed.

  (* readable corollaries of run_events *)
  Lemma run_indices_in_range nb nc st w : fixed = true -> wf st ->
    (forall w, (0 <= trunc (mul (fst (rnd w)) (ofnat (length (chains R st)))) <= Z.of_nat (length (chains R st)))%Z) ->
    forall i jz kz j k, In (EvGet i jz kz j k) (snd (run nb nc st w)) ->
      i < length (chains R st) /\ j < length (chains R st) /\ k < length (chains R st) /\
      (0 <= jz <= Z.of_nat (length (chains R st)))%Z /\ (0 <= kz <= Z.of_nat (length (chains R st)))%Z.
  Proof.
    intros Hf Hwf Hr i jz kz j k Hin.
    pose proof (run_events nb nc st w Hf Hwf Hr) as H. rewrite Forall_forall in H. exact (H _ Hin).
  Qed.

  Lemma run_pdf_batches nb nc st w : fixed = true -> wf st ->
    (forall w, (0 <= trunc (mul (fst (rnd w)) (ofnat (length (chains R st)))) <= Z.of_nat (length (chains R st)))%Z) ->
    forall cands vals, In (EvPdf cands vals) (snd (run nb nc st w)) ->
      cands <> [] /\ vals = map pdf cands /\ (Forall (fun x => inside x = true) cands \/ cands = chains R st).
  Proof.
    intros Hf Hwf Hr cands vals Hin.
    pose proof (run_events nb nc st w Hf Hwf Hr) as H. rewrite Forall_forall in H. exact (H _ Hin).
  Qed.

  Lemma run_pairs (P : list R -> R -> Prop) nb nc st w :
    (forall p, inside p = true -> P p (pdf p)) -> wf st ->
    (pdf_ready R st = true -> Forall2 P (chains R st) (pdfv R st)) ->
    (pdf_ready R st = false -> Forall2 P (chains R st) (map pdf (chains R st))) ->
    let st' := fst (fst (run nb nc st w)) in
    (chains R st <> [] -> Forall2 P (chains R st') (pdfv R st') /\ pdf_ready R st' = true) /\
    exists new newp, hist R st' = hist R st ++ new /\ pdfh R st' = pdfh R st ++ newp /\ Forall2 P new newp.
  Proof.
    intros HP Hwf H1 H2. unfold Dream.run. destruct (chains R st) as [|c0 cs] eqn:Ec.
    - cbn [fst]. split; [congruence|]. exists [], []. rewrite !app_nil_r. repeat split. constructor.
    - rewrite <- Ec in *.
      destruct (init_pdf_shape st Hwf) as (I1 & I2 & I3 & I4 & _ & I6).
      assert (H0 : Forall2 P (chains R (fst (init_pdf st))) (pdfv R (fst (init_pdf st)))).
      { unfold Dream.init_pdf. destruct (pdf_ready R st); cbn; auto. }
      destruct (init_pdf st) as [st0 e0]. cbn [fst] in *.
      pose proof (loop_pairs P HP (Z.to_nat (Z.max nb 0 + Z.max nc 0)) 0%Z nb st0 w H0) as [L1 L2].
      pose proof (loop_count (Z.to_nat (Z.max nb 0 + Z.max nc 0)) 0%Z nb st0 w I1) as (_ & _ & _ & _ & L3).
      destruct (loop _ 0%Z nb st0 w) as [[st1 w1] e1]. cbn [fst] in *.
      rewrite I3, I4 in L2. split; [intros _; split; auto|exact L2].
  Qed.

  (* T2 *)
  Lemma run_history_in_domain nb nc st w : wf st ->
    Forall (fun x => inside x = true) (chains R st) ->
    let st' := fst (fst (run nb nc st w)) in
    Forall (fun x => inside x = true) (chains R st') /\
    exists new, hist R st' = hist R st ++ new /\ Forall (fun x => inside x = true) new.
  Proof.
    intros Hwf Hin.
    pose proof (run_pairs (fun x _ => inside x = true) nb nc st w (fun p H => H) Hwf) as H.
    cbv zeta in H.
    destruct H as [Ha (new & newp & E1 & E2 & Hn)].
    - intros Hr. apply Forall2_of_left; [symmetry; exact (Hwf Hr)|exact Hin].
    - intros _. apply Forall2_of_left; [rewrite map_length; reflexivity|exact Hin].
    - split.
      + destruct (chains R st) as [|c0 cs] eqn:Ec.
        * unfold Dream.run. rewrite Ec. cbn. rewrite Ec. constructor.
        * destruct Ha as [Ha _]; [discriminate|]. eapply Forall2_left; exact Ha.
      + exists new. split; [exact E1|eapply Forall2_left; exact Hn].
  Qed.

  (* T4 *)
  Lemma run_pdf_consistent nb nc st w : wf st ->
    (pdf_ready R st = true -> pdfv R st = map pdf (chains R st)) ->
    let st' := fst (fst (run nb nc st w)) in
    (chains R st <> [] -> pdfv R st' = map pdf (chains R st') /\ pdf_ready R st' = true) /\
    exists new, hist R st' = hist R st ++ new /\ pdfh R st' = pdfh R st ++ map pdf new.
  Proof.
    intros Hwf Hc.
    pose proof (run_pairs (fun x v => v = pdf x) nb nc st w (fun p _ => eq_refl) Hwf) as H.
    cbv zeta in H.
    destruct H as [Ha (new & newp & E1 & E2 & Hn)].
    - intros Hr. rewrite (Hc Hr). apply Forall2_same_map. reflexivity.
    - intros _. apply Forall2_same_map. reflexivity.
    - split.
      + intros Hne. destruct (Ha Hne) as [Hb Hr]. split; [apply Forall2_eq_map; exact Hb|exact Hr].
      + exists new. split; [exact E1|]. rewrite E2. f_equal. apply Forall2_eq_map; exact Hn.
  Qed.

  (* T3 *)
  Lemma run_history_count nb nc st w : wf st ->
    let st' := fst (fst (run nb nc st w)) in
    length (chains R st') = length (chains R st) /\ wf st' /\
    length (hist R st') = length (hist R st) + Z.to_nat (Z.max nc 0) * length (chains R st) /\
    length (pdfh R st') = length (pdfh R st) + Z.to_nat (Z.max nc 0) * length (chains R st).
  Proof.
    intros Hwf. unfold Dream.run. destruct (chains R st) as [|c0 cs] eqn:Ec.
    - cbn [fst]. rewrite Ec. cbn [length]. repeat split; try lia. exact Hwf.
    - rewrite <- Ec in *.
      destruct (init_pdf_shape st Hwf) as (I1 & I2 & I3 & I4 & _ & I6).
      destruct (init_pdf st) as [st0 e0]. cbn [fst] in *.
      pose proof (loop_count (Z.to_nat (Z.max nb 0 + Z.max nc 0)) 0%Z nb st0 w I1) as (L1 & L2 & L3 & L4 & _).
      rewrite saved_run in L3, L4.
      destruct (loop _ 0%Z nb st0 w) as [[st1 w1] e1]. cbn [fst] in *.
      rewrite I2, I3 in L3. rewrite I2, I4 in L4. rewrite I2 in L1.
      repeat split; try assumption. intros _. exact L2.
  Qed.

  (* T6 *)
  Lemma run_split nb c1 c2 st w : wf st -> (0 <= c1)%Z -> (0 <= c2)%Z ->
    run nb (c1 + c2) st w =
    let '(st1, w1, e1) := run nb c1 st w in
    let '(st2, w2, e2) := run 0 c2 st1 w1 in (st2, w2, e1 ++ e2).
  Proof.
    intros Hwf H1 H2. unfold Dream.run at 1 2. destruct (chains R st) as [|c0 cs] eqn:Ec.
    - unfold Dream.run. rewrite Ec. reflexivity.
    - destruct (init_pdf_shape st Hwf) as (I1 & I2 & _ & _ & _ & I6).
      destruct (init_pdf st) as [st0 e0]. cbn [fst] in *.
      replace (Z.to_nat (Z.max nb 0 + Z.max (c1 + c2) 0)) with (Z.to_nat (Z.max nb 0 + Z.max c1 0) + Z.to_nat c2) by lia.
      rewrite loop_app.
      pose proof (loop_count (Z.to_nat (Z.max nb 0 + Z.max c1 0)) 0%Z nb st0 w I1) as (L1 & _ & _ & _ & L5).
      destruct (loop (Z.to_nat (Z.max nb 0 + Z.max c1 0)) 0%Z nb st0 w) as [[st1 w1] e1]. cbn [fst] in *.
      unfold Dream.run. destruct (chains R st1) as [|c1' cs1] eqn:Ec1.
      { exfalso. rewrite I2, Ec in L1. discriminate. }
      unfold Dream.init_pdf. rewrite (L5 I6).
      replace (Z.to_nat (Z.max 0 0 + Z.max c2 0)) with (Z.to_nat c2) by lia.
      rewrite (loop_all_saved (Z.to_nat c2) (0 + Z.of_nat (Z.to_nat (Z.max nb 0 + Z.max c1 0)))%Z nb 0%Z 0%Z) by lia.
      destruct (loop (Z.to_nat c2) 0%Z 0%Z st1 w1) as [[st2 w2] e2].
      cbn [app]. rewrite app_assoc. reflexivity.
  Qed.

  (* the per-chain reading of the rule *)
  Lemma accept1_rule p old cur w :
    let '(new, newp, moved, w') := accept1 p old cur w in
    (moved = true <->
       inside p = true /\
       (gtb (pdf p) cur = true \/
        (if logform then geb (sub (pdf p) cur) (logf (fst (rnd w))) else geb (div (pdf p) cur) (fst (rnd w))) = true)) /\
    (moved = true -> new = p /\ newp = pdf p) /\
    (moved = false -> new = old /\ newp = cur) /\
    (* the uniform number is drawn exactly when the proposal is inside and not better *)
    w' = (if inside p then if gtb (pdf p) cur then w else snd (rnd w) else w).
  Proof using R W sub div logf gtb geb logform pdf inside rnd.
    unfold Dream.accept1. destruct (inside p); [destruct (gtb (pdf p) cur)|].
    - fin.
    - destruct (rnd w) as [u w']. cbn [fst snd].
      destruct (if logform then geb (sub (pdf p) cur) (logf u) else geb (div (pdf p) cur) u); fin.
    - fin.
  Qed.
  (* ---------------------------------------------------------------- histories of runs and edits *)
  Notation apply_op := (apply_op R W add sub mul div logf ofnat trunc gtb geb is_zero logform fixed pdf inside rnd diff upd).
  Notation run_ops := (run_ops R W add sub mul div logf ofnat trunc gtb geb is_zero logform fixed pdf inside rnd diff upd).

  (* the books are coherent: one cached value per chain; when the cache is marked valid it holds the density
     at the chains; every recorded probability is the density at the recorded sample *)
  Definition coherent (st : dstate) : Prop :=
    wf st /\ (pdf_ready R st = true -> pdfv R st = map pdf (chains R st)) /\ pdfh R st = map pdf (hist R st).

  (* the only edit that can break coherence is the one by which the USER asserts the cached values *)
  Definition honest (o : op R) (st : dstate) : Prop :=
    match o with OpSetPdf vs => vs = map pdf (chains R st) | _ => True end.

  Lemma run_empty nb nc st w : chains R st = [] -> run nb nc st w = (st, w, []).
  Proof. intros E. unfold Dream.run. rewrite E. reflexivity. Qed.

  Lemma apply_op_coherent o st w : coherent st -> honest o st -> coherent (fst (fst (apply_op o st w))).
  Proof.
    intros (Hwf & Hc & Hh) Ho. unfold coherent. destruct o as [nb nc|cs|f|vs| | | |k]; cbn [Dream.apply_op].
    - assert (Ec : chains R st = [] \/ chains R st <> []) by (destruct (chains R st); [left; reflexivity|right; discriminate]).
      destruct Ec as [Ec|Ec].
      { rewrite run_empty by exact Ec. cbn [fst]. split; [exact Hwf|split; [exact Hc|exact Hh]]. }
      pose proof (run_history_count nb nc st w Hwf) as Hcnt. cbv zeta in Hcnt. destruct Hcnt as (_ & Hwf' & _).
      pose proof (run_pdf_consistent nb nc st w Hwf Hc) as Hp. cbv zeta in Hp.
      destruct Hp as (Hp1 & new & E1 & E2).
      destruct (Hp1 Ec) as [Hq1 _].
      split; [exact Hwf'|split; [intros _; exact Hq1|]].
      rewrite E1, E2, Hh, map_app. reflexivity.
    - cbn [fst]. unfold Dream.set_state. destruct (same_shape R st cs); [|repeat split; assumption].
      unfold wf in *. cbn. repeat split; try discriminate. exact Hh.
    - cbn [fst]. unfold Dream.set_state_fn, wf in *. cbn. repeat split; try discriminate. exact Hh.
    - cbn [fst]. unfold Dream.set_pdf_values. destruct (length vs =? length (chains R st)) eqn:El; [|repeat split; assumption].
      apply Nat.eqb_eq in El. unfold wf in *. cbn. repeat split; auto.
    - cbn [fst Dream.set_pdf_fn]. unfold wf in *. cbn. rewrite map_length. repeat split; auto.
    - cbn [fst]. unfold Dream.clear_pdf, wf in *. cbn. repeat split; try discriminate. exact Hh.
    - cbn [fst]. unfold Dream.clear_hist, wf in *. cbn. repeat split; auto.
    - cbn [fst]. repeat split; assumption.
  Qed.

  (* the edits of a history are honest at the state in which they are applied *)
  Fixpoint honest_ops (ops : list (op R)) (st : dstate) (w : W) : Prop :=
    match ops with
    | [] => True
    | o :: r => honest o st /\ honest_ops r (fst (fst (apply_op o st w))) (snd (fst (apply_op o st w)))
    end.

  Lemma run_ops_coherent ops : forall st w, coherent st -> honest_ops ops st w ->
    coherent (fst (fst (run_ops ops st w))).
  Proof.
    induction ops as [|o r IH]; intros st w Hc Hh; cbn [Dream.run_ops]; [exact Hc|].
    destruct Hh as [Ho Hr].
    pose proof (apply_op_coherent o st w Hc Ho) as H1.
    destruct (apply_op o st w) as [[st1 w1] e1]. cbn [fst snd] in *.
    specialize (IH st1 w1 H1 Hr). destruct (run_ops r st1 w1) as [[st2 w2] e2]. exact IH.
  Qed.

  (* histories in which the user never asserts cached values are honest *)
  Definition no_assert (o : op R) : Prop := match o with OpSetPdf _ => False | _ => True end.

  Lemma no_assert_honest ops : Forall no_assert ops -> forall st w, honest_ops ops st w.
  Proof.
    induction 1 as [|o r Ho _ IH]; intros st w; cbn [honest_ops]; [exact I|].
    split; [destruct o; try exact I; destruct Ho|apply IH].
  Qed.

  (* ... and the domain: every chain and every recorded sample is inside, as long as the edits put the chains inside *)
  Definition indom (st : dstate) : Prop :=
    wf st /\ Forall (fun x => inside x = true) (chains R st) /\ Forall (fun x => inside x = true) (hist R st).

  Definition edit_inside (o : op R) (st : dstate) : Prop :=
    match o with
    | OpSetState cs => Forall (fun x => inside x = true) cs
    | OpSetStateFn f => Forall (fun x => inside x = true) (mapi R f 0 (chains R st))
    | _ => True
    end.

  Lemma apply_op_indom o st w : indom st -> edit_inside o st -> indom (fst (fst (apply_op o st w))).
  Proof.
    intros (Hwf & Hc & Hh) Ho. unfold indom. destruct o as [nb nc|cs|f|vs| | | |k]; cbn [Dream.apply_op].
    - pose proof (run_history_count nb nc st w Hwf) as Hcnt. cbv zeta in Hcnt. destruct Hcnt as (_ & Hwf' & _).
      pose proof (run_history_in_domain nb nc st w Hwf Hc) as Hp. cbv zeta in Hp.
      destruct Hp as (Hp1 & new & E1 & Hn).
      split; [exact Hwf'|split; [exact Hp1|]]. rewrite E1. apply Forall_app; split; assumption.
    - cbn [fst]. unfold Dream.set_state. destruct (same_shape R st cs); [|repeat split; assumption].
      unfold wf in *. cbn. repeat split; try discriminate; assumption.
    - cbn [fst]. unfold Dream.set_state_fn, wf in *. cbn. repeat split; try discriminate; assumption.
    - cbn [fst]. unfold Dream.set_pdf_values. destruct (length vs =? length (chains R st)) eqn:El; [|repeat split; assumption].
      apply Nat.eqb_eq in El. unfold wf in *. cbn. repeat split; auto.
    - cbn [fst Dream.set_pdf_fn]. unfold wf in *. cbn. rewrite map_length. repeat split; auto.
    - cbn [fst]. unfold Dream.clear_pdf, wf in *. cbn. repeat split; try discriminate; assumption.
    - cbn [fst]. unfold Dream.clear_hist, wf in *. cbn. repeat split; auto.
    - cbn [fst]. repeat split; assumption.
  Qed.

  Fixpoint edits_inside (ops : list (op R)) (st : dstate) (w : W) : Prop :=
    match ops with
    | [] => True
    | o :: r => edit_inside o st /\ edits_inside r (fst (fst (apply_op o st w))) (snd (fst (apply_op o st w)))
    end.

  Lemma run_ops_indom ops : forall st w, indom st -> edits_inside ops st w -> indom (fst (fst (run_ops ops st w))).
  Proof.
    induction ops as [|o r IH]; intros st w Hc Hh; cbn [Dream.run_ops]; [exact Hc|].
    destruct Hh as [Ho Hr].
    pose proof (apply_op_indom o st w Hc Ho) as H1.
    destruct (apply_op o st w) as [[st1 w1] e1]. cbn [fst snd] in *.
    specialize (IH st1 w1 H1 Hr). destruct (run_ops r st1 w1) as [[st2 w2] e2]. exact IH.
  Qed.

  (* what the next run does after each edit: the cache is re-evaluated exactly when it is not marked valid *)
  Lemma run_after_invalidation nb nc st w : chains R st <> [] -> pdf_ready R st = false ->
    exists e, snd (run nb nc st w) = EvPdf (chains R st) (map pdf (chains R st)) :: e.
  Proof.
    intros Hne Hr. unfold Dream.run, Dream.init_pdf. destruct (chains R st) as [|c0 cs] eqn:Ec; [congruence|].
    rewrite Hr. destruct (loop _ _ _ _ w) as [[st1 w1] e1]. cbn. eexists. reflexivity.
  Qed.

  Lemma run_ops_coherent_no_assert ops st w : coherent st -> Forall no_assert ops ->
    coherent (fst (fst (run_ops ops st w))).
  Proof. intros Hc Hn. apply run_ops_coherent; [exact Hc|apply no_assert_honest; exact Hn]. Qed.

  (* which edits invalidate the cache *)
  Lemma edits_invalidate st :
    (forall cs, same_shape R st cs = true -> pdf_ready R (set_state R cs st) = false /\ chains R (set_state R cs st) = cs) /\
    (forall cs, same_shape R st cs = false -> set_state R cs st = st) /\
    (forall f, pdf_ready R (set_state_fn R f st) = false /\ chains R (set_state_fn R f st) = mapi R f 0 (chains R st)) /\
    pdf_ready R (clear_pdf R st) = false /\
    (forall vs, length vs = length (chains R st) -> pdf_ready R (set_pdf_values R vs st) = true /\ pdfv R (set_pdf_values R vs st) = vs) /\
    pdf_ready R (clear_hist R st) = pdf_ready R st /\ hist R (clear_hist R st) = [] /\ pdfh R (clear_hist R st) = [] /\ acc R (clear_hist R st) = 0.
  Proof.
    repeat split; intros; unfold Dream.set_state, Dream.set_pdf_values; cbn;
      try (rewrite H; reflexivity).
    - apply Nat.eqb_eq in H. rewrite H. reflexivity.
    - apply Nat.eqb_eq in H. rewrite H. reflexivity.
  Qed.

  (* ---------------------------------------------------------------- flat sizes (num_dimensions) *)
  Lemma draw_jk_lt n rj rk : fixed = true -> 1 <= n ->
    let '(_, _, j, k) := draw_jk n rj rk in j < n /\ k < n.
  Proof.
    intros Hf Hn. unfold Dream.draw_jk. rewrite Hf.
    destruct (n <=? Z.to_nat (trunc (mul rj (ofnat n)))) eqn:E1;
    destruct (n <=? Z.to_nat (trunc (mul rk (ofnat n)))) eqn:E2; split; lia.
  Qed.

  Lemma map3_length f : forall a b c : list R,
    length (map3 R f a b c) = Nat.min (length a) (Nat.min (length b) (length c)).
  Proof.
    induction a as [|x a IH]; intros [|y b] [|z c]; cbn; try reflexivity; try lia.
    rewrite IH. reflexivity.
  Qed.

  Section Dims.
    Variable d : nat.
    Hypothesis Hfixed : fixed = true.
    Hypothesis Hupd : forall w x, length (fst (upd w x)) = length x.
    Notation dimd := (fun c : list R => length c = d).

    Lemma nth_dim cs i : Forall dimd cs -> i < length cs -> length (nth i cs []) = d.
    Proof. intros H Hi. rewrite Forall_forall in H. apply H. apply nth_In. exact Hi. Qed.

    Lemma propose1_dim cs i w : Forall dimd cs -> 1 <= length cs -> i < length cs ->
      length (fst (fst (fst (propose1 cs (length cs) i w)))) = d.
    Proof.
      intros Hc Hn Hi. unfold Dream.propose1.
      destruct (rnd w) as [rj w1]. destruct (rnd w1) as [rk w2].
      pose proof (draw_jk_lt (length cs) rj rk Hfixed Hn) as Hd.
      destruct (draw_jk (length cs) rj rk) as [[[jz kz] j] k]. destruct Hd as [Hj Hk].
      destruct (diff w2) as [wd w3].
      pose proof (Hupd w3 (ijk_delta cs i j k wd)) as Hu.
      destruct (upd w3 _) as [p w4]. cbn [fst] in *. rewrite Hu.
      unfold Dream.ijk_delta. destruct (is_zero wd); [apply nth_dim; assumption|].
      rewrite map3_length, !nth_dim by assumption. lia.
    Qed.

    Lemma propose_all_dim cs idx w : Forall dimd cs -> 1 <= length cs -> Forall (fun i => i < length cs) idx ->
      Forall (fun pb => length (fst pb) = d) (fst (fst (propose_all cs (length cs) idx w))).
    Proof.
      intros Hc Hn. revert w; induction idx as [|i r IH]; intros w Hi; cbn [Dream.propose_all]; [constructor|].
      inversion Hi as [|? ? Hi1 Hi2].
      pose proof (propose1_dim cs i w Hc Hn Hi1) as H1.
      destruct (propose1 cs (length cs) i w) as [[pb w1] e1].
      specialize (IH w1 Hi2). destruct (propose_all cs (length cs) r w1) as [[ps w2] e2]. cbn in *.
      constructor; assumption.
    Qed.

    Lemma step_dim st w : wf1 st -> Forall dimd (chains R st) -> Forall dimd (chains R (step_st st w)).
    Proof.
      intros Hwf Hc. destruct (chains R st) as [|c0 cs] eqn:Ec.
      { unfold step_st, Dream.step. rewrite Ec. cbn. constructor. }
      rewrite <- Ec in *.
      assert (Hn : 1 <= length (chains R st)) by (rewrite Ec; cbn; lia).
      unfold step_st, Dream.step.
      assert (Hs : Forall (fun i => i < length (chains R st)) (seq 0 (length (chains R st)))).
      { apply Forall_forall. intros i Hi. apply in_seq in Hi. lia. }
      pose proof (propose_all_dim (chains R st) (seq 0 (length (chains R st))) w Hc Hn Hs) as Hp.
      destruct (propose_all _ _ _ w) as [[ps w1] e1]. cbn [fst] in Hp.
      pose proof (eval_batch_vals (candidates ps)) as Hb.
      destruct (eval_batch (candidates ps)) as [vals e2]. cbn [fst] in Hb. subst vals.
      assert (Hcd : Forall dimd (candidates ps)).
      { unfold Dream.candidates. clear -Hp. induction Hp as [|[p b] ps H _ IH]; cbn; [constructor|].
        destruct b; cbn; [constructor; assumption|assumption]. }
      pose proof (decide_pairs (fun x _ => length x = d) (map snd ps) (chains R st) (pdfv R st)
                    (candidates ps) (map pdf (candidates ps)) w1) as Hd.
      cbv beta in Hd.
      assert (H1 : Forall2 (fun (x : list R) (_ : R) => length x = d) (chains R st) (pdfv R st)).
      { apply Forall2_of_left; [symmetry; exact Hwf|exact Hc]. }
      assert (H2 : Forall2 (fun (x : list R) (_ : R) => length x = d) (candidates ps) (map pdf (candidates ps))).
      { apply Forall2_of_left; [rewrite map_length; reflexivity|exact Hcd]. }
      specialize (Hd H1 H2).
      destruct (decide _ _ _ _ _ w1) as [[[[ns nv] k] w2] e3]. cbn. eapply Forall2_left; exact Hd.
    Qed.

    Lemma concat_dim (l : list (list R)) : Forall dimd l -> length (concat l) = length l * d.
    Proof. induction 1 as [|x l Hx _ IH]; cbn; [reflexivity|]. rewrite app_length, IH, Hx. lia. Qed.

    Lemma run_flat_count nb nc st w : wf st -> Forall dimd (chains R st) ->
      let st' := fst (fst (run nb nc st w)) in
      Forall dimd (chains R st') /\
      length (concat (hist R st')) =
        length (concat (hist R st)) + Z.to_nat (Z.max nc 0) * length (chains R st) * d.
    Proof.
      intros Hwf Hc.
      pose proof (run_history_count nb nc st w Hwf) as Hcount. cbv zeta in Hcount.
      destruct Hcount as (_ & _ & Hh & _).
      unfold Dream.run in *. destruct (chains R st) as [|c0 cs] eqn:Ec.
      { cbn [fst]. rewrite Ec. split; [constructor|cbn; lia]. }
      rewrite <- Ec in *.
      destruct (init_pdf_shape st Hwf) as (I1 & I2 & I3 & _).
      destruct (init_pdf st) as [st0 e0]. cbn [fst] in *.
      pose (Inv := fun s : dstate => wf1 s /\ Forall dimd (chains R s) /\
                     exists new, hist R s = hist R st ++ new /\ Forall dimd new).
      assert (Hstep : forall s w', Inv s -> Inv (step_st s w') /\ Forall (fun _ : event => True) (step_ev s w')).
      { intros s w' (H1 & H2 & new & E & Hn). split; [|apply Forall_forall; auto].
        destruct (step_shape s w' H1) as (_ & S2 & _ & S4 & _).
        split; [exact S2|split; [apply step_dim; assumption|]]. exists new. rewrite S4. auto. }
      assert (Hsave : forall s k, Inv s -> Inv (save s k)).
      { intros s k (H1 & H2 & new & E & Hn). split; [|split; [exact H2|]].
        - unfold wf1 in *. exact H1.
        - exists (new ++ chains R s). cbn [Dream.save hist]. rewrite E, app_assoc. split; [reflexivity|].
          apply Forall_app; split; assumption. }
      assert (H00 : Inv st0).
      { split; [exact I1|split; [rewrite I2; exact Hc|]]. exists []. rewrite app_nil_r. split; [exact I3|constructor]. }
      pose proof (proj1 (loop_inv Inv _ Hstep Hsave (Z.to_nat (Z.max nb 0 + Z.max nc 0)) 0%Z nb st0 w H00)) as HI.
      destruct (loop _ 0%Z nb st0 w) as [[st1 w1] e1]. cbn [fst] in *.
      destruct HI as (_ & Hd & new & E & Hn). split; [exact Hd|].
      rewrite E in Hh |- *. rewrite app_length in Hh. rewrite concat_app, app_length, (concat_dim new Hn).
      assert (length new = Z.to_nat (Z.max nc 0) * length (chains R st)) by lia. nia.
    Qed.
  End Dims.
End Generic.

(* ------------------------------------------------------------------ exact rationals *)
(* the hypothesis of the index theorem for trunc = floor over Q: H-RNG (draws in [0,1]) suffices *)
Lemma floor_index_range (r : Q) (n : nat) : (0 <= r)%Q -> (r <= 1)%Q ->
  (0 <= Qfloor (r * inject_Z (Z.of_nat n)) <= Z.of_nat n)%Z.
Proof.
  intros H0 H1.
  assert (Hn : (0 <= inject_Z (Z.of_nat n))%Q) by (change 0%Q with (inject_Z 0); rewrite <- Zle_Qle; lia).
  split.
  - change 0%Z with (Qfloor (inject_Z 0)). apply Qfloor_resp_le. change (inject_Z 0) with 0%Q.
    apply Qmult_le_0_compat; assumption.
  - rewrite <- (Qfloor_Z (Z.of_nat n)) at 2. apply Qfloor_resp_le.
    setoid_replace (inject_Z (Z.of_nat n)) with (1 * inject_Z (Z.of_nat n))%Q at 2 by ring.
    apply Qmult_le_compat_r; assumption.
Qed.

(* the draw r = 1 does reach the clamp: floor (1 * n) = n *)
Lemma floor_index_one (n : nat) : Qfloor (1 * inject_Z (Z.of_nat n)) = Z.of_nat n.
Proof. rewrite <- (Qfloor_Z (Z.of_nat n)) at 2. apply Qfloor_comp. ring. Qed.

Definition qgtb (a b : Q) : bool := match (a ?= b)%Q with Gt => true | _ => false end.
Definition qgeb (a b : Q) : bool := match (a ?= b)%Q with Lt => false | _ => true end.
Definition qzero (a : Q) : bool := Qeq_bool a 0.

Lemma qgtb_spec a b : qgtb a b = true <-> (b < a)%Q.
Proof. unfold qgtb. rewrite Qgt_alt. destruct (a ?= b)%Q; split; congruence. Qed.
Lemma qgeb_spec a b : qgeb a b = true <-> (b <= a)%Q.
Proof.
  unfold qgeb. rewrite Qle_alt. rewrite <- (Qcompare_antisym a b).
  destruct (a ?= b)%Q; cbn; split; congruence.
Qed.

(* the accept rule over exact rationals, as order statements *)
Lemma accept1_rule_Q (W : Type) (logf : Q -> Q) (logform : bool) (pdf : list Q -> Q) (inside : list Q -> bool)
      (rnd : W -> Q * W) p old cur w :
  let '(new, newp, moved, _) := accept1 Q W Qminus Qdiv logf qgtb qgeb logform pdf inside rnd p old cur w in
  (moved = true <->
     inside p = true /\
     ((cur < pdf p)%Q \/
      (if logform then (logf (fst (rnd w)) <= pdf p - cur)%Q else (fst (rnd w) <= pdf p / cur)%Q))) /\
  (moved = true -> new = p /\ newp = pdf p) /\ (moved = false -> new = old /\ newp = cur).
Proof.
  pose proof (accept1_rule Q W Qminus Qdiv logf qgtb qgeb logform pdf inside rnd p old cur w) as H.
  destruct (accept1 Q W Qminus Qdiv logf qgtb qgeb logform pdf inside rnd p old cur w) as [[[new newp] moved] w'].
  destruct H as (H1 & H2 & H3 & _). split; [|split; assumption].
  rewrite H1, qgtb_spec. destruct logform; rewrite qgeb_spec; reflexivity.
Qed.
