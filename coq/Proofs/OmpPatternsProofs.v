(* C13 — proofs about Model/OmpPatterns.v *)
From TV Require Import Common.Prelude Model.IndexSets Proofs.IndexSetsProofs Model.OmpPatterns.
From Coq Require Import Permutation.
Local Open Scope Z_scope.

(* ------------------------------------------------------------------------------------------------------------ *)
(* collect in any order / partition, then sort *)
Lemma wf_concat d (parts : list (list idx)) : Forall (wf d) parts -> wf d (concat parts).
Proof.
  induction parts as [|p r IH]; intros H; cbn; [constructor|]. inversion H; subst. unfold wf in *. apply Forall_app. auto.
Qed.

Theorem collect_sort d (seql : list idx) (parts : list (list idx)) :
  wf d seql -> Forall (wf d) parts -> (forall x, In x (concat parts) <-> In x seql) ->
  sort_unique (concat parts) = sort_unique seql.
Proof. intros Hs Hp E. apply (sort_unique_perm_invariant d); auto. apply wf_concat. exact Hp. Qed.

(* ------------------------------------------------------------------------------------------------------------ *)
Section JobsProofs.
  Variable V : Type.
  Notation job := (job V).
  Notation mem := (mem V).

  Lemma eqm_refl (s : mem) : eqm s s. Proof. intros k. reflexivity. Qed.
  Lemma eqm_trans (s t u : mem) : eqm s t -> eqm t u -> eqm s u. Proof. intros A B k. rewrite A. apply B. Qed.

  Lemma exec_eqm (j : job) s t : job_ok j -> eqm s t -> eqm (exec j s) (exec j t).
  Proof.
    intros [Hf Hr] E k. destruct (writes j k) eqn:W.
    - apply Hr; [|exact W]. intros m _. apply E.
    - rewrite !Hf by exact W. apply E.
  Qed.

  Lemma indep_sym (a b : job) : indep a b -> indep b a.
  Proof. intros H k. destruct (H k) as [A B]. split; assumption. Qed.

  Lemma indep_commute (a b : job) s : job_ok a -> job_ok b -> indep a b -> eqm (exec a (exec b s)) (exec b (exec a s)).
  Proof.
    intros [Fa Ra] [Fb Rb] I k. destruct (writes a k) eqn:Wa; destruct (writes b k) eqn:Wb.
    - destruct (proj1 (I k) Wa) as [C _]. congruence.
    - rewrite (Fb (exec a s) k Wb). apply Ra; [|exact Wa]. intros m Hm. apply Fb.
      destruct (writes b m) eqn:Wbm; [|reflexivity]. destruct (proj2 (I m) Wbm) as [_ C]. congruence.
    - rewrite (Fa (exec b s) k Wa). symmetry. apply Rb; [|exact Wb]. intros m Hm. apply Fa.
      destruct (writes a m) eqn:Wam; [|reflexivity]. destruct (proj1 (I m) Wam) as [_ C]. congruence.
    - rewrite (Fa _ k Wa), (Fb _ k Wb), (Fb _ k Wb), (Fa _ k Wa). reflexivity.
  Qed.

  Lemma run_jobs_eqm (l : list job) : forall s t, Forall job_ok l -> eqm s t -> eqm (run_jobs l s) (run_jobs l t).
  Proof.
    induction l as [|j r IH]; intros s t H E; [exact E|]. inversion H; subst. unfold run_jobs. cbn [fold_left].
    apply IH; [assumption|]. apply exec_eqm; assumption.
  Qed.

  Lemma pairwise_indep_perm (l l' : list job) : Permutation l l' -> pairwise_indep l -> pairwise_indep l'.
  Proof.
    intros P. induction P as [|x l l' P IH|x y l|l l' l'' P1 IH1 P2 IH2]; intros H.
    - exact H.
    - destruct H as [H1 H2]. split; [eapply Permutation_Forall; eauto|auto].
    - destruct H as [H1 [H2 H3]]. inversion H1 as [|? ? Hyx Hyl]; subst. repeat split; auto.
      constructor; [apply indep_sym; exact Hyx|exact H2].
    - auto.
  Qed.

  (* MAIN LEMMA: a family of pairwise independent jobs produces the same memory in every execution order *)
  Theorem jobs_any_order (l l' : list job) : Permutation l l' -> Forall job_ok l -> pairwise_indep l ->
    forall s, eqm (run_jobs l s) (run_jobs l' s).
  Proof.
    intros P. induction P as [|x l l' P IH|x y l|l l' l'' P1 IH1 P2 IH2]; intros Hok Hind s.
    - apply eqm_refl.
    - inversion Hok; subst. destruct Hind as [_ Hind]. unfold run_jobs. cbn [fold_left]. apply IH; assumption.
    - inversion Hok as [|? ? Hy Hok1]; subst. inversion Hok1 as [|? ? Hx Hok2]; subst.
      destruct Hind as [H1 _]. inversion H1 as [|? ? Hyx _]; subst.
      unfold run_jobs. cbn [fold_left]. apply run_jobs_eqm; [assumption|].
      apply indep_commute; [assumption|assumption|apply indep_sym; exact Hyx].
    - eapply eqm_trans; [apply IH1; assumption|]. apply IH2.
      + eapply Permutation_Forall; eauto.
      + eapply pairwise_indep_perm; eauto.
  Qed.

  (* ---- instance: loop that owns its output slots ---- *)
  Lemma upd_same (s : mem) i v : upd s i v i = v. Proof. unfold upd. rewrite Nat.eqb_refl. reflexivity. Qed.
  Lemma upd_other (s : mem) i v k : k <> i -> upd s i v k = s k.
  Proof. intros H. unfold upd. destruct (Nat.eqb_spec k i); [contradiction|reflexivity]. Qed.

  Lemma parfor_job_ok slot (f : nat -> V) i : job_ok (parfor_job slot f i).
  Proof.
    split; cbn.
    - intros s k H. apply upd_other. intros ->. rewrite Nat.eqb_refl in H. discriminate.
    - intros s t _ k H. apply Nat.eqb_eq in H. subst k. rewrite !upd_same. reflexivity.
  Qed.

  Lemma parfor_pairwise slot (f : nat -> V) (l : list nat) : NoDup (map slot l) -> pairwise_indep (map (parfor_job slot f) l).
  Proof.
    induction l as [|a r IH]; intros H; cbn; [exact I|]. inversion H as [|? ? Hn Hr]; subst. split; [|apply IH; exact Hr].
    rewrite Forall_map, Forall_forall. intros b Hb k. cbn.
    assert (Hab : slot a <> slot b) by (intros E; apply Hn; rewrite E; apply in_map; exact Hb).
    split; intros Hk; apply Nat.eqb_eq in Hk; subst k; (split; [|reflexivity]); apply Nat.eqb_neq; congruence.
  Qed.

  Theorem parfor_any_order (slot : nat -> nat) (f : nat -> V) (n : nat) (order : list nat) (s : mem) :
    NoDup (map slot (seq 0 n)) -> Permutation order (seq 0 n) ->
    eqm (run_jobs (map (parfor_job slot f) order) s) (run_jobs (map (parfor_job slot f) (seq 0 n)) s).
  Proof.
    intros Hinj P. apply jobs_any_order.
    - apply Permutation_map. exact P.
    - rewrite Forall_map, Forall_forall. intros i _. apply parfor_job_ok.
    - apply parfor_pairwise. eapply Permutation_NoDup; [|exact Hinj]. apply Permutation_map. apply Permutation_sym. exact P.
  Qed.

  (* the sequential loop computes, slot by slot, the value of its owner (so the loop IS `map f`) *)
  Lemma parfor_sequential slot (f : nat -> V) (l : list nat) : forall (s : mem) k, NoDup (map slot l) ->
    run_jobs (map (parfor_job slot f) l) s k =
      match find (fun i => Nat.eqb (slot i) k) l with Some i => f i | None => s k end.
  Proof.
    induction l as [|a r IH]; intros s k H; [reflexivity|]. inversion H as [|? ? Hn Hr]; subst.
    unfold run_jobs. cbn [map fold_left find exec parfor_job]. fold (run_jobs (map (parfor_job slot f) r) (upd s (slot a) (f a))).
    rewrite (IH _ k Hr). destruct (Nat.eqb_spec (slot a) k) as [E|E].
    - destruct (find (fun i => Nat.eqb (slot i) k) r) as [i|] eqn:Fi.
      + exfalso. apply find_some in Fi. destruct Fi as [Hi Hk]. apply Nat.eqb_eq in Hk. apply Hn. rewrite E, <- Hk. apply in_map. exact Hi.
      + subst k. apply upd_same.
    - destruct (find (fun i => Nat.eqb (slot i) k) r); [reflexivity|]. apply upd_other. congruence.
  Qed.

  (* ---- instance: sweep inside one level ---- *)
  Lemma sweep_job_ok lev (g : nat -> mem -> V) i :
    (forall s t, (forall k, (lev k < lev i)%nat -> s k = t k) -> g i s = g i t) -> job_ok (sweep_job lev g i).
  Proof.
    intros Hg. split; cbn.
    - intros s k H. apply upd_other. intros ->. rewrite Nat.eqb_refl in H. discriminate.
    - intros s t E k H. apply Nat.eqb_eq in H. subst k. rewrite !upd_same. apply Hg. intros k Hk. apply E. apply Nat.ltb_lt. exact Hk.
  Qed.

  Lemma sweep_pairwise lev (g : nat -> mem -> V) (L : nat) (pts : list nat) :
    NoDup pts -> (forall i, In i pts -> lev i = L) -> pairwise_indep (map (sweep_job lev g) pts).
  Proof.
    induction pts as [|a r IH]; intros Hn HL; cbn; [exact I|]. inversion Hn as [|? ? Ha Hr]; subst.
    split; [|apply IH; [exact Hr|intros i Hi; apply HL; right; exact Hi]].
    rewrite Forall_map, Forall_forall. intros b Hb k. cbn.
    assert (Hab : a <> b) by (intros ->; contradiction).
    assert (La : lev a = L) by (apply HL; left; reflexivity). assert (Lb : lev b = L) by (apply HL; right; exact Hb).
    split; intros Hk; apply Nat.eqb_eq in Hk; subst k; split; try (apply Nat.eqb_neq; congruence); apply Nat.ltb_ge; lia.
  Qed.

  Theorem level_sweep_any_order lev (g : nat -> mem -> V) (L : nat) (pts order : list nat) (s : mem) :
    NoDup pts -> (forall i, In i pts -> lev i = L) ->
    (forall i s t, (forall k, (lev k < lev i)%nat -> s k = t k) -> g i s = g i t) ->
    Permutation order pts ->
    eqm (run_jobs (map (sweep_job lev g) order) s) (run_jobs (map (sweep_job lev g) pts) s).
  Proof.
    intros Hn HL Hg P. apply jobs_any_order.
    - apply Permutation_map. exact P.
    - rewrite Forall_map, Forall_forall. intros i _. apply sweep_job_ok. apply Hg.
    - apply (sweep_pairwise lev g L).
      + eapply Permutation_NoDup; [apply Permutation_sym; exact P|exact Hn].
      + intros i Hi. apply HL. eapply Permutation_in; eauto.
  Qed.

  (* every point of the level receives the update computed from the memory BEFORE the sweep *)
  Lemma level_sweep_result lev (g : nat -> mem -> V) (L : nat) (pts : list nat) :
    (forall i s t, (forall k, (lev k < lev i)%nat -> s k = t k) -> g i s = g i t) ->
    forall (s0 s : mem), NoDup pts -> (forall i, In i pts -> lev i = L) ->
      (forall k, (lev k < L)%nat -> s k = s0 k) ->
      forall k, run_jobs (map (sweep_job lev g) pts) s k = if in_dec Nat.eq_dec k pts then g k s0 else s k.
  Proof.
    intros Hg s0. induction pts as [|a r IH]; intros s Hn HL Hlow k; [reflexivity|].
    inversion Hn as [|? ? Ha Hr]; subst. unfold run_jobs. cbn [map fold_left exec sweep_job].
    fold (run_jobs (map (sweep_job lev g) r) (upd s a (g a s))).
    assert (La : lev a = L) by (apply HL; left; reflexivity).
    rewrite (IH (upd s a (g a s)) Hr).
    - destruct (in_dec Nat.eq_dec k r) as [Hk|Hk]; destruct (in_dec Nat.eq_dec k (a :: r)) as [Hk'|Hk']; try reflexivity.
      + exfalso. apply Hk'. right. exact Hk.
      + destruct Hk' as [<-|Hk']; [|contradiction]. rewrite upd_same. apply Hg. intros m Hm. apply Hlow. lia.
      + apply upd_other. intros ->. apply Hk'. left. reflexivity.
    - intros i Hi. apply HL. right. exact Hi.
    - intros m Hm. rewrite upd_other; [apply Hlow; exact Hm|]. intros ->. lia.
  Qed.

  (* ---- instance: jobs that own disjoint lines ---- *)
  Fixpoint pairwise_disjoint (lines : list (list nat)) : Prop :=
    match lines with [] => True | a :: r => Forall (fun b => forall k, In k a -> ~ In k b) r /\ pairwise_disjoint r end.

  Lemma in_line_In line k : in_line line k = true <-> In k line.
  Proof.
    unfold in_line. rewrite existsb_exists. split.
    - intros [x [Hx E]]. apply Nat.eqb_eq in E. subst. exact Hx.
    - intros H. exists k. split; [exact H|apply Nat.eqb_refl].
  Qed.

  Lemma lines_pairwise (lh : list (list nat * (mem -> mem))) :
    pairwise_disjoint (map fst lh) -> pairwise_indep (map (fun p => line_job (fst p) (snd p)) lh).
  Proof.
    induction lh as [|a r IH]; cbn; intros H; [exact I|]. destruct H as [H1 H2]. split; [|apply IH; exact H2].
    rewrite Forall_map, Forall_forall. intros b Hb k. cbn.
    rewrite Forall_map, Forall_forall in H1. specialize (H1 b Hb).
    split; intros Hk; apply in_line_In in Hk.
    - assert (in_line (fst b) k = false) by (destruct (in_line (fst b) k) eqn:E; [apply in_line_In in E; exfalso; eapply H1; eauto|reflexivity]). auto.
    - assert (in_line (fst a) k = false) by (destruct (in_line (fst a) k) eqn:E; [apply in_line_In in E; exfalso; eapply H1; eauto|reflexivity]). auto.
  Qed.

  Theorem lines_any_order (lh order : list (list nat * (mem -> mem))) (s : mem) :
    pairwise_disjoint (map fst lh) -> Forall (fun p => job_ok (line_job (fst p) (snd p))) lh -> Permutation order lh ->
    eqm (run_jobs (map (fun p => line_job (fst p) (snd p)) order) s) (run_jobs (map (fun p => line_job (fst p) (snd p)) lh) s).
  Proof.
    intros Hd Hok P. apply jobs_any_order.
    - apply Permutation_map. exact P.
    - rewrite Forall_map. eapply Permutation_Forall; [apply Permutation_sym; exact P|exact Hok].
    - eapply pairwise_indep_perm; [apply Permutation_map; apply Permutation_sym; exact P|]. apply lines_pairwise. exact Hd.
  Qed.
End JobsProofs.

(* ------------------------------------------------------------------------------------------------------------ *)
(* reductions *)
Section Reduce.
  Variable A : Type.
  Variable op : A -> A -> A.
  Hypothesis op_comm : forall a b, op a b = op b a.
  Hypothesis op_assoc : forall a b c, op (op a b) c = op a (op b c).

  Theorem reduce_any_order (l l' : list A) : Permutation l l' -> forall init, reduce op init l = reduce op init l'.
  Proof.
    unfold reduce. intros P. induction P as [|x l l' P IH|x y l|l l' l'' P1 IH1 P2 IH2]; intros a; cbn; auto.
    - f_equal. rewrite !op_assoc. f_equal. apply op_comm.
    - rewrite IH1. apply IH2.
  Qed.
End Reduce.

Lemma fold_max_acc l : forall a b, fold_left Z.max l (Z.max a b) = Z.max a (fold_left Z.max l b).
Proof. induction l as [|x r IH]; intros a b; cbn; [reflexivity|]. rewrite <- Z.max_assoc. apply IH. Qed.

Lemma fold_max_ge l : forall a, a <= fold_left Z.max l a.
Proof. induction l as [|x r IH]; intros a; cbn; [lia|]. specialize (IH (Z.max a x)). lia. Qed.

Lemma max_chunks e (chunks : list (list Z)) : forall a, e <= a ->
  fold_left Z.max (map (fun c => fold_left Z.max c e) chunks) a = fold_left Z.max (concat chunks) a.
Proof.
  induction chunks as [|c r IH]; intros a Ha; cbn; [reflexivity|]. rewrite fold_left_app.
  assert (E : Z.max a (fold_left Z.max c e) = fold_left Z.max c a).
  { rewrite <- fold_max_acc. f_equal. lia. }
  rewrite E. apply IH. pose proof (fold_max_ge c a). lia.
Qed.

(* per-thread maxima over ANY partition of the iterations, combined in ANY arrival order, give the sequential maximum *)
Theorem critical_max e (seql : list Z) (chunks : list (list Z)) (arrivals : list Z) :
  Permutation (concat chunks) seql -> Permutation arrivals (map (fun c => reduce Z.max e c) chunks) ->
  reduce Z.max e arrivals = reduce Z.max e seql.
Proof.
  intros P1 P2. rewrite (reduce_any_order Z Z.max Z.max_comm (fun a b c => eq_sym (Z.max_assoc a b c)) _ _ P2).
  unfold reduce. rewrite (max_chunks e chunks e (Z.le_refl e)).
  apply (reduce_any_order Z Z.max Z.max_comm (fun a b c => eq_sym (Z.max_assoc a b c)) _ _ P1).
Qed.

Lemma fold_add_acc l : forall a b, fold_left Z.add l (a + b) = a + fold_left Z.add l b.
Proof. induction l as [|x r IH]; intros a b; cbn; [reflexivity|]. rewrite <- Z.add_assoc. apply IH. Qed.

Lemma add_chunks (chunks : list (list Z)) : forall a,
  fold_left Z.add (map (fun c => fold_left Z.add c 0) chunks) a = fold_left Z.add (concat chunks) a.
Proof.
  induction chunks as [|c r IH]; intros a; cbn; [reflexivity|]. rewrite fold_left_app, <- IH. f_equal.
  rewrite <- fold_add_acc. f_equal. lia.
Qed.

(* per-thread integer counters added atomically in any arrival order give the sequential sum *)
Theorem atomic_int_sum (seql : list Z) (chunks : list (list Z)) (arrivals : list Z) :
  Permutation (concat chunks) seql -> Permutation arrivals (map (fun c => reduce Z.add 0 c) chunks) ->
  reduce Z.add 0 arrivals = reduce Z.add 0 seql.
Proof.
  intros P1 P2. rewrite (reduce_any_order Z Z.add Z.add_comm (fun a b c => eq_sym (Z.add_assoc a b c)) _ _ P2).
  unfold reduce. rewrite add_chunks.
  apply (reduce_any_order Z Z.add Z.add_comm (fun a b c => eq_sym (Z.add_assoc a b c)) _ _ P1).
Qed.

(* maximum with a payload *)
Section Argmax.
  Variable P : Type.
  Notation elt := (Z * P)%type.

  Lemma argmax_spec (l : list elt) : forall init,
    In (fold_left argmax_step l init) (init :: l) /\ forall x, In x (init :: l) -> fst x <= fst (fold_left argmax_step l init).
  Proof.
    induction l as [|t r IH]; intros g; cbn [fold_left].
    - split; [left; reflexivity|]. intros x [<-|[]]. lia.
    - destruct (IH (argmax_step g t)) as [H1 H2]. split.
      + destruct H1 as [H1|H1]; [|right; right; exact H1].
        assert (Hc : argmax_step g t = t \/ argmax_step g t = g) by (unfold argmax_step; destruct (fst g <? fst t); auto).
        destruct Hc as [Hc|Hc]; rewrite Hc in H1 at 1; [right; left|left]; exact H1.
      + intros x Hx. assert (Hs : fst g <= fst (argmax_step g t) /\ fst t <= fst (argmax_step g t)).
        { unfold argmax_step. destruct (Z.ltb_spec (fst g) (fst t)); lia. }
        destruct Hx as [<-|[<-|Hx]].
        * pose proof (H2 _ (or_introl eq_refl)). lia.
        * pose proof (H2 _ (or_introl eq_refl)). lia.
        * apply H2. right. exact Hx.
  Qed.

  (* when candidates with the same value are the same candidate, the arrival order does not matter *)
  Theorem critical_argmax (l l' : list elt) (init : elt) : Permutation l l' ->
    (forall x y, In x (init :: l) -> In y (init :: l) -> fst x = fst y -> x = y) ->
    fold_left argmax_step l init = fold_left argmax_step l' init.
  Proof.
    intros Pm Hu. destruct (argmax_spec l init) as [A1 A2]. destruct (argmax_spec l' init) as [B1 B2].
    assert (Pc : Permutation (init :: l) (init :: l')) by (constructor; exact Pm).
    assert (B1' : In (fold_left argmax_step l' init) (init :: l)) by (eapply Permutation_in; [apply Permutation_sym; exact Pc|exact B1]).
    apply Hu; auto. pose proof (A2 _ B1'). assert (In (fold_left argmax_step l init) (init :: l')) by (eapply Permutation_in; eauto).
    pose proof (B2 _ H0). lia.
  Qed.
End Argmax.

(* ------------------------------------------------------------------------------------------------------------ *)
(* union tree *)
Local Close Scope Z_scope.

Definition member_of (sets : list (list idx)) (x : idx) : Prop := exists a, In a sets /\ In x a.

Lemma union_fold_spec d (sets : list (list idx)) : forall acc, Forall (wf d) sets -> Forall sorted sets -> wf d acc -> sorted acc ->
  wf d (fold_left merge sets acc) /\ sorted (fold_left merge sets acc) /\
  forall x, In x (fold_left merge sets acc) <-> In x acc \/ member_of sets x.
Proof.
  induction sets as [|a r IH]; intros acc Hw Hs Wa Sa; cbn.
  - repeat split; auto. intros [H|[b [[] _]]]. exact H.
  - inversion Hw; subst. inversion Hs; subst.
    destruct (IH (merge acc a)) as [K1 [K2 K3]]; auto; [apply merge_wf; auto|eapply merge_sorted; eauto|].
    repeat split; auto.
    + intros H. apply K3 in H. destruct H as [H|[b [Hb Hx]]].
      * apply merge_In in H. destruct H; [left; auto|right; exists a; split; [left; reflexivity|assumption]].
      * right. exists b. split; [right|]; assumption.
    + intros H. apply K3. destruct H as [H|[b [[<-|Hb] Hx]]].
      * left. eapply In_merge; eauto.
      * left. eapply In_merge; eauto.
      * right. exists b. auto.
Qed.

Lemma div2_bounds n : 1 <= n -> Nat.div2 (n + 1) <= n /\ n <= 2 * Nat.div2 (n + 1) /\ (2 <= n -> Nat.div2 (n + 1) < n).
Proof.
  intros H. pose proof (Nat.div2_odd (n + 1)) as E. destruct (Nat.odd (n + 1)); cbn [Nat.b2n] in E; lia.
Qed.

Lemma union_round_spec d (sets : list (list idx)) : 1 <= length sets -> Forall (wf d) sets -> Forall sorted sets ->
  Forall (wf d) (union_round sets) /\ Forall sorted (union_round sets) /\
  length (union_round sets) = Nat.div2 (length sets + 1) /\
  forall x, member_of (union_round sets) x <-> member_of sets x.
Proof.
  intros Hn Hw Hs. destruct (div2_bounds (length sets) Hn) as [B1 [B2 _]].
  set (stride := Nat.div2 (length sets + 1)) in *.
  assert (Hnth : forall i, i < length sets -> In (nth i sets []) sets) by (intros i Hi; apply nth_In; exact Hi).
  rewrite Forall_forall in Hw, Hs.
  assert (Hel : forall i, i < stride -> let y := match nth_error sets (i + stride) with Some b => merge (nth i sets []) b | None => nth i sets [] end in
             wf d y /\ sorted y /\ forall x, In x y <-> In x (nth i sets []) \/ exists b, nth_error sets (i + stride) = Some b /\ In x b).
  { intros i Hi. cbn zeta. assert (Hi' : i < length sets) by lia. specialize (Hnth i Hi').
    destruct (nth_error sets (i + stride)) as [b|] eqn:Eb.
    - assert (Hb : In b sets) by (eapply nth_error_In; eauto). repeat split.
      + apply merge_wf; auto.
      + eapply merge_sorted; eauto.
      + intros H. apply merge_In in H. destruct H; [left; auto|right; exists b; auto].
      + intros [H|[b' [E H]]]; [eapply In_merge; eauto|]. inversion E; subst. eapply In_merge; eauto.
    - repeat split; auto. intros [H|[b' [E _]]]; [exact H|discriminate]. }
  unfold union_round. fold stride. repeat split.
  - rewrite Forall_map, Forall_forall. intros i Hi. apply in_seq in Hi. apply (Hel i). lia.
  - rewrite Forall_map, Forall_forall. intros i Hi. apply in_seq in Hi. apply (Hel i). lia.
  - rewrite map_length, seq_length. reflexivity.
  - intros [y [Hy Hx]]. apply in_map_iff in Hy. destruct Hy as [i [<- Hi]]. apply in_seq in Hi.
    destruct (Hel i ltac:(lia)) as [_ [_ M]]. apply M in Hx. destruct Hx as [Hx|[b [E Hx]]].
    + exists (nth i sets []). split; [apply Hnth; lia|exact Hx].
    + exists b. split; [eapply nth_error_In; eauto|exact Hx].
  - intros [a [Ha Hx]]. apply In_nth_error in Ha. destruct Ha as [j Hj].
    assert (Hjl : j < length sets) by (apply nth_error_Some; congruence).
    destruct (Nat.lt_ge_cases j stride) as [Hlt|Hge].
    + exists (match nth_error sets (j + stride) with Some b => merge (nth j sets []) b | None => nth j sets [] end). split.
      * apply in_map_iff. exists j. split; [reflexivity|apply in_seq; lia].
      * apply (Hel j Hlt). left. rewrite (nth_error_nth _ _ _ Hj). exact Hx.
    + set (i := j - stride). assert (Hi : i < stride) by (unfold i; lia).
      exists (match nth_error sets (i + stride) with Some b => merge (nth i sets []) b | None => nth i sets [] end). split.
      * apply in_map_iff. exists i. split; [reflexivity|apply in_seq; lia].
      * apply (Hel i Hi). right. exists a. split; [|exact Hx]. replace (i + stride) with j by (unfold i; lia). exact Hj.
Qed.

Lemma union_tree_spec d : forall fuel (sets : list (list idx)), length sets <= fuel -> 1 <= length sets ->
  Forall (wf d) sets -> Forall sorted sets ->
  wf d (union_tree fuel sets) /\ sorted (union_tree fuel sets) /\ forall x, In x (union_tree fuel sets) <-> member_of sets x.
Proof.
  induction fuel as [|f IH]; intros sets Hf Hn Hw Hs; [lia|].
  destruct sets as [|a [|b r]]; [cbn in Hn; lia| |].
  - cbn. inversion Hw; inversion Hs; subst. repeat split; auto.
    + intros H. exists a. split; [left; reflexivity|exact H].
    + intros [c [[<-|[]] H]]. exact H.
  - cbn [union_tree]. set (S2 := a :: b :: r) in *.
    destruct (union_round_spec d S2 Hn Hw Hs) as [R1 [R2 [R3 R4]]].
    destruct (div2_bounds (length S2) Hn) as [_ [_ B3]].
    assert (H2 : 2 <= length S2) by (cbn; lia). specialize (B3 H2).
    destruct (IH (union_round S2)) as [K1 [K2 K3]]; auto; try (rewrite R3; lia).
    { rewrite R3. destruct (div2_bounds (length S2) Hn) as [_ [B2 _]]. lia. }
    repeat split; auto; intros H; [apply R4, K3; exact H|apply K3, R4; exact H].
Qed.

Theorem union_tree_is_fold d (sets : list (list idx)) : Forall (wf d) sets -> Forall sorted sets ->
  union_tree (length sets) sets = union_fold sets.
Proof.
  intros Hw Hs. destruct sets as [|a r] eqn:E; [reflexivity|]. rewrite <- E in *.
  assert (Hn : 1 <= length sets) by (subst; cbn; lia).
  destruct (union_tree_spec d (length sets) sets (Nat.le_refl _) Hn Hw Hs) as [T1 [T2 T3]].
  destruct (union_fold_spec d sets [] Hw Hs) as [F1 [F2 F3]]; [constructor|constructor|].
  apply (sorted_ext d); auto. intros x. rewrite T3. unfold union_fold. rewrite F3. split; [right; exact H|intros [[]|H]; exact H].
Qed.
