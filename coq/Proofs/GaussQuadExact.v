(* Gauss quadrature: an interpolatory rule on n pairwise distinct nodes whose node polynomial omega = prod (t - x_i) is
   orthogonal, under the moment functional, to every polynomial of degree < n integrates every polynomial of degree
   <= 2n-1 exactly.  Conversely exactness to degree 2n-1 forces the orthogonality, and no rule on n nodes (whatever its
   weights) is exact for omega^2 when L(omega^2) <> 0 (in particular when it is positive): 2n-1 is optimal.
   Field: Qc.  No axioms.  The algebra is field-generic, but the INSTANCE speaks about rational nodes: the Gauss-Legendre
   nodes for n >= 2 are irrational and therefore outside this instance (the implementation's Gauss rules are checked by
   direct evaluation in props/C02.py).
   Route: (1) pmul, the product of coefficient lists, with peval (pmul a b) = peval a * peval b;
   (2) L depends on a coefficient list only through its evaluation function (`L_peval_ext`: two lists that agree pointwise
   agree at max(length) distinct rational points 0,1,2,..., hence - `L_unique` of InterpQuadExact - have the same L), so
   trailing zeros and the shape of a product are irrelevant for L;
   (3) division by omega: c = s * omega + r by repeated synthetic division (`sdiv`) by the linear factors, with
   length r <= n and length s <= length c - n;
   (4) L (s * omega) = sum_k s_k L (t^k omega) = 0 for length s <= n, the rule sees only r (omega vanishes at the nodes),
   and r is integrated exactly by `interp_quad_exact_poly`.                                                               *)
From TV Require Import Proofs.LagrangeExact Proofs.InterpQuadExact.
From Coq Require Import List Arith Lia QArith Qcanon Field FinFun ZArith.
Import ListNotations.
Local Open Scope Qc_scope.

(* ---------- the functional depends on the moments only pointwise ---------- *)
Lemma L_ext c : forall mu mu', (forall k, mu k = mu' k) -> L mu c = L mu' c.
Proof.
  induction c as [|a r IH]; intros mu mu' E; cbn [L]; [reflexivity|].
  rewrite (E 0%nat). rewrite (IH (fun k => mu (S k)) (fun k => mu' (S k))); [reflexivity|].
  intros k. apply E.
Qed.

Lemma L_cons0 mu c : L mu (0 :: c) = L (fun k => mu (S k)) c.
Proof. cbn [L]. ring. Qed.

(* ---------- arbitrarily many distinct points of Qc: 0, 1, 2, ... ---------- *)
Definition qnat (k : nat) : Qc := Q2Qc (inject_Z (Z.of_nat k)).

Lemma qnat_inj : Injective qnat.
Proof.
  intros a b H. unfold qnat in H. apply Q2Qc_eq_iff in H. unfold Qeq, inject_Z in H. cbn [Qnum Qden] in H.
  apply Nat2Z.inj. lia.
Qed.

Lemma qnat_nodup N : NoDup (map qnat (seq 0 N)).
Proof. apply Injective_map_NoDup; [exact qnat_inj|apply seq_NoDup]. Qed.

(* L is a function of the polynomial FUNCTION: coefficient lists with the same evaluation have the same integral
   (in particular trailing zeros are ignored) *)
Theorem L_peval_ext mu c1 c2 : (forall x, peval c1 x = peval c2 x) -> L mu c1 = L mu c2.
Proof.
  intros E.
  apply (L_unique (map qnat (seq 0 (Nat.max (length c1) (length c2)))) mu (qnat_nodup _)).
  - rewrite map_length, seq_length. lia.
  - rewrite map_length, seq_length. lia.
  - intros a _. apply E.
Qed.

(* with it: pointwise-equal coefficient lists are equal up to trailing zeros (all coefficients of the difference vanish) *)
Theorem peval_ext_coeffs c1 c2 : (forall x, peval c1 x = peval c2 x) -> pzero (padd c1 (map (Qcmult (- (1))) c2)).
Proof.
  intros E.
  apply (roots_coeffs_zero (map qnat (seq 0 (Nat.max (length c1) (length c2)))) (qnat_nodup _)).
  - apply padd_length; rewrite ?map_length, seq_length; lia.
  - intros a _. rewrite padd_eval, pscale_eval, E. ring.
Qed.

(* ---------- multiplication of coefficient lists ---------- *)
Fixpoint pmul (a b : list Qc) : list Qc :=
  match a with [] => [] | x :: r => padd (map (Qcmult x) b) (0 :: pmul r b) end.

Lemma pmul_eval a : forall b x, peval (pmul a b) x = peval a x * peval b x.
Proof.
  induction a as [|a0 r IH]; intros b x; cbn [pmul peval]; [ring|].
  rewrite padd_eval, pscale_eval. cbn [peval]. rewrite IH. ring.
Qed.

(* degree (a b) <= degree a + degree b *)
Lemma pmul_length a : forall b, (1 <= length b)%nat -> (S (length (pmul a b)) <= length a + length b)%nat.
Proof.
  induction a as [|a0 r IH]; intros b Hb; cbn [pmul length]; [lia|].
  enough (G : (length (padd (map (Qcmult a0) b) (0%Qc :: pmul r b)) <= length r + length b)%nat) by lia.
  apply padd_length; [rewrite map_length; lia|]. cbn [length]. apply IH. exact Hb.
Qed.

Lemma pmul_length_weak a b : (length (pmul a b) <= length a + length b)%nat.
Proof.
  revert b. induction a as [|a0 r IH]; intros b; cbn [pmul length]; [lia|].
  apply padd_length; [rewrite map_length; lia|]. cbn [length]. specialize (IH b). lia.
Qed.

(* L of a product, one factor at a time *)
Lemma L_pmul_cons mu a0 r b : L mu (pmul (a0 :: r) b) = a0 * L mu b + L (fun k => mu (S k)) (pmul r b).
Proof. cbn [pmul]. rewrite L_padd, L_scale, L_cons0. reflexivity. Qed.

(* linearity of L (a * b) in each factor *)
Lemma L_pmul_padd_l mu a1 a2 b : L mu (pmul (padd a1 a2) b) = L mu (pmul a1 b) + L mu (pmul a2 b).
Proof.
  rewrite <- L_padd. apply L_peval_ext. intros x. rewrite padd_eval, !pmul_eval, padd_eval. ring.
Qed.

Lemma L_pmul_scale_l mu k a b : L mu (pmul (map (Qcmult k) a) b) = k * L mu (pmul a b).
Proof.
  rewrite <- L_scale. apply L_peval_ext. intros x. rewrite pscale_eval, !pmul_eval, pscale_eval. ring.
Qed.

Lemma L_pmul_comm mu a b : L mu (pmul a b) = L mu (pmul b a).
Proof. apply L_peval_ext. intros x. rewrite !pmul_eval. ring. Qed.

Lemma L_pmul_padd_r mu a b1 b2 : L mu (pmul a (padd b1 b2)) = L mu (pmul a b1) + L mu (pmul a b2).
Proof. rewrite L_pmul_comm, L_pmul_padd_l, (L_pmul_comm mu b1), (L_pmul_comm mu b2). reflexivity. Qed.

Lemma L_pmul_scale_r mu k a b : L mu (pmul a (map (Qcmult k) b)) = k * L mu (pmul a b).
Proof. rewrite L_pmul_comm, L_pmul_scale_l, (L_pmul_comm mu b). reflexivity. Qed.

(* t^k * b under L = b under the k-fold shifted moments *)
Lemma L_pmul_pmono k : forall mu b, L mu (pmul (pmono k) b) = L (fun j => mu (k + j)%nat) b.
Proof.
  induction k as [|k IH]; intros mu b.
  - change (pmono 0) with [1]. rewrite L_pmul_cons. cbn [pmul L]. rewrite (L_ext b mu (fun j => mu (0 + j)%nat)); [ring|].
    intros j. reflexivity.
  - change (pmono (S k)) with (0 :: pmono k). rewrite L_pmul_cons, IH.
    rewrite (L_ext b (fun j => mu (S (k + j))) (fun j => mu (S k + j)%nat)); [ring|]. intros j. reflexivity.
Qed.

(* if b is orthogonal to t^k for every k < length s, then it is orthogonal to s *)
Lemma L_pmul_orth s : forall mu b, (forall k, (k < length s)%nat -> L mu (pmul (pmono k) b) = 0) -> L mu (pmul s b) = 0.
Proof.
  induction s as [|a0 r IH]; intros mu b H; [reflexivity|].
  rewrite L_pmul_cons.
  assert (H0 : L mu b = 0).
  { rewrite <- (H 0%nat) by (cbn [length]; lia). rewrite L_pmul_pmono. apply L_ext. intros j. reflexivity. }
  rewrite H0, IH; [ring|].
  intros k Hk. rewrite L_pmul_pmono.
  rewrite <- (H (S k)) by (cbn [length]; lia). rewrite L_pmul_pmono. apply L_ext. intros j. reflexivity.
Qed.

(* ---------- the node polynomial ---------- *)
(* multiplication by (t - a) *)
Definition pmulx (a : Qc) (c : list Qc) : list Qc := padd (0 :: c) (map (Qcmult (- a)) c).

Lemma pmulx_eval a c x : peval (pmulx a c) x = (x - a) * peval c x.
Proof. unfold pmulx. rewrite padd_eval, pscale_eval. cbn [peval]. ring. Qed.

Lemma padd_length_eq c1 : forall c2, length (padd c1 c2) = Nat.max (length c1) (length c2).
Proof.
  induction c1 as [|a r1 IH]; intros [|b r2]; cbn [padd length Nat.max]; try reflexivity.
  rewrite IH. reflexivity.
Qed.

Lemma padd_nth c1 : forall c2 k, nth k (padd c1 c2) 0 = nth k c1 0 + nth k c2 0.
Proof.
  induction c1 as [|a r1 IH]; intros [|b r2] [|k]; cbn [padd nth]; try ring.
  apply IH.
Qed.

Lemma pmulx_length a c : length (pmulx a c) = S (length c).
Proof. unfold pmulx. rewrite padd_length_eq, map_length. cbn [length]. lia. Qed.

Lemma pmulx_top a c : nth (length c) (pmulx a c) 0 = nth (length c) (0 :: c) 0.
Proof.
  unfold pmulx. rewrite padd_nth. rewrite (nth_overflow (map (Qcmult (- a)) c)) by (rewrite map_length; lia).
  ring.
Qed.

(* omega nodes = prod_i (t - x_i) *)
Definition omega (nodes : list Qc) : list Qc := fold_right pmulx [1] nodes.

Lemma omega_eval nodes x : peval (omega nodes) x = qprod (map (fun xi => x - xi) nodes).
Proof.
  induction nodes as [|a r IH]; cbn [omega fold_right map]; [cbn; ring|].
  fold (omega r). rewrite pmulx_eval, IH, qprod_cons. reflexivity.
Qed.

Lemma omega_length nodes : length (omega nodes) = S (length nodes).
Proof.
  induction nodes as [|a r IH]; cbn [omega fold_right length]; [reflexivity|].
  fold (omega r). rewrite pmulx_length, IH. reflexivity.
Qed.

(* monic: the coefficient of t^n is 1 *)
Lemma omega_monic nodes : nth (length nodes) (omega nodes) 0 = 1.
Proof.
  induction nodes as [|a r IH]; cbn [omega fold_right length]; [reflexivity|].
  fold (omega r). pose proof (pmulx_top a (omega r)) as T. rewrite omega_length in T. rewrite T.
  cbn [nth]. exact IH.
Qed.

Lemma omega_root nodes a : In a nodes -> peval (omega nodes) a = 0.
Proof.
  intros H. rewrite omega_eval. apply (qprod_has_zero nodes (fun xi => a - xi) a H). ring.
Qed.

Lemma omega_root_nth nodes i : (i < length nodes)%nat -> peval (omega nodes) (nth i nodes 0) = 0.
Proof. intros H. apply omega_root. apply nth_In. exact H. Qed.

Lemma omega_spec nodes :
  length (omega nodes) = S (length nodes) /\ nth (length nodes) (omega nodes) 0 = 1 /\
  (forall a, In a nodes -> peval (omega nodes) a = 0) /\
  (forall x, peval (omega nodes) x = qprod (map (fun xi => x - xi) nodes)).
Proof. exact (conj (omega_length nodes) (conj (omega_monic nodes) (conj (omega_root nodes) (omega_eval nodes)))). Qed.

(* ---------- division by the node polynomial ---------- *)
(* repeated synthetic division by the linear factors: pointwise identity and the two length bounds *)
Theorem omega_division nodes : forall c, exists s r,
  (length r <= length nodes)%nat /\ (length s <= length c - length nodes)%nat /\
  forall x, peval c x = peval s x * peval (omega nodes) x + peval r x.
Proof.
  induction nodes as [|a rest IH]; intros c.
  - exists c, []. split; [cbn; lia|]. split; [cbn; lia|]. intros x. cbn. ring.
  - destruct (IH (tl (sdiv a c))) as [s [r1 [Lr [Ls E]]]].
    exists s, (padd (pmulx a r1) [peval c a]). split; [|split].
    + apply padd_length; [rewrite pmulx_length; cbn [length]; lia|cbn [length]; lia].
    + assert (Lq : length (tl (sdiv a c)) = pred (length c)).
      { pose proof (sdiv_length a c) as Lsd. destruct (sdiv a c); cbn [tl length] in *; lia. }
      rewrite Lq in Ls. cbn [length]. lia.
    + intros x. cbn [omega fold_right]. fold (omega rest).
      rewrite (sdiv_eval a c x), (E x), padd_eval, !pmulx_eval. cbn [peval]. ring.
Qed.

(* the same at the level of the functional: L c = L (s * omega) + L r *)
Theorem omega_division_L nodes : forall c, exists s r,
  (length r <= length nodes)%nat /\ (length s <= length c - length nodes)%nat /\
  (forall x, peval c x = peval s x * peval (omega nodes) x + peval r x) /\
  (forall mu, L mu c = L mu (pmul s (omega nodes)) + L mu r) /\
  pzero (padd c (map (Qcmult (- (1))) (padd (pmul s (omega nodes)) r))).
Proof.
  intros c. destruct (omega_division nodes c) as [s [r [Lr [Ls E]]]]. exists s, r.
  split; [exact Lr|]. split; [exact Ls|]. split; [exact E|]. split.
  - intros mu. rewrite <- L_padd. apply L_peval_ext. intros x. rewrite padd_eval, pmul_eval. apply E.
  - apply peval_ext_coeffs. intros x. rewrite padd_eval, pmul_eval. apply E.
Qed.

(* ---------- the rule ---------- *)
(* sum_i w_i * c(x_i) for an arbitrary weight list *)
Definition rule (w nodes : list Qc) (c : list Qc) : Qc :=
  qsum (map (fun i => nth i w 0 * peval c (nth i nodes 0)) (seq 0 (length nodes))).

(* a rule on the nodes does not see multiples of omega *)
Lemma rule_division w nodes c s r : (forall x, peval c x = peval s x * peval (omega nodes) x + peval r x) ->
  rule w nodes c = rule w nodes r.
Proof.
  intros E. unfold rule. apply qsum_map_ext. intros i Hi. apply in_seq in Hi.
  rewrite (E (nth i nodes 0)), omega_root_nth by lia. ring.
Qed.

(* ---------- MAIN THEOREM ---------- *)
Theorem gauss_quad_exact : forall mu nodes, NoDup nodes ->
  (forall k, (k < length nodes)%nat -> L mu (pmul (pmono k) (omega nodes)) = 0) ->
  forall c, (length c <= 2 * length nodes)%nat ->
  L mu c = qsum (map (fun i => nth i (weights mu nodes) 0 * peval c (nth i nodes 0)) (seq 0 (length nodes))).
Proof.
  intros mu nodes ND Orth c Hc.
  destruct (omega_division_L nodes c) as [s [r [Lr [Ls [E [EL _]]]]]].
  change (L mu c = rule (weights mu nodes) nodes c).
  rewrite (rule_division _ nodes c s r E). unfold rule.
  rewrite (interp_quad_exact_poly mu nodes ND r Lr).
  rewrite (EL mu), (L_pmul_orth s mu (omega nodes)); [ring|].
  intros k Hk. apply Orth. lia.
Qed.

(* monomial form: the rule returns the moment for every k < 2n *)
Theorem gauss_quad_exact_monomial : forall mu nodes, NoDup nodes ->
  (forall k, (k < length nodes)%nat -> L mu (pmul (pmono k) (omega nodes)) = 0) ->
  forall k, (k < 2 * length nodes)%nat ->
  qsum (map (fun i => nth i (weights mu nodes) 0 * (nth i nodes 0) ^ k) (seq 0 (length nodes))) = mu k.
Proof.
  intros mu nodes ND Orth k Hk. rewrite <- (pmono_L k mu).
  rewrite (gauss_quad_exact mu nodes ND Orth (pmono k)) by (rewrite pmono_length; lia).
  apply qsum_map_ext. intros i _. rewrite pmono_eval. reflexivity.
Qed.

(* the orthogonality hypothesis in terms of the moments: sum_j omega_j * mu (k + j) = 0 *)
Lemma orthogonality_moments mu nodes k :
  L mu (pmul (pmono k) (omega nodes)) = L (fun j => mu (k + j)%nat) (omega nodes).
Proof. apply L_pmul_pmono. Qed.

(* ---------- converse: exactness to degree 2n-1 forces the orthogonality ---------- *)
Theorem gauss_needs_orthogonality : forall mu nodes (w : list Qc),
  (forall c, (length c <= 2 * length nodes)%nat ->
     L mu c = qsum (map (fun i => nth i w 0 * peval c (nth i nodes 0)) (seq 0 (length nodes)))) ->
  forall k, (k < length nodes)%nat -> L mu (pmul (pmono k) (omega nodes)) = 0.
Proof.
  intros mu nodes w Ex k Hk. rewrite Ex.
  - apply qsum_all_zero. intros i Hi. apply in_seq in Hi. rewrite pmul_eval, omega_root_nth by lia. ring.
  - pose proof (pmul_length (pmono k) (omega nodes)) as P. rewrite omega_length, pmono_length in P.
    specialize (P ltac:(lia)). lia.
Qed.

(* hence, for the interpolatory weights, exactness to degree 2n-1 <-> orthogonality of omega to degree < n *)
Theorem gauss_exact_iff_orthogonal : forall mu nodes, NoDup nodes ->
  ((forall k, (k < length nodes)%nat -> L mu (pmul (pmono k) (omega nodes)) = 0) <->
   (forall c, (length c <= 2 * length nodes)%nat ->
      L mu c = qsum (map (fun i => nth i (weights mu nodes) 0 * peval c (nth i nodes 0)) (seq 0 (length nodes))))).
Proof.
  intros mu nodes ND. split.
  - intros Orth. exact (gauss_quad_exact mu nodes ND Orth).
  - intros Ex. exact (gauss_needs_orthogonality mu nodes (weights mu nodes) Ex).
Qed.

(* ---------- optimality: degree 2n is out of reach of ANY n-point rule ---------- *)
(* whatever the weights w: if L (omega^2) <> 0 (e.g. positive, as for every positive measure with more than n points of
   support) the rule is not exact on all polynomials of degree <= 2n *)
Theorem gauss_degree_optimal : forall mu nodes (w : list Qc),
  L mu (pmul (omega nodes) (omega nodes)) <> 0 ->
  ~ (forall c, (length c <= 2 * length nodes + 1)%nat ->
       L mu c = qsum (map (fun i => nth i w 0 * peval c (nth i nodes 0)) (seq 0 (length nodes)))).
Proof.
  intros mu nodes w Pos Ex. apply Pos. rewrite Ex.
  - apply qsum_all_zero. intros i Hi. apply in_seq in Hi. rewrite pmul_eval, omega_root_nth by lia. ring.
  - pose proof (pmul_length (omega nodes) (omega nodes)) as P. rewrite omega_length in P.
    specialize (P ltac:(lia)). lia.
Qed.

Print Assumptions gauss_quad_exact.
Print Assumptions gauss_quad_exact_monomial.
Print Assumptions gauss_needs_orthogonality.
Print Assumptions gauss_degree_optimal.
Print Assumptions omega_division_L.
Print Assumptions L_peval_ext.
