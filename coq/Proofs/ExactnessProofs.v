(* The exactness TABLES of the one-dimensional rules, OneDimensionalMeta::getNumPoints / getIExact / getQExact, REGENERATED from the
   current C++ source (gen/ExactnessGen.v, translator/exactness.py), for EVERY level l >= 0 (unbounded integers: overflow of int is
   not modelled):
     (a) the number of points is positive and strictly increasing in the level;
     (b) both exactness tables are monotone in the level - the hypothesis `m_mono` of the combination-technique theorems
         (CombinationProofs.comb_exact, SparseInterpExact.sparse_interpolation_exact, SparseQuadExact....);
     (c) getIExact against (number of points) - 1, the largest degree polynomial interpolation at n distinct nodes can reproduce
         (LagrangeExact.v): holds for every rule but rule_clenshawcurtis0, whose excess is computed exactly; Fourier separately;
     (d) getQExact against 2 * (number of points) - 1, the largest degree any quadrature with n nodes can integrate exactly;
     (e) the premises `m_mono` / `nodes_len` of sparse_interpolation_exact for m := iExact table, and the theorem instantiated.
   When the source changes, either these proofs still go through or the build fails and props/exactnessgen.py searches a concrete
   (rule, level) at which a statement is false.  No axioms. *)
From TV Require Import Common.Prelude gen.ExactnessGen.
From TV Require Import Proofs.CombinationProofs Proofs.LagrangeExact Proofs.SparseInterpExact Proofs.InterpQuadExact Proofs.SparseQuadExact.
From Coq Require Import QArith Qcanon.
Local Open Scope Z_scope.

(* ---------------------------------------------------------------- arithmetic of the powers *)
Lemma pow2_ge1 l : 0 <= l -> 1 <= 2 ^ l.
Proof. intros H. pose proof (Z.pow_pos_nonneg 2 l ltac:(lia) H). lia. Qed.
Lemma pow3_ge1 l : 0 <= l -> 1 <= 3 ^ l.
Proof. intros H. pose proof (Z.pow_pos_nonneg 3 l ltac:(lia) H). lia. Qed.
Lemma pow2_ge_succ l : 0 <= l -> l + 1 <= 2 ^ l.
Proof.
  intros H. pattern l. apply natlike_ind; [reflexivity| |exact H].
  intros x Hx IH. rewrite Z.pow_succ_r by exact Hx. lia.
Qed.

Lemma pow3_ge_succ l : 0 <= l -> l + 1 <= 3 ^ l.
Proof.
  intros H. pattern l. apply natlike_ind; [reflexivity| |exact H].
  intros x Hx IH. rewrite Z.pow_succ_r by exact Hx. lia.
Qed.

Lemma pow2_even l : 0 <= l -> l = 0 \/ Z.rem (2 ^ l) 2 = 0.
Proof.
  intros H. destruct (Z.eq_dec l 0) as [?|Hn]; [left; assumption|right].
  replace l with (Z.succ (l - 1)) by lia. rewrite Z.pow_succ_r by lia. rewrite Z.mul_comm. apply Z.rem_mul. lia.
Qed.
Lemma pow3_odd l : 0 <= l -> Z.rem (3 ^ l) 2 = 1.
Proof.
  intros H. pattern l. apply natlike_ind; [reflexivity| |exact H].
  intros x Hx IH. rewrite Z.pow_succ_r by exact Hx. pose proof (pow3_ge1 x Hx). lia.
Qed.

Ltac split_ifs :=
  repeat match goal with
         | |- context [if ?c then _ else _] => let E := fresh "E" in destruct c eqn:E
         | H : context [if ?c then _ else _] |- _ => let E := fresh "E" in destruct c eqn:E
         end.

(* a ^ (l + 1) and a ^ (l + 1 + 1) are written with a ^ l, then 2 ^ l and 3 ^ l become variables >= 1 (and >= l + 1) *)
Ltac powers l Hl :=
  repeat rewrite (Z.pow_add_r _ _ 1) in * by lia;
  change (2 ^ 1) with 2 in *; change (3 ^ 1) with 3 in *;
  let A := fresh "P2ge" in let B := fresh "P3ge" in let C := fresh "P2lin" in let D := fresh "P3lin" in
  pose proof (pow2_ge1 l Hl) as A; pose proof (pow3_ge1 l Hl) as B; pose proof (pow2_ge_succ l Hl) as C; pose proof (pow3_ge_succ l Hl) as D;
  let P2 := fresh "P2" in let P3 := fresh "P3" in
  set (P2 := 2 ^ l) in *; set (P3 := 3 ^ l) in *; clearbody P2 P3.

(* ---------------------------------------------------------------- the two rules that grow like Clenshaw-Curtis every 2 / 4 levels *)
Lemma nd2_small : g_numPoints_rlejadouble2 0 = 1 /\ g_numPoints_rlejadouble2 1 = 3 /\ g_numPoints_rlejadouble2 2 = 5.
Proof. vm_compute. auto. Qed.
Lemma nd4_small : g_numPoints_rlejadouble4 0 = 1 /\ g_numPoints_rlejadouble4 1 = 3 /\ g_numPoints_rlejadouble4 2 = 5.
Proof. vm_compute. auto. Qed.

(* closed form: level 3 + 2 q + r (r < 2) has 2^(q+2) + 1 + 2^(q+1) (r + 1) points *)
Lemma nd2_form q r : 0 <= q -> r = 0 \/ r = 1 ->
  g_numPoints_rlejadouble2 (3 + 2 * q + r) = 4 * 2 ^ q + 1 + 2 * 2 ^ q * (r + 1).
Proof.
  intros Hq Hr. cbv beta iota zeta delta [g_numPoints_rlejadouble2 g_numPoints_clenshawcurtis].
  replace (Z.quot (3 + 2 * q + r - 3) 2) with q by lia.
  replace (Z.rem (3 + 2 * q + r - 3) 2) with r by lia.
  rewrite (Z.pow_add_r 2 (2 + q) 1), (Z.pow_add_r 2 2 q) by lia. change (2 ^ 2) with 4. change (2 ^ 1) with 2.
  pose proof (pow2_ge1 q Hq). set (P := 2 ^ q) in *. clearbody P.
  split_ifs; destruct Hr; subst r; lia.
Qed.

(* closed form: level 3 + 4 q + r (r < 4) has 2^(q+2) + 1 + 2^q (r + 1) points *)
Lemma nd4_form q r : 0 <= q -> r = 0 \/ r = 1 \/ r = 2 \/ r = 3 ->
  g_numPoints_rlejadouble4 (3 + 4 * q + r) = 4 * 2 ^ q + 1 + 2 ^ q * (r + 1).
Proof.
  intros Hq Hr. cbv beta iota zeta delta [g_numPoints_rlejadouble4 g_numPoints_clenshawcurtis].
  replace (Z.quot (3 + 4 * q + r - 3) 4) with q by lia.
  replace (Z.rem (3 + 4 * q + r - 3) 4) with r by lia.
  rewrite (Z.pow_add_r 2 (2 + q) 1), (Z.pow_add_r 2 2 q) by lia. change (2 ^ 2) with 4. change (2 ^ 1) with 2.
  pose proof (pow2_ge1 q Hq). set (P := 2 ^ q) in *. clearbody P.
  split_ifs; destruct Hr as [?|[?|[?|?]]]; subst r; lia.
Qed.

Lemma split2 l : 3 <= l -> exists q r, 0 <= q /\ (r = 0 \/ r = 1) /\ l = 3 + 2 * q + r.
Proof. intros H. exists ((l - 3) / 2), ((l - 3) mod 2). lia. Qed.
Lemma split4 l : 3 <= l -> exists q r, 0 <= q /\ (r = 0 \/ r = 1 \/ r = 2 \/ r = 3) /\ l = 3 + 4 * q + r.
Proof. intros H. exists ((l - 3) / 4), ((l - 3) mod 4). lia. Qed.

Lemma nd2_pos l : 0 <= l -> l + 1 <= g_numPoints_rlejadouble2 l.
Proof.
  intros H. destruct (Z_lt_le_dec l 3) as [Hs|Hs].
  - assert (l = 0 \/ l = 1 \/ l = 2) as [ -> | [ -> | -> ] ] by lia; vm_compute; discriminate.
  - destruct (split2 l Hs) as (q & r & Hq & Hr & ->). rewrite nd2_form by assumption.
    pose proof (pow2_ge_succ q Hq). destruct Hr; subst r; lia.
Qed.
Lemma nd4_pos l : 0 <= l -> l + 1 <= g_numPoints_rlejadouble4 l.
Proof.
  intros H. destruct (Z_lt_le_dec l 3) as [Hs|Hs].
  - assert (l = 0 \/ l = 1 \/ l = 2) as [ -> | [ -> | -> ] ] by lia; vm_compute; discriminate.
  - destruct (split4 l Hs) as (q & r & Hq & Hr & ->). rewrite nd4_form by assumption.
    pose proof (pow2_ge_succ q Hq). destruct Hr as [?|[?|[?|?]]]; subst r; lia.
Qed.

Lemma nd2_odd l : 0 <= l -> Z.rem (g_numPoints_rlejadouble2 l) 2 = 1.
Proof.
  intros H. destruct (Z_lt_le_dec l 3) as [Hs|Hs].
  - assert (l = 0 \/ l = 1 \/ l = 2) as [ -> | [ -> | -> ] ] by lia; vm_compute; reflexivity.
  - destruct (split2 l Hs) as (q & r & Hq & Hr & ->). rewrite nd2_form by assumption.
    pose proof (pow2_ge1 q Hq). set (P := 2 ^ q) in *. clearbody P. destruct Hr; subst r; lia.
Qed.

Lemma nd2_mono l : 0 <= l -> g_numPoints_rlejadouble2 l < g_numPoints_rlejadouble2 (l + 1).
Proof.
  intros H. destruct (Z_lt_le_dec l 3) as [Hs|Hs].
  - assert (l = 0 \/ l = 1 \/ l = 2) as [ -> | [ -> | -> ] ] by lia; vm_compute; reflexivity.
  - destruct (split2 l Hs) as (q & r & Hq & Hr & ->). rewrite (nd2_form q r) by assumption.
    pose proof (pow2_ge1 q Hq). destruct Hr; subst r.
    + replace (3 + 2 * q + 0 + 1) with (3 + 2 * q + 1) by lia. rewrite nd2_form by lia. lia.
    + replace (3 + 2 * q + 1 + 1) with (3 + 2 * (q + 1) + 0) by lia. rewrite nd2_form by lia.
      rewrite (Z.pow_add_r 2 q 1) by lia. change (2 ^ 1) with 2. lia.
Qed.
Lemma nd4_mono l : 0 <= l -> g_numPoints_rlejadouble4 l < g_numPoints_rlejadouble4 (l + 1).
Proof.
  intros H. destruct (Z_lt_le_dec l 3) as [Hs|Hs].
  - assert (l = 0 \/ l = 1 \/ l = 2) as [ -> | [ -> | -> ] ] by lia; vm_compute; reflexivity.
  - destruct (split4 l Hs) as (q & r & Hq & Hr & ->). rewrite (nd4_form q r) by assumption.
    pose proof (pow2_ge1 q Hq). destruct Hr as [?|[?|[?|?]]]; subst r.
    + replace (3 + 4 * q + 0 + 1) with (3 + 4 * q + 1) by lia. rewrite nd4_form by lia. lia.
    + replace (3 + 4 * q + 1 + 1) with (3 + 4 * q + 2) by lia. rewrite nd4_form by lia. lia.
    + replace (3 + 4 * q + 2 + 1) with (3 + 4 * q + 3) by lia. rewrite nd4_form by lia. lia.
    + replace (3 + 4 * q + 3 + 1) with (3 + 4 * (q + 1) + 0) by lia. rewrite nd4_form by lia.
      rewrite (Z.pow_add_r 2 q 1) by lia. change (2 ^ 1) with 2. lia.
Qed.

(* every table entry of one rule: the facts of the two special rules, then unfolding, the powers as variables, case analysis on every
   test, linear arithmetic (Z.quot / Z.rem by literals through the zify hook of Common.Prelude) *)
Ltac table l Hl :=
  pose proof (nd2_pos l Hl); pose proof (nd4_pos l Hl); pose proof (nd2_mono l Hl); pose proof (nd4_mono l Hl);
  cbv beta iota zeta delta [g_numPoints g_iExact g_qExact g_numPoints_clenshawcurtis] in *;
  powers l Hl; split_ifs; lia.

(* the same with the parities of 2 ^ l, 3 ^ l and of the number of points of rule_rlejadouble2 *)
Ltac table_parity l Hl :=
  pose proof (nd2_odd l Hl); pose proof (pow2_even l Hl); pose proof (pow3_odd l Hl); table l Hl.

(* ---------------------------------------------------------------- (a) number of points *)
Theorem numPoints_ge r l : 0 <= l -> l + 1 <= g_numPoints r l.
Proof. intros Hl. destruct r; table l Hl. Qed.
Theorem numPoints_pos r l : 0 <= l -> 0 < g_numPoints r l.
Proof. intros Hl. pose proof (numPoints_ge r l Hl). lia. Qed.
Theorem numPoints_mono r l : 0 <= l -> g_numPoints r l < g_numPoints r (l + 1).
Proof. intros Hl. destruct r; table l Hl. Qed.

(* ---------------------------------------------------------------- (b) monotone exactness tables *)
Theorem iexact_nonneg r l : 0 <= l -> 0 <= g_iExact r l.
Proof. intros Hl. destruct r; table l Hl. Qed.
Theorem qexact_nonneg r l : 0 <= l -> 0 <= g_qExact r l.
Proof. intros Hl. destruct r; table l Hl. Qed.
Theorem tables_nonneg r l : 0 <= l -> 0 <= g_iExact r l /\ 0 <= g_qExact r l.
Proof. intros H. split; [apply iexact_nonneg|apply qexact_nonneg]; exact H. Qed.
Theorem iexact_mono r l : 0 <= l -> g_iExact r l <= g_iExact r (l + 1).
Proof. intros Hl. destruct r; table l Hl. Qed.
Theorem qexact_mono r l : 0 <= l -> g_qExact r l <= g_qExact r (l + 1).
Proof. intros Hl. destruct r; table l Hl. Qed.
(* the interpolation table even grows strictly *)
Theorem iexact_strict r l : 0 <= l -> g_iExact r l < g_iExact r (l + 1).
Proof. intros Hl. destruct r; table l Hl. Qed.

(* ---------------------------------------------------------------- (c) interpolation exactness against n - 1 *)
Theorem iexact_vs_points r l : r <> rule_clenshawcurtis0 -> 0 <= l -> g_iExact r l <= g_numPoints r l - 1.
Proof. intros Hr Hl. destruct r; try (exfalso; apply Hr; reflexivity); table l Hl. Qed.

(* what the tables say for rule_clenshawcurtis0: n = 2^(l+1) - 1 nodes (the interior Clenshaw-Curtis nodes), degree 2^(l+1) + 1 *)
Theorem cc0_tables l : 0 <= l ->
  g_numPoints rule_clenshawcurtis0 l = 2 ^ (l + 1) - 1 /\ g_iExact rule_clenshawcurtis0 l = 2 ^ (l + 1) + 1.
Proof. intros Hl. split; reflexivity. Qed.
(* ... i.e. the listed degree exceeds n - 1 by exactly 3 at every level: as a statement about polynomial interpolation at n nodes it
   is false.  The rule interpolates in the space (1 - x^2) * P_{n-1} (functions vanishing at -1 and +1), whose largest degree is
   n + 1: the table lists n + 2, still one more. *)
Theorem iexact_vs_points_refuted l : 0 <= l ->
  g_iExact rule_clenshawcurtis0 l = (g_numPoints rule_clenshawcurtis0 l - 1) + 3 /\
  g_iExact rule_clenshawcurtis0 l = ((g_numPoints rule_clenshawcurtis0 l - 1) + 2) + 1.
Proof. intros Hl. split; table l Hl. Qed.

(* Fourier: the tables count trigonometric degree; the 2 k + 1 exponentials of frequency |j| <= k = getIExact are as many as the nodes *)
Theorem fourier_tables l : 0 <= l ->
  g_numPoints rule_fourier l = 3 ^ l /\ 2 * g_iExact rule_fourier l + 1 = g_numPoints rule_fourier l /\
  g_qExact rule_fourier l = g_iExact rule_fourier l.
Proof.
  intros Hl. cbv beta iota zeta delta [g_numPoints g_iExact g_qExact]. repeat split.
  pose proof (pow3_odd l Hl). pose proof (pow3_ge1 l Hl). lia.
Qed.

(* the rules whose interpolation table is exactly n - 1 at every level *)
Definition is_interp_tight (r : onedrule) : bool :=
  match r with rule_clenshawcurtis0 | rule_fourier => false | _ => true end.

Theorem interp_tight_list : filter (fun r => negb (is_interp_tight r)) all_rules = [rule_clenshawcurtis0; rule_fourier].
Proof. reflexivity. Qed.

Theorem interp_tight_eq r l : is_interp_tight r = true -> 0 <= l -> g_iExact r l = g_numPoints r l - 1.
Proof. intros Ht Hl. destruct r; try discriminate Ht; table l Hl. Qed.

Theorem interp_tight_correct r : is_interp_tight r = true <-> (forall l, 0 <= l -> g_iExact r l = g_numPoints r l - 1).
Proof.
  split; [intros Ht l Hl; apply interp_tight_eq; assumption|].
  intros H. destruct r; try reflexivity; specialize (H 1 ltac:(lia)); vm_compute in H; discriminate H.
Qed.

(* ---------------------------------------------------------------- (d) quadrature exactness against 2 n - 1 *)
Theorem qexact_vs_points r l : 0 <= l -> g_qExact r l <= 2 * g_numPoints r l - 1.
Proof. intros Hl. destruct r; table l Hl. Qed.

(* the Gauss rules (n nodes, degree 2 n - 1) are exactly the rules that attain the bound at every level *)
Definition is_gauss_tight (r : onedrule) : bool :=
  match r with
  | rule_gausslegendre | rule_gausslegendreodd | rule_gausschebyshev1 | rule_gausschebyshev1odd | rule_gausschebyshev2
  | rule_gausschebyshev2odd | rule_gaussgegenbauer | rule_gaussgegenbauerodd | rule_gaussjacobi | rule_gaussjacobiodd
  | rule_gausslaguerre | rule_gausslaguerreodd | rule_gausshermite | rule_gausshermiteodd => true
  | _ => false
  end.

Theorem gauss_tight_correct r : is_gauss_tight r = true <-> (forall l, 0 <= l -> g_qExact r l = 2 * g_numPoints r l - 1).
Proof.
  split.
  - intros Ht l Hl. destruct r; try discriminate Ht; table l Hl.
  - intros H. destruct r; try reflexivity; specialize (H 2 ltac:(lia)); vm_compute in H; discriminate H.
Qed.

(* An INTERPOLATORY quadrature with n nodes is exact to degree n - 1, a symmetric one with an odd number of nodes to degree n (odd
   monomials integrate to zero).  The table claims more than that only for the Gauss rules, Gauss-Patterson and rule_clenshawcurtis0
   (weighted space, see above): every other entry is <= n - 1 + (n mod 2) - this is what ties the parity in rule_chebyshev. *)
Definition is_beyond_interpolatory (r : onedrule) : bool :=
  is_gauss_tight r || match r with rule_gausspatterson | rule_clenshawcurtis0 => true | _ => false end.

Theorem qexact_interpolatory r l : is_beyond_interpolatory r = false -> 0 <= l ->
  g_qExact r l <= g_numPoints r l - 1 + Z.rem (g_numPoints r l) 2.
Proof. intros Hb Hl. destruct r; try discriminate Hb; table_parity l Hl. Qed.
(* rule_clenshawcurtis0 lists n + 2 from level 1 on (n = 1 and degree 1 at level 0) *)
Theorem qexact_cc0 l : 1 <= l -> g_qExact rule_clenshawcurtis0 l = g_numPoints rule_clenshawcurtis0 l + 2.
Proof. intros Hl. assert (Hl0 : 0 <= l) by lia. table l Hl0. Qed.

(* ---------------------------------------------------------------- (e) the premises of the combination theorems *)
Definition table_m (r : onedrule) (l : nat) : nat := Z.to_nat (g_iExact r (Z.of_nat l)).
Definition table_qm (r : onedrule) (l : nat) : nat := Z.to_nat (g_qExact r (Z.of_nat l)).
Definition table_n (r : onedrule) (l : nat) : nat := Z.to_nat (g_numPoints r (Z.of_nat l)).

Theorem inst_m_mono r : forall l, (table_m r l <= table_m r (S l))%nat.
Proof.
  intros l. unfold table_m. rewrite Nat2Z.inj_succ, <- Z.add_1_r.
  pose proof (iexact_mono r (Z.of_nat l) ltac:(lia)). lia.
Qed.
Theorem inst_qm_mono r : forall l, (table_qm r l <= table_qm r (S l))%nat.
Proof.
  intros l. unfold table_qm. rewrite Nat2Z.inj_succ, <- Z.add_1_r.
  pose proof (qexact_mono r (Z.of_nat l) ltac:(lia)). lia.
Qed.
Theorem inst_nodes_len r : is_interp_tight r = true -> forall l, table_n r l = S (table_m r l).
Proof.
  intros Ht l. unfold table_n, table_m. rewrite (interp_tight_eq r (Z.of_nat l) Ht) by lia.
  pose proof (numPoints_pos r (Z.of_nat l) ltac:(lia)). lia.
Qed.
(* for EVERY rule but rule_clenshawcurtis0 the declared degree is at most n - 1 (what lagrange_exact_monomial needs) *)
Theorem inst_m_le_nodes r : r <> rule_clenshawcurtis0 -> forall l, (S (table_m r l) <= table_n r l)%nat.
Proof.
  intros Hr l. unfold table_n, table_m. pose proof (iexact_vs_points r (Z.of_nat l) Hr ltac:(lia)).
  pose proof (iexact_nonneg r (Z.of_nat l) ltac:(lia)). lia.
Qed.

(* sparse_interpolation_exact / sparse_interp_quadrature_exact with m := the getIExact table of a tight rule: node lists that are
   pairwise distinct and have getNumPoints entries per level are all that is assumed *)
Theorem sparse_interpolation_exact_table (r : onedrule) (nodes : nat -> nat -> list Qc) (x : nat -> Qc) :
  is_interp_tight r = true -> (forall j l, NoDup (nodes j l)) -> (forall j l, length (nodes j l) = table_n r l) ->
  forall d Theta, NoDup Theta -> (forall t, In t Theta -> length t = d) -> lower Theta ->
  forall k s, In s Theta -> length k = d -> Forall2 (fun kj sj => (kj <= table_m r sj)%nat) k s ->
    sumf Qc (Q2Qc 0) Qcplus Theta (fun t => dprod Qc (Q2Qc 1) Qcmult Qcminus (interp_u nodes x) 0 t k)
    = iprod Qc (Q2Qc 1) Qcmult (interp_I x) 0 k.
Proof.
  intros Ht ND Hlen.
  exact (sparse_interpolation_exact nodes (table_m r) ND (fun j l => eq_trans (Hlen j l) (inst_nodes_len r Ht l)) (inst_m_mono r) x).
Qed.

Theorem sparse_interp_quadrature_exact_table (r : onedrule) (nodes : nat -> nat -> list Qc) (mu : nat -> nat -> Qc) :
  is_interp_tight r = true -> (forall j l, NoDup (nodes j l)) -> (forall j l, length (nodes j l) = table_n r l) ->
  forall d Theta, NoDup Theta -> (forall t, In t Theta -> length t = d) -> lower Theta ->
  forall k s, In s Theta -> length k = d -> Forall2 (fun kj sj => (kj <= table_m r sj)%nat) k s ->
    sumf Qc (Q2Qc 0) Qcplus Theta (fun t => dprod Qc (Q2Qc 1) Qcmult Qcminus (quad_u nodes mu) 0 t k)
    = iprod Qc (Q2Qc 1) Qcmult (quad_I mu) 0 k.
Proof.
  intros Ht ND Hlen.
  exact (sparse_interp_quadrature_exact nodes (table_m r) ND (fun j l => eq_trans (Hlen j l) (inst_nodes_len r Ht l)) (inst_m_mono r) mu).
Qed.
