(* Characterisation of the refinement candidates of Local Polynomial grids for all five criteria (C07). *)
From TV Require Import Common.Prelude Model.IndexSets Model.RuleLocal Model.Selection Model.SelectionAll.
From TV Require Import Proofs.IndexSetsProofs Proofs.SelectionProofs Proofs.RuleLocalProofs.
Local Open Scope Z_scope.

(* ---------- the two kinds of proposed points ---------- *)
(* p is a parent or step-parent of q in direction dir that exists (<> -1) and is not a loaded point *)
Definition is_missing_parent (r : erule) (pts : list idx) (q : idx) (dir : nat) (p : idx) : Prop :=
  exists a, In a (parent_numbers r (nth dir q 0)) /\ a <> -1 /\ p = set_nth q dir a /\ mem p pts = false.

(* p is a child of q in direction dir that exists, respects the level limit of that direction and is not loaded *)
Definition is_adm_child (r : erule) (limits : list Z) (pts : list idx) (q : idx) (dir : nat) (p : idx) : Prop :=
  exists k, In k (kid_numbers r) /\ getKid r (nth dir q 0) k <> -1 /\
            limit_ok r limits dir (getKid r (nth dir q 0) k) = true /\
            p = set_nth q dir (getKid r (nth dir q 0) k) /\ mem p pts = false.

(* the documented selection: flagged (point, direction) pairs; parents first when the strategy asks for it *)
Definition proposed (r : erule) (limits : list Z) (pts : list idx) (pmap : idx -> nat -> bool) (useParents : bool) (p : idx) : Prop :=
  exists q dir, In q pts /\ (dir < length q)%nat /\ pmap q dir = true /\
    ((useParents = true /\ is_missing_parent r pts q dir p) \/
     ((useParents = false \/ (forall p', ~ is_missing_parent r pts q dir p')) /\ is_adm_child r limits pts q dir p)).

Lemma flat_map_ext_in {A B} (f g : A -> list B) l : (forall a, In a l -> f a = g a) -> flat_map f l = flat_map g l.
Proof.
  induction l as [|x l IH]; intros H; cbn; [reflexivity|].
  rewrite (H x (or_introl eq_refl)). rewrite IH; [reflexivity|]. intros a Ha. apply H. right. exact Ha.
Qed.

Lemma flat_map_nil {A B} (l : list A) : flat_map (fun _ => ([] : list B)) l = [].
Proof. induction l; cbn; auto. Qed.

Lemma parents_dir_In r pts q dir p : In p (parents_dir r pts q dir) <-> is_missing_parent r pts q dir p.
Proof.
  unfold parents_dir, is_missing_parent. rewrite in_flat_map. split.
  - intros [a [Ha Hp]]. destruct (a =? -1) eqn:E; [destruct Hp|].
    destruct (mem (set_nth q dir a) pts) eqn:E2; [destruct Hp|]. destruct Hp as [Hp|[]]. subst p.
    exists a. repeat split; auto. lia.
  - intros [a [Ha [Hn [Hp Hm]]]]. exists a. split; [exact Ha|].
    assert (a =? -1 = false) as -> by lia. subst p. rewrite Hm. left. reflexivity.
Qed.

Lemma children_dir_In' r limits pts q dir p : In p (children_dir r limits pts q dir) <-> is_adm_child r limits pts q dir p.
Proof. apply children_dir_In. Qed.

Lemma refine_dir_In r limits pts up q dir p :
  In p (refine_dir r limits pts up q dir) <->
  ((up = true /\ is_missing_parent r pts q dir p) \/
   ((up = false \/ (forall p', ~ is_missing_parent r pts q dir p')) /\ is_adm_child r limits pts q dir p)).
Proof.
  unfold refine_dir. destruct up.
  - destruct (parents_dir r pts q dir) as [|x l] eqn:E.
    + split.
      * intros H. right. split; [|apply children_dir_In'; exact H]. right. intros p' Hp'.
        apply parents_dir_In in Hp'. rewrite E in Hp'. destruct Hp'.
      * intros [[_ H]|[_ H]]; [|apply children_dir_In'; exact H]. apply parents_dir_In in H. rewrite E in H. destruct H.
    + rewrite <- E. split.
      * intros H. left. split; [reflexivity|]. apply parents_dir_In. exact H.
      * intros [[_ H]|[[H|H] _]]; [apply parents_dir_In; exact H|discriminate|].
        exfalso. apply (H x). apply parents_dir_In. rewrite E. left. reflexivity.
  - split.
    + intros H. right. split; [left; reflexivity|apply children_dir_In'; exact H].
    + intros [[H _]|[_ H]]; [discriminate|apply children_dir_In'; exact H].
Qed.

Lemma raw_candidates_In r limits pts pmap up p :
  In p (raw_candidates r limits pts pmap up) <-> proposed r limits pts pmap up p.
Proof.
  unfold raw_candidates, proposed. rewrite in_flat_map. split.
  - intros [q [Hq Hp]]. apply in_flat_map in Hp. destruct Hp as [dir [Hd Hp]]. apply in_seq in Hd.
    destruct (pmap q dir) eqn:Ef; [|destruct Hp]. apply refine_dir_In in Hp.
    exists q, dir. repeat split; auto; lia.
  - intros [q [dir [Hq [Hd [Hf H]]]]]. exists q. split; [exact Hq|]. apply in_flat_map. exists dir.
    split; [apply in_seq; lia|]. rewrite Hf. apply refine_dir_In. exact H.
Qed.

Lemma proposed_length d r limits pts pmap up p : wf d pts -> proposed r limits pts pmap up p -> length p = d.
Proof.
  intros Hw [q [dir [Hq [_ [_ H]]]]]. unfold wf in Hw. rewrite Forall_forall in Hw.
  destruct H as [[_ [a [_ [_ [Hp _]]]]]|[_ [k [_ [_ [_ [Hp _]]]]]]]; subst p; rewrite set_nth_length; auto.
Qed.

Lemma raw_candidates_wf d r limits pts pmap up : wf d pts -> wf d (raw_candidates r limits pts pmap up).
Proof.
  intros Hw. unfold wf. rewrite Forall_forall. intros p Hp. apply raw_candidates_In in Hp.
  eapply proposed_length; eauto.
Qed.

(* ---------- (a) the non-stable strategies: exact set characterisation ---------- *)
Theorem candidates_spec d r limits pts pmap up : wf d pts ->
  sorted (candidates r limits pts pmap up false) /\ wf d (candidates r limits pts pmap up false) /\
  forall p, In p (candidates r limits pts pmap up false) <-> proposed r limits pts pmap up p.
Proof.
  intros Hw. unfold candidates.
  destruct (sort_unique_spec d _ (raw_candidates_wf d r limits pts pmap up Hw)) as [H1 [H2 H3]].
  repeat split; auto.
  - intros H. apply raw_candidates_In. apply H3. exact H.
  - intros H. apply H3. apply raw_candidates_In. exact H.
Qed.

Lemma proposed_fresh d r limits pts pmap up p : wf d pts -> proposed r limits pts pmap up p -> ~ In p pts.
Proof.
  intros Hw Hp Hin. pose proof (proposed_length d _ _ _ _ _ _ Hw Hp) as Hl.
  apply (mem_In d p pts Hl Hw) in Hin.
  destruct Hp as [q [dir [_ [_ [_ H]]]]].
  destruct H as [[_ [a [_ [_ [_ Hm]]]]]|[_ [k [_ [_ [_ [_ Hm]]]]]]]; congruence.
Qed.

(* ---------- completeToLower ---------- *)
Lemma parents_missing_In r mset refined p x :
  In x (parents_missing r mset refined p) <->
  exists dir a, (dir < length p)%nat /\ In a (parent_numbers r (nth dir p 0)) /\ a <> -1 /\
                x = set_nth p dir a /\ mem x refined = false /\ mem x mset = false.
Proof.
  unfold parents_missing. rewrite in_flat_map. split.
  - intros [dir [Hd Hx]]. apply in_seq in Hd. apply in_flat_map in Hx. destruct Hx as [a [Ha Hx]].
    destruct (a =? -1) eqn:E; [destruct Hx|].
    destruct (mem (set_nth p dir a) refined) eqn:E1; [destruct Hx|].
    destruct (mem (set_nth p dir a) mset) eqn:E2; [destruct Hx|]. cbn in Hx. destruct Hx as [Hx|[]]. subst x.
    exists dir, a. repeat split; auto; lia.
  - intros [dir [a [Hd [Ha [Hn [Hx [H1 H2]]]]]]]. exists dir. split; [apply in_seq; lia|].
    apply in_flat_map. exists a. split; [exact Ha|]. assert (a =? -1 = false) as -> by lia.
    subst x. rewrite H1, H2. left. reflexivity.
Qed.

Lemma lower_sweep_In r mset refined x :
  In x (lower_sweep r mset refined) <->
  exists p dir a, In p refined /\ (dir < length p)%nat /\ In a (parent_numbers r (nth dir p 0)) /\ a <> -1 /\
                  x = set_nth p dir a /\ mem x refined = false /\ mem x mset = false.
Proof.
  unfold lower_sweep. rewrite in_flat_map. split.
  - intros [p [Hp Hx]]. apply parents_missing_In in Hx. destruct Hx as [dir [a H]]. exists p, dir, a. tauto.
  - intros [p [dir [a [Hp H]]]]. exists p. split; [exact Hp|]. apply parents_missing_In. exists dir, a. exact H.
Qed.

Lemma lower_sweep_wf d r mset refined : wf d refined -> wf d (lower_sweep r mset refined).
Proof.
  intros Hw. unfold wf in *. rewrite Forall_forall in *. intros x Hx. apply lower_sweep_In in Hx.
  destruct Hx as [p [dir [a [Hp [_ [_ [_ [Hx _]]]]]]]]. subst x. rewrite set_nth_length. auto.
Qed.

(* p' is an existing parent or step-parent of p in some direction *)
Definition parent_of (r : erule) (p p' : idx) : Prop :=
  exists dir a, (dir < length p)%nat /\ In a (parent_numbers r (nth dir p 0)) /\ a <> -1 /\ p' = set_nth p dir a.

(* what every run of the loop guarantees, whatever the fuel *)
Lemma completeToLower_inv d r mset : forall fuel refined, wf d refined -> sorted refined ->
  let res := completeToLower fuel r mset refined in
  wf d res /\ sorted res /\ (forall x, In x refined -> In x res) /\
  (forall x, In x res -> In x refined \/ (mem x mset = false /\ exists p, In p res /\ parent_of r p x)).
Proof.
  induction fuel as [|f IH]; intros refined Hw Hs; cbn [completeToLower].
  - repeat split; auto.
  - destruct (lower_sweep r mset refined) as [|a0 l0] eqn:E; [repeat split; auto|]. rewrite <- E.
    pose proof (lower_sweep_wf d r mset refined Hw) as Hwa.
    destruct (sort_unique_spec d _ Hwa) as [Sa [Wa Ia]].
    assert (Hw' : wf d (merge refined (sort_unique (lower_sweep r mset refined)))) by (apply merge_wf; auto).
    assert (Hs' : sorted (merge refined (sort_unique (lower_sweep r mset refined)))) by (eapply merge_sorted; eauto).
    destruct (IH _ Hw' Hs') as [R1 [R2 [R3 R4]]]. repeat split; auto.
    + intros x Hx. apply R3. eapply In_merge; eauto.
    + intros x Hx. destruct (R4 x Hx) as [Hm|Hm]; [|right; exact Hm].
      apply merge_In in Hm. destruct Hm as [Hm|Hm]; [left; exact Hm|]. right.
      apply Ia in Hm. apply lower_sweep_In in Hm.
      destruct Hm as [p [dir [a [Hp [Hd [Ha [Hn [Hx' [_ Hms]]]]]]]]]. split; [exact Hms|].
      exists p. split; [apply R3; eapply In_merge; eauto|]. exists dir, a. auto.
Qed.

(* when the loop stopped by itself every existing parent of a point of the result is loaded or in the result *)
Lemma lower_closed_parents d r mset res : wf d mset -> wf d res -> lower_closed r mset res = true ->
  forall p p', In p res -> parent_of r p p' -> In p' mset \/ In p' res.
Proof.
  intros Wm Wr Hc p p' Hp [dir [a [Hd [Ha [Hn Hp']]]]]. unfold lower_closed in Hc.
  destruct (lower_sweep r mset res) as [|x l] eqn:E; [|discriminate].
  assert (Hl : length p' = d).
  { subst p'. rewrite set_nth_length. unfold wf in Wr. rewrite Forall_forall in Wr. auto. }
  destruct (mem p' res) eqn:E1; [right; apply (mem_In d); auto|].
  destruct (mem p' mset) eqn:E2; [left; apply (mem_In d); auto|].
  exfalso. assert (In p' (lower_sweep r mset res)) as Hin.
  { apply lower_sweep_In. exists p, dir, a. repeat split; auto. }
  rewrite E in Hin. destruct Hin.
Qed.

Lemma completeToLower_stops r mset refined fuel :
  lower_sweep r mset refined = [] -> completeToLower fuel r mset refined = refined.
Proof. intros H. destruct fuel; cbn; [reflexivity|]. rewrite H. reflexivity. Qed.

(* ---------- (b) freshness for every strategy ---------- *)
Lemma candidates_stable_inv d r limits pts pmap up : wf d pts ->
  let res := candidates r limits pts pmap up true in
  wf d res /\ sorted res /\ (forall x, In x (candidates r limits pts pmap up false) -> In x res) /\
  (forall x, In x res -> In x (candidates r limits pts pmap up false) \/
                         (mem x pts = false /\ exists p, In p res /\ parent_of r p x)).
Proof.
  intros Hw. destruct (candidates_spec d r limits pts pmap up Hw) as [S0 [W0 _]].
  unfold candidates in *. apply (completeToLower_inv d); assumption.
Qed.

Theorem candidates_fresh d r limits pts pmap up stable p : wf d pts ->
  In p (candidates r limits pts pmap up stable) -> ~ In p pts.
Proof.
  intros Hw Hp. destruct stable.
  - destruct (candidates_stable_inv d r limits pts pmap up Hw) as [W [_ [_ H]]]. cbv zeta in *.
    destruct (H p Hp) as [H0|[Hm _]].
    + apply (proposed_fresh d r limits pts pmap up); auto. apply (candidates_spec d); auto.
    + intro Hin. assert (length p = d) by (unfold wf in W; rewrite Forall_forall in W; auto).
      apply (mem_In d p pts) in Hin; auto. congruence.
  - apply (proposed_fresh d r limits pts pmap up); auto. apply (candidates_spec d); auto.
Qed.

(* ---------- (c) nothing flagged, and the relation with the classic model ---------- *)
Theorem nothing_flagged_nothing_proposed r limits pts pmap up stable :
  (forall q dir, In q pts -> (dir < length q)%nat -> pmap q dir = false) ->
  candidates r limits pts pmap up stable = [].
Proof.
  intros Hf. assert (raw_candidates r limits pts pmap up = []) as E.
  { unfold raw_candidates. rewrite (flat_map_ext_in _ (fun _ => [])).
    - apply flat_map_nil.
    - intros q Hq. rewrite (flat_map_ext_in _ (fun _ => [])).
      + apply flat_map_nil.
      + intros dir Hd. apply in_seq in Hd. rewrite Hf; auto; lia. }
  unfold candidates. rewrite E. cbn. destruct stable; reflexivity.
Qed.

Theorem candidates_classic r limits pts pmap flag :
  (forall q dir, In q pts -> (dir < length q)%nat -> pmap q dir = flag q) ->
  candidates r limits pts pmap false false = classic_candidates r limits pts flag.
Proof.
  intros Hf. unfold candidates, classic_candidates, raw_candidates. f_equal.
  apply flat_map_ext_in. intros q Hq. destruct (flag q) eqn:Ef.
  - apply flat_map_ext_in. intros dir Hd. apply in_seq in Hd. rewrite Hf, Ef; auto; lia.
  - rewrite (flat_map_ext_in _ (fun _ => [])).
    + apply flat_map_nil.
    + intros dir Hd. apply in_seq in Hd. rewrite Hf, Ef; auto; lia.
Qed.

(* direction-dependent flags: a subset of what the classic criterion proposes for the points flagged in some direction *)
Definition flagged_somewhere (pmap : idx -> nat -> bool) (q : idx) : bool := existsb (pmap q) (seq 0 (length q)).

Theorem children_only_subset_classic d r limits pts pmap p : wf d pts ->
  In p (candidates r limits pts pmap false false) ->
  In p (classic_candidates r limits pts (flagged_somewhere pmap)).
Proof.
  intros Hw Hp. apply (candidates_spec d) in Hp; auto.
  apply (classic_selection_spec d r limits pts (flagged_somewhere pmap) Hw).
  destruct Hp as [q [dir [Hq [Hd [Hf H]]]]].
  destruct H as [[H _]|[_ [k [Hk [H1 [H2 [H3 H4]]]]]]]; [discriminate|].
  exists q, dir, k. repeat split; auto.
  unfold flagged_somewhere. apply existsb_exists. exists dir. split; [apply in_seq; lia|exact Hf].
Qed.

(* ---------- (d) stable ---------- *)
Theorem stable_contains d r limits pts pmap up p : wf d pts ->
  In p (candidates r limits pts pmap up false) -> In p (candidates r limits pts pmap up true).
Proof. intros Hw. apply (candidates_stable_inv d r limits pts pmap up Hw). Qed.

Theorem stable_sorted_wf d r limits pts pmap up : wf d pts ->
  sorted (candidates r limits pts pmap up true) /\ wf d (candidates r limits pts pmap up true).
Proof. intros Hw. destruct (candidates_stable_inv d r limits pts pmap up Hw) as [W [S _]]. split; assumption. Qed.

(* every point the completion adds is an existing (step-)parent of a point of the final result, i.e. an ancestor of a
   point proposed by the criterion *)
Theorem stable_adds_only_parents d r limits pts pmap up p : wf d pts ->
  In p (candidates r limits pts pmap up true) ->
  In p (candidates r limits pts pmap up false) \/
  exists c, In c (candidates r limits pts pmap up true) /\ parent_of r c p.
Proof.
  intros Hw Hp. destruct (candidates_stable_inv d r limits pts pmap up Hw) as [_ [_ [_ H]]].
  destruct (H p Hp) as [H0|[_ H1]]; [left|right]; assumption.
Qed.

(* when the loop of completeToLower stopped by itself (fuel not exhausted): every existing parent and step-parent of
   every proposed point is loaded or proposed *)
Theorem stable_parents_present d r limits pts pmap up : wf d pts ->
  lower_closed r pts (candidates r limits pts pmap up true) = true ->
  forall p p', In p (candidates r limits pts pmap up true) -> parent_of r p p' ->
               In p' pts \/ In p' (candidates r limits pts pmap up true).
Proof.
  intros Hw Hc. destruct (stable_sorted_wf d r limits pts pmap up Hw) as [_ W].
  apply (lower_closed_parents d); assumption.
Qed.

(* hence a parent-closed loaded set stays parent-closed after loading a stable refinement *)
Definition parent_closed (r : erule) (s : list idx) : Prop := forall p p', In p s -> parent_of r p p' -> In p' s.

Theorem stable_keeps_closed d r limits pts pmap up : wf d pts -> parent_closed r pts ->
  lower_closed r pts (candidates r limits pts pmap up true) = true ->
  forall p p', (In p pts \/ In p (candidates r limits pts pmap up true)) -> parent_of r p p' ->
               In p' pts \/ In p' (candidates r limits pts pmap up true).
Proof.
  intros Hw Hcl Hc p p' [Hp|Hp] Hpar.
  - left. eapply Hcl; eauto.
  - eapply stable_parents_present; eauto.
Qed.

(* ---------- (e) level limits ---------- *)
Theorem children_within_limits d r limits pts pmap up p : wf d pts -> limits <> [] ->
  In p (candidates r limits pts pmap up false) ->
  (up = true /\ exists q dir, In q pts /\ (dir < length q)%nat /\ pmap q dir = true /\ is_missing_parent r pts q dir p) \/
  (exists q dir, In q pts /\ (dir < length q)%nat /\ pmap q dir = true /\
                 (forall m, m <> dir -> nth m p 0 = nth m q 0) /\
                 (exists k, In k (kid_numbers r) /\ nth dir p 0 = getKid r (nth dir q 0) k) /\
                 (nth dir limits (-1) = -1 \/ getLevel r (nth dir p 0) <= nth dir limits (-1))).
Proof.
  intros Hw Hl Hp. apply (candidates_spec d) in Hp; auto.
  destruct Hp as [q [dir [Hq [Hd [Hf H]]]]].
  destruct H as [[Hu H]|[_ [k [Hk [H1 [H2 [H3 H4]]]]]]].
  - left. split; [exact Hu|]. exists q, dir. auto.
  - right. exists q, dir. repeat split; auto.
    + intros m Hm. subst p. apply nth_set_nth_other. congruence.
    + exists k. split; [exact Hk|]. subst p. apply nth_set_nth. exact Hd.
    + subst p. rewrite nth_set_nth by exact Hd. unfold limit_ok in H2. destruct limits as [|l0 lr]; [congruence|].
      apply orb_true_iff in H2. destruct H2 as [H2|H2]; [left|right]; lia.
Qed.

(* ---------- hierarchy facts needed for the fuel: a parent is non-negative and at a strictly lower level ---------- *)
Lemma getLevel_nonneg r v : r <> Pwc -> 0 <= getLevel r v.
Proof.
  intros Hr. destruct r; try congruence; unfold getLevel, intlog2.
  - destruct (v =? 0); [lia|]. destruct (v =? 1); [lia|]. destruct (v - 1 <=? 0); [lia|]. pose proof (Z.log2_nonneg (v - 1)). lia.
  - destruct (v =? 0); [lia|]. destruct (v =? 1); [lia|]. destruct (v - 1 <=? 0); [lia|]. pose proof (Z.log2_nonneg (v - 1)). lia.
  - destruct (v + 1 <=? 0); [lia|]. apply Z.log2_nonneg.
  - destruct (v <=? 1); [lia|]. destruct (v - 1 <=? 0); [lia|]. pose proof (Z.log2_nonneg (v - 1)). lia.
Qed.

Lemma half_cases v : 0 <= v -> exists a, 0 <= a /\ (v = 2 * a \/ v = 2 * a + 1).
Proof. intros H. exists (v / 2). pose proof (Z.div_mod v 2). pose proof (Z.mod_pos_bound v 2). lia. Qed.

Lemma parent_level_localp v : 1 <= v ->
  let a := (let dad := Z.quot (v + 1) 2 in if v <? 4 then dad - 1 else dad) in
  0 <= a /\ getLevel Localp a < getLevel Localp v.
Proof.
  intros Hv. cbv zeta.
  assert (v = 1 \/ v = 2 \/ v = 3 \/ 4 <= v) as [->|[->|[->|H4]]] by lia; try (vm_compute; split; [discriminate|reflexivity]).
  assert (v <? 4 = false) as -> by lia.
  destruct (half_cases (v + 1)) as [a [Ha [E|E]]]; [lia| |].
  - assert (Z.quot (v + 1) 2 = a) as -> by lia.
    split; [lia|]. assert (v = 2 * a - 1) as -> by lia. unfold getLevel, intlog2.
    assert (a =? 0 = false) as -> by lia. assert (a =? 1 = false) as -> by lia. assert (a - 1 <=? 0 = false) as -> by lia.
    assert (2 * a - 1 =? 0 = false) as -> by lia. assert (2 * a - 1 =? 1 = false) as -> by lia. assert (2 * a - 1 - 1 <=? 0 = false) as -> by lia.
    replace (2 * a - 1 - 1) with (2 * a - 2) by lia. rewrite log2_2p_m2 by lia. lia.
  - assert (Z.quot (v + 1) 2 = a) as -> by lia.
    split; [lia|]. assert (v = 2 * a) as -> by lia. unfold getLevel, intlog2.
    assert (a =? 0 = false) as -> by lia. assert (a =? 1 = false) as -> by lia. assert (a - 1 <=? 0 = false) as -> by lia.
    assert (2 * a =? 0 = false) as -> by lia. assert (2 * a =? 1 = false) as -> by lia. assert (2 * a - 1 <=? 0 = false) as -> by lia.
    rewrite log2_2p_m1 by lia. lia.
Qed.

Lemma parent_level_localp0 v : 1 <= v ->
  0 <= Z.quot (v - 1) 2 /\ getLevel Localp0 (Z.quot (v - 1) 2) < getLevel Localp0 v.
Proof.
  intros Hv. destruct (half_cases (v - 1)) as [a [Ha [E|E]]]; [lia| |].
  - assert (Z.quot (v - 1) 2 = a) as -> by lia. split; [lia|]. assert (v = 2 * a + 1) as -> by lia.
    unfold getLevel, intlog2. assert (a + 1 <=? 0 = false) as -> by lia. assert (2 * a + 1 + 1 <=? 0 = false) as -> by lia.
    replace (2 * a + 1 + 1) with (2 * a + 2) by lia. rewrite log2_2p_p2 by lia. lia.
  - assert (Z.quot (v - 1) 2 = a) as -> by lia. split; [lia|]. assert (v = 2 * a + 2) as -> by lia.
    unfold getLevel, intlog2. assert (a + 1 <=? 0 = false) as -> by lia. assert (2 * a + 2 + 1 <=? 0 = false) as -> by lia.
    replace (2 * a + 2 + 1) with (2 * a + 3) by lia. rewrite log2_2p_p3 by lia. lia.
Qed.

Lemma parent_level_localpb v : 2 <= v ->
  0 <= Z.quot (v + 1) 2 /\ getLevel Localpb (Z.quot (v + 1) 2) < getLevel Localpb v.
Proof.
  intros Hv.
  assert (v = 2 \/ v = 3 \/ 4 <= v) as [->|[->|H4]] by lia; try (vm_compute; split; [discriminate|reflexivity]).
  destruct (half_cases (v + 1)) as [a [Ha [E|E]]]; [lia| |].
  - assert (Z.quot (v + 1) 2 = a) as -> by lia. split; [lia|]. assert (v = 2 * a - 1) as -> by lia. unfold getLevel, intlog2.
    assert (a <=? 1 = false) as -> by lia. assert (a - 1 <=? 0 = false) as -> by lia.
    assert (2 * a - 1 <=? 1 = false) as -> by lia. assert (2 * a - 1 - 1 <=? 0 = false) as -> by lia.
    replace (2 * a - 1 - 1) with (2 * a - 2) by lia. rewrite log2_2p_m2 by lia. lia.
  - assert (Z.quot (v + 1) 2 = a) as -> by lia. split; [lia|]. assert (v = 2 * a) as -> by lia. unfold getLevel, intlog2.
    assert (a <=? 1 = false) as -> by lia. assert (a - 1 <=? 0 = false) as -> by lia.
    assert (2 * a <=? 1 = false) as -> by lia. assert (2 * a - 1 <=? 0 = false) as -> by lia.
    rewrite log2_2p_m1 by lia. lia.
Qed.

(* every existing parent / step-parent of a point of a binary rule is a point one or more levels lower *)
Lemma parent_numbers_level r v a : binary_rule r -> 0 <= v -> In a (parent_numbers r v) -> a <> -1 ->
  0 <= a /\ getLevel r a < getLevel r v.
Proof.
  intros Hr Hv Ha Hn. unfold parent_numbers in Ha. cbn [In] in Ha.
  destruct r; try (exfalso; apply Hr; reflexivity).
  - (* localp *)
    destruct Ha as [Ha|[Ha|[]]]; [|cbn in Ha; congruence]. subst a. unfold getParent in *.
    destruct (Z.eq_dec v 0) as [->|N0]; [exfalso; apply Hn; reflexivity|]. apply parent_level_localp. lia.
  - (* semi-localp *)
    destruct Ha as [Ha|[Ha|[]]]; subst a.
    + unfold getParent in *. destruct (Z.eq_dec v 0) as [->|N0]; [exfalso; apply Hn; reflexivity|].
      change (getLevel Semilocalp) with (getLevel Localp). apply parent_level_localp. lia.
    + unfold getStepParent in *. destruct (v =? 3) eqn:E3; [assert (v = 3) as -> by lia; vm_compute; split; [discriminate|reflexivity]|].
      destruct (v =? 4) eqn:E4; [assert (v = 4) as -> by lia; vm_compute; split; [discriminate|reflexivity]|]. congruence.
  - (* localp0 *)
    destruct Ha as [Ha|[Ha|[]]]; [|cbn in Ha; congruence]. subst a. unfold getParent in *.
    destruct (v =? 0) eqn:E0; [congruence|]. apply parent_level_localp0. lia.
  - (* localpb *)
    destruct Ha as [Ha|[Ha|[]]]; subst a.
    + unfold getParent in *. destruct (v <? 2) eqn:E2; [congruence|]. apply parent_level_localpb. lia.
    + unfold getStepParent in *. destruct (v =? 2) eqn:E2; [assert (v = 2) as -> by lia; vm_compute; split; [discriminate|reflexivity]|]. congruence.
Qed.

(* ---------- the fuel of the model is sufficient (binary rules, non-negative point numbers) ---------- *)
Definition nonneg (p : idx) : Prop := Forall (fun v => 0 <= v) p.
Definition nonneg_set (s : list idx) : Prop := forall p, In p s -> nonneg p.

Lemma total_level_set_nth r : forall p dir a, (dir < length p)%nat ->
  total_level r (set_nth p dir a) = total_level r p - getLevel r (nth dir p 0) + getLevel r a.
Proof.
  unfold total_level. induction p as [|x p IH]; intros [|dir] a H; cbn [length] in H; try lia.
  - cbn. lia.
  - cbn [set_nth nth fold_right]. rewrite IH by lia. lia.
Qed.

Lemma nonneg_nth p : forall dir, nonneg p -> (dir < length p)%nat -> 0 <= nth dir p 0.
Proof.
  induction p as [|x p IH]; intros [|dir] Hn H; cbn [length] in H; try lia; inversion Hn; subst; cbn [nth]; auto.
  apply IH; auto. lia.
Qed.

Lemma nonneg_set_nth p : forall dir a, nonneg p -> 0 <= a -> nonneg (set_nth p dir a).
Proof.
  induction p as [|x p IH]; intros [|dir] a Hn Ha; cbn [set_nth]; auto; inversion Hn; subst; constructor; auto.
  apply IH; auto.
Qed.

Lemma total_level_nonneg r p : binary_rule r -> 0 <= total_level r p.
Proof.
  intros Hr. unfold total_level. induction p as [|x p IH]; cbn; [lia|]. pose proof (getLevel_nonneg r x Hr). lia.
Qed.

Lemma parent_of_level r p p' : binary_rule r -> nonneg p -> parent_of r p p' ->
  nonneg p' /\ total_level r p' < total_level r p.
Proof.
  intros Hr Hn [dir [a [Hd [Ha [Hne Hp']]]]]. subst p'.
  destruct (parent_numbers_level r (nth dir p 0) a Hr (nonneg_nth p dir Hn Hd) Ha Hne) as [H0 Hl].
  split; [apply nonneg_set_nth; auto|]. rewrite total_level_set_nth by exact Hd. lia.
Qed.

Definition missing_bound (r : erule) (mset refined : list idx) (k : Z) : Prop :=
  forall p dir a, In p refined -> (dir < length p)%nat -> In a (parent_numbers r (nth dir p 0)) -> a <> -1 ->
    mem (set_nth p dir a) refined = false -> mem (set_nth p dir a) mset = false -> total_level r p <= k.

Lemma mem_false_incl d x s1 s2 : length x = d -> wf d s1 -> wf d s2 -> (forall y, In y s1 -> In y s2) ->
  mem x s2 = false -> mem x s1 = false.
Proof.
  intros Hl W1 W2 Hi H2. destruct (mem x s1) eqn:E; [|reflexivity].
  apply (mem_In d x s1 Hl W1) in E. apply Hi in E. apply (mem_In d x s2 Hl W2) in E. congruence.
Qed.

Lemma completeToLower_closes d r mset : binary_rule r -> wf d mset -> forall fuel refined k,
  wf d refined -> sorted refined -> nonneg_set refined -> missing_bound r mset refined k -> (Z.to_nat k < fuel)%nat ->
  lower_sweep r mset (completeToLower fuel r mset refined) = [].
Proof.
  intros Hr Wm. induction fuel as [|f IH]; intros refined k Hw Hs Hnn Hb Hk; [lia|].
  cbn [completeToLower]. destruct (lower_sweep r mset refined) as [|a0 l0] eqn:E; [exact E|]. rewrite <- E.
  pose proof (lower_sweep_wf d r mset refined Hw) as Hwa.
  destruct (sort_unique_spec d _ Hwa) as [Sa [Wa Ia]].
  set (refined' := merge refined (sort_unique (lower_sweep r mset refined))).
  assert (Hw' : wf d refined') by (apply merge_wf; auto).
  assert (Hs' : sorted refined') by (eapply merge_sorted; eauto).
  assert (Hin' : forall y, In y refined' <-> In y refined \/ In y (lower_sweep r mset refined)).
  { intros y. unfold refined'. split.
    - intros H. apply merge_In in H. destruct H as [H|H]; [left; exact H|right; apply Ia; exact H].
    - intros H. eapply In_merge; eauto. destruct H as [H|H]; [left; exact H|right; apply Ia; exact H]. }
  (* some point of refined has a missing parent: k >= 1 *)
  assert (Hk1 : 1 <= k).
  { assert (In a0 (lower_sweep r mset refined)) as H0 by (rewrite E; left; reflexivity).
    apply lower_sweep_In in H0. destruct H0 as [p [dir [a [Hp [Hd [Ha [Hne [Hx [M1 M2]]]]]]]]].
    subst a0. pose proof (Hb p dir a Hp Hd Ha Hne M1 M2) as Hle.
    destruct (parent_of_level r p (set_nth p dir a) Hr (Hnn p Hp)) as [_ Hlt]; [exists dir, a; auto|].
    pose proof (total_level_nonneg r (set_nth p dir a) Hr). lia. }
  apply (IH refined' (k - 1)); auto; [| |lia].
  - intros y Hy. apply Hin' in Hy. destruct Hy as [Hy|Hy]; [apply Hnn; exact Hy|].
    apply lower_sweep_In in Hy. destruct Hy as [p [dir [a [Hp [Hd [Ha [Hne [Hx _]]]]]]]].
    apply (parent_of_level r p y Hr (Hnn p Hp)). exists dir, a. auto.
  - intros p dir a Hp Hd Ha Hne M1 M2. apply Hin' in Hp.
    assert (Hlp : length p = d).
    { destruct Hp as [Hp|Hp]; [unfold wf in Hw; rewrite Forall_forall in Hw; auto|unfold wf in Hwa; rewrite Forall_forall in Hwa; auto]. }
    assert (Hlx : length (set_nth p dir a) = d) by (rewrite set_nth_length; exact Hlp).
    destruct Hp as [Hp|Hp].
    + (* an old point: its missing parent was added by this pass *)
      exfalso. assert (In (set_nth p dir a) (lower_sweep r mset refined)) as Hin.
      { apply lower_sweep_In. exists p, dir, a. repeat split; auto.
        apply (mem_false_incl d _ refined refined'); auto. intros y Hy. apply Hin'. left. exact Hy. }
      assert (In (set_nth p dir a) refined') as Hin2 by (apply Hin'; right; exact Hin).
      apply (mem_In d _ refined' Hlx Hw') in Hin2. congruence.
    + (* a point added by this pass: one level below a point that had a missing parent *)
      apply lower_sweep_In in Hp. destruct Hp as [p0 [dir0 [a0' [Hp0 [Hd0 [Ha0 [Hne0 [Hx0 [N1 N2]]]]]]]]].
      subst p. pose proof (Hb p0 dir0 a0' Hp0 Hd0 Ha0 Hne0 N1 N2) as Hle.
      destruct (parent_of_level r p0 (set_nth p0 dir0 a0') Hr (Hnn p0 Hp0)) as [_ Hlt]; [exists dir0, a0'; auto|]. lia.
Qed.

Lemma total_level_le_max r s p : In p s -> total_level r p <= fold_right (fun p acc => Z.max (total_level r p) acc) 0 s.
Proof. induction s as [|q s IH]; intros H; [destruct H|]. cbn. destruct H as [->|H]; [lia|]. apply IH in H. lia. Qed.

Lemma getKid_nonneg r v k : binary_rule r -> 0 <= v -> In k (kid_numbers r) -> getKid r v k <> -1 -> 0 <= getKid r v k.
Proof.
  intros Hr Hv Hk Hn. assert (k = 0 \/ k = 1) as Hk01.
  { destruct r; try (exfalso; apply Hr; reflexivity); vm_compute in Hk; intuition lia. }
  destruct r; try (exfalso; apply Hr; reflexivity); unfold getKid in *;
    destruct Hk01 as [-> | ->]; cbn [Z.eqb] in *;
    repeat match goal with
           | |- context [if ?b then _ else _] => destruct b eqn:?
           | H : context [if ?b then _ else _] |- _ => destruct b eqn:?
           end; lia.
Qed.

Lemma proposed_nonneg r limits pts pmap up p : binary_rule r -> nonneg_set pts -> proposed r limits pts pmap up p -> nonneg p.
Proof.
  intros Hr Hnn [q [dir [Hq [Hd [_ H]]]]]. pose proof (nonneg_nth q dir (Hnn q Hq) Hd) as Hv.
  destruct H as [[_ [a [Ha [Hne [Hp _]]]]]|[_ [k [Hk [Hne [_ [Hp _]]]]]]]; subst p; apply nonneg_set_nth; auto.
  - apply (parent_numbers_level r (nth dir q 0) a Hr Hv Ha Hne).
  - apply getKid_nonneg; auto.
Qed.

(* for the four binary rules the loop of completeToLower always stops by itself within the model's fuel *)
Theorem stable_fuel_sufficient d r limits pts pmap up : binary_rule r -> wf d pts -> nonneg_set pts ->
  lower_closed r pts (candidates r limits pts pmap up true) = true.
Proof.
  intros Hr Hw Hnn. destruct (candidates_spec d r limits pts pmap up Hw) as [S0 [W0 I0]].
  unfold lower_closed, candidates in *.
  set (result := sort_unique (raw_candidates r limits pts pmap up)) in *.
  rewrite (completeToLower_closes d r pts Hr Hw (lower_fuel r result) result
             (fold_right (fun p acc => Z.max (total_level r p) acc) 0 result)); auto.
  - intros p Hp. apply (proposed_nonneg r limits pts pmap up); auto. apply I0. exact Hp.
  - intros p dir a Hp _ _ _ _ _. apply total_level_le_max. exact Hp.
  - unfold lower_fuel. lia.
Qed.

Theorem stable_parents_present_binary d r limits pts pmap up : binary_rule r -> wf d pts -> nonneg_set pts ->
  forall p p', In p (candidates r limits pts pmap up true) -> parent_of r p p' ->
               In p' pts \/ In p' (candidates r limits pts pmap up true).
Proof.
  intros Hr Hw Hnn. apply (stable_parents_present d); auto. apply (stable_fuel_sufficient d); auto.
Qed.
