(* Invariants of the points/needed/values machine over all histories (C07, C01 value association). *)
From TV Require Import Common.Prelude Model.IndexSets Model.GridState Proofs.IndexSetsProofs.

Section GridStateProofs.
  Variable V : Type.
  Variable vzero : V.
  Variable d : nat.    (* number of dimensions *)

  Notation gstate := (gstate V).
  Notation step := (step V vzero).
  Notation run := (run V vzero).

  Definition Inv (st : gstate) : Prop :=
    wf d (points st) /\ wf d (needed st) /\ sorted (points st) /\ sorted (needed st) /\
    (forall x, In x (points st) -> ~ In x (needed st)) /\
    length (values st) = length (points st).

  (* what the caller must respect: value arrays of the documented size, candidate sets are sets *)
  Definition op_ok (st : gstate) (o : op V) : Prop :=
    match o with
    | Load vals => length vals = match needed st with [] => length (points st) | _ => length (needed st) end
    | Propose cand => wf d cand /\ sorted cand
    | Clear | Merge => True
    end.

  Fixpoint ops_ok (st : gstate) (ops : list (op V)) : Prop :=
    match ops with
    | [] => True
    | o :: r => op_ok st o /\ ops_ok (step st o) r
    end.

  Lemma merge_length_disjoint a : forall b, wf d a -> wf d b -> sorted a -> sorted b ->
    (forall x, In x a -> ~ In x b) -> length (merge a b) = (length a + length b)%nat.
  Proof.
    induction a as [|p a IHa]; intros b Ha Hb Sa Sb Hd; [cbn; destruct b; reflexivity|].
    induction b as [|q b IHb]; [cbn; lia|].
    pose proof (Forall_inv Ha) as Hp. pose proof (Forall_inv_tail Ha) as Ha'. cbn beta in Hp.
    pose proof (Forall_inv Hb) as Hq. pose proof (Forall_inv_tail Hb) as Hb'. cbn beta in Hq.
    pose proof Sa as Sa0. pose proof Sb as Sb0.
    apply sorted_cons_inv in Sa. destruct Sa as [Sa Pa]. apply sorted_cons_inv in Sb. destruct Sb as [Sb Pb].
    rewrite merge_cons. destruct (cmp_total_cases p q) as [[E1 E2]|[[E1 E2]|[E1 E2]]]; [lia| | |]; rewrite E1.
    - cbn [length]. rewrite (IHa (q :: b) Ha' Hb Sa Sb0); [cbn [length]; lia|].
      intros x Hx. apply Hd. right. exact Hx.
    - cbn [length]. rewrite (IHb Hb' Sb); [cbn [length]; lia|].
      intros x Hx Hx2. apply (Hd x Hx). right. exact Hx2.
    - exfalso. subst q. apply (Hd p); left; reflexivity.
  Qed.

  Theorem step_inv st o : Inv st -> op_ok st o -> Inv (step st o).
  Proof.
    intros [Wp [Wn [Sp [Sn [Dis Len]]]]] Hok. destruct o as [vals|cand| |]; cbn [GridState.step].
    - (* Load *)
      cbn [op_ok] in Hok. destruct (needed st) as [|n nd] eqn:En.
      + unfold Inv; cbn. repeat split; auto; try constructor. 
      + destruct (points st) as [|p pt] eqn:Ep.
        * unfold Inv; cbn. repeat split; auto; try constructor.
        * unfold Inv; cbn [points needed values]. repeat split; try constructor.
          -- apply merge_wf; assumption.
          -- eapply merge_sorted; eauto.
          -- intros x _ [].
          -- rewrite addValues_length; [|exact Len|exact Hok].
             rewrite (merge_length_disjoint (p :: pt) (n :: nd)); auto.
    - (* Propose *)
      destruct Hok as [Wc Sc]. unfold Inv; cbn [points needed values]. repeat split; auto.
      + apply diff_wf. exact Wc.
      + apply diff_sorted. exact Sc.
      + intros x Hx Hx2. apply (diff_spec d cand (points st) x Wc Wp Sc Sp) in Hx2. tauto.
    - (* Clear *)
      unfold Inv; cbn. repeat split; auto; constructor.
    - (* Merge *)
      destruct (needed st) as [|n nd] eqn:En.
      + unfold Inv. rewrite En. repeat split; auto.
      + unfold Inv; cbn [points needed values]. repeat split; try constructor.
        * apply merge_wf; assumption.
        * eapply merge_sorted; eauto.
        * intros x _ [].
        * rewrite repeat_length. rewrite (merge_length_disjoint (points st) (n :: nd)); auto.
  Qed.

  (* the invariant holds in every state reachable by any history of valid calls *)
  Theorem run_inv ops : forall st, Inv st -> ops_ok st ops -> Inv (run st ops).
  Proof.
    induction ops as [|o r IH]; intros st Hi Hok; [exact Hi|].
    destruct Hok as [H1 H2]. cbn [GridState.run fold_left]. apply IH; [apply step_inv; assumption|exact H2].
  Qed.

  (* loading makes exactly the needed points loaded, never removes a loaded point, and every value
     stays attached to the index it was supplied for *)
  Theorem load_exact st vals : Inv st -> op_ok st (Load vals) -> needed st <> [] ->
    let st' := step st (Load vals) in
    needed st' = [] /\
    (forall x, In x (points st') <-> In x (points st) \/ In x (needed st)) /\
    (forall p, length p = d ->
       value_at V st' p = match lookup V (needed st) vals p with Some v => Some v | None => value_at V st p end).
  Proof.
    intros [Wp [Wn [Sp [Sn [Dis Len]]]]] Hok Hne. cbn zeta. cbn [GridState.step]. cbn [op_ok] in Hok.
    destruct (needed st) as [|n nd] eqn:En; [congruence|].
    destruct (points st) as [|p pt] eqn:Ep.
    - cbn [points needed values]. unfold value_at. rewrite Ep. cbn [points values].
      split; [reflexivity|]. split; [intros x; cbn [In]; tauto|].
      intros q Hq. destruct (lookup V (n :: nd) vals q); reflexivity.
    - cbn [points needed values]. split; [reflexivity|]. split.
      + intros x. split; [apply merge_In|apply (In_merge d); assumption].
      + intros q Hq. unfold value_at. rewrite Ep. cbn [points values].
        apply (addValues_lookup V vzero d); auto.
  Qed.

  (* refinement proposals, clearRefinement: loaded points and values untouched *)
  Theorem propose_preserves st cand : points (step st (Propose cand)) = points st /\ values (step st (Propose cand)) = values st.
  Proof. split; reflexivity. Qed.

  Theorem clear_only_needed st : points (step st Clear) = points st /\ values (step st Clear) = values st /\ needed (step st Clear) = [].
  Proof. repeat split; reflexivity. Qed.

  (* overwriting reload: same points, the new values *)
  Theorem reload_overwrites st vals : needed st = [] ->
    points (step st (Load vals)) = points st /\ values (step st (Load vals)) = vals.
  Proof. intros H. cbn [GridState.step]. rewrite H. split; reflexivity. Qed.

  (* the loaded set never shrinks along any history *)
  Theorem loaded_monotone ops : forall st, Inv st -> ops_ok st ops ->
    forall x, In x (points st) -> In x (points (run st ops)).
  Proof.
    induction ops as [|o r IH]; intros st Hi Hok x Hx; [exact Hx|].
    destruct Hok as [H1 H2]. cbn [GridState.run fold_left]. apply IH; [apply step_inv; assumption|exact H2|].
    destruct Hi as [Wp [Wn [Sp [Sn [Dis Len]]]]].
    destruct o as [vals|cand| |]; cbn [GridState.step]; try exact Hx.
    - destruct (needed st) as [|n nd] eqn:En; [exact Hx|]. destruct (points st) as [|p pt] eqn:Ep; [destruct Hx|].
      cbn [points]. apply (In_merge d); auto.
    - destruct (needed st) as [|n nd] eqn:En; [exact Hx|]. cbn [points]. apply (In_merge d); auto.
  Qed.
End GridStateProofs.
