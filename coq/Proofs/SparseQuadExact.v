(* Sparse (combination-technique) quadrature built from INTERPOLATORY one-dimensional rules is exact on the declared
   polynomial space, unconditionally and for arbitrary weight functions: `comb_exact` (CombinationProofs.v) instantiated with
   the field Qc, where the one-dimensional exactness premise (`exact1d` of Properties_C02.c02_combination_exact) is
   DISCHARGED by `interp_quad_exact` (InterpQuadExact.v).  No axioms.
   The one-dimensional rule of dimension j at level l has nodes `nodes j l` (pairwise distinct, S (m l) of them) and the
   interpolatory weights `weights (mu j) (nodes j l)` for the moment functional `mu j` of dimension j (mu j k = the integral
   of t^k against the weight function of dimension j).                                                                        *)
From TV Require Import Common.Prelude Proofs.CombinationProofs Proofs.LagrangeExact Proofs.InterpQuadExact
                       Proofs.SparseInterpExact.
From Coq Require Import QArith Qcanon Ring.
Local Open Scope nat_scope.

Section SparseQuad.
  (* nodes j l : the one-dimensional nodes of dimension j at level l *)
  Variable nodes : nat -> nat -> list Qc.
  (* m l : degree of exactness of level l = (number of nodes) - 1, the same in every dimension *)
  Variable m : nat -> nat.
  Hypothesis nodes_nodup : forall j l, NoDup (nodes j l).
  Hypothesis nodes_len : forall j l, length (nodes j l) = S (m l).
  Hypothesis m_mono : forall l, m l <= m (S l).
  (* mu j k : the k-th moment of the weight function of dimension j *)
  Variable mu : nat -> nat -> Qc.

  (* the level-l rule of dimension j applied to the monomial t^k:  sum_i w_i * x_i^k *)
  Definition quad_u (j l k : nat) : Qc :=
    qsum (map (fun i => Qcmult (nth i (weights (mu j) (nodes j l)) (Q2Qc 0)) (Qcpower (nth i (nodes j l) (Q2Qc 0)) k))
              (seq 0 (length (nodes j l)))).
  (* the exact integral of t^k in dimension j *)
  Definition quad_I (j k : nat) : Qc := mu j k.

  Lemma quad_exact1d : forall j l k, k <= m l -> quad_u j l k = quad_I j k.
  Proof.
    intros j l k Hk. unfold quad_u, quad_I.
    apply (interp_quad_exact (mu j) (nodes j l) (nodes_nodup j l) k). rewrite nodes_len. lia.
  Qed.

  Theorem sparse_interp_quadrature_exact : forall d Theta, NoDup Theta -> (forall t, In t Theta -> length t = d) -> lower Theta ->
    forall k s, In s Theta -> length k = d -> Forall2 (fun kj sj => kj <= m sj) k s ->
      sumf Qc (Q2Qc 0) Qcplus Theta (fun t => dprod Qc (Q2Qc 1) Qcmult Qcminus quad_u 0 t k)
      = iprod Qc (Q2Qc 1) Qcmult quad_I 0 k.
  Proof.
    intros d Theta ND Hlen Hlow.
    exact (comb_exact Qc (Q2Qc 0) (Q2Qc 1) Qcplus Qcmult Qcminus Qcopp Qcrt quad_u quad_I m m_mono quad_exact1d
                      d Theta ND Hlen Hlow).
  Qed.

  (* in particular the sparse weights sum to the measure of the domain (k = 0, any non-empty lower set) *)
  Corollary sparse_interp_quadrature_measure : forall d Theta, NoDup Theta -> (forall t, In t Theta -> length t = d) -> lower Theta ->
    forall s, In s Theta ->
      sumf Qc (Q2Qc 0) Qcplus Theta (fun t => dprod Qc (Q2Qc 1) Qcmult Qcminus quad_u 0 t (repeat 0 d))
      = iprod Qc (Q2Qc 1) Qcmult quad_I 0 (repeat 0 d).
  Proof.
    intros d Theta ND Hlen Hlow s Hs.
    apply (sparse_interp_quadrature_exact d Theta ND Hlen Hlow (repeat 0 d) s Hs); [apply repeat_length|].
    rewrite <- (Hlen s Hs). clear. induction s as [|a s IH]; cbn; constructor; [lia|exact IH].
  Qed.
End SparseQuad.

(* ---------- non-vacuity: the nested 1/3/5-node levels of SparseInterpExact (ex_nodes, ex_m), d = 2,
   Theta = [[0;0];[1;0];[0;1]]; dimension 0 carries the Legendre weight on [-1,1], dimension 1 the uniform weight on [0,1] *)
Definition exq_mu (j k : nat) : Qc := match j with 0 => legendre_mu k | _ => unit_mu k end.

(* x^2 (degree (2,0), covered by the level (1,0)) is integrated exactly - by the theorem *)
Example sparse_quad_by_theorem :
  sumf Qc (Q2Qc 0) Qcplus ex_Theta (fun t => dprod Qc (Q2Qc 1) Qcmult Qcminus (quad_u ex_nodes exq_mu) 0 t [2;0])
  = iprod Qc (Q2Qc 1) Qcmult (quad_I exq_mu) 0 [2;0].
Proof.
  apply (sparse_interp_quadrature_exact ex_nodes ex_m ex_nodes_nodup ex_nodes_len ex_m_mono exq_mu 2 ex_Theta
           ex_Theta_nodup ex_Theta_len ex_Theta_lower [2;0] [1;0]).
  - right; left; reflexivity.
  - reflexivity.
  - repeat constructor.
Qed.

(* the same by computation, with the concrete value (integral of x^2 over [-1,1]) * (integral of 1 over [0,1]) = 2/3 *)
Example sparse_quad_by_computation :
  sumf Qc (Q2Qc 0) Qcplus ex_Theta (fun t => dprod Qc (Q2Qc 1) Qcmult Qcminus (quad_u ex_nodes exq_mu) 0 t [2;0]) = qc 2 3.
Proof. apply Qc_is_canon. vm_compute. reflexivity. Qed.

(* y^2 (degree (0,2), covered by the level (0,1)): 2 * 1/3 = 2/3 *)
Example sparse_quad_y2 :
  sumf Qc (Q2Qc 0) Qcplus ex_Theta (fun t => dprod Qc (Q2Qc 1) Qcmult Qcminus (quad_u ex_nodes exq_mu) 0 t [0;2]) = qc 2 3.
Proof. apply Qc_is_canon. vm_compute. reflexivity. Qed.

(* the constant: the sparse weights sum to the measure of the domain 2 * 1 = 2 *)
Example sparse_quad_measure :
  sumf Qc (Q2Qc 0) Qcplus ex_Theta (fun t => dprod Qc (Q2Qc 1) Qcmult Qcminus (quad_u ex_nodes exq_mu) 0 t [0;0]) = qc 2 1.
Proof. apply Qc_is_canon. vm_compute. reflexivity. Qed.

(* the space restriction is not vacuous (x*y would not do as a witness: it is integrated exactly by the symmetry of the
   nodes): x^2 y^2 (degree (2,2)) is outside the declared space of this Theta and is NOT
   integrated exactly (the sparse rule returns 0, the integral is 2/3 * 1/3 = 2/9) *)
Example sparse_quad_outside_space :
  sumf Qc (Q2Qc 0) Qcplus ex_Theta (fun t => dprod Qc (Q2Qc 1) Qcmult Qcminus (quad_u ex_nodes exq_mu) 0 t [2;2])
  <> iprod Qc (Q2Qc 1) Qcmult (quad_I exq_mu) 0 [2;2].
Proof. qc_neq. Qed.

Example sparse_quad_outside_space_value :
  iprod Qc (Q2Qc 1) Qcmult (quad_I exq_mu) 0 [2;2] = qc 2 9.
Proof. apply Qc_is_canon. vm_compute. reflexivity. Qed.

Print Assumptions sparse_interp_quadrature_exact.
Print Assumptions sparse_quad_by_theorem.
