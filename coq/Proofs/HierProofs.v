(* Proofs about the generic hierarchical interpolation model (M-D): reproduction of the nodal values,
   uniqueness of the coefficients, the dual (weights) identity. *)
From TV Require Import Common.Prelude Model.Hier.
From Coq Require Import Ring.

Section HierProofs.
  Variable R : Type.
  Variables (rO rI : R) (radd rmul rsub : R -> R -> R) (ropp : R -> R).
  Hypothesis Rth : ring_theory rO rI radd rmul rsub ropp eq.
  Add Ring Rring : Rth.
  Infix "+" := radd. Infix "*" := rmul. Infix "-" := rsub.

  Variable I : Type.
  Variable ieqb : I -> I -> bool.
  Hypothesis ieqb_spec : forall a b, reflect (a = b) (ieqb a b).

  Variable B : I -> I -> R.
  Variable reach : I -> list I.
  Variable v : I -> R.

  Notation lookup := (lookup R rO I ieqb).
  Notation sum := (sum R rO radd I).
  Notation surp1 := (surp1 R rO radd rmul rsub I ieqb B reach v).
  Notation forward := (forward R rO radd rmul rsub I ieqb B reach v).

  Lemma sum_ext l f g : (forall x, In x l -> f x = g x) -> sum l f = sum l g.
  Proof. induction l as [|a l IH]; cbn; intros H; [reflexivity|]. rewrite H by (left; reflexivity). rewrite IH; [reflexivity|]. intros; apply H; right; auto. Qed.
  Lemma sum_zero l f : (forall x, In x l -> f x = rO) -> sum l f = rO.
  Proof. induction l as [|a l IH]; cbn; intros H; [reflexivity|]. rewrite H by (left; reflexivity). rewrite IH; [ring|]. intros; apply H; right; auto. Qed.
  Lemma sum_app l1 l2 f : sum (l1 ++ l2) f = sum l1 f + sum l2 f.
  Proof. induction l1 as [|a l IH]; cbn; [ring|]. rewrite IH. ring. Qed.

  Lemma forward_fst acc todo : map fst (forward acc todo) = rev todo ++ map fst acc.
  Proof. revert acc; induction todo as [|i r IH]; intros acc; cbn; [reflexivity|]. rewrite IH. cbn. rewrite <- app_assoc. reflexivity. Qed.
  Lemma forward_app l1 l2 acc : forward acc (l1 ++ l2) = forward (forward acc l1) l2.
  Proof. revert acc; induction l1 as [|a l1 IH]; intros; cbn; [reflexivity|apply IH]. Qed.

  Lemma forward_lookup_old acc todo x : ~ In x todo -> lookup x (forward acc todo) = lookup x acc.
  Proof.
    revert acc; induction todo as [|i r IH]; intros acc Hn; cbn; [reflexivity|].
    rewrite IH by (intro; apply Hn; right; auto). cbn.
    destruct (ieqb_spec x i); [subst; exfalso; apply Hn; left; reflexivity| reflexivity].
  Qed.

  Variable nodes : list I.
  Hypothesis nodes_nodup : NoDup nodes.
  Hypothesis G1 : forall i, In i nodes -> B i i = rI.
  Hypothesis reach_nodup : forall i, In i nodes -> NoDup (reach i).
  Hypothesis reach_in : forall i j, In i nodes -> In j (reach i) -> In j nodes /\ j <> i.
  Hypothesis G2 : forall i j, In i nodes -> In j nodes -> j <> i -> ~ In j (reach i) -> B i j = rO.
  Hypothesis topo : forall pre i post, nodes = pre ++ i :: post -> forall j, In j (reach i) -> In j pre.

  Notation coef := (coef R rO radd rmul rsub I ieqb B reach v nodes).

  Lemma notin_post (pre : list I) (i : I) (post : list I) (j : I) : NoDup (pre ++ i :: post) -> In j pre -> ~ In j (i :: post).
  Proof.
    induction pre as [|a pre IH]; cbn; intros Hnd Hj; [contradiction|].
    inversion Hnd as [|? ? Hna Hnd']; subst. destruct Hj as [->|Hj]; [|apply IH; auto].
    intro Hc. apply Hna. apply in_or_app. right. exact Hc.
  Qed.

  Lemma coef_at pre i post : nodes = pre ++ i :: post ->
     lookup i coef = v i - sum (reach i) (fun j => B i j * lookup j coef).
  Proof.
    intros E. unfold Hier.coef. rewrite E, forward_app. cbn [forward].
    set (acc := forward [] pre).
    assert (Hnd: NoDup (pre ++ i :: post)) by (rewrite <- E; exact nodes_nodup).
    assert (Hi: In i nodes) by (rewrite E; apply in_or_app; right; left; reflexivity).
    assert (Hipost: ~ In i post).
    { clear -Hnd. induction pre as [|a pre IH]; cbn in Hnd; inversion Hnd; subst; auto. }
    rewrite (forward_lookup_old _ post i Hipost). cbn [lookup].
    destruct (ieqb_spec i i) as [_|]; [|congruence].
    unfold surp1. f_equal. apply sum_ext. intros j Hj. f_equal.
    assert (Hjpre: In j pre) by (eapply topo; eauto).
    pose proof (notin_post pre i post j Hnd Hjpre) as Hnj.
    rewrite forward_lookup_old by (intro; apply Hnj; right; auto).
    cbn [lookup]. destruct (ieqb_spec j i) as [->|]; [exfalso; apply Hnj; left; reflexivity|reflexivity].
  Qed.

  (* splitting a sum over a NoDup list along a NoDup sub-list *)
  Fixpoint remove_all (l rm : list I) : list I :=
    match l with [] => [] | x :: r => if existsb (ieqb x) rm then remove_all r rm else x :: remove_all r rm end.

  Lemma existsb_In x l : existsb (ieqb x) l = true <-> In x l.
  Proof. rewrite existsb_exists. split; [intros [y [Hy He]]; destruct (ieqb_spec x y); [subst; auto|discriminate] | intros H; exists x; split; auto; destruct (ieqb_spec x x); congruence]. Qed.

  Lemma sum_split l sub f : NoDup l -> NoDup sub -> (forall x, In x sub -> In x l) ->
     sum l f = sum sub f + sum (remove_all l sub) f.
  Proof.
    revert sub. induction l as [|a l IH]; intros sub Hl Hs Hin.
    - destruct sub as [|b sub]; cbn; [ring|]. exfalso. apply (Hin b). left; reflexivity.
    - inversion Hl as [|? ? Hna Hl']; subst. cbn [remove_all].
      destruct (existsb (ieqb a) sub) eqn:Ea.
      + apply existsb_In in Ea. apply in_split in Ea. destruct Ea as [s1 [s2 ->]].
        assert (Hs': NoDup (s1 ++ s2)) by (eapply NoDup_remove_1; eauto).
        assert (Hna': ~ In a (s1 ++ s2)) by (eapply NoDup_remove_2; eauto).
        cbn [sum]. rewrite (IH (s1 ++ s2) Hl' Hs').
        * rewrite !sum_app. cbn [sum].
          assert (Er: remove_all l (s1 ++ a :: s2) = remove_all l (s1 ++ s2)).
          { clear -Hna ieqb_spec. induction l as [|b l IHl]; cbn; [reflexivity|].
            assert (Hb: b <> a) by (intro; subst; apply Hna; left; reflexivity).
            assert (Hx: existsb (ieqb b) (s1 ++ a :: s2) = existsb (ieqb b) (s1 ++ s2)).
            { rewrite !existsb_app. cbn. destruct (ieqb_spec b a); [congruence|reflexivity]. }
            rewrite Hx. rewrite IHl by (intro; apply Hna; right; auto). reflexivity. }
          rewrite Er. ring.
        * intros x Hx. assert (In x (s1 ++ a :: s2)) by (apply in_app_or in Hx; apply in_or_app; destruct Hx; [left|right; right]; auto).
          destruct (Hin x H) as [->|]; [contradiction|assumption].
      + cbn [sum]. rewrite (IH sub Hl' Hs).
        * ring.
        * intros x Hx. destruct (Hin x Hx) as [->|]; [|assumption].
          exfalso. apply existsb_In in Hx. congruence.
  Qed.

  Lemma remove_all_In x l rm : In x (remove_all l rm) -> In x l /\ ~ In x rm.
  Proof.
    induction l as [|a l IH]; cbn [remove_all]; intros Hx; [contradiction|].
    destruct (existsb (ieqb a) rm) eqn:Ea.
    - destruct (IH Hx); split; [right|]; auto.
    - destruct Hx as [->|Hx].
      + split; [left; reflexivity|]. intro Hc. apply existsb_In in Hc. congruence.
      + destruct (IH Hx); split; [right|]; auto.
  Qed.

  Theorem hier_reproduces i : In i nodes ->
     sum nodes (fun j => B i j * lookup j coef) = v i.
  Proof.
    intros Hi. destruct (in_split _ _ Hi) as [pre [post E]].
    rewrite (sum_split nodes (i :: reach i)).
    - cbn [sum]. rewrite G1 by exact Hi. rewrite (coef_at pre i post E).
      rewrite (sum_zero (remove_all nodes (i :: reach i))).
      + ring.
      + intros x Hx.
        assert (Hxn: In x nodes /\ ~ In x (i :: reach i)) by (apply remove_all_In; exact Hx).
        destruct Hxn as [Hxn Hxni].
        rewrite (G2 i x Hi Hxn); [ring| |]; intro; apply Hxni; [left; congruence|right; assumption].
    - exact nodes_nodup.
    - constructor; [intro Hc; destruct (reach_in i i Hi Hc); congruence | apply reach_nodup; exact Hi].
    - intros x [->|Hx]; [exact Hi| apply (reach_in i x Hi Hx)].
  Qed.

  (* ---- expansion of one row of the (unit lower triangular) basis matrix ---- *)
  Lemma row_expand (c : I -> R) i : In i nodes ->
    sum nodes (fun j => B i j * c j) = c i + sum (reach i) (fun j => B i j * c j).
  Proof.
    intros Hi. rewrite (sum_split nodes (i :: reach i)).
    - cbn [Hier.sum]. rewrite G1 by exact Hi.
      rewrite (sum_zero (remove_all nodes (i :: reach i))).
      + ring.
      + intros x Hx.
        assert (Hxn: In x nodes /\ ~ In x (i :: reach i)) by (apply remove_all_In; exact Hx).
        destruct Hxn as [Hxn Hxni].
        rewrite (G2 i x Hi Hxn); [ring| |]; intro; apply Hxni; [left; congruence|right; assumption].
    - exact nodes_nodup.
    - constructor; [intro Hc; destruct (reach_in i i Hi Hc); congruence | apply reach_nodup; exact Hi].
    - intros x [->|Hx]; [exact Hi| apply (reach_in i x Hi Hx)].
  Qed.

  (* ---- uniqueness: two coefficient vectors that reproduce the same values are equal ---- *)
  Theorem hier_unique (c1 c2 : I -> R) :
    (forall i, In i nodes -> sum nodes (fun j => B i j * c1 j) = v i) ->
    (forall i, In i nodes -> sum nodes (fun j => B i j * c2 j) = v i) ->
    forall i, In i nodes -> c1 i = c2 i.
  Proof.
    intros H1 H2.
    assert (Hn : forall n pre i post, length pre = n -> nodes = pre ++ i :: post -> c1 i = c2 i).
    { induction n as [n IH] using lt_wf_ind. intros pre i post Hl E.
      assert (Hi : In i nodes) by (rewrite E; apply in_or_app; right; left; reflexivity).
      pose proof (H1 i Hi) as E1. pose proof (H2 i Hi) as E2.
      rewrite row_expand in E1, E2 by exact Hi.
      assert (Es : sum (reach i) (fun j => B i j * c1 j) = sum (reach i) (fun j => B i j * c2 j)).
      { apply sum_ext. intros j Hj. f_equal.
        assert (Hjp : In j pre) by (eapply topo; eauto).
        destruct (in_split _ _ Hjp) as [p1 [p2 Ep]].
        apply (IH (length p1)) with (pre := p1) (post := p2 ++ i :: post); [|reflexivity|].
        - subst pre n. rewrite app_length. cbn. lia.
        - rewrite E, Ep. rewrite <- app_assoc. reflexivity. }
      rewrite Es in E1.
      assert (c1 i = v i - sum (reach i) (fun j => B i j * c2 j)) as -> by (rewrite <- E1; ring).
      rewrite <- E2. ring. }
    intros i Hi. destruct (in_split _ _ Hi) as [pre [post E]]. exact (Hn (length pre) pre i post eq_refl E).
  Qed.

  (* ---- the dual identity behind "weights times values": if w solves the transposed system for the right-hand
          side b and c reproduces v, then  sum_i w_i v_i = sum_j b_j c_j  ---- *)
  Lemma sum_scale l (a : R) f : a * sum l f = sum l (fun x => a * f x).
  Proof. induction l as [|x l IH]; cbn; [ring|]. rewrite <- IH. ring. Qed.

  Lemma sum_scale_r l (a : R) f : sum l f * a = sum l (fun x => f x * a).
  Proof. induction l as [|x l IH]; cbn; [ring|]. rewrite <- IH. ring. Qed.

  Lemma sum_add l f g : sum l (fun x => f x + g x) = sum l f + sum l g.
  Proof. induction l as [|x l IH]; cbn; [ring|]. rewrite IH. ring. Qed.

  Lemma sum_swap l1 l2 (f : I -> I -> R) :
    sum l1 (fun i => sum l2 (fun j => f i j)) = sum l2 (fun j => sum l1 (fun i => f i j)).
  Proof.
    induction l1 as [|a l1 IH]; cbn.
    - symmetry. apply sum_zero. intros; reflexivity.
    - rewrite IH. rewrite <- sum_add. reflexivity.
  Qed.

  Theorem dual_identity (w c b : I -> R) :
    (forall j, In j nodes -> sum nodes (fun i => w i * B i j) = b j) ->
    (forall i, In i nodes -> sum nodes (fun j => B i j * c j) = v i) ->
    sum nodes (fun i => w i * v i) = sum nodes (fun j => b j * c j).
  Proof.
    intros Hw Hc.
    rewrite (sum_ext nodes (fun i => w i * v i) (fun i => sum nodes (fun j => (w i * B i j) * c j))).
    - rewrite sum_swap. apply sum_ext. intros j Hj. rewrite <- (Hw j Hj).
      rewrite sum_scale_r. reflexivity.
    - intros i Hi. rewrite <- (Hc i Hi). rewrite sum_scale. apply sum_ext. intros; ring.
  Qed.

  (* the interpolant at the node of i equals the supplied value (hier_reproduces restated for [interp]) *)
  Theorem interp_at_node i : In i nodes ->
    interp R rO radd rmul rsub I ieqb B reach v nodes (fun j => B i j) = v i.
  Proof. intros Hi. unfold interp. cbv zeta. apply hier_reproduces. exact Hi. Qed.
End HierProofs.
