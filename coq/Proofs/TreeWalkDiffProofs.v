(* Proofs about the derivative modes of the evaluation-tree walk (Model/TreeWalkDiff.v), C05 tree walk:
   1. one dimension: isSupported of diffSupport implies isSupported of evalSupport; both returned values are 0 outside the
      closed support;
   2. diffBasisSupported: its flag is "SOME direction supported" (supp_any; evalBasisSupported: EVERY direction, supp_all);
      its vector is the dense gradient, each entry the product-rule expression, the zero vector when some direction is not
      supported;
   3. supp_any is nested along the edges of computeDAGDown, hence the derivative walk visits exactly the supp_any points;
   4. mode 3 sum = dense sum, sparse gradient row = dense gradient row, relation to the value walk of Model/TreeWalk.v. *)
From TV Require Import Common.Prelude Model.IndexSets Model.RuleLocal Model.Selection Model.LocalGrid Model.TreeWalk Model.Diff Model.TreeWalkDiff.
From TV Require Import Proofs.RuleLocalProofs Proofs.TreeWalkProofs Proofs.DiffProofs.
From Coq Require Import QArith Qabs Lqa Permutation.
Local Open Scope nat_scope.

(* ------------------------------------------------------------------------------------------------------------ *)
(* 1. one-dimensional facts *)

Lemma diff_supported_le1 x xn : diff_supported x xn = true -> Qabs_le_1 xn = true.
Proof.
  unfold diff_supported. intros H. apply Qabs_le_1_iff. apply orb_true_iff in H. destruct H as [H|H]; apply andb_true_iff in H; destruct H as [H1 H2].
  - apply Qle_bool_iff in H1. apply negb_true_iff in H2. split; [exact H1|].
    destruct (Qlt_le_dec xn 1) as [L|G]; [apply Qlt_le_weak; exact L|]. apply Qle_bool_iff in G. congruence.
  - apply Qeq_bool_iff in H2. rewrite H2. split; lra.
Qed.

(* the flag of diffSupport implies the flag of evalSupport (all five rules) *)
Lemma diff_flag_eval_flag r o p x : snd (diffSupport r o p x) = true -> supp1 r o p x = true.
Proof.
  unfold supp1. destruct r; unfold diffSupport, evalSupport.
  - discriminate.
  - destruct (p =? 0)%Z; [reflexivity|]. destruct (diff_supported x _) eqn:E; [|discriminate]. rewrite (diff_supported_le1 _ _ E). reflexivity.
  - destruct (p =? 0)%Z; [reflexivity|]. destruct (p =? 1)%Z; [reflexivity|]. destruct (p =? 2)%Z; [reflexivity|].
    destruct (diff_supported x _) eqn:E; [|discriminate]. rewrite (diff_supported_le1 _ _ E). reflexivity.
  - destruct (diff_supported x _) eqn:E; [|discriminate]. rewrite (diff_supported_le1 _ _ E). reflexivity.
  - destruct (diff_supported x _) eqn:E; [|discriminate]. rewrite (diff_supported_le1 _ _ E). reflexivity.
Qed.

(* outside the closed support the derivative value returned by diffSupport is 0.0 *)
Lemma diff_unsupported_zero r o p x : supp1 r o p x = false -> fst (diffSupport r o p x) = 0%Q.
Proof.
  intros H. destruct (snd (diffSupport r o p x)) eqn:E; [rewrite (diff_flag_eval_flag _ _ _ _ E) in H; discriminate|].
  revert E. destruct r; unfold diffSupport.
  - reflexivity.
  - destruct (p =? 0)%Z; [discriminate|]. destruct (diff_supported x _); [discriminate|reflexivity].
  - destruct (p =? 0)%Z; [discriminate|]. destruct (p =? 1)%Z; [discriminate|]. destruct (p =? 2)%Z; [discriminate|].
    destruct (diff_supported x _); [discriminate|reflexivity].
  - destruct (diff_supported x _); [discriminate|reflexivity].
  - destruct (diff_supported x _); [discriminate|reflexivity].
Qed.

(* ------------------------------------------------------------------------------------------------------------ *)
(* 2. diffBasisSupported *)

Lemma or_flags_existsb l : forall s, or_flags l s = s || existsb snd l.
Proof.
  unfold or_flags. induction l as [|e l IH]; intros s; cbn [fold_left existsb]; [rewrite orb_false_r; reflexivity|].
  rewrite IH. destruct (snd e), s; reflexivity.
Qed.

Lemma prodQ_zero : forall l j, j < length l -> (nth j l 0 == 0)%Q -> (prodQ l == 0)%Q.
Proof.
  induction l as [|a l IH]; intros j L H; cbn in L; [lia|]. destruct j as [|j]; cbn [nth prodQ] in *.
  - rewrite H. ring.
  - rewrite (IH j) by (try lia; exact H). ring.
Qed.

Lemma prodQ_set_zero : forall fs k j, j < length fs -> j <> k -> (nth j fs 0 == 0)%Q -> (prodQ (Diff.set_nth k fs 1) == 0)%Q.
Proof.
  induction fs as [|f fs IH]; intros k j L N H; cbn in L; [lia|].
  destruct k as [|k]; cbn [Diff.set_nth prodQ].
  - destruct j as [|j]; [congruence|]. cbn [nth] in H. rewrite (prodQ_zero fs j) by (try lia; exact H). ring.
  - destruct j as [|j]; cbn [nth] in H.
    + rewrite H. ring.
    + rewrite (IH k j) by (try lia; exact H). ring.
Qed.

Lemma combine_nth_lt {A B} : forall (l : list A) (l' : list B) k a b, k < length l -> k < length l' ->
  nth k (combine l l') (a, b) = (nth k l a, nth k l' b).
Proof.
  induction l as [|u l IH]; intros [|v l'] k a b H1 H2; cbn in H1, H2; try lia.
  destruct k as [|k]; cbn; [reflexivity|]. apply IH; lia.
Qed.

Section TensorDiff.
  Variable r : erule.
  Variable o : Z.

  Definition raw_vals (pt : idx) (x : list Q) : list Q := map (fun px => evalRaw r o (fst px) (snd px)) (combine pt x).
  Definition raw_diffs (pt : idx) (x : list Q) : list Q := map (fun px => fst (diffSupport r o (fst px) (snd px))) (combine pt x).

  (* the vector of diffBasisSupported is the dense gradient (no dependence on the flags) *)
  Lemma diff_basis_value pt x : fst (diff_basis_supported r o pt x) = grad_dense r o pt x.
  Proof.
    unfold diff_basis_supported, grad_dense, eval_dirs, diff_dirs. cbn [fst]. rewrite !map_map. f_equal.
    apply map_ext. intros a. apply evalSupport_fst.
  Qed.

  Lemma grad_dense_length pt x : length (grad_dense r o pt x) = length (combine pt x).
  Proof.
    unfold grad_dense, grad_accum. rewrite map2_length, grad_pass1_length, repeat_length, !map_length. apply Nat.min_id.
  Qed.

  (* (c) every entry is the product-rule expression: derivative of factor k times the values of the other factors *)
  Lemma grad_dense_entry pt x k : k < length (combine pt x) ->
    (nth k (grad_dense r o pt x) 0 == prodQ (Diff.set_nth k (raw_vals pt x) 1) * nth k (raw_diffs pt x) 0)%Q.
  Proof.
    intros Hk. unfold grad_dense. fold (raw_vals pt x). fold (raw_diffs pt x).
    apply grad_accum_nth; unfold raw_vals, raw_diffs; rewrite !map_length; [reflexivity|exact Hk].
  Qed.

  Lemma raw_diffs_nth pt x k : k < length pt -> k < length x ->
    nth k (raw_diffs pt x) 0%Q = fst (diffSupport r o (nth k pt 0%Z) (nth k x 0%Q)).
  Proof.
    intros H1 H2. unfold raw_diffs.
    rewrite (nth_indep _ 0%Q (fst (diffSupport r o (fst (0%Z, 0%Q)) (snd (0%Z, 0%Q))))) by (rewrite map_length, combine_length; lia).
    rewrite (map_nth (fun px => fst (diffSupport r o (fst px) (snd px)))). rewrite combine_nth_lt by assumption. reflexivity.
  Qed.
End TensorDiff.

Section TensorDiff2.
  Variable r : erule.
  Variable o : Z.

  (* (a) the flag of diffBasisSupported: at least ONE direction passes the closed support test of evalSupport *)
  Lemma diff_basis_flag pt x : snd (diff_basis_supported r o pt x) = supp_any r o pt x.
  Proof.
    unfold diff_basis_supported. cbn [snd]. rewrite !or_flags_existsb. cbn [orb]. unfold eval_dirs, diff_dirs.
    revert x. induction pt as [|p pt IH]; intros x; [reflexivity|]. destruct x as [|t x]; [reflexivity|].
    cbn [combine map existsb supp_any fst snd]. rewrite <- IH.
    pose proof (diff_flag_eval_flag r o p t) as H. unfold supp1 in H.
    destruct (snd (diffSupport r o p t)); [rewrite (H eq_refl); reflexivity|].
    destruct (snd (evalSupport r o p t)); [reflexivity|]. cbn [orb]. reflexivity.
  Qed.

  (* some direction unsupported: an index j of the zip with flag false *)
  Lemma supp_all_false_dir : forall pt x, supp_all r o pt x = false ->
    exists j, j < length (combine pt x) /\ supp1 r o (fst (nth j (combine pt x) (0%Z, 0%Q))) (snd (nth j (combine pt x) (0%Z, 0%Q))) = false.
  Proof.
    induction pt as [|p pt IH]; intros x; [discriminate|]. destruct x as [|t x]; [discriminate|].
    cbn [supp_all combine]. fold (supp1 r o p t). destruct (supp1 r o p t) eqn:E; cbn [andb].
    - intros H. destruct (IH x H) as (j & L & F). exists (S j). cbn [length nth]. split; [lia|exact F].
    - intros _. exists 0. cbn [length nth fst snd]. split; [lia|exact E].
  Qed.

  (* the gradient of a basis function that is not supported in some direction is the zero vector (binary rules) *)
  Lemma grad_dense_unsupported_zero pt x k : binary_rule r -> supp_all r o pt x = false -> (nth k (grad_dense r o pt x) 0 == 0)%Q.
  Proof.
    intros Hr Hs. destruct (Nat.lt_ge_cases k (length (combine pt x))) as [Hk|Hk].
    2:{ rewrite nth_overflow by (rewrite grad_dense_length; exact Hk). reflexivity. }
    rewrite (grad_dense_entry r o pt x k Hk). destruct (supp_all_false_dir pt x Hs) as (j & Lj & Fj).
    set (e := nth j (combine pt x) (0%Z, 0%Q)) in *.
    assert (Hv : nth j (raw_vals r o pt x) 0%Q = 0%Q).
    { unfold raw_vals. rewrite (nth_indep _ 0%Q (evalRaw r o (fst (0%Z, 0%Q)) (snd (0%Z, 0%Q)))) by (rewrite map_length; exact Lj).
      rewrite (map_nth (fun px => evalRaw r o (fst px) (snd px))). fold e. apply unsupported_value_zero; assumption. }
    assert (Hd : nth j (raw_diffs r o pt x) 0%Q = 0%Q).
    { unfold raw_diffs. rewrite (nth_indep _ 0%Q (fst (diffSupport r o (fst (0%Z, 0%Q)) (snd (0%Z, 0%Q))))) by (rewrite map_length; exact Lj).
      rewrite (map_nth (fun px => fst (diffSupport r o (fst px) (snd px)))). fold e. apply diff_unsupported_zero; assumption. }
    destruct (Nat.eq_dec j k) as [<-|N].
    - rewrite Hd. ring.
    - rewrite (prodQ_set_zero (raw_vals r o pt x) k j); [ring| |exact N|rewrite Hv; reflexivity].
      unfold raw_vals. rewrite map_length. exact Lj.
  Qed.

  Lemma supp_any_false pt x : supp_any r o pt x = false -> supp_all r o pt x = false \/ combine pt x = [].
  Proof.
    destruct pt as [|p pt]; [right; reflexivity|]. destruct x as [|t x]; [right; reflexivity|].
    cbn [supp_any supp_all]. intros H. apply orb_false_iff in H. destruct H as [H _]. rewrite H. left. reflexivity.
  Qed.

  Lemma supp_all_any pt x : pt <> [] -> x <> [] -> supp_all r o pt x = true -> supp_any r o pt x = true.
  Proof.
    destruct pt as [|p pt]; [congruence|]. destruct x as [|t x]; [congruence|]. intros _ _. cbn [supp_any supp_all].
    intros H. apply andb_true_iff in H. destruct H as [H _]. rewrite H. reflexivity.
  Qed.

  (* one dimension: the two flags coincide *)
  Lemma supp_any_1d p t : supp_any r o [p] [t] = supp_all r o [p] [t].
  Proof. cbn. rewrite orb_false_r, andb_true_r. reflexivity. Qed.

  Lemma grad_dense_flag_zero pt x k : binary_rule r -> supp_any r o pt x = false -> (nth k (grad_dense r o pt x) 0 == 0)%Q.
  Proof.
    intros Hr H. destruct (supp_any_false pt x H) as [F|E]; [apply grad_dense_unsupported_zero; assumption|].
    rewrite nth_overflow; [reflexivity|]. rewrite grad_dense_length, E. cbn. lia.
  Qed.

  (* nesting of supp_any along a DAG edge: the kid differs from the parent in one direction, by a 1-d kid *)
  Lemma supp_any_set_nth : forall pt dir c x, dir < length pt ->
    (forall t, supp1 r o c t = true -> supp1 r o (nth dir pt 0%Z) t = true) ->
    supp_any r o (Selection.set_nth pt dir c) x = true -> supp_any r o pt x = true.
  Proof.
    induction pt as [|p pt IH]; intros dir c x Hd Hn; [cbn in Hd; lia|].
    destruct dir as [|dir]; destruct x as [|t x]; cbn [Selection.set_nth supp_any nth]; try discriminate.
    - cbn [nth] in Hn. fold (supp1 r o c t). fold (supp1 r o p t). intros H. apply orb_true_iff in H. destruct H as [H|H].
      + rewrite (Hn t H). reflexivity.
      + rewrite H. apply orb_true_r.
    - intros H. apply orb_true_iff in H. destruct H as [H|H]; [rewrite H; reflexivity|].
      rewrite (IH dir c x); [apply orb_true_r|cbn in Hd; lia|exact Hn|exact H].
  Qed.

  Theorem nest_edge_any pt dir k x : binary_rule r -> Forall (fun p => (0 <= p)%Z) pt -> dir < length pt -> (k = 0 \/ k = 1)%Z ->
    getKid r (nth dir pt 0%Z) k <> (-1)%Z ->
    supp_any r o (Selection.set_nth pt dir (getKid r (nth dir pt 0%Z) k)) x = true -> supp_any r o pt x = true.
  Proof.
    intros Hr Hnn Hd Hk Hkid. apply supp_any_set_nth; [exact Hd|].
    intros t. apply nest1d; try assumption.
    rewrite Forall_forall in Hnn. apply Hnn. apply nth_In. exact Hd.
  Qed.
End TensorDiff2.

(* ------------------------------------------------------------------------------------------------------------ *)
(* 3. walkTree modes 3 / 4 *)

Section WalkDiff.
  Variable r : erule.
  Variable o : Z.
  Variable pts : list idx.
  Variable x : list Q.

  Definition dsup (i : nat) : bool := supp_any r o (nth i pts []) x.
  Definition dval (i : nat) : list Q := grad_dense r o (nth i pts []) x.
  Definition dentry (i : nat) : nat * list Q := (i, dval i).

  Definition dnest_tree : tree -> Prop := tree_all (fun q ts => forall t', In t' ts -> dsup (root t') = true -> dsup q = true).

  Lemma dnest_root : forall t, dnest_tree t -> forall p, In p (nodes t) -> dsup p = true -> dsup (root t) = true.
  Proof.
    apply (tree_ind2 (fun t => dnest_tree t -> forall p, In p (nodes t) -> dsup p = true -> dsup (root t) = true)).
    intros i ts IH Hn p Hp Hs. inversion Hn; subst. cbn [nodes root] in *. destruct Hp as [<-|Hp]; [exact Hs|].
    apply in_flat_map in Hp. destruct Hp as (t' & Ht' & Hp). rewrite Forall_forall in IH, H2.
    apply (H1 t' Ht'). apply (IH t' Ht' (H2 t' Ht') p Hp Hs).
  Qed.

  Lemma walk_diff_tree_filter : forall t, dnest_tree t -> walk_diff_tree r o pts x t = map dentry (filter dsup (nodes t)).
  Proof.
    apply (tree_ind2 (fun t => dnest_tree t -> walk_diff_tree r o pts x t = map dentry (filter dsup (nodes t)))).
    intros i ts IH Hn. pose proof (dnest_root _ Hn) as Hroot. inversion Hn; subst. cbn [walk_diff_tree nodes filter].
    pose proof (diff_basis_flag r o (nth i pts []) x) as Hf. fold (dsup i) in Hf.
    pose proof (diff_basis_value r o (nth i pts []) x) as Hv. fold (dval i) in Hv.
    destruct (diff_basis_supported r o (nth i pts []) x) as [v s]. cbn [snd fst] in *. subst s v.
    destruct (dsup i) eqn:Es.
    - cbn [map]. unfold dentry at 1. f_equal.
      clear Hroot Hn H1. induction ts as [|t ts IHts]; [reflexivity|].
      cbn [flat_map]. rewrite filter_app, map_app. inversion IH; subst. inversion H2; subst. f_equal; [apply H1; assumption|].
      apply IHts; assumption.
    - symmetry. cbn [root] in Hroot. rewrite filter_nil; [reflexivity|]. intros p Hp.
      destruct (dsup p) eqn:Ep; [|reflexivity]. rewrite (Hroot p (or_intror Hp) Ep) in Es. discriminate.
  Qed.

  Lemma walk_diff_filter forest : Forall dnest_tree forest -> walk_diff r o pts forest x = map dentry (filter dsup (flat_map nodes forest)).
  Proof.
    unfold walk_diff. induction forest as [|t ts IH]; intros H; [reflexivity|]. inversion H; subst.
    cbn [flat_map]. rewrite filter_app, map_app, IH by assumption. rewrite walk_diff_tree_filter by assumption. reflexivity.
  Qed.
End WalkDiff.

(* ------------------------------------------------------------------------------------------------------------ *)
(* 4. the statements *)

Lemma find_entry_gen {A} (e : nat -> nat * A) (He : forall j, fst (e j) = j) i : forall L,
  (In i L -> find (fun iv => Nat.eqb (fst iv) i) (map e L) = Some (e i)) /\
  (~ In i L -> find (fun iv => Nat.eqb (fst iv) i) (map e L) = None).
Proof.
  induction L as [|j L [IH1 IH2]]; cbn [map find In]; [split; [intros []|reflexivity]|].
  rewrite He. destruct (Nat.eqb_spec j i) as [->|N].
  - split; [reflexivity|]. intros K. exfalso. apply K. left. reflexivity.
  - split; [intros [K|K]; [congruence|apply IH1; exact K]|]. intros K. apply IH2. intros K'. apply K. right. exact K'.
Qed.

Lemma filter_filter_impl {A} (p q : A -> bool) l : (forall a, In a l -> p a = true -> q a = true) -> filter p (filter q l) = filter p l.
Proof.
  induction l as [|a l IH]; intros H; [reflexivity|]. cbn [filter].
  assert (IH' : filter p (filter q l) = filter p l) by (apply IH; intros b Hb; apply H; right; exact Hb).
  destruct (q a) eqn:Eq; cbn [filter]; [rewrite IH'; reflexivity|].
  destruct (p a) eqn:Ep; [|exact IH']. rewrite (H a (or_introl eq_refl) Ep) in Eq. discriminate.
Qed.

Section MainDiff.
  Variable r : erule.
  Variable o : Z.
  Variable pts : list idx.
  Variable x : list Q.
  Hypothesis Hr : binary_rule r.
  Hypothesis Hnn : nonneg_pts pts.

  Lemma forest_dnest forest : Forall (edge_tree (dag_down r pts)) forest -> Forall (dnest_tree r o pts x) forest.
  Proof.
    apply Forall_impl. intros t. apply tree_all_impl. intros q ts H t' Ht'. specialize (H t' Ht').
    destruct (dag_down_in r pts q _ H) as [Hq Hrow]. destruct (kids_row_in r pts _ _ Hrow) as (dir & k & Hd & Hk & Hkid & Hc & _).
    unfold dsup. rewrite Hc. apply nest_edge_any; try assumption.
    - unfold nonneg_pts in Hnn. rewrite Forall_forall in Hnn. apply Hnn. apply nth_In. exact Hq.
    - apply (kid_numbers_binary r k Hr Hk).
  Qed.

  Variable forest : list tree.
  Variable ok : bool.
  Hypothesis Hne : pts <> [].
  Hypothesis Hb : build_forest r pts = (forest, ok).

  Let N := flat_map nodes forest.
  Let W := walk_diff r o pts forest x.

  Lemma walk_diff_is_filter : W = map (dentry r o pts x) (filter (dsup r o pts x) N).
  Proof.
    destruct (build_forest_spec r pts forest ok Hne Hb) as (_ & He & _). apply walk_diff_filter. apply forest_dnest. exact He.
  Qed.

  Lemma walk_diff_indices : map fst W = filter (dsup r o pts x) N.
  Proof. rewrite walk_diff_is_filter, map_map. unfold dentry. cbn [fst]. apply map_id. Qed.

  (* (a) the derivative walk visits exactly the points with SOME direction supported, each once *)
  Theorem walk_diff_visits i : In i (map fst W) <-> i < length pts /\ supp_any r o (nth i pts []) x = true.
  Proof.
    destruct (build_forest_spec r pts forest ok Hne Hb) as (_ & _ & _ & Hm).
    rewrite walk_diff_indices, filter_In. fold N in Hm. rewrite Hm. reflexivity.
  Qed.

  Theorem walk_diff_once : NoDup (map fst W).
  Proof.
    destruct (build_forest_spec r pts forest ok Hne Hb) as (_ & _ & Hd & _). rewrite walk_diff_indices. apply NoDup_filter. exact Hd.
  Qed.

  (* the value walk of Model/TreeWalk.v is the sub-sequence of the derivative walk with EVERY direction supported *)
  Theorem value_walk_subsequence : Forall (fun pt => pt <> []) pts -> x <> [] ->
    map fst (walk r o pts forest x) = filter (fun i => supp_all r o (nth i pts []) x) (map fst W).
  Proof.
    intros Hd Hx. rewrite walk_diff_indices, (walk_indices r o pts x Hr Hnn forest ok Hne Hb). fold N. symmetry.
    apply filter_filter_impl. intros i Hi Hs. unfold dsup. apply supp_all_any; [|exact Hx|exact Hs].
    destruct (build_forest_spec r pts forest ok Hne Hb) as (_ & _ & _ & Hm). fold N in Hm. apply Hm in Hi.
    rewrite Forall_forall in Hd. apply Hd. apply nth_In. exact Hi.
  Qed.

  (* (c) the recorded vector is the dense gradient; entry k is the product-rule expression *)
  Theorem walk_diff_values i g : In (i, g) W -> g = grad_dense r o (nth i pts []) x.
  Proof.
    rewrite walk_diff_is_filter. intros H. apply in_map_iff in H. destruct H as (j & E & Hj). unfold dentry in E. inversion E; subst. reflexivity.
  Qed.

  Theorem walk_diff_entry i g k : In (i, g) W -> k < length (nth i pts []) -> k < length x ->
    (nth k g 0 == prodQ (Diff.set_nth k (raw_vals r o (nth i pts []) x) 1) * fst (diffSupport r o (nth k (nth i pts []) 0%Z) (nth k x 0%Q)))%Q.
  Proof.
    intros H H1 H2. rewrite (walk_diff_values i g H). rewrite grad_dense_entry by (rewrite combine_length; lia).
    rewrite raw_diffs_nth by assumption. reflexivity.
  Qed.

  (* the points visited by the derivative walk but not by the value walk carry the zero vector *)
  Theorem walk_diff_extra_zero i g k : In (i, g) W -> supp_all r o (nth i pts []) x = false -> (nth k g 0 == 0)%Q.
  Proof. intros H Hs. rewrite (walk_diff_values i g H). apply grad_dense_unsupported_zero; assumption. Qed.

  (* sparse gradient row (mode 4, zero where absent) = dense gradient row, entry by entry *)
  Theorem sparse_grad_eq_dense i d : i < length pts -> (sparse_grad_entry W i d == nth d (grad_dense r o (nth i pts []) x) 0)%Q.
  Proof.
    intros Hi. unfold sparse_grad_entry. rewrite walk_diff_is_filter.
    destruct (find_entry_gen (dentry r o pts x) (fun j => eq_refl) i (filter (dsup r o pts x) N)) as [F1 F2].
    destruct (dsup r o pts x i) eqn:Es.
    - rewrite F1; [reflexivity|].
      apply filter_In. split; [|exact Es]. destruct (build_forest_spec r pts forest ok Hne Hb) as (_ & _ & _ & Hm). apply Hm. exact Hi.
    - rewrite F2.
      + symmetry. apply grad_dense_flag_zero; [exact Hr|exact Es].
      + intros K. apply filter_In in K. destruct K as [_ K]. congruence.
  Qed.

  (* (b) differentiate (walk, mode 3) = the sum over ALL points of gradient entry times surplus *)
  Theorem diff_walk_eq_full (surp : nat -> Q) d : (diff_walk r o pts forest surp x d == diff_full r o pts surp x d)%Q.
  Proof.
    destruct (build_forest_spec r pts forest ok Hne Hb) as (_ & _ & Hd & Hm). fold N in Hd, Hm.
    unfold diff_walk, diff_full. fold W. rewrite walk_diff_is_filter.
    rewrite fold_left_map_gen. cbn [snd fst dentry]. unfold dval.
    rewrite (fold_left_qsum (fun i => nth d (grad_dense r o (nth i pts []) x) 0 * surp i)%Q).
    rewrite (fold_left_qsum (fun i => nth d (grad_dense r o (nth i pts []) x) 0 * surp i)%Q).
    rewrite qsum_filter.
    2:{ intros i _ Hs. rewrite (grad_dense_flag_zero r o _ _ d Hr Hs). ring. }
    rewrite (qsum_perm _ N (seq 0 (length pts))); [reflexivity|].
    apply NoDup_Permutation; [exact Hd|apply seq_NoDup|]. intros i. rewrite Hm, in_seq. lia.
  Qed.
End MainDiff.

Theorem walk_diff_exactly_any r o pts x : binary_rule r -> nonneg_pts pts -> forall forest ok, pts <> [] -> build_forest r pts = (forest, ok) ->
  NoDup (map fst (walk_diff r o pts forest x)) /\
  (forall i, In i (map fst (walk_diff r o pts forest x)) <-> i < length pts /\ supp_any r o (nth i pts []) x = true) /\
  map fst (walk_diff r o pts forest x) = filter (fun i => supp_any r o (nth i pts []) x) (flat_map nodes forest).
Proof.
  intros Hr Hnn forest ok Hne Hb. split; [exact (walk_diff_once r o pts x Hr Hnn forest ok Hne Hb)|].
  split; [exact (walk_diff_visits r o pts x Hr Hnn forest ok Hne Hb)|exact (walk_diff_indices r o pts x Hr Hnn forest ok Hne Hb)].
Qed.

(* diffBasisSupported: flag = some direction supported; vector = dense gradient; zero vector when some direction is not *)
Theorem diff_basis_supported_meaning r o pt x :
  snd (diff_basis_supported r o pt x) = supp_any r o pt x /\
  fst (diff_basis_supported r o pt x) = grad_dense r o pt x /\
  (binary_rule r -> supp_all r o pt x = false -> forall k, (nth k (grad_dense r o pt x) 0 == 0)%Q).
Proof.
  split; [apply diff_basis_flag|]. split; [apply diff_basis_value|]. intros Hr Hs k. apply grad_dense_unsupported_zero; assumption.
Qed.

(* the two flags: equal in one dimension, AND => OR otherwise *)
Theorem flags_relation r o pt x :
  (forall p t, pt = [p] -> x = [t] -> supp_any r o pt x = supp_all r o pt x) /\
  (pt <> [] -> x <> [] -> supp_all r o pt x = true -> supp_any r o pt x = true).
Proof. split; [intros p t -> ->; apply supp_any_1d|apply supp_all_any]. Qed.

(* ------------------------------------------------------------------------------------------------------------ *)
(* 5. executable bounded check (used by the Examples of Props/Properties_C05_treewalk.v) *)
Definition twd_check (r : erule) (o : Z) (pts : list idx) (x : list Q) : bool :=
  let '(f, ok) := build_forest r pts in
  let w := walk_diff r o pts f x in
  let n := length pts in
  let s := (fun i => inject_Z (Z.of_nat i) + 1)%Q in
  ok && forallb (fun i => Bool.eqb (existsb (Nat.eqb i) (map fst w)) (supp_any r o (nth i pts []) x)) (seq 0 n)
     && forallb (fun d => Qeq_bool (diff_walk r o pts f s x d) (diff_full r o pts s x d)) (seq 0 (length x))
     && forallb (fun i => implb (negb (supp_all r o (nth i pts []) x))
                                (forallb (fun v => Qeq_bool v 0) (fst (diff_basis_supported r o (nth i pts []) x)))) (seq 0 n).
Definition twd_sparse_check (r : erule) (o : Z) (pts : list idx) (x : list Q) : bool :=
  let w := walk_diff r o pts (fst (build_forest r pts)) x in
  forallb (fun i => forallb (fun d => Qeq_bool (sparse_grad_entry w i d) (nth d (grad_dense r o (nth i pts []) x) 0%Q)) (seq 0 (length x))) (seq 0 (length pts)).

(* the flag of diffBasisSupported is NOT the flag of evalBasisSupported in two or more dimensions *)
Lemma flags_differ_witness : exists (r : erule) (o : Z) (pt : idx) (x : list Q),
  binary_rule r /\ Forall (fun p => (0 <= p)%Z) pt /\
  snd (diff_basis_supported r o pt x) = true /\ snd (basis_supported r o pt x) = false /\
  length (fst (diff_basis_supported r o pt x)) = 2%nat /\
  forallb (fun v => Qeq_bool v 0) (fst (diff_basis_supported r o pt x)) = true.
Proof.
  exists Localp, 1%Z, [1; 2]%Z, [(1 # 2)%Q; (1 # 2)%Q]. split; [discriminate|]. split; [repeat constructor; lia|].
  vm_compute. repeat split; reflexivity.
Qed.
