(* Every index generated under a criterion that enforces the level limits obeys them; termination of the growth loop. *)
From TV Require Import Common.Prelude Model.IndexSets Model.Selection Model.LowerSets Proofs.IndexSetsProofs Proofs.SelectionProofs.
Local Open Scope Z_scope.

Lemma zero_index_length d : length (zero_index d) = d.
Proof. apply repeat_length. Qed.

Lemma children_length p c : In c (children p) -> length c = length p.
Proof. unfold children. rewrite in_map_iff. intros [dir [<- _]]. apply set_nth_length. Qed.

Lemma next_layer_spec d inside layer : wf d layer ->
  sorted (next_layer inside layer) /\ wf d (next_layer inside layer) /\
  forall c, In c (next_layer inside layer) <-> (inside c = true /\ exists p, In p layer /\ In c (children p)).
Proof.
  intros Hw. unfold next_layer.
  assert (Hwf : wf d (filter inside (flat_map children layer))).
  { unfold wf. rewrite Forall_forall. intros c Hc. apply filter_In in Hc. destruct Hc as [Hc _].
    apply in_flat_map in Hc. destruct Hc as [p [Hp Hc]]. rewrite (children_length p c Hc).
    unfold wf in Hw. rewrite Forall_forall in Hw. auto. }
  destruct (sort_unique_spec d _ Hwf) as [H1 [H2 H3]]. repeat split; auto.
  - apply H3 in H. apply filter_In in H. tauto.
  - apply H3 in H. apply filter_In in H. destruct H as [H _]. apply in_flat_map in H. exact H.
  - intros [Hi [p [Hp Hc]]]. apply H3. apply filter_In. split; [|exact Hi]. apply in_flat_map. exists p. tauto.
Qed.

Lemma layers_inside d inside fuel : forall layer, wf d layer ->
  (forall t, In t layer -> inside t = true \/ t = zero_index d) ->
  forall L t, In L (layers fuel inside layer) -> In t L -> (inside t = true \/ t = zero_index d) /\ length t = d.
Proof.
  assert (Hbase : forall layer, wf d layer -> (forall t, In t layer -> inside t = true \/ t = zero_index d) ->
                  forall t, In t layer -> (inside t = true \/ t = zero_index d) /\ length t = d).
  { intros layer Hw Hl t Ht. split; [apply Hl; exact Ht|]. unfold wf in Hw. rewrite Forall_forall in Hw. apply Hw. exact Ht. }
  induction fuel as [|f IH]; intros layer Hw Hl L t HL Ht.
  - cbn in HL. destruct HL as [<-|[]]. apply (Hbase layer); assumption.
  - cbn [layers] in HL. destruct (next_layer_spec d inside layer Hw) as [_ [Hw2 Hs]].
    destruct (next_layer inside layer) as [|c nl] eqn:E.
    + destruct HL as [<-|[]]. apply (Hbase layer); assumption.
    + destruct HL as [<-|HL].
      * apply (Hbase layer); assumption.
      * apply (IH (c :: nl) Hw2) with (L := L); auto. intros u Hu. left. apply Hs in Hu. tauto.
Qed.

Lemma fold_merge_In (Ls : list (list idx)) t : In t (fold_right merge [] Ls) -> exists L, In L Ls /\ In t L.
Proof.
  induction Ls as [|L Ls IH]; cbn; [tauto|]. intros H. apply merge_In in H. destruct H as [H|H].
  - exists L. auto.
  - destruct (IH H) as [L' [H1 H2]]. exists L'. auto.
Qed.

(* every generated index satisfies the criterion (or is the root) *)
Theorem grow_inside fuel d inside t : In t (grow fuel d inside) -> (inside t = true \/ t = zero_index d) /\ length t = d.
Proof.
  unfold grow. intros H. apply fold_merge_In in H. destruct H as [L [HL Ht]].
  apply (layers_inside d inside fuel [zero_index d]) with (L := L); auto.
  - constructor; [apply zero_index_length|constructor].
  - intros u [<-|[]]. right. reflexivity.
Qed.

Lemma within_limits_zero limits d : forallb (fun l => (l =? -1) || (0 <=? l)) limits = true -> within_limits limits (zero_index d) = true.
Proof.
  revert d. induction limits as [|l ls IH]; intros d H; [reflexivity|].
  destruct d as [|d]; [reflexivity|]. cbn in *. apply andb_true_iff in H. destruct H as [H1 H2]. rewrite H1. cbn. apply IH. exact H2.
Qed.

(* C08: the level-type tensor selection never contains an index above a non-negative limit; -1 leaves a dimension free *)
Theorem select_level_within_limits d w off limits t :
  forallb (fun l => (l =? -1) || (0 <=? l)) limits = true ->
  In t (select_level d w off limits) -> within_limits limits t = true.
Proof.
  intros Hl H. unfold select_level in H. apply grow_inside in H. destruct H as [[H|H] _].
  - unfold level_inside in H. apply andb_true_iff in H. tauto.
  - subst t. apply within_limits_zero. exact Hl.
Qed.

Lemma within_limits_nth limits : forall t k, within_limits limits t = true -> (k < length limits)%nat -> (k < length t)%nat ->
  nth k limits (-1) = -1 \/ nth k t 0 <= nth k limits (-1).
Proof.
  induction limits as [|l ls IH]; intros t k H Hk Ht; [cbn in Hk; lia|].
  destruct t as [|x xs]; [cbn in Ht; lia|]. cbn in H. apply andb_true_iff in H. destruct H as [H1 H2].
  destruct k as [|k]; cbn [nth].
  - apply orb_true_iff in H1. destruct H1; [left|right]; lia.
  - apply IH; auto; cbn in *; lia.
Qed.

(* a dimension with limit -1 is unrestricted: the criterion ignores it *)
Theorem minus_one_unrestricted : forall t, within_limits (map (fun _ => -1) t) t = true.
Proof. induction t as [|x t IH]; cbn; [reflexivity|exact IH]. Qed.

(* ---- termination of the growth loop once the limits are exhausted ---- *)
Section Growth.
  Variable select : nat -> list idx.
  Variable pts : list idx.
  Variable limits : list Z.
  Variable min_growth : nat.

  Theorem growth_loop_terminates : forall K, limits_box_full limits (merge pts (needed_at select pts K)) = true ->
    forall k, (k <= K)%nat -> exists r, growth_loop select pts limits min_growth (S (K - k)) k = Some r.
  Proof.
    intros K HK k Hk. remember (K - k)%nat as n eqn:En. revert k Hk En.
    induction n as [|n IH]; intros k Hk En.
    - assert (k = K) by lia. subst k. cbn [growth_loop]. rewrite HK. rewrite orb_true_r. eexists. reflexivity.
    - cbn [growth_loop].
      destruct ((min_growth <=? length (needed_at select pts k))%nat || limits_box_full limits (merge pts (needed_at select pts k))).
      + eexists. reflexivity.
      + apply IH; lia.
  Qed.

  (* when the loop stops because the box is full and nothing new is admissible, it returns zero needed indexes *)
  Theorem growth_loop_result : forall fuel k r, growth_loop select pts limits min_growth fuel k = Some r ->
    snd r = needed_at select pts (fst r) /\
    ((min_growth <= length (snd r))%nat \/ limits_box_full limits (merge pts (snd r)) = true).
  Proof.
    induction fuel as [|f IH]; intros k r H; [discriminate|]. cbn [growth_loop] in H.
    destruct ((min_growth <=? length (needed_at select pts k))%nat) eqn:E1; cbn [orb] in H.
    - injection H as <-. cbn. split; [reflexivity|]. left. apply Nat.leb_le. exact E1.
    - destruct (limits_box_full limits (merge pts (needed_at select pts k))) eqn:E2.
      + injection H as <-. cbn. split; [reflexivity|]. right. exact E2.
      + apply (IH (S k)). exact H.
  Qed.
End Growth.
