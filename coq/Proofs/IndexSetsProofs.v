(* Proofs about the multi-index set model (M-A). *)
From TV Require Import Common.Prelude Model.IndexSets.
From Coq Require Import Sorting.Sorted Permutation.
Local Open Scope Z_scope.

(* ---------- the comparison on indexes of equal length ---------- *)
Definition lt_idx (a b : idx) : Prop := cmp a b = ABeforeB.
Definition wf (d : nat) (s : list idx) : Prop := Forall (fun p => length p = d) s.

Lemma cmp_refl a : cmp a a = ASameB.
Proof. induction a as [|x a IH]; cbn; [reflexivity|]. rewrite Z.ltb_irrefl. exact IH. Qed.

Lemma cmp_same_eq a : forall b, length a = length b -> cmp a b = ASameB -> a = b.
Proof.
  induction a as [|x a IH]; intros [|y b] Hl H; cbn in *; try reflexivity; try discriminate.
  destruct (x <? y) eqn:E1; [discriminate|]. destruct (y <? x) eqn:E2; [discriminate|].
  assert (x = y) by lia. subst. f_equal. apply IH; [lia|exact H].
Qed.

Lemma cmp_antisym a : forall b, length a = length b ->
  (cmp a b = ABeforeB <-> cmp b a = BBeforeA).
Proof.
  induction a as [|x a IH]; intros [|y b] Hl; cbn in *; try discriminate; [split; discriminate|].
  destruct (x <? y) eqn:E1; destruct (y <? x) eqn:E2; try lia; try tauto.
  - split; discriminate.
  - apply IH. lia.
Qed.

Lemma cmp_flip_same a : forall b, cmp a b = ASameB -> cmp b a = ASameB.
Proof.
  induction a as [|x a IH]; intros [|y b] H; cbn in *; try reflexivity.
  destruct (x <? y) eqn:E1; [discriminate|]. destruct (y <? x) eqn:E2; [discriminate|].
  apply IH. exact H.
Qed.

Lemma cmp_total_cases a b : length a = length b ->
  (cmp a b = ABeforeB /\ cmp b a = BBeforeA) \/ (cmp a b = BBeforeA /\ cmp b a = ABeforeB) \/ (cmp a b = ASameB /\ a = b).
Proof.
  intros Hl. destruct (cmp a b) eqn:E.
  - left. split; [reflexivity|]. apply cmp_antisym; assumption.
  - right; left. split; [reflexivity|]. apply cmp_antisym; [lia|exact E].
  - right; right. split; [reflexivity|]. apply cmp_same_eq; assumption.
Qed.

Lemma lt_idx_trans a : forall b c, length a = length b -> length b = length c ->
  lt_idx a b -> lt_idx b c -> lt_idx a c.
Proof.
  unfold lt_idx. induction a as [|x a IH]; intros [|y b] [|z c] H1 H2 Hab Hbc; cbn in *; try discriminate.
  destruct (x <? y) eqn:E1.
  - destruct (y <? z) eqn:E2.
    + assert (x <? z = true) as -> by lia. reflexivity.
    + destruct (z <? y) eqn:E3; [discriminate|]. assert (x <? z = true) as -> by lia. reflexivity.
  - destruct (y <? x) eqn:E1'; [discriminate|].
    destruct (y <? z) eqn:E2.
    + assert (x <? z = true) as -> by lia. reflexivity.
    + destruct (z <? y) eqn:E3; [discriminate|].
      assert (x <? z = false) as -> by lia. assert (z <? x = false) as -> by lia.
      apply (IH b c); [lia|lia|exact Hab|exact Hbc].
Qed.

Lemma lt_idx_irrefl a : ~ lt_idx a a.
Proof. unfold lt_idx. rewrite cmp_refl. discriminate. Qed.

(* ---------- strictly sorted sets ---------- *)
Definition sorted (s : list idx) : Prop := StronglySorted lt_idx s.

Lemma sorted_cons_inv x s : sorted (x :: s) -> sorted s /\ Forall (lt_idx x) s.
Proof. intros H. inversion H; subst. split; assumption. Qed.

Lemma sorted_nodup s : sorted s -> NoDup s.
Proof.
  induction s as [|x s IH]; intros H; [constructor|].
  apply sorted_cons_inv in H. destruct H as [Hs Hx]. constructor; [|apply IH; exact Hs].
  intro Hin. rewrite Forall_forall in Hx. apply (lt_idx_irrefl x). apply Hx. exact Hin.
Qed.

Lemma Forall_lt_trans d x y s : length x = d -> length y = d -> wf d s ->
  lt_idx x y -> Forall (lt_idx y) s -> Forall (lt_idx x) s.
Proof.
  intros Hx Hy Hw Hxy Hys. unfold wf in Hw. rewrite Forall_forall in *.
  intros z Hz. apply (lt_idx_trans x y z); [lia|rewrite Hy; symmetry; apply Hw; exact Hz|exact Hxy|apply Hys; exact Hz].
Qed.

(* ---------- merge ---------- *)
Lemma merge_nil_r a : merge a [] = a.
Proof. destruct a; reflexivity. Qed.

Lemma merge_cons p a q b : merge (p :: a) (q :: b) =
  match cmp p q with
  | BBeforeA => q :: merge (p :: a) b
  | ABeforeB => p :: merge a (q :: b)
  | ASameB => p :: merge a b
  end.
Proof. reflexivity. Qed.

Lemma diff_cons p a q b : diff (p :: a) (q :: b) =
  match cmp p q with
  | ABeforeB => p :: diff a (q :: b)
  | BBeforeA => diff (p :: a) b
  | ASameB => diff a b
  end.
Proof. reflexivity. Qed.

Lemma merge_In a : forall b x, In x (merge a b) -> In x a \/ In x b.
Proof.
  induction a as [|p a IHa]; intros b x; [cbn; destruct b; auto|].
  induction b as [|q b IHb]; [cbn; auto|].
  rewrite merge_cons. destruct (cmp p q) eqn:E; cbn [In]; intros [H|H]; subst; auto.
  - apply IHa in H. cbn [In] in H. tauto.
  - apply IHb in H. cbn [In] in *. tauto.
  - apply IHa in H. tauto.
Qed.

Lemma In_merge d a : forall b x, wf d a -> wf d b -> (In x a \/ In x b) -> In x (merge a b).
Proof.
  induction a as [|p a IHa]; intros b x Ha Hb; [cbn; destruct b; tauto|].
  induction b as [|q b IHb]; [cbn; tauto|].
  inversion Ha as [|? ? Hp Ha']; subst. inversion Hb as [|? ? Hq Hb']; subst.
  rewrite merge_cons. destruct (cmp p q) eqn:E; cbn [In]; intros H.
  - destruct H as [[H|H]|H]; [left; exact H|right; apply IHa; auto|right; apply IHa; auto; right; exact H].
  - destruct H as [H|[H|H]]; [right; apply IHb; auto|left; exact H|right; apply IHb; auto].
  - destruct H as [[H|H]|[H|H]]; [left; exact H|right; apply IHa; auto| |right; apply IHa; auto].
    left. subst x. apply cmp_same_eq; [lia|exact E].
Qed.

Lemma merge_wf d a : forall b, wf d a -> wf d b -> wf d (merge a b).
Proof.
  intros b Ha Hb. unfold wf in *. rewrite Forall_forall in *. intros x Hx.
  apply merge_In in Hx. destruct Hx; auto.
Qed.

Lemma merge_sorted d a : forall b, wf d a -> wf d b -> sorted a -> sorted b -> sorted (merge a b).
Proof.
  induction a as [|p a IHa]; intros b Ha Hb Sa Sb; [cbn; destruct b; assumption|].
  induction b as [|q b IHb]; [cbn; assumption|].
  inversion Ha as [|? ? Hp Ha']; subst. inversion Hb as [|? ? Hq Hb']; subst.
  apply sorted_cons_inv in Sa. destruct Sa as [Sa Pa]. apply sorted_cons_inv in Sb. destruct Sb as [Sb Pb].
  rewrite merge_cons. destruct (cmp_total_cases p q) as [[E1 E2]|[[E1 E2]|[E1 E2]]]; [lia| | |]; rewrite E1.
  - constructor; [apply IHa; auto; constructor; auto|].
    rewrite Forall_forall. intros x Hx. apply merge_In in Hx. destruct Hx as [Hx|[Hx|Hx]].
    + rewrite Forall_forall in Pa. auto.
    + subst. exact E1.
    + assert (Forall (lt_idx p) b) as Hb2 by (eapply Forall_lt_trans with (y := q); eauto).
      rewrite Forall_forall in Hb2. auto.
  - constructor; [apply IHb; auto|].
    rewrite Forall_forall. intros x Hx. apply merge_In in Hx. destruct Hx as [[Hx|Hx]|Hx].
    + subst. exact E2.
    + assert (Forall (lt_idx q) a) as Ha2 by (eapply Forall_lt_trans with (y := p); eauto).
      rewrite Forall_forall in Ha2. auto.
    + rewrite Forall_forall in Pb. auto.
  - subst q. constructor; [apply IHa; auto|].
    rewrite Forall_forall. intros x Hx. apply merge_In in Hx. rewrite Forall_forall in Pa, Pb. destruct Hx; auto.
Qed.

(* ---------- diff ---------- *)
Lemma diff_In_l a : forall b x, In x (diff a b) -> In x a.
Proof.
  induction a as [|p a IHa]; intros b x; [cbn; destruct b; auto|].
  induction b as [|q b IHb]; [cbn; auto|].
  rewrite diff_cons. destruct (cmp p q) eqn:E; cbn [In].
  - intros [H|H]; auto. right. eapply IHa; eauto.
  - intros H. apply IHb in H. exact H.
  - intros H. right. eapply IHa; eauto.
Qed.

Lemma diff_spec d a : forall b x, wf d a -> wf d b -> sorted a -> sorted b ->
  (In x (diff a b) <-> In x a /\ ~ In x b).
Proof.
  induction a as [|p a IHa]; intros b x Ha Hb Sa Sb; [cbn; destruct b; tauto|].
  induction b as [|q b IHb]; [cbn; tauto|].
  inversion Ha as [|? ? Hp Ha']; subst. inversion Hb as [|? ? Hq Hb']; subst.
  pose proof Sa as Sa0. pose proof Sb as Sb0.
  apply sorted_cons_inv in Sa. destruct Sa as [Sa Pa]. apply sorted_cons_inv in Sb. destruct Sb as [Sb Pb].
  rewrite diff_cons. destruct (cmp_total_cases p q) as [[E1 E2]|[[E1 E2]|[E1 E2]]]; [lia| | |]; rewrite E1.
  - (* p before q: p is kept *)
    cbn [In]. rewrite (IHa (q :: b) x Ha' Hb Sa Sb0). cbn [In]. split.
    + intros [H|[H1 H2]]; [subst x|tauto]. split; [auto|]. intros [H|H].
      * subst q. apply (lt_idx_irrefl p). exact E1.
      * assert (Forall (lt_idx p) b) as Hb2 by (eapply Forall_lt_trans with (y := q); eauto).
        rewrite Forall_forall in Hb2. apply (lt_idx_irrefl p). auto.
    + intros [[H|H] Hn]; [left; exact H|right; tauto].
  - (* q before p: q is dropped from b *)
    rewrite (IHb Hb' Sb). cbn [In]. split.
    + intros [H1 H2]. split; [exact H1|]. intros [H|H]; [|tauto]. subst x.
      destruct H1 as [H1|H1]; [subst q; apply (lt_idx_irrefl p); exact E2|].
      assert (Forall (lt_idx q) a) as Ha2 by (eapply Forall_lt_trans with (y := p); eauto).
      rewrite Forall_forall in Ha2. apply (lt_idx_irrefl q). auto.
    + tauto.
  - subst q. rewrite (IHa b x Ha' Hb' Sa Sb). cbn [In]. split.
    + intros [H1 H2]. split; [right; exact H1|]. intros [H|H]; [|tauto]. subst x.
      rewrite Forall_forall in Pa. apply (lt_idx_irrefl p). auto.
    + intros [[H|H] Hn]; [subst x; exfalso; apply Hn; left; reflexivity|]. split; [exact H|tauto].
Qed.

Lemma diff_wf d a b : wf d a -> wf d (diff a b).
Proof.
  intros Ha. unfold wf in *. rewrite Forall_forall in *. intros x Hx. apply diff_In_l in Hx. auto.
Qed.

Lemma diff_sorted a : forall b, sorted a -> sorted (diff a b).
Proof.
  induction a as [|p a IHa]; intros b Sa; [cbn; destruct b; constructor|].
  induction b as [|q b IHb]; [cbn; assumption|].
  pose proof Sa as Sa0. apply sorted_cons_inv in Sa. destruct Sa as [Sa Pa].
  rewrite diff_cons. destruct (cmp p q) eqn:E.
  - constructor; [apply IHa; exact Sa|]. rewrite Forall_forall in *. intros x Hx. apply diff_In_l in Hx. auto.
  - apply IHb.
  - apply IHa. exact Sa.
Qed.

(* ---------- lookup / addValues ---------- *)
Section Values.
  Variable V : Type.
  Variable dflt : V.
  Notation addValues := (addValues V dflt).
  Notation lookup := (lookup V).

  Lemma addValues_cons o old n new vals newvals : addValues (o :: old) (n :: new) vals newvals =
    match cmp n o with
    | ABeforeB => hd dflt newvals :: addValues (o :: old) new vals (tl newvals)
    | _ => hd dflt vals :: addValues old (n :: new) (tl vals) newvals
    end.
  Proof. reflexivity. Qed.

  Lemma addValues_length old : forall new vals newvals,
    length vals = length old -> length newvals = length new ->
    length (addValues old new vals newvals) = (length old + length new)%nat.
  Proof.
    induction old as [|o old IHo]; intros new vals newvals Hv Hn; [cbn; destruct new; cbn in *; lia|].
    revert vals newvals Hv Hn. induction new as [|n new IHn]; intros vals newvals Hv Hn; [cbn in *; lia|].
    rewrite addValues_cons. destruct (cmp n o) eqn:E; cbn [length].
    - rewrite IHn; [cbn [length]; lia|exact Hv|destruct newvals; cbn in *; lia].
    - rewrite IHo; [cbn [length]; lia|destruct vals; cbn in *; lia|exact Hn].
    - rewrite IHo; [cbn [length]; lia|destruct vals; cbn in *; lia|exact Hn].
  Qed.

  Lemma lookup_not_in s : forall vals p, (forall q, In q s -> cmp p q <> ASameB) -> lookup s vals p = None.
  Proof.
    induction s as [|q s IH]; intros vals p H; [reflexivity|]. destruct vals as [|v vals]; [reflexivity|].
    cbn. destruct (cmp p q) eqn:E; try (apply IH; intros; apply H; right; assumption).
    exfalso. apply (H q); [left; reflexivity|exact E].
  Qed.

  (* the value found for p after the positional merge is the value supplied for p: the new one when p
     is a new index, the old one otherwise *)
  Theorem addValues_lookup d old : forall new vals newvals p,
    wf d old -> wf d new -> sorted old -> sorted new -> length p = d ->
    (forall x, In x old -> ~ In x new) ->
    length vals = length old -> length newvals = length new ->
    lookup (merge old new) (addValues old new vals newvals) p =
      match lookup new newvals p with Some v => Some v | None => lookup old vals p end.
  Proof.
    induction old as [|o old IHo]; intros new vals newvals p Ho Hn So Sn Hp Hdis Hv Hnv.
    { assert (E : merge [] new = new) by (destruct new; reflexivity).
      assert (E2 : addValues [] new vals newvals = newvals) by (destruct new; reflexivity).
      rewrite E, E2. destruct (lookup new newvals p); reflexivity. }
    revert vals newvals Hv Hnv. induction new as [|n new IHn]; intros vals newvals Hv Hnv.
    { cbn [merge IndexSets.addValues]. cbn [IndexSets.lookup]. destruct vals; reflexivity. }
    pose proof (Forall_inv Ho) as Hlo. pose proof (Forall_inv_tail Ho) as Ho'. cbn beta in Hlo.
    pose proof (Forall_inv Hn) as Hln. pose proof (Forall_inv_tail Hn) as Hn'. cbn beta in Hln.
    pose proof So as So0. pose proof Sn as Sn0.
    apply sorted_cons_inv in So. destruct So as [So Po]. apply sorted_cons_inv in Sn. destruct Sn as [Sn Pn].
    rewrite merge_cons, addValues_cons.
    destruct (cmp_total_cases o n) as [[E1 E2]|[[E1 E2]|[E1 E2]]]; [lia| | |].
    - (* o before n: old block first *)
      rewrite E1, E2. destruct vals as [|v vals]; [cbn in Hv; lia|]. cbn [hd tl].
      change (lookup (o :: merge old (n :: new)) (v :: addValues old (n :: new) vals newvals) p)
        with (match cmp p o with ASameB => Some v | _ => lookup (merge old (n :: new)) (addValues old (n :: new) vals newvals) p end).
      change (lookup (o :: old) (v :: vals) p) with (match cmp p o with ASameB => Some v | _ => lookup old vals p end).
      destruct (cmp p o) eqn:Epo.
      + rewrite (IHo (n :: new) vals newvals p Ho' Hn So Sn0 Hp);
          [reflexivity|intros x Hx; apply Hdis; right; exact Hx|cbn in Hv; lia|exact Hnv].
      + rewrite (IHo (n :: new) vals newvals p Ho' Hn So Sn0 Hp);
          [reflexivity|intros x Hx; apply Hdis; right; exact Hx|cbn in Hv; lia|exact Hnv].
      + (* p = o: not among the new indexes *)
        assert (p = o) by (apply cmp_same_eq; [lia|exact Epo]). subst p.
        rewrite lookup_not_in; [reflexivity|].
        intros q Hq Hc. assert (o = q) by (apply cmp_same_eq; [unfold wf in Hn; rewrite Forall_forall in Hn; rewrite (Hn q Hq); lia|exact Hc]).
        subst q. apply (Hdis o); [left; reflexivity|exact Hq].
    - (* n before o: new block first *)
      rewrite E1, E2. destruct newvals as [|w newvals]; [cbn in Hnv; lia|]. cbn [hd tl].
      change (lookup (n :: merge (o :: old) new) (w :: addValues (o :: old) new vals newvals) p)
        with (match cmp p n with ASameB => Some w | _ => lookup (merge (o :: old) new) (addValues (o :: old) new vals newvals) p end).
      change (lookup (n :: new) (w :: newvals) p) with (match cmp p n with ASameB => Some w | _ => lookup new newvals p end).
      destruct (cmp p n) eqn:Epn.
      + apply IHn; [exact Hn'|exact Sn|intros x Hx Hx2; apply (Hdis x Hx); right; exact Hx2|exact Hv|cbn in Hnv; lia].
      + apply IHn; [exact Hn'|exact Sn|intros x Hx Hx2; apply (Hdis x Hx); right; exact Hx2|exact Hv|cbn in Hnv; lia].
      + reflexivity.
    - exfalso. subst n. apply (Hdis o); left; reflexivity.
  Qed.
End Values.

(* the association is wrong when the two sets share a key: why disjointness (an invariant of the grid
   state machine) is needed *)
Example addValues_overlap_refuted :
  exists old new (vals newvals : list Z) p,
    sorted old /\ sorted new /\ In p new /\
    lookup Z new newvals p = Some 20 /\
    lookup Z (merge old new) (addValues Z 0 old new vals newvals) p = Some 10 /\
    length (addValues Z 0 old new vals newvals) <> length (merge old new).
Proof.
  exists [[1]], [[1]], [10], [20], [1].
  split; [repeat constructor|]. split; [repeat constructor|]. split; [left; reflexivity|].
  cbn. repeat split; try reflexivity. discriminate.
Qed.

(* ---------- sort_unique ---------- *)
Lemma insert_In x s y : In y (insert x s) -> y = x \/ In y s.
Proof.
  induction s as [|q s IH]; cbn [insert].
  - intros [H|[]]. left. symmetry. exact H.
  - destruct (cmp x q); cbn [In]; intros H.
    + destruct H as [H|H]; [left; symmetry; exact H|right; exact H].
    + destruct H as [H|H]; [right; left; exact H|]. apply IH in H. destruct H as [H|H]; [left; exact H|right; right; exact H].
    + right. exact H.
Qed.

Lemma In_insert d x s y : length x = d -> wf d s -> (y = x \/ In y s) -> In y (insert x s).
Proof.
  intros Hx. induction s as [|q s IH]; intros Hw; cbn [insert].
  - intros [H|[]]. left. symmetry. exact H.
  - pose proof (Forall_inv Hw) as Hq. pose proof (Forall_inv_tail Hw) as Hw'. cbn beta in Hq.
    destruct (cmp x q) eqn:E; cbn [In]; intros H.
    + destruct H as [H|H]; [left; symmetry; exact H|right; exact H].
    + destruct H as [H|[H|H]]; [right; apply IH; auto|left; exact H|right; apply IH; auto].
    + destruct H as [H|H]; [|exact H]. left. subst y. symmetry. apply cmp_same_eq; [lia|exact E].
Qed.

Lemma insert_wf d x s : length x = d -> wf d s -> wf d (insert x s).
Proof.
  intros Hx Hw. unfold wf in *. rewrite Forall_forall in *. intros y Hy. apply insert_In in Hy. destruct Hy; subst; auto.
Qed.

Lemma insert_sorted d x s : length x = d -> wf d s -> sorted s -> sorted (insert x s).
Proof.
  intros Hx. induction s as [|q s IH]; intros Hw Hs; cbn; [repeat constructor|].
  inversion Hw as [|? ? Hq Hw']; subst. pose proof Hs as Hs0. apply sorted_cons_inv in Hs. destruct Hs as [Hs Pq].
  destruct (cmp_total_cases x q) as [[E1 E2]|[[E1 E2]|[E1 E2]]]; [lia| | |]; rewrite E1.
  - constructor; [exact Hs0|]. constructor; [exact E1|]. eapply Forall_lt_trans with (y := q); eauto.
  - constructor; [apply IH; assumption|]. rewrite Forall_forall in *. intros y Hy. apply insert_In in Hy.
    destruct Hy as [->|Hy]; auto.
  - exact Hs0.
Qed.

Lemma sort_unique_spec d l : wf d l ->
  sorted (sort_unique l) /\ wf d (sort_unique l) /\ (forall x, In x (sort_unique l) <-> In x l).
Proof.
  induction l as [|p l IH]; intros Hw; cbn; [repeat split; try constructor; tauto|].
  inversion Hw as [|? ? Hp Hw']; subst. destruct (IH Hw') as [H1 [H2 H3]].
  repeat split.
  - eapply insert_sorted; eauto.
  - eapply insert_wf; eauto.
  - intros H. apply insert_In in H. rewrite H3 in H. destruct H; auto.
  - intros H. eapply In_insert; eauto. rewrite H3. destruct H; auto.
Qed.

(* two strictly sorted sets with the same elements are equal *)
Lemma sorted_ext d s1 : forall s2, wf d s1 -> wf d s2 -> sorted s1 -> sorted s2 ->
  (forall x, In x s1 <-> In x s2) -> s1 = s2.
Proof.
  induction s1 as [|a s1 IH]; intros [|b s2] W1 W2 S1 S2 E.
  - reflexivity.
  - exfalso. apply (E b). left; reflexivity.
  - exfalso. apply (E a). left; reflexivity.
  - inversion W1 as [|? ? La W1']; subst. inversion W2 as [|? ? Lb W2']; subst.
    apply sorted_cons_inv in S1. destruct S1 as [S1 P1]. apply sorted_cons_inv in S2. destruct S2 as [S2 P2].
    rewrite Forall_forall in P1, P2.
    assert (a = b).
    { destruct (proj1 (E a) (or_introl eq_refl)) as [H|H]; [auto|].
      destruct (proj2 (E b) (or_introl eq_refl)) as [H'|H']; [auto|].
      exfalso. apply (lt_idx_irrefl a). apply (lt_idx_trans a b a); [lia|lia|apply P1; exact H'|apply P2; exact H]. }
    subst b. f_equal. apply IH; auto. intros x. split; intros H.
    + destruct (proj1 (E x) (or_intror H)) as [Hx|Hx]; [|exact Hx]. subst x. exfalso. apply (lt_idx_irrefl a). auto.
    + destruct (proj2 (E x) (or_intror H)) as [Hx|Hx]; [|exact Hx]. subst x. exfalso. apply (lt_idx_irrefl a). auto.
Qed.

(* the result of the sorting constructor does not depend on the order (or multiplicity) of its input:
   this is what makes "collect candidates in any order, then sort" deterministic (C13) *)
Theorem sort_unique_perm_invariant d l1 l2 : wf d l1 -> wf d l2 ->
  (forall x, In x l1 <-> In x l2) -> sort_unique l1 = sort_unique l2.
Proof.
  intros W1 W2 E. destruct (sort_unique_spec d l1 W1) as [S1 [V1 M1]]. destruct (sort_unique_spec d l2 W2) as [S2 [V2 M2]].
  apply (sorted_ext d); auto. intros x. rewrite M1, M2. apply E.
Qed.

(* merge computes the sorted union: it is commutative and associative on strictly sorted sets (C13 union tree) *)
Theorem merge_comm d a b : wf d a -> wf d b -> sorted a -> sorted b -> merge a b = merge b a.
Proof.
  intros. apply (sorted_ext d); try (apply merge_wf; auto); try (eapply merge_sorted; eauto).
  intros x. split; intros Hx; apply merge_In in Hx; eapply In_merge; eauto; tauto.
Qed.

Theorem merge_assoc d a b c : wf d a -> wf d b -> wf d c -> sorted a -> sorted b -> sorted c ->
  merge (merge a b) c = merge a (merge b c).
Proof.
  intros. apply (sorted_ext d); try (apply merge_wf; auto; apply merge_wf; auto);
    try (eapply merge_sorted; eauto; try (apply merge_wf; auto); eapply merge_sorted; eauto).
  intros x. split; intros Hx.
  - apply merge_In in Hx. destruct Hx as [Hx|Hx]; [apply merge_In in Hx|].
    + eapply In_merge; eauto; [apply merge_wf; auto|]. destruct Hx; [left; auto|right; eapply In_merge; eauto].
    + eapply In_merge; eauto; [apply merge_wf; auto|]. right. eapply In_merge; eauto.
  - apply merge_In in Hx. destruct Hx as [Hx|Hx]; [|apply merge_In in Hx].
    + eapply In_merge; eauto; [apply merge_wf; auto|]. left. eapply In_merge; eauto.
    + eapply In_merge; eauto; [apply merge_wf; auto|]. destruct Hx; [left; eapply In_merge; eauto|right; auto].
Qed.

(* ---------- mem ---------- *)
Lemma mem_In d p s : length p = d -> wf d s -> (mem p s = true <-> In p s).
Proof.
  intros Hp Hw. unfold mem. rewrite existsb_exists. split.
  - intros [q [Hq Hc]]. destruct (cmp p q) eqn:E; try discriminate.
    assert (p = q) by (apply cmp_same_eq; [unfold wf in Hw; rewrite Forall_forall in Hw; rewrite (Hw q Hq); exact Hp|exact E]).
    subst. exact Hq.
  - intros H. exists p. split; [exact H|]. rewrite cmp_refl. reflexivity.
Qed.
