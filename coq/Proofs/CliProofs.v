(* Lemmas about the model of the tasgrid tool (C16).  The tables come from gen/CliTable.v (regenerated from the
   source on every run), so the finite facts below are re-established for the CURRENT source by computation. *)
From TV Require Import Common.Prelude gen.CliTable Model.Cli.
From Coq Require Import String Ascii.
Local Open Scope Z_scope.

(* ------------------------------------------------------------------------------------------------ *)
(* equality tests *)
Lemma command_beq_eq (a b : command) : command_beq a b = true <-> a = b.
Proof. split; [apply internal_command_dec_bl | apply internal_command_dec_lb]. Qed.

Lemma command_beq_refl (a : command) : command_beq a a = true.
Proof. apply command_beq_eq; reflexivity. Qed.

Lemma command_beq_neq (a b : command) : command_beq a b = false <-> a <> b.
Proof.
  split; intros H.
  - intros ->. rewrite command_beq_refl in H. discriminate.
  - destruct (command_beq a b) eqn:E; [|reflexivity]. apply command_beq_eq in E. contradiction.
Qed.

Lemma mem_command_In (c : command) (l : list command) : mem_command c l = true <-> In c l.
Proof.
  induction l as [|a l IH]; cbn; [split; [discriminate | tauto]|].
  rewrite orb_true_iff, IH, command_beq_eq. split; intros [H|H]; auto.
Qed.

(* ------------------------------------------------------------------------------------------------ *)
(* association lists keyed by strings *)
Lemma assoc_In {B} (k : string) (l : list (string * B)) (v : B) : assoc k l = Some v -> In (k, v) l.
Proof.
  induction l as [|[k' v'] l IH]; cbn; [discriminate|].
  destruct (String.eqb k k') eqn:E.
  - apply String.eqb_eq in E. subst. intros H; injection H as ->. now left.
  - intros H. right. now apply IH.
Qed.

Lemma In_assoc_some {B} (k : string) (l : list (string * B)) (v : B) : In (k, v) l -> exists v', assoc k l = Some v'.
Proof.
  induction l as [|[k' v'] l IH]; cbn; [tauto|].
  intros [H|H].
  - injection H as -> ->. rewrite String.eqb_refl. eauto.
  - destruct (String.eqb k k'); eauto.
Qed.

(* two different commands bound to the same switch string: the string is listed in [ambiguous_switches] *)
Lemma switch_conflict_listed (s : string) (c1 c2 : command) :
  In (s, c1) switch_table -> In (s, c2) switch_table -> c1 <> c2 -> In s ambiguous_switches.
Proof.
  intros H1 H2 Hne. unfold ambiguous_switches.
  destruct (In_assoc_some _ _ _ H1) as [c Hc].
  assert (Hsome : exists c', In (s, c') switch_table /\ c <> c').
  { destruct (command_eq_dec c c1) as [->|N1]; [exists c2; split; auto | exists c1; split; auto]. }
  destruct Hsome as [c' [Hin Hd]].
  apply in_map_iff. exists (s, c'). split; [reflexivity|].
  apply filter_In. split; [exact Hin|]. cbn [fst snd]. unfold lookup_switch. rewrite Hc.
  apply negb_true_iff. now apply command_beq_neq.
Qed.

Lemma switch_table_functional_if_unambiguous :
  ambiguous_switches = [] -> forall s c1 c2, In (s, c1) switch_table -> In (s, c2) switch_table -> c1 = c2.
Proof.
  intros Hnil s c1 c2 H1 H2. destruct (command_eq_dec c1 c2) as [|N]; [assumption|].
  pose proof (switch_conflict_listed s c1 c2 H1 H2 N) as H. rewrite Hnil in H. destruct H.
Qed.

(* lookup is the first binding of the source order, and always one of the bindings *)
Lemma lookup_switch_In (s : string) (c : command) : lookup_switch s = Some c -> In (s, c) switch_table.
Proof. apply assoc_In. Qed.

(* ------------------------------------------------------------------------------------------------ *)
(* parse keeps the command selected by the first argument *)
Lemma parse_opts_cmd (c : command) (args : list string) :
  forall acc r, parse_opts c args acc = Some r -> r_cmd r = c.
Proof.
  induction args as [args IH] using (well_founded_induction (Wf_nat.well_founded_ltof _ (@List.length string))).
  intros acc r. destruct args as [|a rest]; cbn [parse_opts].
  - intros H; inversion H; reflexivity.
  - destruct (is_help a); [discriminate|].
    destruct (assoc a option_table) as [[st k]|].
    + destruct k; try (destruct rest as [|v rest']; [discriminate|]; destruct (value_ok _ v); [|discriminate];
                       apply IH; unfold ltof; cbn; lia).
      apply IH; unfold ltof; cbn; lia.
    + destruct (positional_gridfile c); apply IH; unfold ltof; cbn; lia.
Qed.

Lemma parse_cmd (s : string) (rest : list string) (r : request) :
  parse (s :: rest) = Some r -> lookup_switch s = Some (r_cmd r).
Proof.
  unfold parse. destruct (lookup_switch s) as [c|]; [|discriminate].
  intros H. apply parse_opts_cmd in H. now subst.
Qed.

(* ------------------------------------------------------------------------------------------------ *)
(* checkSane: the regenerated requirement table is enforced *)
Lemma sane_enforces (r : request) (q : req) (cs : list command) :
  In (q, cs) required -> In (r_cmd r) cs -> sane r = true -> holds q r = true.
Proof.
  intros Hin Hc Hs. unfold sane in Hs. apply andb_true_iff in Hs as [Ht _].
  unfold sane_table in Ht. rewrite forallb_forall in Ht. specialize (Ht _ Hin). cbn [fst snd] in Ht.
  apply mem_command_In in Hc. rewrite Hc in Ht. exact Ht.
Qed.

(* ------------------------------------------------------------------------------------------------ *)
(* plans *)
Lemma app_not_nil_l {A} (a b : list A) : a <> [] -> a ++ b <> [].
Proof. destruct a; [congruence | discriminate]. Qed.

Lemma make_call_nonempty (r : request) : is_make (r_cmd r) = true -> make_call r <> [].
Proof.
  unfold make_call. destruct (r_cmd r); cbn; try discriminate; intros _;
    repeat match goal with |- context [if ?b then _ else _] => destruct b end; discriminate.
Qed.

Lemma plan_total (r : request) (g : ginfo) : plan r g <> [].
Proof.
  unfold plan. destruct (r_cmd r) eqn:E; cbn [is_make]; try discriminate;
    apply app_not_nil_l; apply make_call_nonempty; rewrite E; reflexivity.
Qed.

Lemma plan_reads_first (r : request) (g : ginfo) :
  is_make (r_cmd r) = false -> r_cmd r <> command_makeexoquad -> exists tl, plan r g = ReadGrid (gridfile r) :: tl.
Proof.
  intros Hm Hx. unfold plan. destruct (r_cmd r) eqn:E; cbn in Hm; try discriminate; try congruence; cbn [is_make]; eexists; reflexivity.
Qed.

Definition quiet (a : api) : bool := negb (mutating a) && negb (is_write a).

Lemma forallb_app' {A} (f : A -> bool) (a b : list A) : forallb f a = true -> forallb f b = true -> forallb f (a ++ b) = true.
Proof. intros; rewrite forallb_app; now apply andb_true_iff. Qed.

Lemma out_if_quiet (r : request) (a : api) : quiet a = true -> forallb quiet (out_if r a) = true.
Proof. intros H. unfold out_if. destruct (has_sink r); cbn; [rewrite H|]; reflexivity. Qed.

(* a command that the documentation describes as a query: its plan neither changes the grid nor writes the file *)
Lemma readonly_plan_quiet (r : request) (g : ginfo) :
  doc_readonly (r_cmd r) = true -> forallb quiet (plan r g) = true.
Proof.
  intros H. unfold plan. destruct (r_cmd r) eqn:E; cbn in H; try discriminate; cbn [is_make doc_readonly];
    cbn [forallb quiet mutating is_write negb andb]; unfold body; rewrite E; rewrite ?app_nil_r;
    try reflexivity; try (apply out_if_quiet; reflexivity).
Qed.

Lemma last_app_single {A} (l : list A) (x d : A) : last (l ++ [x]) d = x.
Proof. apply last_last. Qed.

(* every other command (apart from -makeexoquad, which has no grid) ends by writing the grid file it was given *)
Lemma mutating_plan_writes_last (r : request) (g : ginfo) (d : api) :
  doc_readonly (r_cmd r) = false -> r_cmd r <> command_makeexoquad -> opt_nonempty setGridFilename r = true ->
  last (plan r g) d = WriteGrid (gridfile r) (asciif r).
Proof.
  intros H Hx Hg. unfold plan, write_calls. rewrite Hg.
  destruct (r_cmd r) eqn:E; cbn in H; try discriminate; try congruence; cbn [is_make doc_readonly];
    rewrite ?app_assoc; try apply last_app_single;
    (* commands with a ReadGrid head *)
    rewrite app_comm_cons; apply last_app_single.
Qed.

(* the regenerated const list against the documentation *)
Lemma const_list_matches_doc_if_no_deviation :
  const_list_deviations = [] -> forall c, In c const_commands <-> doc_readonly c = true.
Proof.
  intros Hnil c.
  assert (Hall : In c all_commands) by (destruct c; vm_compute; tauto).
  assert (Hx : xorb (mem_command c const_commands) (doc_readonly c) = false).
  { destruct (xorb (mem_command c const_commands) (doc_readonly c)) eqn:X; [|reflexivity].
    assert (In c const_list_deviations) by (apply filter_In; split; assumption).
    rewrite Hnil in H. destruct H. }
  rewrite <- mem_command_In.
  destruct (mem_command c const_commands), (doc_readonly c); cbn in Hx; try discriminate; split; auto.
Qed.

Lemma const_not_deviating_is_readonly (c : command) :
  In c const_commands -> ~ In c const_list_deviations -> doc_readonly c = true.
Proof.
  intros Hc Hn. destruct (doc_readonly c) eqn:D; [reflexivity|]. exfalso. apply Hn.
  apply filter_In. split; [destruct c; vm_compute; tauto|].
  apply mem_command_In in Hc. rewrite Hc, D. reflexivity.
Qed.

(* ------------------------------------------------------------------------------------------------ *)
(* the binary matrix file *)
Lemma le32_de32 (z : Z) : 0 <= z < 4294967296 ->
  de32 (z mod 256) ((z / 256) mod 256) ((z / 65536) mod 256) ((z / 16777216) mod 256) = z.
Proof. intros H. unfold de32. lia. Qed.

Lemma take_blocks_concat (data : list (list byte)) (tl : list byte) :
  Forall (fun b => List.length b = 8%nat) data -> take_blocks (List.length data) (List.concat data ++ tl) = Some (data, tl).
Proof.
  induction 1 as [|b data Hb _ IH]; [reflexivity|].
  destruct b as [|b0 [|b1 [|b2 [|b3 [|b4 [|b5 [|b6 [|b7 [|b8 b]]]]]]]]]; cbn in Hb; try discriminate.
  cbn [List.concat]. rewrite <- app_assoc. cbn [List.length app take_blocks]. rewrite IH. reflexivity.
Qed.

Lemma matrix_bin_roundtrip (m : matrix) : wf_matrix m -> readMatrix (writeMatrix m) = Some m.
Proof.
  destruct m as [rows cols data]. unfold wf_matrix; cbn [m_rows m_cols m_data].
  intros (Hr & Hc & Hlen & Hall).
  unfold writeMatrix, tsg_magic, le32; cbn [m_rows m_cols m_data app].
  unfold readMatrix.
  rewrite !le32_de32 by lia.
  replace (Z.to_nat (rows * cols)) with (List.length data) by lia.
  rewrite <- (app_nil_r (List.concat data)), take_blocks_concat by assumption.
  reflexivity.
Qed.

(* the header and every byte of it are in range *)
Lemma le32_bytes (z : Z) : Forall (fun b => 0 <= b < 256) (le32 z).
Proof. unfold le32. repeat (apply Forall_cons; [apply Z.mod_pos_bound; reflexivity|]). apply Forall_nil. Qed.

Lemma writeMatrix_length (m : matrix) : Forall (fun b => List.length b = 8%nat) (m_data m) ->
  List.length (writeMatrix m) = (11 + 8 * List.length (m_data m))%nat.
Proof.
  intros H. unfold writeMatrix, tsg_magic, le32. rewrite !app_length.
  assert (List.length (List.concat (m_data m)) = (8 * List.length (m_data m))%nat).
  { induction H as [|b l Hb _ IH]; [reflexivity|]. cbn [List.concat List.length]. rewrite app_length, IH, Hb. lia. }
  rewrite H0. cbn [List.length]. lia.
Qed.

(* ------------------------------------------------------------------------------------------------ *)
(* finite facts about the regenerated tables, by computation *)
Lemma switch_clashes_known : incl ambiguous_switches ["-sc"%string].
Proof. vm_compute. intros a H. repeat (destruct H as [H|H]; [left; exact H|]). destruct H. Qed.

Lemma parse_selects_table_command (s : string) (rest : list string) (r : request) :
  parse (s :: rest) = Some r -> lookup_switch s = Some (r_cmd r) /\ In (s, r_cmd r) switch_table.
Proof. intros H. pose proof (parse_cmd s rest r H) as L. split; [exact L | exact (lookup_switch_In _ _ L)]. Qed.

Lemma every_command_reachable (c : command) : exists s, lookup_switch s = Some c.
Proof.
  assert (H : forallb (fun c => existsb (fun sc => match lookup_switch (fst sc) with
                                                  | Some c' => command_beq c c' | None => false end) switch_table)
                      all_commands = true) by (vm_compute; reflexivity).
  rewrite forallb_forall in H.
  assert (Hc : In c all_commands) by (destruct c; vm_compute; tauto).
  specialize (H c Hc). apply existsb_exists in H as [[s c0] [_ Hs]]. cbn [fst] in Hs.
  exists s. destruct (lookup_switch s) as [c'|]; [|discriminate]. apply command_beq_eq in Hs. now subst.
Qed.

Lemma help_rows_resolve (row : string * option string) :
  In row help_table -> ~ In (fst row) help_deviations -> help_row_ok row = true.
Proof.
  intros Hin Hn. destruct (help_row_ok row) eqn:E; [reflexivity|]. exfalso. apply Hn.
  apply in_map_iff. exists row. split; [reflexivity|]. apply filter_In. split; [assumption|]. now rewrite E.
Qed.

Lemma help_deviations_known : incl help_deviations ["-getneededpoints"%string; "-setcoefficients"%string].
Proof. vm_compute. intros a H. repeat (destruct H as [H|H]; [subst; cbn; tauto|]). destruct H. Qed.

Lemma const_commands_quiet (r : request) (g : ginfo) :
  In (r_cmd r) const_commands -> ~ In (r_cmd r) const_list_deviations -> forallb quiet (plan r g) = true.
Proof. intros Hc Hn. apply readonly_plan_quiet. now apply const_not_deviating_is_readonly. Qed.

Lemma const_list_deviations_known : incl const_list_deviations [command_using_construct].
Proof. vm_compute. intros a H. repeat (destruct H as [H|H]; [subst; cbn; tauto|]). destruct H. Qed.

(* every rule name of the library (except "none") belongs to exactly one grid family of the model *)
Lemma rule_strings_classified :
  forallb (fun s => String.eqb s "none" ||
                    (Nat.eqb (List.length (filter (fun b : bool => b)
                       [rule_is_global s; rule_is_localp s; rule_is_wavelet s; rule_is_fourier s])) 1))
          rule_strings = true.
Proof. vm_compute. reflexivity. Qed.

(* ------------------------------------------------------------------------------------------------ *)
(* the dispatch switch of executeCommand (regenerated) against the plans: the handler that the source selects for a
   command is the one whose library call the documented plan of that command contains *)
Definition handler_matches (h : handler) (a : api) : bool :=
  match h, a with
  | HUpdate, UpdateGrid _ _ _ => true
  | HEvalLike, (EvaluateBatch _ _ | Differentiate _ _ | InterpolationWeights _ _ | DifferentiationWeights _ _
               | HierarchicalDense _ _ | HierarchicalSparse _ _) => true
  | HOutputLike, (Integrate _ | HierarchicalSupport _ | AnisoCoefficients _ _ _) => true
  | HGetCoefficients, GetCoefficients _ _ => true
  | HLoadValues, (LoadNeededValues _ | LoadConstructedPoints _ _) => true
  | HSetCoefficients, SetCoefficients _ _ => true
  | HCancelRefine, ClearRefinement => true
  | HMergeRefine, MergeRefinement => true
  | HUsingConstruct, PrintUsingConstruction => true
  | HSummary, PrintStats => true
  | HIndexes, (OutPointsIndexes _ | OutNeededIndexes _) => true
  | HGetPoly, GlobalPolynomialSpace _ _ => true
  | HRefine, (AnisoRefine _ _ _ _ | SurplusRefine _ _ _ _ _ _) => true
  | HCandidates, (CandidatesAnisoWeights _ _ _ _ | CandidatesAnisoOutput _ _ _ _ | CandidatesSurplus _ _ _ _ _ _ _) => true
  | _, _ => false
  end.

Lemma dispatch_matches_plan (c : command) (h : handler) :
  In (c, h) dispatch -> forall r g, r_cmd r = c -> existsb (handler_matches h) (body r g) = true.
Proof.
  intros Hin r g Hc. unfold dispatch in Hin. cbn [In] in Hin.
  repeat (destruct Hin as [Hin|Hin]; [injection Hin as <- <-; unfold body, refine_calls, candidate_calls; rewrite Hc;
    repeat match goal with |- context [if ?b then _ else _] => destruct b end; reflexivity|]).
  destruct Hin.
Qed.

(* ... and every command that works on an existing grid and has a non-trivial body is in the dispatch switch, or is
   one of the commands handled by the output section / the conformal section of executeCommand *)
Definition handled_outside_switch (c : command) : bool :=
  match c with
  | command_setconformal | command_getquadrature | command_getpoints | command_getneeded => true
  | _ => false
  end.

Lemma dispatch_covers_commands :
  forallb (fun c => is_make c || command_beq c command_makeexoquad || handled_outside_switch c ||
                    existsb (fun ch => command_beq c (fst ch)) dispatch) all_commands = true.
Proof. vm_compute. reflexivity. Qed.
