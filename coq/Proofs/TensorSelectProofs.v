(* Proofs about the tensor selection with the integer depth types and the declared polynomial space (Model/TensorSelect.v).
   For every dimension, offset, weights >= 1, limits and every non-decreasing table:
     membership characterisation, lower / sorted / duplicate free, within the limits, monotone in the offset,
     the polynomial space is {k : exists t in Theta, 0 <= k_j <= exact(t_j)};
   then the instances for the tables generated from the source (gen/ExactnessGen.v).  No axioms. *)
From TV Require Import Common.Prelude Model.IndexSets gen.ExactnessGen Model.TensorSelect.
From TV Require Import Proofs.IndexSetsProofs Proofs.CombinationProofs Proofs.ExactnessProofs.
From Coq Require Import Sorting.Sorted QArith Qcanon.
Local Open Scope Z_scope.

(* ================================================================ 0. multi-indexes *)
Definition nonneg (t : idx) : Prop := Forall (fun x => 0 <= x) t.
(* s below t: same length, 0 <= s_j <= t_j *)
Definition le_idx (s t : idx) : Prop := Forall2 (fun a b => 0 <= a <= b) s t.
(* a lower (downward closed) set of multi-indexes *)
Definition lowerZ (Theta : list idx) : Prop := forall t s, In t Theta -> le_idx s t -> In s Theta.

Lemma le_idx_length s t : le_idx s t -> length s = length t.
Proof. induction 1; cbn; [reflexivity|f_equal; assumption]. Qed.

Lemma le_idx_refl t : nonneg t -> le_idx t t.
Proof. induction 1; constructor; [lia|assumption]. Qed.

Lemma le_idx_nonneg s t : le_idx s t -> nonneg s /\ nonneg t.
Proof. induction 1 as [|a b s t H _ [IH1 IH2]]; split; constructor; try assumption; lia. Qed.

Lemma le_idx_app s1 t1 s2 t2 : le_idx s1 t1 -> le_idx s2 t2 -> le_idx (s1 ++ s2) (t1 ++ t2).
Proof. apply Forall2_app. Qed.

Lemma le_idx_zeros t : nonneg t -> le_idx (repeat 0 (length t)) t.
Proof. induction 1; cbn; constructor; [lia|assumption]. Qed.

Lemma nonneg_app a b : nonneg (a ++ b) <-> nonneg a /\ nonneg b.
Proof. apply Forall_app. Qed.

Lemma nonneg_zeros n : nonneg (repeat 0 n).
Proof. induction n; cbn; constructor; [lia|assumption]. Qed.

Lemma cmp_app_prefix p : forall a b, cmp (p ++ a) (p ++ b) = cmp a b.
Proof. induction p as [|x p IH]; intros a b; cbn; [reflexivity|]. rewrite Z.ltb_irrefl. apply IH. Qed.

Lemma sorted_app (l1 l2 : list idx) : sorted l1 -> sorted l2 -> (forall a b, In a l1 -> In b l2 -> lt_idx a b) -> sorted (l1 ++ l2).
Proof.
  intros H1 H2 H. induction l1 as [|a l1 IH]; [exact H2|]. cbn.
  apply sorted_cons_inv in H1. destruct H1 as [H1 Ha]. constructor.
  - apply IH; [exact H1|]. intros x y Hx Hy. apply H; [right; exact Hx|exact Hy].
  - apply Forall_app. split; [exact Ha|]. apply Forall_forall. intros y Hy. apply H; [left; reflexivity|exact Hy].
Qed.

(* ================================================================ 1. the walk of generateLowerMultiIndexSet *)
Lemma scan_shape inside sub pad r (Hsub : forall q t, In t (sub q) -> exists s, t = q ++ s /\ length s = r) :
  forall n p x t, In t (scan inside sub pad n p x) -> exists y s, t = p ++ [y] ++ s /\ x <= y /\ length s = r.
Proof.
  induction n as [|n IH]; intros p x t H; [destruct H|]. cbn [scan] in H. apply in_app_or in H. destruct H as [H|H].
  - apply Hsub in H. destruct H as [s [-> Hs]]. exists x, s. rewrite <- app_assoc. repeat split; [lia|exact Hs].
  - destruct (inside (pad (p ++ [x + 1]))); [|destruct H]. apply IH in H. destruct H as [y [s [-> [Hy Hs]]]].
    exists y, s. repeat split; [lia|exact Hs].
Qed.

Lemma walk_shape inside fuel : forall rest p t, In t (walk inside fuel rest p) -> exists s, t = p ++ s /\ length s = rest.
Proof.
  induction rest as [|r IH]; intros p t H.
  - destruct H as [<-|[]]. exists []. rewrite app_nil_r. split; reflexivity.
  - cbn [walk] in H. apply (scan_shape inside (walk inside fuel r) _ r (IH)) in H.
    destruct H as [y [s [-> [_ Hs]]]]. exists (y :: s). split; [reflexivity|cbn; lia].
Qed.

(* the output is strictly increasing in the lexicographic order, whatever the criterion *)
Lemma scan_sorted inside sub pad r (Hshape : forall q t, In t (sub q) -> exists s, t = q ++ s /\ length s = r)
  (Hsorted : forall q, sorted (sub q)) : forall n p x, sorted (scan inside sub pad n p x).
Proof.
  induction n as [|n IH]; intros p x; [constructor|]. cbn [scan]. apply sorted_app; [apply Hsorted| |].
  - destruct (inside (pad (p ++ [x + 1]))); [apply IH|constructor].
  - intros a b Ha Hb. apply Hshape in Ha. destruct Ha as [s [-> Hs]].
    destruct (inside (pad (p ++ [x + 1]))); [|destruct Hb].
    apply (scan_shape inside sub pad r Hshape) in Hb. destruct Hb as [y [s' [-> [Hy Hs']]]].
    unfold lt_idx. rewrite <- app_assoc. rewrite cmp_app_prefix. cbn. assert (x <? y = true) as -> by lia. reflexivity.
Qed.

Lemma walk_sorted inside fuel : forall rest p, sorted (walk inside fuel rest p).
Proof.
  induction rest as [|r IH]; intros p; [cbn; repeat constructor|]. cbn [walk].
  apply (scan_sorted inside (walk inside fuel r) _ r); [apply walk_shape|exact IH].
Qed.

(* the walk depends on the criterion only through its values *)
Lemma scan_ext i1 i2 sub1 sub2 pad (Hi : forall t, i1 t = i2 t) (Hs : forall q, sub1 q = sub2 q) :
  forall n p x, scan i1 sub1 pad n p x = scan i2 sub2 pad n p x.
Proof. induction n as [|n IH]; intros p x; [reflexivity|]. cbn [scan]. rewrite Hs, Hi, IH. reflexivity. Qed.

Lemma walk_ext i1 i2 fuel (Hi : forall t, i1 t = i2 t) : forall rest p, walk i1 fuel rest p = walk i2 fuel rest p.
Proof. induction rest as [|r IH]; intros p; [reflexivity|]. cbn [walk]. apply scan_ext; [exact Hi|exact (IH)]. Qed.

(* The walk lists exactly the indexes of a downward closed, bounded set Q, provided the criterion agrees with Q on the indexes the
   walk asks about: one step above a member of Q in one coordinate, all later coordinates zero. *)
Section WalkSpec.
  Variable inside : idx -> bool.
  Variable fuel : nat.
  Variable d : nat.
  Variable Q : idx -> Prop.
  Hypothesis Qdown : forall t s, Q t -> le_idx s t -> Q s.
  Hypothesis Qnonneg : forall t, Q t -> nonneg t.
  Hypothesis Qbound : forall t, Q t -> Forall (fun x => x < Z.of_nat fuel) t.
  Hypothesis Qagree : forall p x r, (length p + S r = d)%nat -> 0 <= x -> Q (p ++ [x] ++ repeat 0 r) ->
    (inside (p ++ [x + 1] ++ repeat 0 r) = true <-> Q (p ++ [x + 1] ++ repeat 0 r)).

  Lemma scan_spec r p (Hp : (length p + S r = d)%nat)
    (IHw : forall q, (length q + r = d)%nat -> Q (q ++ repeat 0 r) ->
           forall t, In t (walk inside fuel r q) <-> (exists s, t = q ++ s /\ length s = r /\ Q t)) :
    forall n x, 0 <= x -> Q (p ++ [x] ++ repeat 0 r) ->
      (forall y s, Q (p ++ [y] ++ s) -> y < x + Z.of_nat n) ->
      forall t, In t (scan inside (walk inside fuel r) (fun q => q ++ repeat 0 r) n p x) <->
                (exists y s, t = p ++ [y] ++ s /\ x <= y /\ length s = r /\ Q t).
  Proof.
    induction n as [|n IH]; intros x Hx HQ Hb t.
    - cbn [scan]. split; [intros []|]. intros [y [s [-> [Hy [_ Ht]]]]]. apply Hb in Ht. lia.
    - cbn [scan]. rewrite in_app_iff.
      assert (Hq : (length (p ++ [x]) + r = d)%nat) by (rewrite app_length; cbn; lia).
      assert (HQ' : Q ((p ++ [x]) ++ repeat 0 r)) by (rewrite <- app_assoc; exact HQ).
      pose proof (IHw (p ++ [x]) Hq HQ') as Hsub.
      replace ((p ++ [x + 1]) ++ repeat 0 r) with (p ++ [x + 1] ++ repeat 0 r) by (rewrite <- app_assoc; reflexivity).
      pose proof (Qagree p x r Hp Hx HQ) as Hag.
      split.
      + intros [H|H].
        * apply Hsub in H. destruct H as [s [-> [Hs Ht]]]. exists x, s. rewrite <- app_assoc in *. repeat split; [lia|exact Hs|exact Ht].
        * destruct (inside (p ++ [x + 1] ++ repeat 0 r)) eqn:E; [|destruct H].
          apply IH in H; [|lia|apply Hag; reflexivity|intros y s Hy; apply Hb in Hy; lia].
          destruct H as [y [s [-> [Hy [Hs Ht]]]]]. exists y, s. repeat split; [lia|exact Hs|exact Ht].
      + intros [y [s [-> [Hy [Hs Ht]]]]]. destruct (Z.eq_dec y x) as [->|Hne].
        * left. apply Hsub. exists s. rewrite <- app_assoc. repeat split; [exact Hs|exact Ht].
        * right. assert (HQ1 : Q (p ++ [x + 1] ++ repeat 0 r)).
          { apply (Qdown _ _ Ht). pose proof (Qnonneg _ Ht) as Hn. apply nonneg_app in Hn. destruct Hn as [Hn1 Hn2].
            apply nonneg_app in Hn2. destruct Hn2 as [_ Hn3].
            apply le_idx_app; [apply le_idx_refl; exact Hn1|]. apply le_idx_app; [repeat constructor; lia|].
            rewrite <- Hs. apply le_idx_zeros. exact Hn3. }
          apply Hag in HQ1. rewrite HQ1. apply IH; [lia|apply Hag; exact HQ1|intros y' s' Hy'; apply Hb in Hy'; lia|].
          exists y, s. repeat split; [lia|exact Hs|exact Ht].
  Qed.

  Lemma walk_spec : forall rest p, (length p + rest = d)%nat -> Q (p ++ repeat 0 rest) ->
    forall t, In t (walk inside fuel rest p) <-> (exists s, t = p ++ s /\ length s = rest /\ Q t).
  Proof.
    induction rest as [|r IH]; intros p Hp HQ t.
    - cbn in *. rewrite app_nil_r in HQ. split.
      + intros [<-|[]]. exists []. rewrite app_nil_r. repeat split. exact HQ.
      + intros [s [-> [Hs _]]]. destruct s; [|discriminate]. left. rewrite app_nil_r. reflexivity.
    - cbn [walk]. rewrite (scan_spec r p Hp IH fuel 0); [|lia|exact HQ|].
      + split.
        * intros [y [s [-> [Hy [Hs Ht]]]]]. exists (y :: s). repeat split; [cbn; lia|exact Ht].
        * intros [s [-> [Hs Ht]]]. destruct s as [|y s]; [discriminate|]. exists y, s. repeat split; [|cbn in Hs; lia|exact Ht].
          apply Qnonneg in Ht. apply nonneg_app in Ht. destruct Ht as [_ Ht]. inversion Ht; subst. assumption.
      + intros y s Hy. apply Qbound in Hy. apply Forall_app in Hy. destruct Hy as [_ Hy]. inversion Hy; subst. lia.
  Qed.
End WalkSpec.

(* ================================================================ 2. tables, the weights cache *)
(* the premise on the exactness table: non-negative at level 0 and non-decreasing *)
Definition table_ok (exact : Z -> Z) : Prop := 0 <= exact 0 /\ forall l, 0 <= l -> exact l <= exact (l + 1).

Lemma exact_mono_le exact : table_ok exact -> forall a b, 0 <= a <= b -> exact a <= exact b.
Proof.
  intros [_ Hm] a b [Ha Hab]. replace b with (a + Z.of_nat (Z.to_nat (b - a))) by lia.
  induction (Z.to_nat (b - a)) as [|n IH]; [rewrite Z.add_0_r; lia|].
  rewrite Nat2Z.inj_succ. replace (a + Z.succ (Z.of_nat n)) with (a + Z.of_nat n + 1) by lia.
  specialize (Hm (a + Z.of_nat n) ltac:(lia)). lia.
Qed.

Lemma exact_nonneg exact : table_ok exact -> forall l, 0 <= l -> 0 <= exact l.
Proof. intros H l Hl. pose proof (exact_mono_le exact H 0 l ltac:(lia)). destruct H. lia. Qed.

Lemma exactness_at_pos exact i : 0 < i -> exactness_at exact i = 1 + exact (i - 1).
Proof. intros H. unfold exactness_at. destruct (i =? 0) eqn:E; [lia|reflexivity]. Qed.

Lemma exactness_at_nonneg exact i : table_ok exact -> 0 <= i -> 0 <= exactness_at exact i.
Proof.
  intros H Hi. destruct (Z.eq_dec i 0) as [->|Hn]; [cbn; lia|]. rewrite exactness_at_pos by lia.
  pose proof (exact_nonneg exact H (i - 1) ltac:(lia)). lia.
Qed.

Lemma exactness_at_mono exact a b : table_ok exact -> 0 <= a <= b -> exactness_at exact a <= exactness_at exact b.
Proof.
  intros H [Ha Hab]. destruct (Z.eq_dec a 0) as [->|Hn]; [cbn; apply exactness_at_nonneg; [exact H|lia]|].
  rewrite !exactness_at_pos by lia. pose proof (exact_mono_le exact H (a - 1) (b - 1) ltac:(lia)). lia.
Qed.

Lemma cache_loop_nth exact wl off : forall fuel i k, (k < fuel)%nat ->
  (forall m, (m < k)%nat -> wl * exactness_at exact (i + 1 + Z.of_nat m) <= off) ->
  nth k (cache_loop fuel exact wl off i) 0 = wl * exactness_at exact (i + 1 + Z.of_nat k).
Proof.
  induction fuel as [|f IH]; intros i k Hk Hle; [lia|]. cbn [cache_loop]. destruct k as [|k].
  - cbn [nth]. f_equal. f_equal. lia.
  - cbn [nth]. pose proof (Hle 0%nat ltac:(lia)) as H0. replace (i + 1 + Z.of_nat 0) with (i + 1) in H0 by lia.
    destruct (wl * exactness_at exact (i + 1) <=? off) eqn:E; [|lia].
    rewrite IH; [f_equal; f_equal; lia|lia|].
    intros m Hm. specialize (Hle (S m) ltac:(lia)). replace (i + 1 + 1 + Z.of_nat m) with (i + 1 + Z.of_nat (S m)) by lia. exact Hle.
Qed.

(* entry x of the cache of one dimension is wl * exactness_cache[x], as long as it has been written: x within the fuel and every
   earlier entry (from 1 on) did not exceed the offset *)
Lemma cache_lookup exact wl off fuel x : 0 <= x -> x <= Z.of_nat fuel ->
  (forall k, 1 <= k < x -> wl * exactness_at exact k <= off) ->
  nth (Z.to_nat x) (0 :: cache_loop fuel exact wl off 0) 0 = wl * exactness_at exact x.
Proof.
  intros Hx Hf Hle. destruct (Z.eq_dec x 0) as [->|Hn]; [cbn; lia|].
  replace (Z.to_nat x) with (S (Z.to_nat (x - 1))) by lia. cbn [nth].
  rewrite cache_loop_nth; [f_equal; f_equal; lia|lia|]. intros m Hm. apply Hle. lia.
Qed.

(* the weight of an index in closed form *)
Fixpoint wsum (exact : Z -> Z) (w : list Z) (t : idx) : Z :=
  match w, t with a :: w', x :: t' => a * exactness_at exact x + wsum exact w' t' | _, _ => 0 end.

Definition readable (exact : Z -> Z) (fuel : nat) (off : Z) (wl x : Z) : Prop :=
  0 <= x <= Z.of_nat fuel /\ forall k, 1 <= k < x -> wl * exactness_at exact k <= off.

Lemma index_weight_wsum exact fuel off : forall w t, Forall2 (readable exact fuel off) w t ->
  index_weight (weights_cache fuel exact w off) t = wsum exact w t.
Proof.
  induction 1 as [|wl x w t [Hx Hk] _ IH]; [reflexivity|]. unfold weights_cache in *. cbn [map index_weight wsum].
  rewrite IH. rewrite cache_lookup; [reflexivity|lia|lia|exact Hk].
Qed.

Definition wpos (w : list Z) : Prop := Forall (fun a => 1 <= a) w.

Lemma wsum_nonneg exact : table_ok exact -> forall w t, wpos w -> nonneg t -> 0 <= wsum exact w t.
Proof.
  intros H w. induction w as [|a w IH]; intros t Hw Ht; [cbn; lia|]. destruct t as [|x t]; [cbn; lia|].
  inversion Hw; subst. inversion Ht; subst. cbn [wsum]. pose proof (IH t H3 H5). pose proof (exactness_at_nonneg exact x H H4). nia.
Qed.

Lemma wsum_mono exact : table_ok exact -> forall s t, le_idx s t -> forall w, wpos w -> wsum exact w s <= wsum exact w t.
Proof.
  intros H s t Hst. induction Hst as [|a b s t Hab _ IH]; intros w Hw; [destruct w; cbn; lia|].
  destruct w as [|c w]; [cbn; lia|]. inversion Hw; subst. cbn [wsum]. pose proof (IH w H3).
  pose proof (exactness_at_mono exact a b H Hab). nia.
Qed.

(* every term of a weighted sum that does not exceed the offset does not exceed it either, and then the coordinate is small *)
Definition coord_ok (exact : Z -> Z) (fuel : nat) (off : Z) (wl x : Z) : Prop :=
  1 <= wl /\ 0 <= x < Z.of_nat fuel /\ wl * exactness_at exact x <= off.

Lemma crit_coords exact fuel off : table_ok exact -> (exists L, 0 <= L < Z.of_nat fuel /\ off < 1 + exact L) ->
  forall w t, wpos w -> nonneg t -> length w = length t -> wsum exact w t <= off -> Forall2 (coord_ok exact fuel off) w t.
Proof.
  intros H [L [HL Hoff]] w. induction w as [|a w IH]; intros t Hw Ht Hlen Hs; destruct t as [|x t]; try discriminate; [constructor|].
  inversion Hw; subst. inversion Ht; subst. cbn [wsum] in Hs.
  pose proof (wsum_nonneg exact H w t H3 H5) as Hr. pose proof (exactness_at_nonneg exact x H H4) as He.
  constructor.
  - split; [exact H2|]. split; [|nia]. split; [exact H4|].
    destruct (Z_lt_le_dec x (Z.of_nat fuel)) as [Hlt|Hge]; [exact Hlt|exfalso].
    rewrite exactness_at_pos in * by lia. pose proof (exact_mono_le exact H L (x - 1) ltac:(lia)). nia.
  - apply IH; [exact H3|exact H5|cbn in Hlen; lia|nia].
Qed.

Lemma coord_ok_readable exact fuel off wl x : table_ok exact -> coord_ok exact fuel off wl x ->
  readable exact fuel off wl x /\ readable exact fuel off wl (x + 1).
Proof.
  intros H [Hw [Hx Hle]]. split; (split; [lia|]); intros k Hk;
    pose proof (exactness_at_mono exact k x H ltac:(lia)); pose proof (exactness_at_nonneg exact k H ltac:(lia)); nia.
Qed.

Lemma Forall2_imp {A B} (P R : A -> B -> Prop) : (forall a b, P a b -> R a b) -> forall l1 l2, Forall2 P l1 l2 -> Forall2 R l1 l2.
Proof. intros H l1 l2. induction 1; constructor; auto. Qed.

Lemma Forall2_cons_inv {A B} (P : A -> B -> Prop) a b l1 l2 : Forall2 P (a :: l1) (b :: l2) -> P a b /\ Forall2 P l1 l2.
Proof. inversion 1; auto. Qed.

Lemma Forall2_Forall_r {A B} (P : A -> B -> Prop) (R : B -> Prop) : (forall a b, P a b -> R b) -> forall l1 l2, Forall2 P l1 l2 -> Forall R l2.
Proof. intros H l1 l2. induction 1; constructor; eauto. Qed.

(* ================================================================ 3. selectLowerSet, contour type_level *)
Fixpoint fold_min_spec (r : list Z) : forall x, In (fold_left Z.min r x) (x :: r) /\ forall y, In y (x :: r) -> fold_left Z.min r x <= y.
Proof.
  destruct r as [|a r]; intros x; cbn [fold_left].
  - split; [left; reflexivity|]. intros y [<-|[]]. lia.
  - destruct (fold_min_spec r (Z.min x a)) as [H1 H2]. split.
    + destruct H1 as [H1|H1]; [|right; right; exact H1]. rewrite <- H1. destruct (Z.min_spec x a) as [[_ ->]|[_ ->]]; [left|right; left]; reflexivity.
    + intros y [<-|[<-|Hy]]; [pose proof (H2 (Z.min x a) (or_introl eq_refl)); lia|pose proof (H2 (Z.min x a) (or_introl eq_refl)); lia|].
      apply H2. right. exact Hy.
Qed.

Fixpoint fold_max_spec (r : list Z) : forall x y, In y (x :: r) -> y <= fold_left Z.max r x.
Proof.
  destruct r as [|a r]; intros x y; cbn [fold_left].
  - intros [<-|[]]. lia.
  - intros [<-|[<-|Hy]]; [pose proof (fold_max_spec r (Z.max x a) (Z.max x a) (or_introl eq_refl)); lia
                          |pose proof (fold_max_spec r (Z.max x a) (Z.max x a) (or_introl eq_refl)); lia|].
    apply fold_max_spec. right. exact Hy.
Qed.

Lemma min_list_In l : l <> [] -> In (min_list l) l.
Proof. destruct l as [|x r]; [congruence|]. intros _. apply fold_min_spec. Qed.
Lemma min_list_le l x : In x l -> min_list l <= x.
Proof. destruct l as [|a r]; [intros []|]. apply fold_min_spec. Qed.
Lemma max_list_ge l x : In x l -> x <= max_list l.
Proof. destruct l as [|a r]; [intros []|]. apply fold_max_spec. Qed.

(* anisotropic weights as the API passes them: none (isotropic) or one weight >= 1 per dimension *)
Definition weights_ok (d : nat) (weights : list Z) : Prop := weights = [] \/ (length weights = d /\ wpos weights).

Lemma proper_weights_ok d weights : weights_ok d weights ->
  length (proper_weights d weights) = d /\ wpos (proper_weights d weights).
Proof.
  intros [->|[Hl Hw]].
  - cbn. split; [apply repeat_length|]. unfold wpos. induction d; cbn; constructor; [lia|assumption].
  - destruct weights; [cbn in Hl; subst d; cbn; split; [reflexivity|constructor]|]. cbn. split; assumption.
Qed.

Lemma limits_ok_down limits : forall s t, le_idx s t -> limits_ok limits t = true -> limits_ok limits s = true.
Proof.
  induction limits as [|l ls IH]; intros s t Hst H; [reflexivity|]. destruct Hst as [|a b s t Hab Hst]; [reflexivity|].
  cbn [limits_ok] in *. apply andb_true_iff in H. destruct H as [H1 H2]. apply andb_true_iff. split; [|apply (IH s t Hst H2)].
  apply negb_true_iff in H1. apply negb_true_iff. apply andb_false_iff in H1. apply andb_false_iff. destruct H1 as [H1|H1]; [left; exact H1|right; lia].
Qed.

(* the loops of the model have enough fuel: some level below the fuel has exactness beyond every weight times the offset *)
Definition adequate (fuel : nat) (exact : Z -> Z) (w : list Z) (offset : Z) : Prop :=
  exists L, 0 <= L < Z.of_nat fuel /\ forall wl, In wl w -> wl * offset < 1 + exact L.

(* the selection criterion of the total-degree types in closed form *)
Definition total_crit (exact : Z -> Z) (w limits : list Z) (noff : Z) (d : nat) (t : idx) : Prop :=
  length t = d /\ nonneg t /\ limits_ok limits t = true /\ wsum exact w t <= noff.

Lemma total_crit_down exact w limits noff d : table_ok exact -> wpos w ->
  forall t s, total_crit exact w limits noff d t -> le_idx s t -> total_crit exact w limits noff d s.
Proof.
  intros H Hw t s [Hl [Hn [Hlim Hs]]] Hst. repeat split.
  - rewrite (le_idx_length s t Hst). exact Hl.
  - apply (le_idx_nonneg s t Hst).
  - apply (limits_ok_down limits s t Hst Hlim).
  - pose proof (wsum_mono exact H s t Hst w Hw). lia.
Qed.

Section TotalSpec.
  Variables (fuel : nat) (exact : Z -> Z) (w limits : list Z) (noff : Z) (d : nat).
  Hypothesis Htab : table_ok exact.
  Hypothesis Hw : wpos w.
  Hypothesis Hlen : length w = d.
  Hypothesis Hfuel : exists L, 0 <= L < Z.of_nat fuel /\ noff < 1 + exact L.
  Hypothesis Hnoff : 0 <= noff.

  Let Q := total_crit exact w limits noff d.
  Let cache := weights_cache fuel exact w noff.

  Lemma total_coords t : Q t -> Forall2 (coord_ok exact fuel noff) w t.
  Proof. intros [Hl [Hn [_ Hs]]]. apply crit_coords; auto. lia. Qed.

  Lemma total_agree p x r : (length p + S r = d)%nat -> 0 <= x -> Q (p ++ [x] ++ repeat 0 r) ->
    (total_inside cache limits noff (p ++ [x + 1] ++ repeat 0 r) = true <-> Q (p ++ [x + 1] ++ repeat 0 r)).
  Proof.
    intros Hp Hx HQ. pose proof (total_coords _ HQ) as Hc.
    apply Forall2_app_inv_r in Hc. destruct Hc as [w1 [w2 [Hc1 [Hc2 Ew]]]].
    destruct w2 as [|wx w2']; [inversion Hc2|]. apply Forall2_cons_inv in Hc2. destruct Hc2 as [Hcx Hcz].
    assert (Hread : Forall2 (readable exact fuel noff) (w1 ++ wx :: w2') (p ++ [x + 1] ++ repeat 0 r)).
    { apply Forall2_app; [apply (Forall2_imp (coord_ok exact fuel noff)); [|exact Hc1]; intros a b Hab; apply coord_ok_readable; assumption|].
      cbn [app]. constructor; [apply coord_ok_readable; assumption|].
      apply (Forall2_imp (coord_ok exact fuel noff)); [|exact Hcz]. intros a b Hab; apply coord_ok_readable; assumption. }
    unfold total_inside, cache. rewrite Ew. rewrite (index_weight_wsum exact fuel noff _ _ Hread).
    destruct HQ as [Hl [Hn [Hlim Hs]]]. unfold Q, total_crit. rewrite Ew. rewrite andb_true_iff, Z.leb_le.
    assert (Hl1 : length (p ++ [x + 1] ++ repeat 0 r) = d) by (rewrite !app_length in *; cbn in *; lia).
    assert (Hn1 : nonneg (p ++ [x + 1] ++ repeat 0 r)).
    { apply nonneg_app in Hn. destruct Hn as [Hn1 Hn2]. apply nonneg_app. split; [exact Hn1|]. apply nonneg_app. split; [repeat constructor; lia|apply nonneg_zeros]. }
    tauto.
  Qed.

  Lemma total_bound t : Q t -> Forall (fun x => x < Z.of_nat fuel) t.
  Proof. intros HQ. apply total_coords in HQ. apply (Forall2_Forall_r _ _ (fun a b (H : coord_ok exact fuel noff a b) => proj2 (proj1 (proj2 H))) _ _ HQ). Qed.

  Lemma total_zero_crit : Q (repeat 0 d).
  Proof.
    unfold Q, total_crit. split; [apply repeat_length|]. split; [apply nonneg_zeros|]. split.
    - clear. generalize d. induction limits as [|l ls IH]; intros n; [reflexivity|]. destruct n; [reflexivity|]. cbn.
      rewrite IH. destruct (-1 <? l) eqn:E; cbn; [|reflexivity]. assert (l <? 0 = false) as -> by lia. reflexivity.
    - assert (E : wsum exact w (repeat 0 d) = 0); [|lia]. clear. generalize d. induction w as [|a w' IH]; intros n; [reflexivity|].
      destruct n; [reflexivity|]. cbn. rewrite IH. lia.
  Qed.

  Theorem walk_total_spec t : In t (generate_lower d (total_inside cache limits noff) fuel) <-> Q t.
  Proof.
    unfold generate_lower.
    rewrite (walk_spec (total_inside cache limits noff) fuel d Q (total_crit_down exact w limits noff d Htab Hw)
               (fun t H => proj1 (proj2 H)) total_bound total_agree d [] eq_refl total_zero_crit t).
    split; [intros [s [-> [_ H]]]; exact H|]. intros H. exists t. split; [reflexivity|]. split; [apply H|exact H].
  Qed.
End TotalSpec.

Lemma min_list_pos w : w <> [] -> wpos w -> 1 <= min_list w.
Proof. intros Hne Hw. unfold wpos in Hw. rewrite Forall_forall in Hw. apply Hw. apply min_list_In. exact Hne. Qed.

Lemma adequate_noff fuel exact w offset : w <> [] -> adequate fuel exact w offset ->
  exists L, 0 <= L < Z.of_nat fuel /\ offset * min_list w < 1 + exact L.
Proof. intros Hne [L [HL H]]. exists L. split; [exact HL|]. specialize (H (min_list w) (min_list_In w Hne)). lia. Qed.

Lemma adequate_mono fuel exact w offset offset' : wpos w -> offset <= offset' -> adequate fuel exact w offset' -> adequate fuel exact w offset.
Proof.
  intros Hw Ho [L [HL H]]. exists L. split; [exact HL|]. intros wl Hin. specialize (H wl Hin).
  unfold wpos in Hw. rewrite Forall_forall in Hw. specialize (Hw wl Hin). nia.
Qed.

Lemma proper_weights_nonempty d weights : (0 < d)%nat -> weights_ok d weights -> proper_weights d weights <> [].
Proof. intros Hd Hwk E. destruct (proper_weights_ok d weights Hwk) as [Hl _]. rewrite E in Hl. cbn in Hl. lia. Qed.

(* (a) membership characterisation for type_level / type_iptotal / type_qptotal *)
Theorem select_total_spec fuel exact weights limits offset d t :
  (0 < d)%nat -> weights_ok d weights -> table_ok exact -> 0 <= offset -> adequate fuel exact (proper_weights d weights) offset ->
  (In t (select_total fuel exact weights limits offset d) <->
   total_crit exact (proper_weights d weights) limits (offset * min_list (proper_weights d weights)) d t).
Proof.
  intros Hd Hwk Htab Hoff Had. destruct (proper_weights_ok d weights Hwk) as [Hl Hw]. unfold select_total. cbv zeta.
  pose proof (proper_weights_nonempty d weights Hd Hwk) as Hne.
  apply walk_total_spec; auto.
  - apply adequate_noff; assumption.
  - pose proof (min_list_pos _ Hne Hw). nia.
Qed.

Lemma walk_wf inside fuel d : wf d (generate_lower d inside fuel).
Proof.
  unfold wf, generate_lower. apply Forall_forall. intros t Ht. apply walk_shape in Ht. destruct Ht as [s [-> Hs]]. exact Hs.
Qed.

(* (b) sorted (hence duplicate free), whatever the table, the weights and the limits *)
Theorem select_total_sorted fuel exact weights limits offset d : sorted (select_total fuel exact weights limits offset d).
Proof. unfold select_total, generate_lower. apply walk_sorted. Qed.
Theorem select_total_wf fuel exact weights limits offset d : wf d (select_total fuel exact weights limits offset d).
Proof. unfold select_total. apply walk_wf. Qed.

(* (c) negative limits (the API documents -1) restrict nothing: the selection is the one without limits *)
Lemma limits_ok_neg limits : Forall (fun l => l < 0) limits -> forall t, limits_ok limits t = true.
Proof.
  induction 1 as [|l ls Hl _ IH]; intros t; [reflexivity|]. destruct t as [|x t]; [reflexivity|]. cbn. rewrite IH.
  assert (-1 <? l = false) as -> by lia. reflexivity.
Qed.

Theorem select_total_unrestricted fuel exact weights limits offset d : Forall (fun l => l < 0) limits ->
  select_total fuel exact weights limits offset d = select_total fuel exact weights [] offset d.
Proof.
  intros H. unfold select_total, generate_lower. cbv zeta. apply walk_ext. intros t. unfold total_inside.
  rewrite (limits_ok_neg limits H t). reflexivity.
Qed.

(* what limits_ok says coordinate by coordinate *)
Lemma limits_ok_nth limits : forall t j, limits_ok limits t = true -> (j < length limits)%nat -> (j < length t)%nat ->
  0 <= nth j limits (-1) -> nth j t 0 <= nth j limits (-1).
Proof.
  induction limits as [|l ls IH]; intros t j H Hj Ht Hl; [cbn in Hj; lia|]. destruct t as [|x t]; [cbn in Ht; lia|].
  cbn [limits_ok] in H. apply andb_true_iff in H. destruct H as [H1 H2]. destruct j as [|j]; cbn [nth] in *.
  - apply negb_true_iff in H1. apply andb_false_iff in H1. destruct H1; lia.
  - apply IH; [exact H2|cbn in Hj; lia|cbn in Ht; lia|exact Hl].
Qed.

(* ================================================================ 4. the full-tensor special case *)
Lemma zseq_In n x : In x (zseq n) <-> 0 <= x < n.
Proof.
  unfold zseq. rewrite in_map_iff. split.
  - intros [k [<- Hk]]. apply in_seq in Hk. lia.
  - intros H. exists (Z.to_nat x). split; [lia|]. apply in_seq. lia.
Qed.

Lemma zseq_sorted n : StronglySorted Z.lt (zseq n).
Proof.
  unfold zseq. generalize 0%nat as a. induction (Z.to_nat n) as [|len IH]; intros a; cbn; constructor; [apply IH|].
  apply Forall_forall. intros y Hy. apply in_map_iff in Hy. destruct Hy as [k [<- Hk]]. apply in_seq in Hk. lia.
Qed.

Definition in_box (t np : list Z) : Prop := Forall2 (fun x n => 0 <= x < n) t np.

Lemma full_tensor_spec np : forall t, In t (full_tensor np) <-> in_box t np.
Proof.
  induction np as [|n np IH]; intros t; cbn [full_tensor].
  - split; [intros [<-|[]]; constructor|]. intros H. inversion H. left. reflexivity.
  - rewrite in_flat_map. split.
    + intros [x [Hx Ht]]. apply in_map_iff in Ht. destruct Ht as [t' [<- Ht']]. constructor; [apply zseq_In; exact Hx|apply IH; exact Ht'].
    + intros H. inversion H as [|x n' t' np' Hx Ht']; subst. exists x. split; [apply zseq_In; exact Hx|]. apply in_map. apply IH. exact Ht'.
Qed.

Lemma map_cons_sorted x (S : list idx) : sorted S -> sorted (map (cons x) S).
Proof.
  induction 1 as [|a S HS IH Ha]; cbn; constructor; [exact IH|]. apply Forall_forall. intros y Hy. apply in_map_iff in Hy.
  destruct Hy as [b [<- Hb]]. rewrite Forall_forall in Ha. specialize (Ha b Hb). unfold lt_idx in *. cbn. rewrite Z.ltb_irrefl. exact Ha.
Qed.

Lemma full_tensor_sorted np : sorted (full_tensor np).
Proof.
  induction np as [|n np IH]; cbn [full_tensor]; [repeat constructor|].
  pose proof (zseq_sorted n) as Hz. induction Hz as [|x l Hl IHl Hx]; cbn [flat_map]; [constructor|].
  apply sorted_app; [apply map_cons_sorted; exact IH|exact IHl|].
  intros a b Ha Hb. apply in_map_iff in Ha. destruct Ha as [a' [<- _]]. apply in_flat_map in Hb. destruct Hb as [y [Hy Hb]].
  apply in_map_iff in Hb. destruct Hb as [b' [<- _]]. rewrite Forall_forall in Hx. specialize (Hx y Hy).
  unfold lt_idx. cbn. assert (x <? y = true) as -> by lia. reflexivity.
Qed.

Lemma in_box_length t np : in_box t np -> length t = length np.
Proof. induction 1; cbn; [reflexivity|f_equal; assumption]. Qed.

Lemma clamp_spec np : forall limits t, in_box t (clamp_limits np limits) <-> in_box t np /\ limits_ok limits t = true.
Proof.
  induction np as [|n np IH]; intros limits t.
  - cbn. split; [intros H; split; [exact H|]; inversion H; destruct limits; reflexivity|tauto].
  - destruct limits as [|l ls]; [cbn; tauto|]. cbn [clamp_limits]. split.
    + intros H. inversion H as [|x n' t' np' Hx Ht']; subst. apply IH in Ht'. destruct Ht' as [H1 H2]. cbn [limits_ok]. rewrite H2. split.
      * constructor; [destruct (0 <=? l); lia|exact H1].
      * rewrite andb_true_r. apply negb_true_iff. destruct (0 <=? l) eqn:E; [|assert (-1 <? l = false) as -> by lia; reflexivity].
        apply andb_false_iff. right. lia.
    + intros [H Hl]. inversion H as [|x n' t' np' Hx Ht']; subst. cbn [limits_ok] in Hl. apply andb_true_iff in Hl. destruct Hl as [Hl1 Hl2].
      constructor; [|apply IH; split; assumption]. apply negb_true_iff in Hl1. apply andb_false_iff in Hl1.
      destruct (0 <=? l) eqn:E; [|lia]. destruct Hl1; lia.
Qed.

Lemma first_level_spec exact e : forall fuel l, 0 <= l -> (forall k, 0 <= k < l -> exact k < e) ->
  (exists L, l <= L < l + Z.of_nat fuel /\ e <= exact L) ->
  l <= first_level fuel exact e l /\ e <= exact (first_level fuel exact e l) /\
  forall k, 0 <= k < first_level fuel exact e l -> exact k < e.
Proof.
  induction fuel as [|f IH]; intros l Hl Hlow [L [HL He]]; [lia|]. cbn [first_level]. destruct (exact l <? e) eqn:E.
  - assert (HL' : l + 1 <= L) by (destruct (Z.eq_dec L l) as [->|]; lia).
    destruct (IH (l + 1)) as [H1 [H2 H3]]; [lia| |exists L; split; [lia|exact He]|].
    + intros k Hk. destruct (Z.eq_dec k l) as [->|]; [lia|apply Hlow; lia].
    + split; [lia|]. split; assumption.
  - split; [lia|]. split; [lia|exact Hlow].
Qed.

(* the criterion of one coordinate of the full-tensor types: level x is taken when the previous level does not reach the target *)
Definition box_coord (exact : Z -> Z) (offset : Z) (wl x : Z) : Prop := x = 0 \/ exact (x - 1) < wl * offset.

Lemma first_level_coord exact fuel e : table_ok exact -> (exists L, 0 <= L < Z.of_nat fuel /\ e <= exact L) ->
  forall x, 0 <= x -> (x < first_level fuel exact e 0 + 1 <-> (x = 0 \/ exact (x - 1) < e)).
Proof.
  intros Htab [L [HL He]] x Hx.
  destruct (first_level_spec exact e fuel 0 ltac:(lia) ltac:(intros; lia) ltac:(exists L; split; [lia|exact He])) as [H1 [H2 H3]].
  split.
  - intros H. destruct (Z.eq_dec x 0); [left; assumption|right]. apply H3. lia.
  - intros [->|H]; [lia|]. destruct (Z_lt_le_dec x (first_level fuel exact e 0 + 1)) as [|Hge]; [assumption|exfalso].
    pose proof (exact_mono_le exact Htab (first_level fuel exact e 0) (x - 1) ltac:(lia)). lia.
Qed.

Definition box_crit (exact : Z -> Z) (w limits : list Z) (offset : Z) (d : nat) (t : idx) : Prop :=
  length t = d /\ nonneg t /\ limits_ok limits t = true /\ Forall2 (box_coord exact offset) w t.

Lemma in_box_levels exact fuel offset : table_ok exact -> forall w, (forall wl, In wl w -> exists L, 0 <= L < Z.of_nat fuel /\ wl * offset <= exact L) ->
  forall t, in_box t (map (fun wl => first_level fuel exact (wl * offset) 0 + 1) w) <-> (nonneg t /\ Forall2 (box_coord exact offset) w t).
Proof.
  intros Htab w. induction w as [|a w IH]; intros Had t.
  - cbn. split; [intros H; inversion H; split; constructor|]. intros [_ H]. inversion H. constructor.
  - cbn [map]. assert (Had' : forall wl, In wl w -> exists L, 0 <= L < Z.of_nat fuel /\ wl * offset <= exact L) by (intros; apply Had; right; assumption).
    pose proof (first_level_coord exact fuel (a * offset) Htab (Had a (or_introl eq_refl))) as Hc. split.
    + intros H. inversion H as [|x n t' np Hx Ht']; subst. apply (IH Had') in Ht'. destruct Ht' as [Hn Hf].
      split; constructor; try assumption; [lia|]. apply Hc; lia.
    + intros [Hn Hf]. inversion Hf as [|a' x w' t' Hax Hf']; subst. inversion Hn; subst.
      constructor; [split; [assumption|apply Hc; assumption]|]. apply (IH Had'). split; assumption.
Qed.

(* (a) membership characterisation for type_tensor / type_iptensor / type_qptensor *)
Theorem select_box_spec fuel exact weights limits offset d t :
  weights_ok d weights -> table_ok exact -> adequate fuel exact (proper_weights d weights) offset ->
  (In t (select_tensor_box fuel exact weights limits offset d) <-> box_crit exact (proper_weights d weights) limits offset d t).
Proof.
  intros Hwk Htab [L [HL Had]]. destruct (proper_weights_ok d weights Hwk) as [Hl Hw].
  unfold select_tensor_box, tensor_num_points. rewrite full_tensor_spec, clamp_spec.
  rewrite (in_box_levels exact fuel offset Htab); [|intros wl Hin; exists L; split; [exact HL|specialize (Had wl Hin); lia]].
  unfold box_crit. split.
  - intros [[Hn Hf] Hlim]. repeat split; try assumption. rewrite <- Hl. symmetry. clear -Hf. induction Hf; cbn; [reflexivity|f_equal; assumption].
  - tauto.
Qed.

Theorem select_box_sorted fuel exact weights limits offset d : sorted (select_tensor_box fuel exact weights limits offset d).
Proof. apply full_tensor_sorted. Qed.

Lemma clamp_neg np : forall limits, Forall (fun l => l < 0) limits -> clamp_limits np limits = np.
Proof.
  induction np as [|n np IH]; intros limits H; [destruct limits; reflexivity|]. destruct H as [|l ls Hl H]; [reflexivity|].
  cbn. rewrite (IH ls H). assert (0 <=? l = false) as -> by lia. reflexivity.
Qed.

Theorem select_box_unrestricted fuel exact weights limits offset d : Forall (fun l => l < 0) limits ->
  select_tensor_box fuel exact weights limits offset d = select_tensor_box fuel exact weights [] offset d.
Proof.
  intros H. unfold select_tensor_box, tensor_num_points. rewrite (clamp_neg _ limits H). f_equal.
  destruct (map _ _); reflexivity.
Qed.

Lemma box_crit_down exact w limits offset d : table_ok exact ->
  forall t s, box_crit exact w limits offset d t -> le_idx s t -> box_crit exact w limits offset d s.
Proof.
  intros Htab t s [Hl [Hn [Hlim Hf]]] Hst. repeat split.
  - rewrite (le_idx_length s t Hst). exact Hl.
  - apply (le_idx_nonneg s t Hst).
  - apply (limits_ok_down limits s t Hst Hlim).
  - clear -Htab Hf Hst. revert s Hst. induction Hf as [|a x w t Hax Hf IH]; intros s Hst; inversion Hst; subst; constructor.
    + destruct Hax as [->|Hax]; [left; lia|]. unfold box_coord. destruct (Z.eq_dec x0 0); [left; assumption|right].
      pose proof (exact_mono_le exact Htab (x0 - 1) (x - 1) ltac:(lia)). lia.
    + apply IH. assumption.
Qed.

Lemma box_zero exact offset w : Forall2 (box_coord exact offset) w (repeat 0 (length w)).
Proof. induction w; cbn; constructor; [left; reflexivity|assumption]. Qed.

(* ================================================================ 5. selectTensors for the six types *)
Definition sel_crit (ty : depth_type) (exact : Z -> Z) (w limits : list Z) (offset : Z) (d : nat) (t : idx) : Prop :=
  if is_tensor_type ty then box_crit exact w limits offset d t else total_crit exact w limits (offset * min_list w) d t.

Section Select.
  Variables (fuel : nat) (ty : depth_type) (exact : Z -> Z) (weights limits : list Z) (offset : Z) (d : nat).
  Hypothesis Hd : (0 < d)%nat.
  Hypothesis Hwk : weights_ok d weights.
  Hypothesis Htab : table_ok exact.
  Hypothesis Hoff : 0 <= offset.
  Hypothesis Had : adequate fuel exact (proper_weights d weights) offset.

  Theorem select_spec t : In t (select fuel ty exact weights limits offset d) <-> sel_crit ty exact (proper_weights d weights) limits offset d t.
  Proof. unfold select, sel_crit. destruct (is_tensor_type ty); [apply select_box_spec|apply select_total_spec]; assumption. Qed.

  Lemma sel_crit_down t s : sel_crit ty exact (proper_weights d weights) limits offset d t -> le_idx s t ->
    sel_crit ty exact (proper_weights d weights) limits offset d s.
  Proof.
    unfold sel_crit. destruct (is_tensor_type ty); [apply box_crit_down; exact Htab|].
    apply total_crit_down; [exact Htab|apply proper_weights_ok; exact Hwk].
  Qed.

  (* (b) the selected set is lower *)
  Theorem select_lower : lowerZ (select fuel ty exact weights limits offset d).
  Proof. intros t s Ht Hst. apply select_spec. apply select_spec in Ht. apply (sel_crit_down t s Ht Hst). Qed.

  (* (c) within the limits *)
  Theorem select_within_limits t : In t (select fuel ty exact weights limits offset d) -> limits_ok limits t = true.
  Proof. intros Ht. apply select_spec in Ht. unfold sel_crit, box_crit, total_crit in Ht. destruct (is_tensor_type ty); tauto. Qed.

  Theorem select_within_limits_nth t j : In t (select fuel ty exact weights limits offset d) -> (j < length limits)%nat -> (j < d)%nat ->
    0 <= nth j limits (-1) -> nth j t 0 <= nth j limits (-1).
  Proof.
    intros Ht Hj Hjd Hl. apply limits_ok_nth; [apply select_within_limits; exact Ht|exact Hj| |exact Hl].
    apply select_spec in Ht. unfold sel_crit, box_crit, total_crit in Ht. destruct (is_tensor_type ty); destruct Ht as [-> _]; exact Hjd.
  Qed.

  Theorem select_nonneg t : In t (select fuel ty exact weights limits offset d) -> length t = d /\ nonneg t.
  Proof. intros Ht. apply select_spec in Ht. unfold sel_crit, box_crit, total_crit in Ht. destruct (is_tensor_type ty); tauto. Qed.

  (* the zero index is always selected *)
  Theorem select_zero : In (repeat 0 d) (select fuel ty exact weights limits offset d).
  Proof.
    apply select_spec. destruct (proper_weights_ok d weights Hwk) as [Hl Hw]. pose proof (proper_weights_nonempty d weights Hd Hwk) as Hne.
    pose proof (min_list_pos _ Hne Hw) as Hm.
    assert (Hnn : 0 <= offset * min_list (proper_weights d weights)) by nia.
    pose proof (total_zero_crit exact (proper_weights d weights) limits (offset * min_list (proper_weights d weights)) d) as Hz.
    specialize (Hz Hl Hnn).
    unfold sel_crit. destruct (is_tensor_type ty); [|exact Hz]. destruct Hz as [H1 [H2 [H3 _]]]. repeat split; try assumption.
    replace (repeat 0 d) with (repeat 0 (length (proper_weights d weights))) by (rewrite Hl; reflexivity). apply box_zero.
  Qed.
End Select.

Theorem select_sorted fuel ty exact weights limits offset d : sorted (select fuel ty exact weights limits offset d).
Proof. unfold select. destruct (is_tensor_type ty); [apply select_box_sorted|apply select_total_sorted]. Qed.

Theorem select_nodup fuel ty exact weights limits offset d : NoDup (select fuel ty exact weights limits offset d).
Proof. apply sorted_nodup. apply select_sorted. Qed.

Theorem select_unrestricted fuel ty exact weights limits offset d : Forall (fun l => l < 0) limits ->
  select fuel ty exact weights limits offset d = select fuel ty exact weights [] offset d.
Proof. intros H. unfold select. destruct (is_tensor_type ty); [apply select_box_unrestricted|apply select_total_unrestricted]; exact H. Qed.

(* (d) monotone in the offset (depth) *)
Theorem select_mono_offset fuel fuel' ty exact weights limits offset offset' d :
  (0 < d)%nat -> weights_ok d weights -> table_ok exact -> 0 <= offset <= offset' ->
  adequate fuel exact (proper_weights d weights) offset -> adequate fuel' exact (proper_weights d weights) offset' ->
  incl (select fuel ty exact weights limits offset d) (select fuel' ty exact weights limits offset' d).
Proof.
  intros Hd Hwk Htab Ho Had Had' t Ht. destruct (proper_weights_ok d weights Hwk) as [Hl Hw].
  apply (select_spec fuel' ty exact weights limits offset' d Hd Hwk Htab ltac:(lia) Had').
  apply (select_spec fuel ty exact weights limits offset d Hd Hwk Htab ltac:(lia) Had) in Ht.
  pose proof (min_list_pos _ (proper_weights_nonempty d weights Hd Hwk) Hw) as Hm.
  unfold sel_crit, box_crit, total_crit in *. destruct (is_tensor_type ty).
  - destruct Ht as [H1 [H2 [H3 H4]]]. repeat split; try assumption.
    clear -H4 Hw Ho. revert Hw. induction H4 as [|a x w t Hax _ IH]; intros Hw; constructor; [|apply IH; inversion Hw; assumption].
    inversion Hw; subst. destruct Hax as [->|Hax]; [left; reflexivity|right]. nia.
  - destruct Ht as [H1 [H2 [H3 H4]]]. repeat split; try assumption. nia.
Qed.

(* ================================================================ 6. the fuel of the extracted model, the generated tables *)
(* a table that grows at least like the level: then the loops stop at the latest at level offset * (largest weight) + 1 *)
Definition grows (exact : Z -> Z) : Prop := forall l, 0 <= l -> l <= exact l.

Lemma sel_fuel_adequate exact weights offset d : (0 < d)%nat -> weights_ok d weights -> 0 <= offset -> grows exact ->
  adequate (sel_fuel weights offset d) exact (proper_weights d weights) offset.
Proof.
  intros Hd Hwk Ho Hg. destruct (proper_weights_ok d weights Hwk) as [Hl Hw]. pose proof (proper_weights_nonempty d weights Hd Hwk) as Hne.
  unfold sel_fuel. remember (proper_weights d weights) as w eqn:Ew. clear Ew Hl.
  assert (Hmax : 1 <= max_list w).
  { destruct w as [|a r]; [congruence|]. inversion Hw; subst. pose proof (max_list_ge (a :: r) a (or_introl eq_refl)). lia. }
  exists (offset * max_list w). split; [nia|]. intros wl Hin. pose proof (max_list_ge w wl Hin) as Hle.
  specialize (Hg (offset * max_list w) ltac:(nia)). unfold wpos in Hw. rewrite Forall_forall in Hw. specialize (Hw wl Hin). nia.
Qed.

Lemma pow3_ge_2l1 l : 0 <= l -> 2 * l + 1 <= 3 ^ l.
Proof.
  intros H. pattern l. apply natlike_ind; [reflexivity| |exact H].
  intros x Hx IH. rewrite Z.pow_succ_r by exact Hx. lia.
Qed.

Theorem iexact_ge_level r l : 0 <= l -> l <= g_iExact r l.
Proof.
  intros Hl. destruct r; try (table l Hl).
  pose proof (pow3_ge_2l1 l Hl). cbv beta iota zeta delta [g_iExact]. lia.
Qed.

Theorem qexact_ge_level r l : 0 <= l -> l <= g_qExact r l.
Proof.
  intros Hl. destruct r; try (table l Hl).
  pose proof (pow3_ge_2l1 l Hl). cbv beta iota zeta delta [g_qExact]. lia.
Qed.

Lemma id_table_ok : table_ok (fun l => l) /\ grows (fun l => l).
Proof. split; [split; [lia|intros; lia]|intros l Hl; lia]. Qed.
Lemma iexact_table_ok r : table_ok (g_iExact r) /\ grows (g_iExact r).
Proof. split; [split; [apply iexact_nonneg; lia|apply iexact_mono]|intros l Hl; apply iexact_ge_level; exact Hl]. Qed.
Lemma qexact_table_ok r : table_ok (g_qExact r) /\ grows (g_qExact r).
Proof. split; [split; [apply qexact_nonneg; lia|apply qexact_mono]|intros l Hl; apply qexact_ge_level; exact Hl]. Qed.

(* every function a grid family passes as rule_exactness is a non-decreasing table that grows at least like the level *)
Theorem rule_exactness_ok fam r ty : table_ok (rule_exactness fam r ty) /\ grows (rule_exactness fam r ty).
Proof.
  destruct fam; cbn [rule_exactness]; destruct (is_exact_level ty); destruct (is_exact_quadrature ty);
    first [apply id_table_ok|apply iexact_table_ok|apply qexact_table_ok].
Qed.

(* ================================================================ 7. the tensor sets of the grids *)
Section Grid.
  Variables (fam : family) (r : onedrule) (ty : depth_type) (weights limits : list Z) (depth : Z) (d : nat).
  Hypothesis Hd : (0 < d)%nat.
  Hypothesis Hwk : weights_ok d weights.
  Hypothesis Hdepth : 0 <= depth.

  Let exact := rule_exactness fam r ty.
  Let Htab : table_ok exact := proj1 (rule_exactness_ok fam r ty).
  Let Had : adequate (sel_fuel weights depth d) exact (proper_weights d weights) depth :=
    sel_fuel_adequate exact weights depth d Hd Hwk Hdepth (proj2 (rule_exactness_ok fam r ty)).

  Theorem grid_tensors_spec t : In t (grid_tensors fam r ty weights limits depth d) <->
    sel_crit ty (rule_exactness fam r ty) (proper_weights d weights) limits depth d t.
  Proof. apply select_spec; assumption. Qed.
  Theorem grid_tensors_lower : lowerZ (grid_tensors fam r ty weights limits depth d).
  Proof. apply select_lower; assumption. Qed.
  Theorem grid_tensors_within_limits t j : In t (grid_tensors fam r ty weights limits depth d) -> (j < length limits)%nat -> (j < d)%nat ->
    0 <= nth j limits (-1) -> nth j t 0 <= nth j limits (-1).
  Proof. apply select_within_limits_nth; assumption. Qed.
  Theorem grid_tensors_nonneg t : In t (grid_tensors fam r ty weights limits depth d) -> length t = d /\ nonneg t.
  Proof. apply select_nonneg; assumption. Qed.
  Theorem grid_tensors_zero : In (repeat 0 d) (grid_tensors fam r ty weights limits depth d).
  Proof. apply select_zero; assumption. Qed.
End Grid.

Theorem grid_tensors_sorted fam r ty weights limits depth d : sorted (grid_tensors fam r ty weights limits depth d).
Proof. apply select_sorted. Qed.
Theorem grid_tensors_nodup fam r ty weights limits depth d : NoDup (grid_tensors fam r ty weights limits depth d).
Proof. apply select_nodup. Qed.
Theorem grid_tensors_unrestricted fam r ty weights limits depth d : Forall (fun l => l < 0) limits ->
  grid_tensors fam r ty weights limits depth d = grid_tensors fam r ty weights [] depth d.
Proof. apply select_unrestricted. Qed.
Theorem grid_tensors_mono_depth fam r ty weights limits depth depth' d : (0 < d)%nat -> weights_ok d weights -> 0 <= depth <= depth' ->
  incl (grid_tensors fam r ty weights limits depth d) (grid_tensors fam r ty weights limits depth' d).
Proof.
  intros Hd Hwk Hdep. destruct (rule_exactness_ok fam r ty) as [Htab Hg]. apply select_mono_offset; try assumption.
  - apply sel_fuel_adequate; [assumption|assumption|lia|exact Hg].
  - apply sel_fuel_adequate; [assumption|assumption|lia|exact Hg].
Qed.

(* ================================================================ 8. createPolynomialSpace *)
Lemma fold_merge_spec d (Ls : list (list idx)) : Forall (fun L => wf d L /\ sorted L) Ls ->
  wf d (fold_right merge [] Ls) /\ sorted (fold_right merge [] Ls) /\
  forall x, In x (fold_right merge [] Ls) <-> exists L, In L Ls /\ In x L.
Proof.
  induction 1 as [|L Ls [HwL HsL] _ [IH1 [IH2 IH3]]]; cbn [fold_right].
  - split; [constructor|]. split; [constructor|]. intros x. split; [intros []|intros [L [[] _]]].
  - split; [apply merge_wf; assumption|]. split; [apply (merge_sorted d); assumption|]. intros x. split.
    + intros H. apply merge_In in H. destruct H as [H|H]; [exists L; split; [left; reflexivity|exact H]|].
      apply IH3 in H. destruct H as [L' [H1 H2]]. exists L'. split; [right; exact H1|exact H2].
    + intros [L' [[<-|HL'] Hx]]; apply (In_merge d); try assumption; [left; exact Hx|]. right. apply IH3. exists L'. split; assumption.
Qed.

Lemma full_tensor_wf np : wf (length np) (full_tensor np).
Proof. unfold wf. apply Forall_forall. intros t Ht. apply full_tensor_spec in Ht. apply in_box_length. exact Ht. Qed.

(* k is below the exactness of the tensor t in every direction *)
Definition in_space (exact : Z -> Z) (k t : idx) : Prop := Forall2 (fun kj tj => 0 <= kj <= exact tj) k t.

Lemma in_box_space exact t : forall k, in_box k (map (fun l => exact l + 1) t) <-> in_space exact k t.
Proof.
  induction t as [|a t IH]; intros k; cbn [map].
  - split; intros H; inversion H; constructor.
  - split; intros H; inversion H; subst; constructor; try (apply IH; assumption); lia.
Qed.

Section PolySpace.
  Variables (exact : Z -> Z) (d : nat).

  Lemma poly_boxes Theta : wf d Theta ->
    Forall (fun L => wf d L /\ sorted L) (map (fun t => full_tensor (map (fun l => exact l + 1) t)) Theta).
  Proof.
    intros Hw. apply Forall_forall. intros L HL. apply in_map_iff in HL. destruct HL as [t [<- Ht]].
    unfold wf in Hw. rewrite Forall_forall in Hw. specialize (Hw t Ht). split; [|apply full_tensor_sorted].
    rewrite <- Hw. rewrite <- (map_length (fun l => exact l + 1) t). apply full_tensor_wf.
  Qed.

  (* (e) k is listed iff some tensor of Theta covers it *)
  Theorem poly_space_spec Theta : wf d Theta -> forall k, In k (poly_space exact Theta) <-> exists t, In t Theta /\ in_space exact k t.
  Proof.
    intros Hw k. unfold poly_space. destruct (fold_merge_spec d _ (poly_boxes Theta Hw)) as [_ [_ H]]. rewrite H. split.
    - intros [L [HL Hk]]. apply in_map_iff in HL. destruct HL as [t [<- Ht]]. exists t. split; [exact Ht|].
      apply in_box_space. apply full_tensor_spec. exact Hk.
    - intros [t [Ht Hk]]. exists (full_tensor (map (fun l => exact l + 1) t)). split; [apply in_map_iff; exists t; split; [reflexivity|exact Ht]|].
      apply full_tensor_spec. apply in_box_space. exact Hk.
  Qed.

  Theorem poly_space_sorted Theta : wf d Theta -> sorted (poly_space exact Theta).
  Proof. intros Hw. apply (fold_merge_spec d _ (poly_boxes Theta Hw)). Qed.
  Theorem poly_space_wf Theta : wf d Theta -> wf d (poly_space exact Theta).
  Proof. intros Hw. apply (fold_merge_spec d _ (poly_boxes Theta Hw)). Qed.
  Theorem poly_space_nodup Theta : wf d Theta -> NoDup (poly_space exact Theta).
  Proof. intros Hw. apply sorted_nodup. apply poly_space_sorted. exact Hw. Qed.

  Theorem poly_space_mono Theta Theta' : wf d Theta -> wf d Theta' -> incl Theta Theta' -> incl (poly_space exact Theta) (poly_space exact Theta').
  Proof.
    intros Hw Hw' Hi k Hk. apply (poly_space_spec Theta' Hw'). apply (poly_space_spec Theta Hw) in Hk.
    destruct Hk as [t [Ht Hk]]. exists t. split; [apply Hi; exact Ht|exact Hk].
  Qed.

  Lemma in_space_up k s t : table_ok exact -> in_space exact k s -> le_idx s t -> in_space exact k t.
  Proof.
    intros Htab Hk. revert t. induction Hk as [|kj sj k s Hkj _ IH]; intros t Hst; inversion Hst; subst; constructor; [|apply IH; assumption].
    pose proof (exact_mono_le exact Htab sj y ltac:(lia)). lia.
  Qed.

  (* the space of a subset that dominates the whole set (the active tensors of a lower set) is the space of the whole set *)
  Theorem poly_space_dominating A T : table_ok exact -> wf d A -> wf d T -> incl A T ->
    (forall t, In t T -> exists a, In a A /\ le_idx t a) -> poly_space exact A = poly_space exact T.
  Proof.
    intros Htab HwA HwT Hi Hdom. apply (sorted_ext d); try (apply poly_space_wf; assumption); try (apply poly_space_sorted; assumption).
    intros k. rewrite (poly_space_spec A HwA), (poly_space_spec T HwT). split.
    - intros [a [Ha Hk]]. exists a. split; [apply Hi; exact Ha|exact Hk].
    - intros [t [Ht Hk]]. destruct (Hdom t Ht) as [a [Ha Hta]]. exists a. split; [exact Ha|]. apply (in_space_up k t a Htab Hk Hta).
  Qed.
End PolySpace.

(* with the identity as exactness (Sequence grids, interpolation: the index is the degree) a lower set is its own space *)
Theorem poly_space_id_lower d Theta : wf d Theta -> sorted Theta -> lowerZ Theta -> (forall t, In t Theta -> nonneg t) ->
  poly_space (fun l => l) Theta = Theta.
Proof.
  intros Hw Hs Hlow Hn. apply (sorted_ext d); [apply poly_space_wf; exact Hw|exact Hw|apply (poly_space_sorted _ d); exact Hw|exact Hs|].
  intros k. rewrite (poly_space_spec (fun l => l) d Theta Hw). split.
  - intros [t [Ht Hk]]. apply (Hlow t k Ht). exact Hk.
  - intros Hk. exists k. split; [exact Hk|]. apply le_idx_refl. apply Hn. exact Hk.
Qed.

(* ================================================================ 9. bridges to the combination technique (CombinationProofs, ExactnessProofs) *)
Definition to_nat_idx (t : idx) : list nat := map Z.to_nat t.

Lemma to_nat_idx_inj s t : nonneg s -> nonneg t -> to_nat_idx s = to_nat_idx t -> s = t.
Proof.
  intros Hs. revert t. induction Hs as [|a s Ha _ IH]; intros t Ht E; destruct Ht as [|b t Hb Ht]; try discriminate; [reflexivity|].
  cbn in E. injection E as E1 E2. f_equal; [lia|apply IH; assumption].
Qed.

Lemma le_all_le_idx s' t : nonneg t -> le_all s' (to_nat_idx t) = true -> le_idx (map Z.of_nat s') t.
Proof.
  intros Ht. revert s'. induction Ht as [|b t Hb _ IH]; intros s' H; destruct s' as [|a s']; cbn in *; try discriminate; [constructor|].
  apply andb_true_iff in H. destruct H as [H1 H2]. constructor; [apply Nat.leb_le in H1; lia|apply IH; exact H2].
Qed.

(* a lower set in the sense of this file is lower in the sense of comb_exact *)
Theorem lowerZ_lower Theta : (forall t, In t Theta -> nonneg t) -> lowerZ Theta -> lower (map to_nat_idx Theta).
Proof.
  intros Hn Hlow t' s' Ht' _ Hle. apply in_map_iff in Ht'. destruct Ht' as [t [<- Ht]].
  apply in_map_iff. exists (map Z.of_nat s'). split.
  - unfold to_nat_idx. rewrite map_map. rewrite <- (map_id s') at 2. apply map_ext. intros a. lia.
  - apply (Hlow t); [exact Ht|]. apply le_all_le_idx; [apply Hn; exact Ht|exact Hle].
Qed.

Lemma to_nat_idx_nodup Theta : (forall t, In t Theta -> nonneg t) -> NoDup Theta -> NoDup (map to_nat_idx Theta).
Proof.
  intros Hn Hnd. induction Hnd as [|t Theta Hnot Hnd IH]; cbn; constructor.
  - intros H. apply in_map_iff in H. destruct H as [s [E Hs]]. apply to_nat_idx_inj in E; [subst s; apply Hnot; exact Hs|apply Hn; right; exact Hs|apply Hn; left; reflexivity].
  - apply IH. intros s Hs. apply Hn. right. exact Hs.
Qed.

(* membership in the listed space is the premise of comb_exact with m := the table (levels as nat) *)
Lemma in_space_nat exact k t : nonneg t -> in_space exact k t ->
  Forall2 (fun kj sj => (kj <= Z.to_nat (exact (Z.of_nat sj)))%nat) (to_nat_idx k) (to_nat_idx t).
Proof.
  intros Ht Hk. revert Ht. induction Hk as [|kj tj k t Hkj _ IH]; intros Ht; cbn; constructor; inversion Ht; subst.
  - rewrite Z2Nat.id by assumption. lia.
  - apply IH. assumption.
Qed.

(* END TO END: the tensor set selected for a Global grid of an interpolation-tight rule and every multi-index k of the polynomial
   space the library declares for it (getGlobalPolynomialSpace(true)): the combination technique over that tensor set reproduces the
   monomial x^k exactly (node lists with getNumPoints distinct entries per level) *)
Theorem grid_exact_on_declared_space (r : onedrule) (nodes : nat -> nat -> list Qcanon.Qc) (x : nat -> Qcanon.Qc)
  (ty : depth_type) (weights limits : list Z) (depth : Z) (d : nat) :
  is_interp_tight r = true -> (forall j l, NoDup (nodes j l)) -> (forall j l, length (nodes j l) = table_n r l) ->
  (0 < d)%nat -> weights_ok d weights -> 0 <= depth ->
  let Theta := grid_tensors fam_global r ty weights limits depth d in
  forall k, In k (global_poly_space r true Theta) ->
    sumf Qcanon.Qc (Qcanon.Q2Qc 0) Qcanon.Qcplus (map to_nat_idx Theta)
      (fun t => dprod Qcanon.Qc (Qcanon.Q2Qc 1) Qcanon.Qcmult Qcanon.Qcminus (SparseInterpExact.interp_u nodes x) 0 t (to_nat_idx k))
    = iprod Qcanon.Qc (Qcanon.Q2Qc 1) Qcanon.Qcmult (SparseInterpExact.interp_I x) 0 (to_nat_idx k).
Proof.
  intros Htight Hnd Hlen Hd Hwk Hdep Theta k Hk.
  assert (Hnn : forall t, In t Theta -> length t = d /\ nonneg t) by (intros t Ht; apply (grid_tensors_nonneg fam_global r ty weights limits depth d Hd Hwk Hdep t Ht)).
  assert (Hwf : wf d Theta) by (apply Forall_forall; intros t Ht; apply Hnn; exact Ht).
  unfold global_poly_space in Hk. apply (poly_space_spec (g_iExact r) d Theta Hwf) in Hk. destruct Hk as [s [Hs Hks]].
  apply (sparse_interpolation_exact_table r nodes x Htight Hnd Hlen d (map to_nat_idx Theta)) with (s := to_nat_idx s).
  - apply to_nat_idx_nodup; [intros t Ht; apply Hnn; exact Ht|apply grid_tensors_nodup].
  - intros t' Ht'. apply in_map_iff in Ht'. destruct Ht' as [t [<- Ht]]. unfold to_nat_idx. rewrite map_length. apply Hnn. exact Ht.
  - apply lowerZ_lower; [intros t Ht; apply Hnn; exact Ht|apply grid_tensors_lower; assumption].
  - apply in_map. exact Hs.
  - unfold to_nat_idx. rewrite map_length. assert (E : length k = length s) by (clear -Hks; induction Hks; cbn; [reflexivity|f_equal; assumption]).
    rewrite E. apply Hnn. exact Hs.
  - apply (in_space_nat (g_iExact r) k s); [apply Hnn; exact Hs|exact Hks].
Qed.

(* ================================================================ 10. the cache is never read beyond what was written *)
Lemma cache_loop_length exact wl off : forall fuel i n, (n < fuel)%nat ->
  (forall m, (m < n)%nat -> wl * exactness_at exact (i + 1 + Z.of_nat m) <= off) ->
  (n < length (cache_loop fuel exact wl off i))%nat.
Proof.
  induction fuel as [|f IH]; intros i n Hn Hle; [lia|]. cbn [cache_loop length]. destruct n as [|n]; [lia|].
  pose proof (Hle 0%nat ltac:(lia)) as H0. replace (i + 1 + Z.of_nat 0) with (i + 1) in H0 by lia.
  destruct (wl * exactness_at exact (i + 1) <=? off) eqn:E; [|lia].
  apply -> Nat.succ_lt_mono. apply IH; [lia|]. intros m Hm. specialize (Hle (S m) ltac:(lia)).
  replace (i + 1 + 1 + Z.of_nat m) with (i + 1 + Z.of_nat (S m)) by lia. exact Hle.
Qed.

Lemma coords_in_bounds exact fuel off : table_ok exact -> forall w t, Forall2 (coord_ok exact fuel off) w t ->
  Forall2 (fun c x => (Z.to_nat x + 1 < length c)%nat) (weights_cache fuel exact w off) t.
Proof.
  intros Htab w t Hc. unfold weights_cache. induction Hc as [|wl x w t' [Hwl [Hx Hle]] _ IH]; cbn [map]; constructor; [|exact IH].
  cbn [length]. rewrite Nat.add_1_r. apply -> Nat.succ_lt_mono.
  apply cache_loop_length; [lia|]. intros m Hm.
  pose proof (exactness_at_mono exact (0 + 1 + Z.of_nat m) x Htab ltac:(lia)). pose proof (exactness_at_nonneg exact (0 + 1 + Z.of_nat m) Htab ltac:(lia)). nia.
Qed.

(* every index the walk asks about is one step above a selected index: its coordinates are positions that the cache holds *)
Theorem select_total_reads_in_bounds fuel exact weights limits offset d t :
  (0 < d)%nat -> weights_ok d weights -> table_ok exact -> 0 <= offset -> adequate fuel exact (proper_weights d weights) offset ->
  In t (select_total fuel exact weights limits offset d) ->
  Forall2 (fun c x => (Z.to_nat x + 1 < length c)%nat)
          (weights_cache fuel exact (proper_weights d weights) (offset * min_list (proper_weights d weights))) t.
Proof.
  intros Hd Hwk Htab Hoff Had Ht. apply (select_total_spec fuel exact weights limits offset d t Hd Hwk Htab Hoff Had) in Ht.
  destruct (proper_weights_ok d weights Hwk) as [Hl Hw]. pose proof (proper_weights_nonempty d weights Hd Hwk) as Hne.
  destruct Ht as [Hlt [Hn [_ Hs]]]. apply coords_in_bounds; [exact Htab|].
  apply crit_coords; try assumption; [apply adequate_noff; assumption|lia].
Qed.

(* ================================================================ 11. generateFullTensorSet: the decoding loop lists the nested product *)
Definition prodl (l : list Z) : Z := fold_right Z.mul 1 l.

Lemma fold_left_mul l : forall a, fold_left Z.mul l a = a * prodl l.
Proof. induction l as [|x l IH]; intros a; unfold prodl; cbn [fold_left fold_right]; [lia|]. rewrite IH. unfold prodl. lia. Qed.

Lemma prodl_pos l : Forall (fun n => 0 < n) l -> 0 < prodl l.
Proof. induction 1; unfold prodl in *; cbn [fold_right]; [lia|nia]. Qed.

Lemma prodl_app l1 l2 : prodl (l1 ++ l2) = prodl l1 * prodl l2.
Proof. induction l1 as [|x l1 IH]; unfold prodl in *; cbn [app fold_right]; [lia|]. rewrite IH. lia. Qed.

Lemma prodl_rev l : prodl (rev l) = prodl l.
Proof. induction l as [|x l IH]; [reflexivity|]. cbn [rev]. rewrite prodl_app, IH. unfold prodl. cbn [fold_right]. lia. Qed.

Lemma zseq_succ x : 0 <= x -> zseq (x + 1) = zseq x ++ [x].
Proof.
  intros Hx. unfold zseq. replace (Z.to_nat (x + 1)) with (S (Z.to_nat x)) by lia. rewrite seq_S, map_app. cbn. f_equal. f_equal. lia.
Qed.

Lemma zseq_app a b : 0 <= a -> 0 <= b -> zseq (a + b) = zseq a ++ map (fun r => a + r) (zseq b).
Proof.
  intros Ha Hb. replace b with (Z.of_nat (Z.to_nat b)) by lia. induction (Z.to_nat b) as [|n IH].
  - cbn. rewrite Z.add_0_r, app_nil_r. reflexivity.
  - rewrite Nat2Z.inj_succ. replace (a + Z.succ (Z.of_nat n)) with (a + Z.of_nat n + 1) by lia. rewrite zseq_succ by lia. rewrite IH.
    replace (Z.succ (Z.of_nat n)) with (Z.of_nat n + 1) by lia. rewrite (zseq_succ (Z.of_nat n)) by lia. rewrite map_app, app_assoc. reflexivity.
Qed.

Lemma zseq_mul P : 0 <= P -> forall n : nat,
  zseq (Z.of_nat n * P) = flat_map (fun q => map (fun r => q * P + r) (zseq P)) (zseq (Z.of_nat n)).
Proof.
  intros HP. induction n as [|n IH]; [reflexivity|].
  rewrite Nat2Z.inj_succ. replace (Z.succ (Z.of_nat n) * P) with (Z.of_nat n * P + P) by lia. rewrite zseq_app by nia.
  replace (Z.succ (Z.of_nat n)) with (Z.of_nat n + 1) by lia. rewrite zseq_succ by lia. rewrite flat_map_app. cbn [flat_map]. rewrite app_nil_r, IH. reflexivity.
Qed.

Lemma decode_rev_snoc : forall l1, Forall (fun n => 0 < n) l1 -> forall n t,
  decode_rev (l1 ++ [n]) t = decode_rev l1 t ++ [Z.rem (Z.quot t (prodl l1)) n].
Proof.
  induction 1 as [|a l1 Ha Hl IH]; intros n t; cbn [app decode_rev].
  - unfold prodl. cbn. rewrite Z.quot_1_r. reflexivity.
  - rewrite IH. cbn [app]. f_equal. f_equal. f_equal. pose proof (prodl_pos l1 Hl). rewrite Z.quot_quot by lia. unfold prodl. reflexivity.
Qed.

Lemma decode_rev_low : forall l, Forall (fun n => 0 < n) l -> forall q r, 0 <= q -> 0 <= r < prodl l ->
  decode_rev l (q * prodl l + r) = decode_rev l r.
Proof.
  induction 1 as [|a l Ha Hl IH]; intros q r Hq Hr; [reflexivity|]. cbn [decode_rev].
  pose proof (prodl_pos l Hl) as HP. change (prodl (a :: l)) with (a * prodl l) in *.
  rewrite !Z.rem_mod_nonneg, !Z.quot_div_nonneg by nia.
  replace (q * (a * prodl l) + r) with (r + (q * prodl l) * a) by lia. rewrite Z.mod_add, Z.div_add by lia. f_equal.
  rewrite Z.add_comm. apply IH; [exact Hq|]. split; [apply Z.div_pos; lia|apply Z.div_lt_upper_bound; lia].
Qed.

Lemma flat_map_ext_in {A B} (f g : A -> list B) l : (forall a, In a l -> f a = g a) -> flat_map f l = flat_map g l.
Proof. induction l as [|x l IH]; intros H; cbn; [reflexivity|]. rewrite (H x (or_introl eq_refl)), IH; [reflexivity|]. intros a Ha. apply H. right. exact Ha. Qed.

Lemma map_flat_map {A B C} (f : B -> C) (g : A -> list B) l : map f (flat_map g l) = flat_map (fun a => map f (g a)) l.
Proof. induction l as [|x l IH]; cbn; [reflexivity|]. rewrite map_app, IH. reflexivity. Qed.

(* the decoding loop of generateFullTensorSet enumerates the box in lexicographic order: it is the nested product of the model *)
Theorem full_tensor_decode_eq np : Forall (fun n => 0 < n) np -> full_tensor_decode np = full_tensor np.
Proof.
  unfold full_tensor_decode. rewrite fold_left_mul, Z.mul_1_l. induction 1 as [|n np Hn Hnp IH]; [reflexivity|].
  pose proof (prodl_pos np Hnp) as HP. change (prodl (n :: np)) with (n * prodl np).
  replace n with (Z.of_nat (Z.to_nat n)) at 1 by lia. rewrite zseq_mul by lia. rewrite Z2Nat.id by lia.
  rewrite map_flat_map. cbn [full_tensor]. apply flat_map_ext_in. intros q Hq. apply zseq_In in Hq.
  rewrite map_map. rewrite <- IH. rewrite map_map. apply map_ext_in. intros r Hr. apply zseq_In in Hr.
  cbn [rev]. rewrite decode_rev_snoc by (apply Forall_rev; exact Hnp). rewrite rev_app_distr. cbn [rev app].
  assert (E : decode_rev (rev np) (q * prodl np + r) = decode_rev (rev np) r).
  { rewrite <- (prodl_rev np). apply decode_rev_low; [apply Forall_rev; exact Hnp|lia|rewrite prodl_rev; lia]. }
  rewrite E, prodl_rev. f_equal. rewrite Z.quot_div_nonneg by nia. replace (q * prodl np + r) with (r + q * prodl np) by lia.
  rewrite Z.div_add by lia. rewrite Z.div_small by lia. rewrite Z.rem_mod_nonneg by lia. apply Z.mod_small. lia.
Qed.

Lemma first_level_ge exact e : forall fuel l, l <= first_level fuel exact e l.
Proof. induction fuel as [|f IH]; intros l; cbn [first_level]; [lia|]. destruct (exact l <? e); [|lia]. specialize (IH (l + 1)). lia. Qed.

Lemma clamp_pos : forall np limits, Forall (fun n => 0 < n) np -> Forall (fun n => 0 < n) (clamp_limits np limits).
Proof.
  induction np as [|n np IH]; intros limits H; [destruct limits; constructor|]. inversion H; subst. destruct limits as [|l ls]; [exact H|].
  cbn [clamp_limits]. constructor; [destruct (0 <=? l) eqn:E; lia|apply IH; assumption].
Qed.

(* the two uses of generateFullTensorSet, with the decoding loop in place of the nested product *)
Theorem select_box_decode fuel exact weights limits offset d :
  select_tensor_box fuel exact weights limits offset d = full_tensor_decode (tensor_num_points fuel exact weights limits offset d).
Proof.
  unfold select_tensor_box. symmetry. apply full_tensor_decode_eq. unfold tensor_num_points. apply clamp_pos.
  apply Forall_forall. intros n Hn. apply in_map_iff in Hn. destruct Hn as [wl [<- _]]. pose proof (first_level_ge exact (wl * offset) fuel 0). lia.
Qed.

Theorem poly_space_decode exact Theta : table_ok exact -> (forall t, In t Theta -> nonneg t) ->
  poly_space exact Theta = fold_right merge [] (map (fun t => full_tensor_decode (map (fun l => exact l + 1) t)) Theta).
Proof.
  intros Htab Hn. unfold poly_space. f_equal. apply map_ext_in. intros t Ht. symmetry. apply full_tensor_decode_eq.
  specialize (Hn t Ht). apply Forall_forall. intros n Hin. apply in_map_iff in Hin. destruct Hin as [l [<- Hl]].
  unfold nonneg in Hn. rewrite Forall_forall in Hn. pose proof (exact_nonneg exact Htab l (Hn l Hl)). lia.
Qed.
