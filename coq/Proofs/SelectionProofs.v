(* Characterisation of the classic refinement candidates (C07 selection rule, C08 limits for local grids). *)
From TV Require Import Common.Prelude Model.IndexSets Model.RuleLocal Model.Selection Proofs.IndexSetsProofs.
Local Open Scope Z_scope.

Lemma set_nth_length l n v : length (set_nth l n v) = length l.
Proof. revert n; induction l as [|x l IH]; intros [|n]; cbn; try reflexivity. rewrite IH. reflexivity. Qed.

Lemma nth_set_nth l : forall n v, (n < length l)%nat -> nth n (set_nth l n v) 0 = v.
Proof.
  induction l as [|x l IH]; intros n v H; [cbn in H; lia|].
  destruct n as [|n]; cbn [set_nth nth]; [reflexivity|]. apply IH. cbn in H. lia.
Qed.

Lemma nth_set_nth_other l : forall n m v, n <> m -> nth m (set_nth l n v) 0 = nth m l 0.
Proof.
  induction l as [|x l IH]; intros n m v H; [destruct n, m; reflexivity|].
  destruct n as [|n], m as [|m]; cbn [set_nth nth]; try reflexivity; try congruence. apply IH. congruence.
Qed.

Definition is_child (r : erule) (limits : list Z) (pts : list idx) (flag : idx -> bool) (p : idx) : Prop :=
  exists q dir k, In q pts /\ flag q = true /\ (dir < length q)%nat /\ In k (kid_numbers r) /\
                  getKid r (nth dir q 0) k <> -1 /\ limit_ok r limits dir (getKid r (nth dir q 0) k) = true /\
                  p = set_nth q dir (getKid r (nth dir q 0) k) /\ mem p pts = false.

Lemma children_dir_In r limits pts q dir p :
  In p (children_dir r limits pts q dir) <->
  exists k, In k (kid_numbers r) /\ getKid r (nth dir q 0) k <> -1 /\ limit_ok r limits dir (getKid r (nth dir q 0) k) = true /\
            p = set_nth q dir (getKid r (nth dir q 0) k) /\ mem p pts = false.
Proof.
  unfold children_dir. rewrite in_flat_map. split.
  - intros [k [Hk Hp]]. exists k. split; [exact Hk|].
    destruct (getKid r (nth dir q 0) k =? -1) eqn:E1; [destruct Hp|].
    destruct (limit_ok r limits dir (getKid r (nth dir q 0) k)) eqn:E2; [|destruct Hp].
    destruct (mem (set_nth q dir (getKid r (nth dir q 0) k)) pts) eqn:E3; [destruct Hp|].
    destruct Hp as [Hp|[]]. subst p. repeat split; auto. lia.
  - intros [k [Hk [H1 [H2 [H3 H4]]]]]. exists k. split; [exact Hk|].
    assert (getKid r (nth dir q 0) k =? -1 = false) as -> by lia. rewrite H2. subst p. rewrite H4. left. reflexivity.
Qed.

Lemma raw_candidates_In r limits pts (flag : idx -> bool) p :
  In p (flat_map (fun q : idx => if flag q then flat_map (children_dir r limits pts q) (seq 0 (length q)) else ([] : list idx)) pts) <->
  is_child r limits pts flag p.
Proof.
  rewrite in_flat_map. split.
  - intros [q [Hq Hp]]. destruct (flag q) eqn:Ef; [|destruct Hp].
    apply in_flat_map in Hp. destruct Hp as [dir [Hd Hp]]. apply in_seq in Hd.
    apply children_dir_In in Hp. destruct Hp as [k [Hk [H1 [H2 [H3 H4]]]]].
    exists q, dir, k. repeat split; auto; lia.
  - intros [q [dir [k [Hq [Hf [Hd [Hk [H1 [H2 [H3 H4]]]]]]]]]]. exists q. split; [exact Hq|]. rewrite Hf.
    apply in_flat_map. exists dir. split; [apply in_seq; lia|]. apply children_dir_In. exists k. repeat split; auto.
Qed.

Lemma raw_candidates_wf d r limits pts (flag : idx -> bool) : wf d pts ->
  wf d (flat_map (fun q : idx => if flag q then flat_map (children_dir r limits pts q) (seq 0 (length q)) else ([] : list idx)) pts).
Proof.
  intros Hw. unfold wf. rewrite Forall_forall. intros p Hp. apply raw_candidates_In in Hp.
  destruct Hp as [q [dir [k [Hq [_ [_ [_ [_ [_ [Hp _]]]]]]]]]]. subst p. rewrite set_nth_length.
  unfold wf in Hw. rewrite Forall_forall in Hw. auto.
Qed.

(* the needed set proposed by the classic criterion is EXACTLY the set of not-yet-present children, within the
   level limits, of the flagged loaded points; it is a duplicate-free sorted set *)
Theorem classic_selection_spec d r limits pts flag : wf d pts ->
  sorted (classic_candidates r limits pts flag) /\ wf d (classic_candidates r limits pts flag) /\
  forall p, In p (classic_candidates r limits pts flag) <-> is_child r limits pts flag p.
Proof.
  intros Hw. unfold classic_candidates.
  destruct (sort_unique_spec d _ (raw_candidates_wf d r limits pts flag Hw)) as [H1 [H2 H3]].
  repeat split; auto.
  - intros H. apply H3 in H. apply raw_candidates_In. exact H.
  - intros H. apply H3. apply raw_candidates_In. exact H.
Qed.

(* nothing is proposed once no loaded point is flagged (all coefficients below the tolerance) *)
Theorem classic_nothing_below_tol d r limits pts flag : wf d pts ->
  (forall q, In q pts -> flag q = false) -> classic_candidates r limits pts flag = [].
Proof.
  intros Hw Hf. destruct (classic_selection_spec d r limits pts flag Hw) as [_ [_ H]].
  destruct (classic_candidates r limits pts flag) as [|p l] eqn:E; [reflexivity|].
  exfalso. destruct (proj1 (H p) (or_introl eq_refl)) as [q [_ [_ [Hq [Hfl _]]]]]. rewrite (Hf q Hq) in Hfl. discriminate.
Qed.

(* candidates are never already-loaded points *)
Theorem classic_candidates_fresh d r limits pts flag p : wf d pts ->
  In p (classic_candidates r limits pts flag) -> ~ In p pts.
Proof.
  intros Hw Hp. destruct (classic_selection_spec d r limits pts flag Hw) as [_ [Hw2 H]].
  pose proof (proj1 (H p) Hp) as [q [dir [k [_ [_ [_ [_ [_ [_ [_ Hm]]]]]]]]]].
  intro Hin. assert (length p = d) by (unfold wf in Hw2; rewrite Forall_forall in Hw2; auto).
  apply (mem_In d p pts) in Hin; auto. congruence.
Qed.

(* every candidate respects the level limits in the direction it was created in (C08 for local grids) *)
Theorem classic_within_limits d r limits pts flag p : wf d pts -> limits <> [] ->
  In p (classic_candidates r limits pts flag) ->
  exists q dir, In q pts /\ (dir < length q)%nat /\ (forall m, m <> dir -> nth m p 0 = nth m q 0) /\
                (nth dir limits (-1) = -1 \/ getLevel r (nth dir p 0) <= nth dir limits (-1)).
Proof.
  intros Hw Hl Hp. destruct (classic_selection_spec d r limits pts flag Hw) as [_ [_ H]].
  pose proof (proj1 (H p) Hp) as [q [dir [k [Hq [_ [Hd [_ [_ [Hlim [Hpe _]]]]]]]]]].
  exists q, dir. repeat split; auto.
  - intros m Hm. subst p. apply nth_set_nth_other. congruence.
  - subst p. rewrite nth_set_nth by exact Hd. unfold limit_ok in Hlim. destruct limits as [|l0 lr]; [congruence|].
    apply orb_true_iff in Hlim. destruct Hlim as [Hlim|Hlim]; [left|right]; lia.
Qed.
