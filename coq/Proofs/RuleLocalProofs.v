(* Facts about the RuleLocal model (M-C): the scaled coordinate, the basis is 1 at its own node,
   and it vanishes farther from the node than the reported support (C04), hierarchy facts (C07/C08). *)
From TV Require Import Common.Prelude Model.RuleLocal.
From Coq Require Import QArith Qabs Lqa.
Local Open Scope Z_scope.

Lemma int2log2_pos i : 0 < int2log2 i.
Proof. unfold int2log2. destruct (i <=? 0); [lia|]. apply Z.pow_pos_nonneg; [lia|apply Z.log2_nonneg]. Qed.

Lemma zq_pos z : 0 < z -> (0 < zq z)%Q.
Proof. intros H. unfold zq, Qlt. cbn. lia. Qed.

Local Open Scope Q_scope.

Lemma zq_mult a b : zq (a * b) == zq a * zq b.
Proof. unfold zq. rewrite inject_Z_mult. reflexivity. Qed.
Lemma zq_add a b : zq (a + b) == zq a + zq b.
Proof. unfold zq. rewrite inject_Z_plus. reflexivity. Qed.
Lemma zq_sub a b : zq (a - b) == zq a - zq b.
Proof. unfold zq, Z.sub. rewrite inject_Z_plus, inject_Z_opp. reflexivity. Qed.

(* for every point that is evaluated through the scaled coordinate: scaleX p x = (x - node p) / support p *)
Definition scaled_point (r : erule) (p : Z) : Prop :=
  match r with
  | Pwc => False
  | Localp => (1 <= p)%Z
  | Semilocalp => (3 <= p)%Z
  | Localp0 => (0 <= p)%Z
  | Localpb => (0 <= p)%Z
  end.

Lemma scaleX_affine r p x : scaled_point r p ->
  scaleX r p x == (x - getNode r p) / getSupport r p.
Proof.
  destruct r; cbn [scaled_point]; intros Hp; try contradiction.
  - destruct (Z.eq_dec p 1) as [->|N1].
    { change (scaleX Localp 1 x) with (x + 1). change (getNode Localp 1) with (-1). change (getSupport Localp 1) with (1 / 1). field. }
    destruct (Z.eq_dec p 2) as [->|N2].
    { change (scaleX Localp 2 x) with (x - 1). change (getNode Localp 2) with 1. change (getSupport Localp 2) with (1 / 1). field. }
    unfold scaleX, getNode, getSupport.
    assert (p =? 0 = false)%Z as -> by lia. assert (p =? 1 = false)%Z as -> by lia. assert (p =? 2 = false)%Z as -> by lia.
    pose proof (zq_pos _ (int2log2_pos (p - 1))) as HA. set (A := zq (int2log2 (p - 1))) in *.
    rewrite zq_sub, !zq_mult. change (zq 2) with 2. change (zq 1) with 1. field. lra.
  - unfold scaleX, getNode, getSupport.
    assert (p =? 0 = false)%Z as -> by lia. assert (p =? 1 = false)%Z as -> by lia. assert (p =? 2 = false)%Z as -> by lia.
    assert (p <=? 2 = false)%Z as -> by lia.
    pose proof (zq_pos _ (int2log2_pos (p - 1))) as HA. set (A := zq (int2log2 (p - 1))) in *.
    rewrite zq_sub, !zq_mult. change (zq 2) with 2. change (zq 1) with 1. field. lra.
  - unfold scaleX, getNode, getSupport.
    pose proof (zq_pos _ (int2log2_pos (p + 1))) as HA. set (A := zq (int2log2 (p + 1))) in *.
    rewrite zq_add, !zq_mult. change (zq 2) with 2. change (zq 3) with 3. field. lra.
  - destruct (Z.eq_dec p 0) as [->|N0].
    { change (scaleX Localpb 0 x) with ((x + 1) / 2). change (getNode Localpb 0) with (-1). change (getSupport Localpb 0) with 2. field. }
    destruct (Z.eq_dec p 1) as [->|N1].
    { change (scaleX Localpb 1 x) with ((x - 1) / 2). change (getNode Localpb 1) with 1. change (getSupport Localpb 1) with 2. field. }
    destruct (Z.eq_dec p 2) as [->|N2].
    { change (scaleX Localpb 2 x) with x. change (getNode Localpb 2) with 0. change (getSupport Localpb 2) with (1 / 1). field. }
    unfold scaleX, getNode, getSupport.
    assert (p =? 0 = false)%Z as -> by lia. assert (p =? 1 = false)%Z as -> by lia. assert (p =? 2 = false)%Z as -> by lia.
    assert (p <=? 1 = false)%Z as -> by lia.
    pose proof (zq_pos _ (int2log2_pos (p - 1))) as HA. set (A := zq (int2log2 (p - 1))) in *.
    rewrite zq_sub, !zq_mult. change (zq 2) with 2. change (zq 1) with 1. field. lra.
Qed.

Lemma getSupport_pos r p : scaled_point r p -> 0 < getSupport r p.
Proof.
  destruct r; cbn [scaled_point]; intros Hp; try contradiction; unfold getSupport.
  - assert (p =? 0 = false)%Z as -> by lia. pose proof (zq_pos _ (int2log2_pos (p - 1))). apply Qlt_shift_div_l; lra.
  - assert (p =? 0 = false)%Z as -> by lia. assert (p <=? 2 = false)%Z as -> by lia.
    pose proof (zq_pos _ (int2log2_pos (p - 1))). apply Qlt_shift_div_l; lra.
  - pose proof (zq_pos _ (int2log2_pos (p + 1))). apply Qlt_shift_div_l; lra.
  - destruct (p <=? 1)%Z; [lra|]. pose proof (zq_pos _ (int2log2_pos (p - 1))). apply Qlt_shift_div_l; lra.
Qed.

(* C04: a basis function evaluated through the scaled coordinate vanishes at every x whose distance from the node
   exceeds the support radius, for every order *)
Theorem support_zero r order p x : scaled_point r p ->
  getSupport r p < Qabs (x - getNode r p) -> evalRaw r order p x == 0.
Proof.
  intros Hs Hd.
  assert (Hxn : Qabs_le_1 (scaleX r p x) = false).
  { unfold Qabs_le_1. destruct (Qle_bool (Qabs (scaleX r p x)) 1) eqn:E; [|reflexivity]. exfalso.
    apply Qle_bool_iff in E. rewrite (scaleX_affine r p x Hs) in E.
    pose proof (getSupport_pos r p Hs) as Hp.
    unfold Qdiv in E. rewrite Qabs_Qmult in E. rewrite (Qabs_pos (/ getSupport r p)) in E.
    2:{ apply Qlt_le_weak. apply Qinv_lt_0_compat. exact Hp. }
    set (D := Qabs (x - getNode r p)) in *. set (S := getSupport r p) in *.
    assert (H1 : D * / S * S <= 1 * S) by (apply Qmult_le_compat_r; [exact E|lra]).
    assert (H2 : D * / S * S == D) by (field; lra).
    rewrite H2 in H1. lra. }
  destruct r; cbn [scaled_point] in Hs; try contradiction; unfold evalRaw.
  - assert (p =? 0 = false)%Z as -> by lia. rewrite Hxn. reflexivity.
  - assert (p =? 0 = false)%Z as -> by lia. assert (p =? 1 = false)%Z as -> by lia. assert (p =? 2 = false)%Z as -> by lia.
    rewrite Hxn. reflexivity.
  - rewrite Hxn. reflexivity.
  - rewrite Hxn. reflexivity.
Qed.

(* the two global quadratics of the semi-local rule: what the support radius must be *)
Lemma semilocalp_global_quadratics_radius2 p x : (p = 1 \/ p = 2)%Z -> -1 <= x <= 1 ->
  Qabs (x - getNode Semilocalp p) <= 2.
Proof.
  intros [-> | ->] [H1 H2].
  - change (getNode Semilocalp 1) with (-1). apply (proj2 (Qabs_Qle_condition _ _)). split; lra.
  - change (getNode Semilocalp 2) with 1. apply (proj2 (Qabs_Qle_condition _ _)). split; lra.
Qed.

(* basis functions are 1 at their own node (first hypothesis of the reproduction theorem), all orders *)
Lemma scaleX_node r p : scaled_point r p -> scaleX r p (getNode r p) == 0.
Proof.
  intros Hs. rewrite scaleX_affine by exact Hs. pose proof (getSupport_pos r p Hs). field. lra.
Qed.

(* ------------------------------------------------------------------------------------------------------------
   Hierarchy facts, unbounded in the point number: a kid is one level below its parent, and the parent (or the
   step-parent) of a kid is the point it was generated from.  (pwc, the ternary order-0 tree, is not covered.) *)
Local Open Scope Z_scope.

Definition binary_rule (r : erule) : Prop := r <> Pwc.

Lemma log2_2p_m2 p : 2 <= p -> Z.log2 (2 * p - 2) = Z.log2 (p - 1) + 1.
Proof. intros H. replace (2 * p - 2) with (2 * (p - 1)) by lia. rewrite Z.log2_double by lia. lia. Qed.
Lemma log2_2p_m1 p : 2 <= p -> Z.log2 (2 * p - 1) = Z.log2 (p - 1) + 1.
Proof. intros H. replace (2 * p - 1) with (2 * (p - 1) + 1) by lia. rewrite Z.log2_succ_double by lia. lia. Qed.
Lemma log2_2p_p2 p : 0 <= p -> Z.log2 (2 * p + 2) = Z.log2 (p + 1) + 1.
Proof. intros H. replace (2 * p + 2) with (2 * (p + 1)) by lia. rewrite Z.log2_double by lia. lia. Qed.
Lemma log2_2p_p3 p : 0 <= p -> Z.log2 (2 * p + 3) = Z.log2 (p + 1) + 1.
Proof. intros H. replace (2 * p + 3) with (2 * (p + 1) + 1) by lia. rewrite Z.log2_succ_double by lia. lia. Qed.

Theorem kid_level r p k : binary_rule r -> 0 <= p -> (k = 0 \/ k = 1) ->
  getKid r p k <> -1 -> getLevel r (getKid r p k) = getLevel r p + 1.
Proof.
  intros Hr Hp Hk. destruct r; try (exfalso; apply Hr; reflexivity).
  - (* localp *)
    destruct (Z.eq_dec p 0) as [->|N0]; [destruct Hk as [-> | ->]; intros _; reflexivity|].
    destruct (Z.eq_dec p 1) as [->|N1]; [destruct Hk as [-> | ->]; cbn; intros H; try reflexivity; congruence|].
    destruct (Z.eq_dec p 2) as [->|N2]; [destruct Hk as [-> | ->]; cbn; intros H; try reflexivity; congruence|].
    intros _. unfold getKid, getLevel, intlog2.
    assert (p =? 0 = false) as -> by lia. assert (p =? 1 = false) as -> by lia. assert (p =? 2 = false) as -> by lia. cbn [orb].
    destruct Hk as [-> | ->]; cbn [Z.eqb].
    + assert (2 * p - 1 =? 0 = false) as -> by lia. assert (2 * p - 1 =? 1 = false) as -> by lia.
      assert (2 * p - 1 - 1 <=? 0 = false) as -> by lia. assert (p - 1 <=? 0 = false) as -> by lia.
      replace (2 * p - 1 - 1) with (2 * p - 2) by lia. rewrite log2_2p_m2 by lia. lia.
    + assert (2 * p =? 0 = false) as -> by lia. assert (2 * p =? 1 = false) as -> by lia.
      assert (2 * p - 1 <=? 0 = false) as -> by lia. assert (p - 1 <=? 0 = false) as -> by lia.
      rewrite log2_2p_m1 by lia. lia.
  - (* semi-localp: same tree as localp *)
    destruct (Z.eq_dec p 0) as [->|N0]; [destruct Hk as [-> | ->]; intros _; reflexivity|].
    destruct (Z.eq_dec p 1) as [->|N1]; [destruct Hk as [-> | ->]; cbn; intros H; try reflexivity; congruence|].
    destruct (Z.eq_dec p 2) as [->|N2]; [destruct Hk as [-> | ->]; cbn; intros H; try reflexivity; congruence|].
    intros _. unfold getKid, getLevel, intlog2.
    assert (p =? 0 = false) as -> by lia. assert (p =? 1 = false) as -> by lia. assert (p =? 2 = false) as -> by lia. cbn [orb].
    destruct Hk as [-> | ->]; cbn [Z.eqb].
    + assert (2 * p - 1 =? 0 = false) as -> by lia. assert (2 * p - 1 =? 1 = false) as -> by lia.
      assert (2 * p - 1 - 1 <=? 0 = false) as -> by lia. assert (p - 1 <=? 0 = false) as -> by lia.
      replace (2 * p - 1 - 1) with (2 * p - 2) by lia. rewrite log2_2p_m2 by lia. lia.
    + assert (2 * p =? 0 = false) as -> by lia. assert (2 * p =? 1 = false) as -> by lia.
      assert (2 * p - 1 <=? 0 = false) as -> by lia. assert (p - 1 <=? 0 = false) as -> by lia.
      rewrite log2_2p_m1 by lia. lia.
  - (* localp0 *)
    intros _. unfold getKid, getLevel, intlog2.
    assert (p + 1 <=? 0 = false) as -> by lia.
    destruct Hk as [-> | ->]; cbn [Z.eqb].
    + assert (2 * p + 1 + 1 <=? 0 = false) as -> by lia. replace (2 * p + 1 + 1) with (2 * p + 2) by lia. rewrite log2_2p_p2 by lia. lia.
    + assert (2 * p + 2 + 1 <=? 0 = false) as -> by lia. replace (2 * p + 2 + 1) with (2 * p + 3) by lia. rewrite log2_2p_p3 by lia. lia.
  - (* localpb *)
    destruct (Z.eq_dec p 0) as [->|N0]; [destruct Hk as [-> | ->]; cbn; intros H; try reflexivity; congruence|].
    destruct (Z.eq_dec p 1) as [->|N1]; [destruct Hk as [-> | ->]; cbn; intros H; try reflexivity; congruence|].
    intros _. unfold getKid, getLevel, intlog2.
    assert (p =? 0 = false) as -> by lia. assert (p =? 1 = false) as -> by lia. cbn [orb].
    assert (p <=? 1 = false) as -> by lia. assert (p - 1 <=? 0 = false) as -> by lia.
    destruct Hk as [-> | ->]; cbn [Z.eqb].
    + assert (2 * p - 1 <=? 1 = false) as -> by lia. assert (2 * p - 1 - 1 <=? 0 = false) as -> by lia.
      replace (2 * p - 1 - 1) with (2 * p - 2) by lia. rewrite log2_2p_m2 by lia. lia.
    + assert (2 * p - 0 <=? 1 = false) as -> by lia. assert (2 * p - 0 - 1 <=? 0 = false) as -> by lia.
      replace (2 * p - 0 - 1) with (2 * p - 1) by lia. rewrite log2_2p_m1 by lia. lia.
Qed.

Theorem kid_parent r p k : binary_rule r -> 0 <= p -> (k = 0 \/ k = 1) ->
  getKid r p k <> -1 -> getParent r (getKid r p k) = p \/ getStepParent r (getKid r p k) = p.
Proof.
  intros Hr Hp Hk. destruct r; try (exfalso; apply Hr; reflexivity).
  - destruct (Z.eq_dec p 0) as [->|N0]; [destruct Hk as [-> | ->]; intros _; left; reflexivity|].
    destruct (Z.eq_dec p 1) as [->|N1]; [destruct Hk as [-> | ->]; cbn; intros H; [left; reflexivity|congruence]|].
    destruct (Z.eq_dec p 2) as [->|N2]; [destruct Hk as [-> | ->]; cbn; intros H; [left; reflexivity|congruence]|].
    intros _. left. unfold getKid, getParent.
    assert (p =? 0 = false) as -> by lia. assert (p =? 1 = false) as -> by lia. assert (p =? 2 = false) as -> by lia. cbn [orb].
    destruct Hk as [-> | ->]; cbn [Z.eqb].
    + assert (2 * p - 1 <? 4 = false) as -> by lia. lia.
    + assert (2 * p <? 4 = false) as -> by lia. lia.
  - destruct (Z.eq_dec p 0) as [->|N0]; [destruct Hk as [-> | ->]; intros _; left; reflexivity|].
    destruct (Z.eq_dec p 1) as [->|N1]; [destruct Hk as [-> | ->]; cbn; intros H; [left; reflexivity|congruence]|].
    destruct (Z.eq_dec p 2) as [->|N2]; [destruct Hk as [-> | ->]; cbn; intros H; [left; reflexivity|congruence]|].
    intros _. left. unfold getKid, getParent.
    assert (p =? 0 = false) as -> by lia. assert (p =? 1 = false) as -> by lia. assert (p =? 2 = false) as -> by lia. cbn [orb].
    destruct Hk as [-> | ->]; cbn [Z.eqb].
    + assert (2 * p - 1 <? 4 = false) as -> by lia. lia.
    + assert (2 * p <? 4 = false) as -> by lia. lia.
  - intros _. left. unfold getKid, getParent. destruct Hk as [-> | ->]; cbn [Z.eqb].
    + assert (2 * p + 1 =? 0 = false) as -> by lia. lia.
    + assert (2 * p + 2 =? 0 = false) as -> by lia. lia.
  - destruct (Z.eq_dec p 0) as [->|N0]; [destruct Hk as [-> | ->]; cbn; intros H; [right; reflexivity|congruence]|].
    destruct (Z.eq_dec p 1) as [->|N1]; [destruct Hk as [-> | ->]; cbn; intros H; [left; reflexivity|congruence]|].
    intros _. left. unfold getKid, getParent.
    assert (p =? 0 = false) as -> by lia. assert (p =? 1 = false) as -> by lia. cbn [orb].
    destruct Hk as [-> | ->]; cbn [Z.eqb].
    + assert (2 * p - 1 <? 2 = false) as -> by lia. lia.
    + assert (2 * p - 0 <? 2 = false) as -> by lia. lia.
Qed.
