(* Lagrange interpolation at n pairwise distinct nodes reproduces every polynomial of degree < n.
   Field: Qc (canonical rationals, Leibniz equality).  No axioms.
   Route: a function F -> F is "polynomial of degree < n" (polyfun n) when it agrees pointwise with the Horner evaluation of a
   coefficient list of length <= n.  (1) root-factor by synthetic division; (2) a coefficient list of length <= n whose
   evaluation vanishes at n distinct points evaluates to 0 everywhere (induction on the nodes); (3) the Lagrange interpolant of f
   is polyfun n (closure of polyfun under sums, scalings and multiplication by a linear factor) and agrees with f at every node
   (Kronecker property of the basis); (4) so the error lagrange f - f is polyfun n with n distinct roots, hence 0.              *)
From Coq Require Import List Arith Lia QArith Qcanon Field.
Import ListNotations.
Local Open Scope Qc_scope.

(* ---------- finite sums and products in Qc ---------- *)
Definition qsum (l : list Qc) : Qc := fold_right Qcplus 0 l.
Definition qprod (l : list Qc) : Qc := fold_right Qcmult 1 l.
Lemma qsum_cons a l : qsum (a :: l) = a + qsum l.  Proof. reflexivity. Qed.
Lemma qprod_cons a l : qprod (a :: l) = a * qprod l.  Proof. reflexivity. Qed.

(* ---------- the interpolant ---------- *)
(* the nodes with the i-th one removed *)
Definition others (nodes : list Qc) (i : nat) : list Qc := firstn i nodes ++ skipn (S i) nodes.

(* product over j <> i of (x - x_j) / (x_i - x_j) *)
Definition lagrange_basis (nodes : list Qc) (i : nat) (x : Qc) : Qc :=
  qprod (map (fun xj => (x - xj) / (nth i nodes 0 - xj)) (others nodes i)).

(* sum over i < length nodes of f (x_i) * basis_i (x) *)
Definition lagrange (nodes : list Qc) (f : Qc -> Qc) (x : Qc) : Qc :=
  qsum (map (fun i => f (nth i nodes 0) * lagrange_basis nodes i x) (seq 0 (length nodes))).

(* ---------- coefficient lists, Horner evaluation ---------- *)
Fixpoint peval (c : list Qc) (x : Qc) : Qc := match c with [] => 0 | a :: r => a + x * peval r x end.

Fixpoint padd (c1 c2 : list Qc) : list Qc :=
  match c1, c2 with
  | [], _ => c2
  | _, [] => c1
  | a :: r1, b :: r2 => (a + b) :: padd r1 r2
  end.

Lemma padd_eval c1 : forall c2 x, peval (padd c1 c2) x = peval c1 x + peval c2 x.
Proof.
  induction c1 as [|a r1 IH]; intros [|b r2] x; cbn; try ring.
  rewrite IH. ring.
Qed.

Lemma padd_length c1 : forall c2 n, (length c1 <= n)%nat -> (length c2 <= n)%nat -> (length (padd c1 c2) <= n)%nat.
Proof.
  induction c1 as [|a r1 IH]; intros [|b r2] n H1 H2; cbn in *; try lia.
  destruct n as [|n]; [lia|]. apply le_n_S. apply IH; lia.
Qed.

Lemma pscale_eval a c x : peval (map (Qcmult a) c) x = a * peval c x.
Proof. induction c as [|b r IH]; cbn; [ring|]. rewrite IH. ring. Qed.

(* ---------- functions that are polynomials of degree < n ---------- *)
Definition polyfun (n : nat) (f : Qc -> Qc) : Prop := exists c, (length c <= n)%nat /\ forall x, f x = peval c x.

Lemma polyfun_ext n f g : (forall x, g x = f x) -> polyfun n f -> polyfun n g.
Proof. intros E [c [Hl Hc]]. exists c. split; [exact Hl|]. intros x. rewrite E. apply Hc. Qed.

Lemma polyfun_mono n n' f : (n <= n')%nat -> polyfun n f -> polyfun n' f.
Proof. intros Hn [c [Hl Hc]]. exists c. split; [lia|exact Hc]. Qed.

Lemma polyfun_zero n : polyfun n (fun _ => 0).
Proof. exists []. split; [cbn; lia|reflexivity]. Qed.

Lemma polyfun_const a : polyfun 1 (fun _ => a).
Proof. exists [a]. split; [cbn; lia|]. intros x. cbn. ring. Qed.

Lemma polyfun_add n f g : polyfun n f -> polyfun n g -> polyfun n (fun x => f x + g x).
Proof.
  intros [c1 [L1 E1]] [c2 [L2 E2]]. exists (padd c1 c2). split; [apply padd_length; assumption|].
  intros x. rewrite padd_eval, E1, E2. reflexivity.
Qed.

Lemma polyfun_scale n a f : polyfun n f -> polyfun n (fun x => a * f x).
Proof.
  intros [c [L E]]. exists (map (Qcmult a) c). split; [rewrite map_length; exact L|].
  intros x. rewrite pscale_eval, E. reflexivity.
Qed.

Lemma polyfun_mulx n f : polyfun n f -> polyfun (S n) (fun x => x * f x).
Proof.
  intros [c [L E]]. exists (0 :: c). split; [cbn; lia|]. intros x. cbn. rewrite E. ring.
Qed.

(* multiplication by the linear factor (x - a) / b *)
Lemma polyfun_linear n a b f : polyfun n f -> polyfun (S n) (fun x => (x - a) / b * f x).
Proof.
  intros Hf.
  apply (polyfun_ext _ (fun x => / b * (x * f x) + (- (a / b)) * f x)).
  - intros x. unfold Qcdiv. ring.
  - apply polyfun_add.
    + apply polyfun_scale. apply polyfun_mulx. exact Hf.
    + apply polyfun_scale. apply (polyfun_mono n); [lia|exact Hf].
Qed.

Lemma polyfun_pow k : polyfun (S k) (fun x => x ^ k).
Proof.
  induction k as [|k IH]; [exact (polyfun_const 1)|].
  apply (polyfun_ext _ (fun x => x * x ^ k)); [intros x; reflexivity|]. apply polyfun_mulx. exact IH.
Qed.

Lemma polyfun_qsum {A} n (l : list A) (g : A -> Qc -> Qc) :
  (forall i, In i l -> polyfun n (g i)) -> polyfun n (fun x => qsum (map (fun i => g i x) l)).
Proof.
  induction l as [|i l IH]; intros H; cbn; [apply polyfun_zero|].
  apply polyfun_add; [apply H; left; reflexivity|]. apply IH. intros j Hj. apply H. right. exact Hj.
Qed.

Lemma polyfun_qprod_linear (l : list Qc) (b : Qc -> Qc) :
  polyfun (S (length l)) (fun x => qprod (map (fun xj => (x - xj) / b xj) l)).
Proof.
  induction l as [|a l IH]; cbn [map qprod fold_right length]; [apply polyfun_const|].
  apply (polyfun_linear (S (length l)) a (b a)). exact IH.
Qed.

(* ---------- root factor (synthetic division) ---------- *)
Lemma root_factor c a : exists q, length q = pred (length c) /\ forall x, peval c x = peval c a + (x - a) * peval q x.
Proof.
  induction c as [|c0 c' IH].
  - exists []. split; [reflexivity|]. intros x. cbn. ring.
  - destruct c' as [|c1 c''].
    + exists []. split; [reflexivity|]. intros x. cbn. ring.
    + destruct IH as [q' [Lq Eq]]. exists (peval (c1 :: c'') a :: q'). split.
      * cbn [length pred] in *. rewrite Lq. reflexivity.
      * intros x. change (peval (c0 :: c1 :: c'') x) with (c0 + x * peval (c1 :: c'') x).
        change (peval (c0 :: c1 :: c'') a) with (c0 + a * peval (c1 :: c'') a).
        rewrite (Eq x). cbn [peval]. ring.
Qed.

Lemma Qcminus_eq0 a b : a - b = 0 -> a = b.
Proof. intros H. replace a with ((a - b) + b) by ring. rewrite H. ring. Qed.

(* a coefficient list of length <= n vanishing at n distinct points is the zero function *)
Lemma roots_zero nodes : NoDup nodes -> forall c, (length c <= length nodes)%nat ->
  (forall a, In a nodes -> peval c a = 0) -> forall x, peval c x = 0.
Proof.
  induction nodes as [|a r IH]; intros ND c Hl Hr x.
  - destruct c; [reflexivity|cbn in Hl; lia].
  - inversion ND as [|a' r' Ha NDr]; subst.
    destruct (root_factor c a) as [q [Lq Eq]].
    assert (Hq : forall y, peval q y = 0).
    { apply (IH NDr).
      - rewrite Lq. cbn in Hl. lia.
      - intros b Hb. pose proof (Eq b) as E. rewrite (Hr b) in E by (right; exact Hb).
        rewrite (Hr a) in E by (left; reflexivity).
        assert (E' : (b - a) * peval q b = 0) by (rewrite E; ring).
        destruct (Qcmult_integral _ _ E') as [H0|H0]; [|exact H0].
        apply Qcminus_eq0 in H0. subst b. contradiction. }
    rewrite (Eq x), (Hr a) by (left; reflexivity). rewrite Hq. ring.
Qed.

Lemma polyfun_roots_zero nodes f : NoDup nodes -> polyfun (length nodes) f ->
  (forall a, In a nodes -> f a = 0) -> forall x, f x = 0.
Proof.
  intros ND [c [L E]] Hr x. rewrite E. apply (roots_zero nodes ND c L). intros a Ha. rewrite <- E. apply Hr. exact Ha.
Qed.

(* ---------- the node list without its i-th entry ---------- *)
Lemma split_nth (l : list Qc) : forall i, (i < length l)%nat -> l = firstn i l ++ nth i l 0 :: skipn (S i) l.
Proof.
  induction l as [|a l IH]; intros [|i] H; cbn in *; try lia; [reflexivity|].
  f_equal. apply IH. lia.
Qed.

Lemma others_length l i : (i < length l)%nat -> length (others l i) = pred (length l).
Proof.
  intros H. unfold others. rewrite app_length, firstn_length, skipn_length. lia.
Qed.

Lemma nth_not_in_others l i : NoDup l -> (i < length l)%nat -> ~ In (nth i l 0) (others l i).
Proof.
  intros ND H. rewrite (split_nth l i H) in ND. apply NoDup_remove_2 in ND. exact ND.
Qed.

Lemma nth_in_others (l : list Qc) : forall i j, (j < length l)%nat -> j <> i -> In (nth j l 0) (others l i).
Proof.
  induction l as [|a l IH]; intros [|i] [|j] H Hne; cbn in H; try lia.
  - unfold others. cbn. apply nth_In. lia.
  - unfold others. cbn. left. reflexivity.
  - unfold others. cbn [firstn skipn app nth]. right. apply (IH i j); lia.
Qed.

(* ---------- Kronecker property of the basis ---------- *)
Lemma qprod_all_one {A} (l : list A) (g : A -> Qc) : (forall y, In y l -> g y = 1) -> qprod (map g l) = 1.
Proof.
  induction l as [|a l IH]; intros H; [reflexivity|]. cbn [map]. rewrite qprod_cons.
  rewrite H by (left; reflexivity). rewrite IH; [ring|]. intros y Hy. apply H. right. exact Hy.
Qed.

Lemma qprod_has_zero {A} (l : list A) (g : A -> Qc) y : In y l -> g y = 0 -> qprod (map g l) = 0.
Proof.
  induction l as [|a l IH]; intros Hin Hy; [destruct Hin|]. cbn [map]. rewrite qprod_cons. destruct Hin as [->|Hin].
  - rewrite Hy. ring.
  - rewrite (IH Hin Hy). ring.
Qed.

Lemma basis_at_own_node nodes i : NoDup nodes -> (i < length nodes)%nat ->
  lagrange_basis nodes i (nth i nodes 0) = 1.
Proof.
  intros ND H. unfold lagrange_basis. apply qprod_all_one. intros y Hy.
  assert (Hne : nth i nodes 0 - y <> 0).
  { intro E. apply Qcminus_eq0 in E. subst y. exact (nth_not_in_others nodes i ND H Hy). }
  unfold Qcdiv. apply Qcmult_inv_r. exact Hne.
Qed.

Lemma basis_at_other_node nodes i j : (j < length nodes)%nat -> j <> i ->
  lagrange_basis nodes i (nth j nodes 0) = 0.
Proof.
  intros H Hne. unfold lagrange_basis.
  apply (qprod_has_zero _ _ (nth j nodes 0)); [apply nth_in_others; assumption|].
  unfold Qcdiv. ring.
Qed.

Lemma qsum_all_zero {A} (l : list A) (h : A -> Qc) : (forall i, In i l -> h i = 0) -> qsum (map h l) = 0.
Proof.
  induction l as [|a l IH]; intros H; [reflexivity|]. cbn [map]. rewrite qsum_cons.
  rewrite H by (left; reflexivity). rewrite IH; [ring|]. intros i Hi. apply H. right. exact Hi.
Qed.

Lemma qsum_single (l : list nat) (h : nat -> Qc) j : NoDup l -> In j l ->
  (forall i, In i l -> i <> j -> h i = 0) -> qsum (map h l) = h j.
Proof.
  induction l as [|a l IH]; intros ND Hin H0; [destruct Hin|].
  inversion ND as [|a' l' Ha NDl]; subst. cbn [map]. rewrite qsum_cons. destruct Hin as [->|Hin].
  - assert (E : qsum (map h l) = 0).
    { apply qsum_all_zero. intros i Hi. apply H0; [right; exact Hi|]. intro; subst. contradiction. }
    rewrite E. ring.
  - rewrite (IH NDl Hin) by (intros i Hi Hne; apply H0; [right; exact Hi|exact Hne]).
    rewrite (H0 a); [ring|left; reflexivity|]. intro; subst. contradiction.
Qed.

(* the interpolant agrees with f at every node *)
Theorem lagrange_at_node nodes f j : NoDup nodes -> (j < length nodes)%nat ->
  lagrange nodes f (nth j nodes 0) = f (nth j nodes 0).
Proof.
  intros ND H. unfold lagrange.
  rewrite (qsum_single _ _ j).
  - rewrite basis_at_own_node by assumption. ring.
  - apply seq_NoDup.
  - apply in_seq. lia.
  - intros i Hi Hne. rewrite basis_at_other_node by (try assumption; lia). ring.
Qed.

(* ---------- the interpolant is a polynomial of degree < n ---------- *)
Lemma basis_polyfun nodes i : (i < length nodes)%nat -> polyfun (length nodes) (lagrange_basis nodes i).
Proof.
  intros H. unfold lagrange_basis.
  pose proof (polyfun_qprod_linear (others nodes i) (fun xj => nth i nodes 0 - xj)) as P.
  rewrite (others_length nodes i H) in P.
  replace (S (pred (length nodes))) with (length nodes) in P by lia. exact P.
Qed.

Lemma lagrange_polyfun nodes f : polyfun (length nodes) (lagrange nodes f).
Proof.
  unfold lagrange.
  apply (polyfun_qsum (length nodes) (seq 0 (length nodes)) (fun i x => f (nth i nodes 0) * lagrange_basis nodes i x)).
  intros i Hi. apply in_seq in Hi. apply polyfun_scale. apply basis_polyfun. lia.
Qed.

(* ---------- exactness ---------- *)
(* every polynomial of degree < n is reproduced *)
Theorem lagrange_exact_poly : forall nodes, NoDup nodes -> forall f, polyfun (length nodes) f ->
  forall x, lagrange nodes f x = f x.
Proof.
  intros nodes ND f Hf x.
  assert (E : lagrange nodes f x + (- (1)) * f x = 0).
  { apply (polyfun_roots_zero nodes (fun y => lagrange nodes f y + (- (1)) * f y) ND).
    - apply polyfun_add; [apply lagrange_polyfun|apply polyfun_scale; exact Hf].
    - intros a Ha. destruct (In_nth nodes a 0 Ha) as [j [Hj <-]].
      rewrite lagrange_at_node by assumption. ring. }
  replace (lagrange nodes f x) with ((lagrange nodes f x + (- (1)) * f x) + f x) by ring.
  rewrite E. ring.
Qed.

Theorem lagrange_exact_monomial : forall nodes, NoDup nodes -> forall k, (k < length nodes)%nat ->
  forall x, lagrange nodes (fun t => t ^ k) x = x ^ k.
Proof.
  intros nodes ND k Hk x. apply (lagrange_exact_poly nodes ND (fun t => t ^ k)).
  apply (polyfun_mono (S k)); [lia|apply polyfun_pow].
Qed.

(* in coefficient-list form: every coefficient list of length <= n *)
Corollary lagrange_exact_peval : forall nodes, NoDup nodes -> forall c, (length c <= length nodes)%nat ->
  forall x, lagrange nodes (peval c) x = peval c x.
Proof.
  intros nodes ND c L x. apply (lagrange_exact_poly nodes ND). exists c. split; [exact L|reflexivity].
Qed.

(* ---------- tests / non-vacuity ---------- *)
Definition qc (n : Z) (d : positive) : Qc := Q2Qc (Qmake n d).

Example lagrange_test_3 :
  lagrange [qc 0 1; qc (-1) 1; qc 1 1] (fun t => t ^ 2) (qc 1 3) = qc 1 9.
Proof. apply Qc_is_canon. vm_compute. reflexivity. Qed.

Example lagrange_test_5 :
  lagrange [qc 0 1; qc (-1) 1; qc 1 1; qc (-7) 10; qc 7 10] (fun t => t ^ 4) (qc 2 5) = (qc 2 5) ^ 4.
Proof. apply Qc_is_canon. vm_compute. reflexivity. Qed.

(* the bound k < n is sharp: degree n is not reproduced *)
Example lagrange_test_sharp :
  lagrange [qc 0 1; qc (-1) 1; qc 1 1] (fun t => t ^ 3) (qc 1 2) <> (qc 1 2) ^ 3.
Proof. intro H. apply (f_equal this) in H. vm_compute in H. discriminate H. Qed.

(* distinctness is needed: a repeated node breaks even constants *)
Example lagrange_test_dup :
  lagrange [qc 1 1; qc 1 1] (fun t => t ^ 0) (qc 1 2) <> (qc 1 2) ^ 0.
Proof. intro H. apply (f_equal this) in H. vm_compute in H. discriminate H. Qed.

Print Assumptions lagrange_exact_poly.
Print Assumptions lagrange_exact_monomial.
Print Assumptions lagrange_at_node.
