(* C01 for the Global family with NESTED one-dimensional rules: the combination-technique interpolant on a lower set reproduces
   the loaded values at every grid point.  Field Qc, no axioms.

   Code: GridGlobal::evaluate / getInterpolationWeights / computeBasisValues (tsgGridGlobal.cpp) form
        A f (x) = sum_{t in Theta} w(t) * (tensor Lagrange interpolant of level t)(x)
                = sum_{s in Theta} (tensor_j Delta_{s_j}) f (x)            (Delta_l = U_l - U_{l-1}, U_{-1} = 0)
   on the lower set Theta = active/tensors, and loadNeededValues stores the model values f at the points of the tensors.

   Model: a node sequence xs : nat -> Qc (pairwise distinct), a strictly increasing point count n : nat -> nat (n 0 >= 1); level l
   uses the FIRST n l nodes (nested).  ell l i = Lagrange cardinal function of node i on the nodes of level l (0 when i >= n l),
   Dl l i = ell l i - ell (l-1) i,
        Aop Theta f x = sum_{s in Theta} sum_{p in pts s} f p * prod_j Dl (s_j) (p_j) (x_j),   pts s = { p : p_j < n (s_j) }.
   Route (product structure): for the level vector t of the grid point q, every s in Theta that is not <= t has a coordinate
   s_j > t_j, whose difference vanishes at the node xs q_j (a node of level s_j - 1); the s <= t form the box of t (Theta lower),
   the point ranges are padded to the fixed range pts t (cardinal functions of absent points are 0), the two sums are swapped and
   the sum over the box telescopes coordinate by coordinate to prod_j ell (t_j) (p_j) (xs q_j) = [p = q].                        *)
From TV Require Import Common.Prelude Proofs.CombinationProofs Proofs.LagrangeExact.
From Coq Require Import QArith Qcanon Ring Permutation.
Local Open Scope Qc_scope.

(* ---------- the sumf toolbox of CombinationProofs.v at the field Qc ---------- *)
Notation qs := (sumf Qc 0 Qcplus).

Lemma qs_ext {A} (l : list A) f g : (forall x, In x l -> f x = g x) -> qs l f = qs l g.
Proof. exact (sumf_ext Qc 0 Qcplus l f g). Qed.
Lemma qs_zero {A} (l : list A) f : (forall x, In x l -> f x = 0) -> qs l f = 0.
Proof. exact (sumf_zero Qc 0 1 Qcplus Qcmult Qcminus Qcopp Qcrt l f). Qed.
Lemma qs_app {A} (l1 l2 : list A) f : qs (l1 ++ l2) f = qs l1 f + qs l2 f.
Proof. exact (sumf_app Qc 0 1 Qcplus Qcmult Qcminus Qcopp Qcrt l1 l2 f). Qed.
Lemma qs_scale {A} (l : list A) a f : a * qs l f = qs l (fun x => a * f x).
Proof. exact (sumf_scale Qc 0 1 Qcplus Qcmult Qcminus Qcopp Qcrt l a f). Qed.
Lemma qs_scale_r {A} (l : list A) a f : qs l f * a = qs l (fun x => f x * a).
Proof. exact (sumf_scale_r Qc 0 1 Qcplus Qcmult Qcminus Qcopp Qcrt l a f). Qed.
Lemma qs_map {A B} (l : list A) (g : A -> B) f : qs (map g l) f = qs l (fun x => f (g x)).
Proof. exact (sumf_map Qc 0 Qcplus l g f). Qed.
Lemma qs_flat_map {A B} (l : list A) (g : A -> list B) f : qs (flat_map g l) f = qs l (fun x => qs (g x) f).
Proof. exact (sumf_flat_map Qc 0 1 Qcplus Qcmult Qcminus Qcopp Qcrt l g f). Qed.
Lemma qs_perm {A} (l1 l2 : list A) f : Permutation l1 l2 -> qs l1 f = qs l2 f.
Proof. exact (sumf_perm Qc 0 1 Qcplus Qcmult Qcminus Qcopp Qcrt l1 l2 f). Qed.
Lemma qs_filter_split {A} (l : list A) (p : A -> bool) f :
  qs l f = qs (filter p l) f + qs (filter (fun x => negb (p x)) l) f.
Proof. exact (sumf_filter_split Qc 0 1 Qcplus Qcmult Qcminus Qcopp Qcrt l p f). Qed.

Lemma qs_add {A} (l : list A) f g : qs l (fun x => f x + g x) = qs l f + qs l g.
Proof. induction l as [|a l IH]; cbn [sumf]; [ring|]. rewrite IH. ring. Qed.

Lemma qs_swap {A B} (l1 : list A) (l2 : list B) (g : A -> B -> Qc) :
  qs l1 (fun a => qs l2 (fun b => g a b)) = qs l2 (fun b => qs l1 (fun a => g a b)).
Proof.
  induction l1 as [|a l1 IH]; cbn [sumf].
  - symmetry. apply qs_zero. intros; reflexivity.
  - rewrite IH. symmetry. apply qs_add.
Qed.

Lemma qs_single {A} (l : list A) (h : A -> Qc) j : NoDup l -> In j l ->
  (forall i, In i l -> i <> j -> h i = 0) -> qs l h = h j.
Proof.
  induction l as [|a l IH]; intros ND Hin H0; [destruct Hin|].
  inversion ND as [|a' l' Ha NDl]; subst. cbn [sumf]. destruct Hin as [->|Hin].
  - rewrite (qs_zero l h); [ring|]. intros i Hi. apply H0; [right; exact Hi|]. intro; subst. contradiction.
  - rewrite (IH NDl Hin) by (intros i Hi Hne; apply H0; [right; exact Hi|exact Hne]).
    rewrite (H0 a); [ring|left; reflexivity|]. intro; subst. contradiction.
Qed.

(* box / le_all of CombinationProofs.v (their section generalises over unused ring data: instantiate it trivially) *)
Lemma box_In' s t : In t (box s) <-> le_all t s = true.
Proof. exact (box_In unit (fun _ _ _ => tt) (fun _ _ => tt) (fun _ => O) (fun _ => le_n O) (fun _ _ _ _ => eq_refl) s t). Qed.
Lemma box_NoDup' s : NoDup (box s).
Proof. exact (box_NoDup unit (fun _ _ _ => tt) (fun _ _ => tt) (fun _ => O) (fun _ => le_n O) (fun _ _ _ _ => eq_refl) s). Qed.

Lemma le_all_trans a : forall b c, le_all a b = true -> le_all b c = true -> le_all a c = true.
Proof.
  induction a as [|x a IH]; intros [|y b] [|z c] H1 H2; cbn in *; try discriminate; try reflexivity.
  apply andb_true_iff in H1. apply andb_true_iff in H2. destruct H1 as [H1 H1'], H2 as [H2 H2'].
  apply andb_true_iff. split; [|exact (IH b c H1' H2')].
  apply Nat.leb_le in H1. apply Nat.leb_le in H2. apply Nat.leb_le. lia.
Qed.

Section GlobalNested.
  Variable xs : nat -> Qc.                 (* the nested node sequence *)
  Variable n : nat -> nat.                 (* number of points of level l *)
  Hypothesis xs_inj : forall a b, xs a = xs b -> a = b.
  Hypothesis n_pos : (1 <= n O)%nat.
  Hypothesis n_incr : forall l, (n l < n (S l))%nat.

  (* ---------- one dimension ---------- *)
  Definition nodes_upto (k : nat) : list Qc := map xs (seq O k).
  Definition ell (l i : nat) (x : Qc) : Qc := if (i <? n l)%nat then lagrange_basis (nodes_upto (n l)) i x else 0.
  Definition Dl (l i : nat) (x : Qc) : Qc := match l with O => ell O i x | S l' => ell l i x - ell l' i x end.

  Lemma nodes_upto_length k : length (nodes_upto k) = k.
  Proof. unfold nodes_upto. rewrite map_length, seq_length. reflexivity. Qed.

  Lemma nodes_upto_nth k q : (q < k)%nat -> nth q (nodes_upto k) 0 = xs q.
  Proof.
    intros H. rewrite (nth_indep _ 0 (xs O)) by (rewrite nodes_upto_length; exact H).
    unfold nodes_upto. rewrite map_nth. rewrite seq_nth by exact H. reflexivity.
  Qed.

  Lemma nodes_upto_NoDup k : NoDup (nodes_upto k).
  Proof. unfold nodes_upto. apply FinFun.Injective_map_NoDup; [exact xs_inj|apply seq_NoDup]. Qed.

  Lemma n_mono a b : (a <= b)%nat -> (n a <= n b)%nat.
  Proof using n_pos n_incr. clear xs_inj xs. induction 1 as [|b H IH]; [lia|]. pose proof (n_incr b). lia. Qed.

  Lemma n_gt l : (l < n l)%nat.
  Proof using n_pos n_incr. clear xs_inj xs. induction l as [|l IH]; [lia|]. pose proof (n_incr l). lia. Qed.

  (* (1c) the cardinal functions are Kronecker deltas on the nodes of their level *)
  Lemma ell_at_node L i q : (q < n L)%nat -> ell L i (xs q) = if (i =? q)%nat then 1 else 0.
  Proof.
    intros Hq. unfold ell. destruct (i <? n L)%nat eqn:Ei.
    - apply Nat.ltb_lt in Ei. rewrite <- (nodes_upto_nth (n L) q Hq). destruct (i =? q)%nat eqn:E.
      + apply Nat.eqb_eq in E. subst i. apply basis_at_own_node; [apply nodes_upto_NoDup|rewrite nodes_upto_length; exact Hq].
      + apply Nat.eqb_neq in E. apply basis_at_other_node; [rewrite nodes_upto_length; exact Hq|].
        intro E'. apply E. symmetry. exact E'.
    - apply Nat.ltb_ge in Ei. destruct (i =? q)%nat eqn:E; [apply Nat.eqb_eq in E; lia|reflexivity].
  Qed.

  Lemma ell_out l i x : (n l <= i)%nat -> ell l i x = 0.
  Proof. intros H. unfold ell. destruct (i <? n l)%nat eqn:E; [apply Nat.ltb_lt in E; lia|reflexivity]. Qed.

  (* (1a) telescoping *)
  Lemma Dl_telescope L i x : qs (seq O (S L)) (fun l => Dl l i x) = ell L i x.
  Proof.
    induction L as [|L IH]; [cbn [seq sumf Dl]; ring|].
    rewrite seq_S, qs_app, IH. cbn [sumf Nat.add Dl]. ring.
  Qed.

  (* (1b) the difference of level l+1 vanishes at the nodes of level l *)
  Lemma Dl_vanish l i q : (q < n l)%nat -> Dl (S l) i (xs q) = 0.
  Proof.
    intros Hq. cbn [Dl]. pose proof (n_incr l) as Hi.
    rewrite (ell_at_node (S l) i q) by lia. rewrite (ell_at_node l i q) by exact Hq. ring.
  Qed.

  (* absent points: every difference of a level that does not contain point i is the zero function *)
  Lemma Dl_out l i x : (n l <= i)%nat -> Dl l i x = 0.
  Proof.
    intros H. destruct l as [|l']; cbn [Dl].
    - apply ell_out. exact H.
    - pose proof (n_incr l') as Hi. rewrite (ell_out (S l')) by exact H. rewrite (ell_out l') by lia. ring.
  Qed.

  (* ---------- d dimensions ---------- *)
  Fixpoint Dprod (s p : list nat) (x : list Qc) : Qc :=
    match s, p, x with
    | sj :: s', pj :: p', xj :: x' => Dl sj pj xj * Dprod s' p' x'
    | _, _, _ => 1
    end.
  Fixpoint Lprod (t p : list nat) (x : list Qc) : Qc :=
    match t, p, x with
    | tj :: t', pj :: p', xj :: x' => ell tj pj xj * Lprod t' p' x'
    | _, _, _ => 1
    end.

  Definition mlev (l : nat) : nat := (n l - 1)%nat.
  (* the point multi-indices of the tensor s:  p_j < n (s_j)  *)
  Definition pts (s : list nat) : list (list nat) := box (map mlev s).
  (* the surrogate of a Global grid with tensor set Theta and loaded values f *)
  Definition Aop (Theta : list (list nat)) (f : list nat -> Qc) (x : list Qc) : Qc :=
    qs Theta (fun s => qs (pts s) (fun p => f p * Dprod s p x)).
  (* all points of the grid *)
  Definition grid_points (Theta : list (list nat)) : list (list nat) := flat_map pts Theta.
  (* q_j < n (t_j) for all j, same length *)
  Definition in_tensor (q t : list nat) : Prop := Forall2 (fun qj tj => (qj < n tj)%nat) q t.

  Lemma n_ge1 l : (1 <= n l)%nat.
  Proof using n_pos n_incr. clear xs_inj xs. pose proof (n_mono O l). lia. Qed.

  Lemma in_tensor_le_all q : forall t, in_tensor q t <-> le_all q (map mlev t) = true.
  Proof using n_pos n_incr. clear xs_inj xs.
    induction q as [|qj q IH]; intros [|tj t]; cbn [map le_all]; split; intros H; try discriminate; try reflexivity;
      try (inversion H; fail); try constructor.
    - inversion H as [|a b l1 l2 Hq HF]; subst. apply andb_true_iff. split; [|apply IH; exact HF].
      apply Nat.leb_le. unfold mlev. lia.
    - apply andb_true_iff in H. destruct H as [H _]. apply Nat.leb_le in H. unfold mlev in H. pose proof (n_ge1 tj). lia.
    - apply andb_true_iff in H. destruct H as [_ H]. apply IH. exact H.
  Qed.

  Lemma in_pts q s : In q (pts s) <-> in_tensor q s.
  Proof using n_pos n_incr. clear xs_inj xs. unfold pts. rewrite box_In'. symmetry. apply in_tensor_le_all. Qed.

  Lemma in_tensor_length q t : in_tensor q t -> length q = length t.
  Proof using n_pos n_incr. clear xs_inj xs. induction 1; cbn; [reflexivity|f_equal; assumption]. Qed.

  Lemma le_all_map_mlev s : forall t, le_all s t = true -> le_all (map mlev s) (map mlev t) = true.
  Proof using n_pos n_incr. clear xs_inj xs.
    induction s as [|a s IH]; intros [|b t] H; cbn in *; try discriminate; [reflexivity|].
    apply andb_true_iff in H. destruct H as [H1 H2]. apply andb_true_iff. split; [|apply IH; exact H2].
    apply Nat.leb_le in H1. apply Nat.leb_le. unfold mlev. pose proof (n_mono a b H1). lia.
  Qed.

  (* the sum over a box of level vectors telescopes coordinate by coordinate *)
  Lemma Dprod_box t : forall p x, length p = length t -> length x = length t ->
    qs (box t) (fun s => Dprod s p x) = Lprod t p x.
  Proof.
    induction t as [|a t IH]; intros p x Hp Hx.
    - destruct p; [|discriminate]. destruct x; [|discriminate]. cbn [box sumf Dprod Lprod]. ring.
    - destruct p as [|pj p]; [discriminate|]. destruct x as [|xj x]; [discriminate|]. cbn [box Lprod]. rewrite qs_flat_map.
      rewrite (qs_ext _ _ (fun l => Dl l pj xj * qs (box t) (fun s => Dprod s p x))).
      + rewrite <- qs_scale_r, Dl_telescope. rewrite IH by (cbn in Hp, Hx; lia). reflexivity.
      + intros l _. rewrite qs_map. cbn [Dprod]. rewrite qs_scale. reflexivity.
  Qed.

  (* a level vector that exceeds t in some coordinate contributes nothing at a point of the tensor t *)
  Lemma Dprod_zero_above t : forall s p q, length s = length t -> length p = length t -> in_tensor q t ->
    le_all s t = false -> Dprod s p (map xs q) = 0.
  Proof.
    induction t as [|a t IH]; intros s p q Hs Hp HF Hle.
    - destruct s; [cbn in Hle; discriminate|discriminate].
    - destruct s as [|sj s]; [discriminate|]. destruct p as [|pj p]; [discriminate|].
      inversion HF as [|qj tj q' t' Hq HF']; subst. cbn [map Dprod]. cbn [le_all] in Hle. destruct (sj <=? a)%nat eqn:E.
      + cbn [andb] in Hle. cbn in Hs, Hp. rewrite (IH s p q'); [ring|lia|lia|exact HF'|exact Hle].
      + apply Nat.leb_gt in E. destruct sj as [|sj]; [lia|]. rewrite Dl_vanish; [ring|].
        pose proof (n_mono a sj). lia.
  Qed.

  (* a point index outside the ranges of s contributes nothing (its cardinal functions are zero) *)
  Lemma Dprod_zero_outside s : forall p x, length p = length s -> length x = length s ->
    le_all p (map mlev s) = false -> Dprod s p x = 0.
  Proof.
    induction s as [|a s IH]; intros p x Hp Hx Hle.
    - destruct p; [cbn in Hle; discriminate|discriminate].
    - destruct p as [|pj p]; [discriminate|]. destruct x as [|xj x]; [discriminate|].
      cbn [map le_all] in Hle. cbn [Dprod]. destruct (pj <=? mlev a)%nat eqn:E.
      + cbn [andb] in Hle. cbn in Hp, Hx. rewrite (IH p x); [ring|lia|lia|exact Hle].
      + apply Nat.leb_gt in E. unfold mlev in E. rewrite Dl_out by lia. ring.
  Qed.

  Lemma Lprod_same t : forall q, in_tensor q t -> Lprod t q (map xs q) = 1.
  Proof.
    induction t as [|a t IH]; intros q HF; inversion HF as [|qj tj q' t' Hq HF']; subst; [reflexivity|].
    cbn [map Lprod]. rewrite ell_at_node by exact Hq. rewrite Nat.eqb_refl. rewrite IH by exact HF'. ring.
  Qed.

  Lemma Lprod_diff t : forall p q, length p = length t -> in_tensor q t -> p <> q -> Lprod t p (map xs q) = 0.
  Proof.
    induction t as [|a t IH]; intros p q Hp HF Hne; inversion HF as [|qj tj q' t' Hq HF']; subst.
    - destruct p; [contradiction Hne; reflexivity|discriminate].
    - destruct p as [|pj p]; [discriminate|]. cbn [map Lprod]. rewrite ell_at_node by exact Hq.
      destruct (pj =? qj)%nat eqn:E; [|ring]. apply Nat.eqb_eq in E. subst pj.
      rewrite (IH p q'); [ring|cbn in Hp; lia|exact HF'|]. intro E. apply Hne. rewrite E. reflexivity.
  Qed.

  (* padding of the point range: for s <= t the sum over pts s equals the sum over pts t when the summand vanishes outside pts s *)
  Lemma qs_pts_extend s t (g : list nat -> Qc) : le_all s t = true ->
    (forall p, le_all p (map mlev t) = true -> le_all p (map mlev s) = false -> g p = 0) ->
    qs (pts s) g = qs (pts t) g.
  Proof.
    intros Hst Hz. unfold pts.
    rewrite (qs_filter_split (box (map mlev t)) (fun p => le_all p (map mlev s))).
    rewrite (qs_zero (filter (fun x => negb (le_all x (map mlev s))) (box (map mlev t)))).
    2:{ intros p Hp. apply filter_In in Hp. destruct Hp as [Hp Hn]. apply negb_true_iff in Hn.
        apply Hz; [apply box_In'; exact Hp|exact Hn]. }
    rewrite (qs_perm (box (map mlev s)) (filter (fun p => le_all p (map mlev s)) (box (map mlev t)))); [ring|].
    apply NoDup_Permutation; [apply box_NoDup'|apply NoDup_filter; apply box_NoDup'|].
    intros p. rewrite filter_In, !box_In'. split; [|tauto]. intros H. split; [|exact H].
    apply (le_all_trans p (map mlev s) (map mlev t) H). apply le_all_map_mlev. exact Hst.
  Qed.

  (* ---------- (2) MAIN: the surrogate reproduces the loaded value at every point of every tensor of a lower set ---------- *)
  Theorem global_nested_reproduces_tensor : forall d Theta (f : list nat -> Qc) q t,
    NoDup Theta -> (forall s, In s Theta -> length s = d) -> lower Theta ->
    In t Theta -> in_tensor q t ->
    Aop Theta f (map xs q) = f q.
  Proof.
    intros d Theta f q t ND Hlen Hlow Ht Hq.
    pose proof (Hlen t Ht) as Htl. pose proof (in_tensor_length q t Hq) as Hql.
    unfold Aop.
    rewrite (qs_filter_split Theta (fun s => le_all s t)).
    rewrite (qs_zero (filter (fun s => negb (le_all s t)) Theta)).
    2:{ intros s Hs. apply filter_In in Hs. destruct Hs as [Hs Hn]. apply negb_true_iff in Hn.
        apply qs_zero. intros p Hp. unfold pts in Hp. apply box_In' in Hp. apply le_all_length in Hp. rewrite map_length in Hp.
        rewrite (Dprod_zero_above t s p q); [ring|rewrite (Hlen s Hs); lia|rewrite Hp, (Hlen s Hs); lia|exact Hq|exact Hn]. }
    rewrite (qs_perm (filter (fun s => le_all s t) Theta) (box t)).
    2:{ apply NoDup_Permutation; [apply NoDup_filter; exact ND|apply box_NoDup'|].
        intros s. rewrite filter_In, box_In'. split; [tauto|]. intros H. split; [|exact H].
        apply (Hlow t s Ht); [apply le_all_length in H; exact H|exact H]. }
    rewrite (qs_ext (box t) _ (fun s => qs (pts t) (fun p => f p * Dprod s p (map xs q)))).
    2:{ intros s Hs. apply box_In' in Hs. apply qs_pts_extend; [exact Hs|]. intros p Hp1 Hp2.
        apply le_all_length in Hp1. rewrite map_length in Hp1. apply le_all_length in Hs.
        rewrite Dprod_zero_outside; [ring|lia|rewrite map_length; lia|exact Hp2]. }
    rewrite qs_swap.
    rewrite (qs_ext (pts t) _ (fun p => f p * Lprod t p (map xs q))).
    2:{ intros p Hp. unfold pts in Hp. apply box_In' in Hp. apply le_all_length in Hp. rewrite map_length in Hp.
        rewrite <- qs_scale. rewrite Dprod_box; [reflexivity|exact Hp|rewrite map_length; exact Hql]. }
    rewrite (qs_single (pts t) _ q).
    - rewrite Lprod_same by exact Hq. ring.
    - apply box_NoDup'.
    - apply in_pts. exact Hq.
    - intros p Hp Hne. apply in_pts in Hp. rewrite Lprod_diff; [ring|exact (in_tensor_length p t Hp)|exact Hq|exact Hne].
  Qed.

  (* ... at every grid point (every loaded point) *)
  Theorem global_nested_reproduces : forall d Theta (f : list nat -> Qc) q,
    NoDup Theta -> (forall s, In s Theta -> length s = d) -> lower Theta ->
    In q (grid_points Theta) -> Aop Theta f (map xs q) = f q.
  Proof.
    intros d Theta f q ND Hlen Hlow Hq. unfold grid_points in Hq. apply in_flat_map in Hq. destruct Hq as [t [Ht Hq]].
    apply in_pts in Hq. exact (global_nested_reproduces_tensor d Theta f q t ND Hlen Hlow Ht Hq).
  Qed.

  (* ---------- (3) the grid points are the point multi-indices whose vector of minimal levels belongs to Theta ---------- *)
  Fixpoint minlev_aux (fuel l qj : nat) : nat :=
    match fuel with O => l | S fuel' => if (qj <? n l)%nat then l else minlev_aux fuel' (S l) qj end.
  (* the least level whose point set contains point qj *)
  Definition minlev (qj : nat) : nat := minlev_aux qj O qj.

  Lemma minlev_aux_spec qj : forall fuel l, (forall l', (l' < l)%nat -> (n l' <= qj)%nat) -> (qj < n (l + fuel))%nat ->
    (qj < n (minlev_aux fuel l qj))%nat /\ (forall l', (l' < minlev_aux fuel l qj)%nat -> (n l' <= qj)%nat).
  Proof using n_pos n_incr. clear xs_inj xs.
    induction fuel as [|fuel IH]; intros l Hb Hf; cbn [minlev_aux].
    - rewrite Nat.add_0_r in Hf. split; assumption.
    - destruct (qj <? n l)%nat eqn:E.
      + apply Nat.ltb_lt in E. split; assumption.
      + apply Nat.ltb_ge in E. apply IH.
        * intros l' Hl'. destruct (Nat.eq_dec l' l) as [->|Hne]; [exact E|apply Hb; lia].
        * replace (S l + fuel)%nat with (l + S fuel)%nat by lia. exact Hf.
  Qed.

  Lemma minlev_in qj : (qj < n (minlev qj))%nat.
  Proof using n_pos n_incr. clear xs_inj xs. unfold minlev. apply (minlev_aux_spec qj qj O); [intros; lia|cbn; apply n_gt]. Qed.

  Lemma minlev_least qj l : (qj < n l)%nat -> (minlev qj <= l)%nat.
  Proof using n_pos n_incr. clear xs_inj xs.
    intros H. destruct (le_lt_dec (minlev qj) l) as [Hle|Hlt]; [exact Hle|]. exfalso.
    assert (Hb : (n l <= qj)%nat).
    { unfold minlev in Hlt. apply (proj2 (minlev_aux_spec qj qj O (fun l' (Hl' : (l' < O)%nat) => ltac:(lia)) (n_gt qj))). exact Hlt. }
    lia.
  Qed.

  Lemma in_tensor_minlev q : in_tensor q (map minlev q).
  Proof using n_pos n_incr. clear xs_inj xs. induction q as [|qj q IH]; cbn; constructor; [apply minlev_in|exact IH]. Qed.

  Lemma minlev_le_all q : forall t, in_tensor q t -> le_all (map minlev q) t = true.
  Proof using n_pos n_incr. clear xs_inj xs.
    induction q as [|qj q IH]; intros t HF; inversion HF as [|a b l1 l2 Hq HF']; subst; [reflexivity|].
    cbn [map le_all]. apply andb_true_iff. split; [apply Nat.leb_le; apply minlev_least; exact Hq|apply IH; exact HF'].
  Qed.

  Theorem grid_points_minlev : forall Theta q, lower Theta ->
    (In q (grid_points Theta) <-> In (map minlev q) Theta).
  Proof using n_pos n_incr. clear xs_inj xs.
    intros Theta q Hlow. unfold grid_points. rewrite in_flat_map. split.
    - intros [t [Ht Hq]]. apply in_pts in Hq. apply (Hlow t (map minlev q) Ht).
      + rewrite map_length. exact (in_tensor_length q t Hq).
      + apply minlev_le_all. exact Hq.
    - intros H. exists (map minlev q). split; [exact H|]. apply in_pts. apply in_tensor_minlev.
  Qed.

  (* the statement of the task: q is a grid point when its vector of minimal levels belongs to Theta *)
  Theorem global_nested_reproduces_minlev : forall d Theta (f : list nat -> Qc) q,
    NoDup Theta -> (forall s, In s Theta -> length s = d) -> lower Theta ->
    In (map minlev q) Theta -> Aop Theta f (map xs q) = f q.
  Proof.
    intros d Theta f q ND Hlen Hlow Hq.
    exact (global_nested_reproduces_tensor d Theta f q (map minlev q) ND Hlen Hlow Hq (in_tensor_minlev q)).
  Qed.

  (* uniqueness: the values at the grid points are determined by the surrogate *)
  Theorem global_nested_values_unique : forall d Theta (f g : list nat -> Qc),
    NoDup Theta -> (forall s, In s Theta -> length s = d) -> lower Theta ->
    (forall q, In q (grid_points Theta) -> Aop Theta f (map xs q) = Aop Theta g (map xs q)) ->
    forall q, In q (grid_points Theta) -> f q = g q.
  Proof.
    intros d Theta f g ND Hlen Hlow H q Hq.
    rewrite <- (global_nested_reproduces d Theta f q ND Hlen Hlow Hq).
    rewrite <- (global_nested_reproduces d Theta g q ND Hlen Hlow Hq). apply H. exact Hq.
  Qed.

  (* the surrogate only reads f at grid points (loadNeededValues supplies exactly those) *)
  Theorem Aop_reads_grid_points : forall Theta (f g : list nat -> Qc) x,
    (forall q, In q (grid_points Theta) -> f q = g q) -> Aop Theta f x = Aop Theta g x.
  Proof.
    intros Theta f g x H. unfold Aop. apply qs_ext. intros s Hs. apply qs_ext. intros p Hp.
    rewrite (H p); [reflexivity|]. unfold grid_points. apply in_flat_map. exists s. split; assumption.
  Qed.
End GlobalNested.

(* ---------- 1-D statements in closed form ---------- *)
Theorem nested_1d_facts : forall (xs : nat -> Qc) (n : nat -> nat),
  (forall a b, xs a = xs b -> a = b) -> (1 <= n O)%nat -> (forall l, (n l < n (S l))%nat) ->
  (forall L i x, qs (seq O (S L)) (fun l => Dl xs n l i x) = ell xs n L i x) /\
  (forall l i q, (q < n l)%nat -> Dl xs n (S l) i (xs q) = 0) /\
  (forall L i q, (q < n L)%nat -> ell xs n L i (xs q) = if (i =? q)%nat then 1 else 0) /\
  (forall l i x, (n l <= i)%nat -> Dl xs n l i x = 0).
Proof.
  intros xs n Hinj Hpos Hincr. repeat split.
  - intros. apply Dl_telescope.
  - intros. apply Dl_vanish; assumption.
  - intros. apply ell_at_node; assumption.
  - intros. apply Dl_out; assumption.
Qed.

(* ---------- concrete instance: nodes 0, 1, -1, 1/2, -1/2, 5, 6, ...; n = 1, 3, 5, 6, 7, ... ---------- *)
Definition ex_q (k : nat) : Q :=
  match k with
  | 0%nat => 0 # 1 | 1%nat => 1 # 1 | 2%nat => (-1) # 1 | 3%nat => 1 # 2 | 4%nat => (-1) # 2
  | _ => Z.of_nat k # 1
  end.
Definition ex_xs (k : nat) : Qc := Q2Qc (ex_q k).
Definition ex_n (l : nat) : nat := match l with 0%nat => 1%nat | 1%nat => 3%nat | 2%nat => 5%nat | S (S (S l')) => (6 + l')%nat end.

Lemma ex_xs_inj : forall a b, ex_xs a = ex_xs b -> a = b.
Proof.
  intros a b H. unfold ex_xs in H. apply Q2Qc_eq_iff in H. unfold Qeq in H.
  destruct a as [|[|[|[|[|a]]]]]; destruct b as [|[|[|[|[|b]]]]]; cbn [ex_q Qnum Qden] in H; try reflexivity; try lia.
Qed.
Lemma ex_n_pos : (1 <= ex_n O)%nat.  Proof. cbn. lia. Qed.
Lemma ex_n_incr : forall l, (ex_n l < ex_n (S l))%nat.
Proof. intros [|[|[|l]]]; cbn; lia. Qed.

(* a 2-d lower set that is not a box: levels (0,0) (1,0) (2,0) (0,1) (1,1) - 1 + 2 + 2 + 2 + 4 = 11 points *)
Definition ex_Theta2 : list (list nat) := [[0;0];[1;0];[2;0];[0;1];[1;1]]%nat.
Lemma ex_Theta2_nodup : NoDup ex_Theta2.
Proof. unfold ex_Theta2. repeat (constructor; [cbn; intuition discriminate|]). constructor. Qed.
Lemma ex_Theta2_len : forall s, In s ex_Theta2 -> length s = 2%nat.
Proof. intros s [<-|[<-|[<-|[<-|[<-|[]]]]]]; reflexivity. Qed.
Lemma ex_Theta2_lower : lower ex_Theta2.
Proof.
  intros t s [<-|[<-|[<-|[<-|[<-|[]]]]]] Hl Hle; destruct s as [|a [|b [|c s]]]; try discriminate;
    destruct a as [|[|[|a]]], b as [|[|b]]; try discriminate; cbn; auto 10.
Qed.
(* the loaded values: an arbitrary function of the point multi-index, here 3 p1 - 7 p2 + p1 p2 + 1/(1 + p1) *)
Definition ex_f (p : list nat) : Qc :=
  match p with
  | [a; b] => Q2Qc ((3 * Z.of_nat a - 7 * Z.of_nat b + Z.of_nat (a * b)) # 1) + Q2Qc (1 # Pos.of_succ_nat a)
  | _ => 0
  end.
(* the distinct grid points of a tensor set (the tensors overlap) *)
Definition ex_points (Theta : list (list nat)) : list (list nat) := nodup (list_eq_dec Nat.eq_dec) (grid_points ex_n Theta).
