(* The linear-algebra fact behind the exotic quadrature of Addons/tsgExoticQuadrature.hpp (getShiftedExoticQuadrature):
   rule A (the Gauss rule of the shifted weight rho + s) reproduces the moments mu k + s * nu k for k < m, rule B (Gauss-Legendre)
   reproduces nu k for k < m; the combined rule = A's nodes and weights, then every node of B with its weight multiplied by -s,
   a node that is already present has the weight added to the existing entry (the duplicate merge of the code; the code compares
   with the original entries of A up to a tolerance, here equality of Qc against every entry - the sum is the same) - reproduces
   mu k for k < m.  Rules are lists of (node, weight); quad is the quadrature sum of t^k.  Over Qc, stdlib only. *)
From TV Require Import Proofs.LagrangeExact Proofs.InterpQuadExact.
From Coq Require Import List Arith Lia QArith Qcanon.
Import ListNotations.
Local Open Scope Qc_scope.

Definition rule := list (Qc * Qc).

Definition quad (r : rule) (k : nat) : Qc := qsum (map (fun p => snd p * fst p ^ k) r).

(* append (x, w), or add w to the weight of the first entry whose node is x *)
Fixpoint merge1 (r : rule) (p : Qc * Qc) : rule :=
  match r with
  | [] => [p]
  | q :: t => if Qc_eq_dec (fst q) (fst p) then (fst q, snd q + snd p) :: t else q :: merge1 t p
  end.

Definition scale_rule (c : Qc) (b : rule) : rule := map (fun p => (fst p, c * snd p)) b.

(* the combined rule: A, then the correction points of B with weights multiplied by -s, duplicates merged *)
Definition exotic_combine (a : rule) (s : Qc) (b : rule) : rule := fold_left merge1 (scale_rule (- s) b) a.

(* the rule of the changed code for s < 0: the correction is dropped *)
Definition exotic_no_correction (a : rule) (s : Qc) (b : rule) : rule := a.

Lemma quad_nil k : quad [] k = 0.
Proof. reflexivity. Qed.

Lemma quad_cons p r k : quad (p :: r) k = snd p * fst p ^ k + quad r k.
Proof. reflexivity. Qed.

Lemma quad_merge1 r : forall p k, quad (merge1 r p) k = quad r k + snd p * fst p ^ k.
Proof.
  induction r as [|q t IH]; intros p k; cbn [merge1].
  - rewrite quad_cons, !quad_nil. ring.
  - destruct (Qc_eq_dec (fst q) (fst p)) as [E|E].
    + rewrite !quad_cons. cbn [fst snd]. rewrite E. ring.
    + rewrite !quad_cons, IH. ring.
Qed.

Lemma quad_fold_merge l : forall r k, quad (fold_left merge1 l r) k = quad r k + quad l k.
Proof.
  induction l as [|p l IH]; intros r k; cbn [fold_left].
  - rewrite quad_nil. ring.
  - rewrite IH, quad_merge1, quad_cons. ring.
Qed.

Lemma quad_scale c b k : quad (scale_rule c b) k = c * quad b k.
Proof.
  induction b as [|p b IH]; unfold scale_rule in *; cbn [map].
  - rewrite quad_nil. ring.
  - rewrite !quad_cons, IH. cbn [fst snd]. ring.
Qed.

Lemma quad_combine a s b k : quad (exotic_combine a s b) k = quad a k - s * quad b k.
Proof. unfold exotic_combine. rewrite quad_fold_merge, quad_scale. ring. Qed.

Theorem exotic_shift_exact : forall (mu nu : nat -> Qc) (s : Qc) (m : nat) (a b : rule),
  (forall k, (k < m)%nat -> quad a k = mu k + s * nu k) ->
  (forall k, (k < m)%nat -> quad b k = nu k) ->
  forall k, (k < m)%nat -> quad (exotic_combine a s b) k = mu k.
Proof.
  intros mu nu s m a b Ha Hb k Hk. rewrite quad_combine, (Ha k Hk), (Hb k Hk). ring.
Qed.

(* the correction is necessary: without it the rule reproduces mu k only where s * nu k = 0 *)
Theorem exotic_no_correction_error : forall (mu nu : nat -> Qc) (s : Qc) (m : nat) (a b : rule),
  (forall k, (k < m)%nat -> quad a k = mu k + s * nu k) ->
  forall k, (k < m)%nat -> (quad (exotic_no_correction a s b) k = mu k <-> s * nu k = 0).
Proof.
  intros mu nu s m a b Ha k Hk. unfold exotic_no_correction. rewrite (Ha k Hk). split; intro H.
  - transitivity (mu k + s * nu k - mu k); [ring|]. rewrite H. ring.
  - rewrite H. ring.
Qed.

(* merging keeps the nodes of A in place and never creates a second entry for a node of the correction *)
Lemma merge1_length r p : (length r <= length (merge1 r p) <= S (length r))%nat.
Proof.
  induction r as [|q t IH]; cbn [merge1 length]; [lia|].
  destruct (Qc_eq_dec (fst q) (fst p)); cbn [length]; lia.
Qed.
