(* Lemmas about Model/Transforms.v (C10).  Everything is over exact rationals; sqrt, pow and exp enter as
   Section variables together with the algebraic laws that are used. *)
From Coq Require Import QArith Qabs Qfield Lqa Lia List Bool Setoid Morphisms.
From TV Require Import Model.Transforms.
Import ListNotations.
Local Open Scope Q_scope.

(* ------------------------------------------------------------------------------------------ basics *)
Lemma lt_diff_nz a b : a < b -> ~ b - a == 0.
Proof. intros H E. lra. Qed.

Lemma pos_nz b : 0 < b -> ~ b == 0.
Proof. intros H E. lra. Qed.

Lemma Qle_bool_eq a b c d : (a <= b <-> c <= d) -> Qle_bool a b = Qle_bool c d.
Proof.
  intros H. destruct (Qle_bool a b) eqn:E1, (Qle_bool c d) eqn:E2; try reflexivity.
  - apply Qle_bool_iff in E1. apply H in E1. apply Qle_bool_iff in E1. congruence.
  - apply Qle_bool_iff in E2. apply H in E2. apply Qle_bool_iff in E2. congruence.
Qed.

Inductive all2 {A B : Type} (R : A -> B -> Prop) : list A -> list B -> Prop :=
| all2_nil : all2 R [] []
| all2_cons : forall a b l1 l2, R a b -> all2 R l1 l2 -> all2 R (a :: l1) (b :: l2).

Definition valid (f : family) (a b : Q) : Prop :=
  match f with FLinear | FFourier => a < b | FLaguerre | FHermite => 0 < b end.
Definition valid_all (f : family) (ab : list (Q * Q)) : Prop :=
  Forall (fun p => valid f (fst p) (snd p)) ab.

Section WithSqrt.
  Variable sqrtq : Q -> Q.
  Hypothesis sqrt_sq : forall b, 0 < b -> sqrtq b * sqrtq b == b.

  Notation fwd := (fwd sqrtq).
  Notation inv := (inv sqrtq).
  Notation jac := (jac sqrtq).
  Notation support_scale := (support_scale sqrtq).

  Lemma sqrt_nz b : 0 < b -> ~ sqrtq b == 0.
  Proof.
    intros Hb E. pose proof (sqrt_sq b Hb) as H. rewrite E in H. lra.
  Qed.

  (* ---------------------------------------------------------------------------------------- inverses *)
  Lemma inv_fwd f a b x : valid f a b -> inv f a b (fwd f a b x) == x.
  Proof.
    destruct f; cbn; intros H.
    - field. apply lt_diff_nz; exact H.
    - field. apply lt_diff_nz; exact H.
    - field. apply pos_nz; exact H.
    - field. apply sqrt_nz; exact H.
  Qed.

  Lemma fwd_inv f a b y : valid f a b -> fwd f a b (inv f a b y) == y.
  Proof.
    destruct f; cbn; intros H.
    - field. apply lt_diff_nz; exact H.
    - field. apply lt_diff_nz; exact H.
    - field. apply pos_nz; exact H.
    - field. apply sqrt_nz; exact H.
  Qed.

  Lemma jac_nz f a b : valid f a b -> ~ jac f a b == 0.
  Proof.
    destruct f; cbn; intros H E.
    - assert (D : ~ b - a == 0) by (apply lt_diff_nz; exact H).
      assert (X : 2 / (b - a) * (b - a) == 2) by (field; exact D). rewrite E in X. lra.
    - assert (D : ~ b - a == 0) by (apply lt_diff_nz; exact H).
      assert (X : 1 / (b - a) * (b - a) == 1) by (field; exact D). rewrite E in X. lra.
    - lra.
    - revert E. apply sqrt_nz; exact H.
  Qed.

  (* the transformed-to-canonical map is affine with slope jac (what diffCanonicalTransform returns) *)
  Lemma inv_affine f a b y h : valid f a b -> inv f a b (y + h) == inv f a b y + h * jac f a b.
  Proof.
    destruct f; cbn; intros H.
    - field. apply lt_diff_nz; exact H.
    - field. apply lt_diff_nz; exact H.
    - ring.
    - ring.
  Qed.

  (* the canonical-to-transformed map is affine with slope 1/jac *)
  Lemma fwd_affine f a b x h : valid f a b -> fwd f a b (x + h) == fwd f a b x + h / jac f a b.
  Proof.
    destruct f; cbn; intros H.
    - field. apply lt_diff_nz; exact H.
    - field. apply lt_diff_nz; exact H.
    - field. apply pos_nz; exact H.
    - field. apply sqrt_nz; exact H.
  Qed.

  #[local] Instance inv_proper f a b : Proper (Qeq ==> Qeq) (inv f a b).
  Proof. intros y y' E. destruct f; cbn; rewrite E; reflexivity. Qed.

  #[local] Instance fwd_proper f a b : Proper (Qeq ==> Qeq) (fwd f a b).
  Proof. intros y y' E. destruct f; cbn; rewrite E; reflexivity. Qed.

  (* ---------------------------------------------------------------------------------------- lists *)
  Lemma inv_fwd_pt f ab : valid_all f ab -> forall x, length x = length ab ->
    all2 Qeq (inv_pt sqrtq f ab (fwd_pt sqrtq f ab x)) x.
  Proof.
    induction 1 as [|p ab Hp Hab IH]; intros [|x0 x] L; cbn in *; try discriminate; constructor.
    - apply inv_fwd; exact Hp.
    - apply IH. congruence.
  Qed.

  Lemma fwd_inv_pt f ab : valid_all f ab -> forall y, length y = length ab ->
    all2 Qeq (fwd_pt sqrtq f ab (inv_pt sqrtq f ab y)) y.
  Proof.
    induction 1 as [|p ab Hp Hab IH]; intros [|y0 y] L; cbn in *; try discriminate; constructor.
    - apply fwd_inv; exact Hp.
    - apply IH. congruence.
  Qed.

  Lemma fwd_pt_length f ab x : length x = length ab -> length (fwd_pt sqrtq f ab x) = length ab.
  Proof.
    revert x; induction ab as [|p ab IH]; intros [|x0 x] L; cbn in *; try discriminate; try reflexivity.
    f_equal. apply IH. congruence.
  Qed.

  Lemma inv_fwd_points f ab pts : valid_all f ab -> Forall (fun x => length x = length ab) pts ->
    all2 (all2 Qeq) (inv_points sqrtq f ab (fwd_points sqrtq f ab pts)) pts.
  Proof.
    intros V. induction 1 as [|x pts Hx Hp IH]; cbn; constructor.
    - apply inv_fwd_pt; assumption.
    - exact IH.
  Qed.

  (* moving one point: y + h (componentwise) is pulled back to inv y + h * jac *)
  Lemma inv_affine_pt f ab : valid_all f ab -> forall y h, length y = length ab -> length h = length ab ->
    all2 Qeq (inv_pt sqrtq f ab (zip2 Qplus y h))
             (zip2 Qplus (inv_pt sqrtq f ab y) (zip2 Qmult h (jac_all sqrtq f ab))).
  Proof.
    induction 1 as [|p ab Hp Hab IH]; intros [|y0 y] [|h0 h] L1 L2; cbn in *; try discriminate; constructor.
    - apply inv_affine; exact Hp.
    - apply IH; congruence.
  Qed.

  (* ---------------------------------------------------------------------------------------- chain rule *)
  (* abstract form: if f has the first-order expansion f(u+k) = f u + k f' u + k^2 R u k then y |-> f(inv y)
     has the expansion with linear coefficient f'(inv y) * jac *)
  Lemma chain_rule_abstract fam a b (F F' : Q -> Q) (R : Q -> Q -> Q) :
    Proper (Qeq ==> Qeq) F -> valid fam a b ->
    (forall u k, F (u + k) == F u + k * F' u + k * k * R u k) ->
    forall y h, F (inv fam a b (y + h)) ==
                F (inv fam a b y) + h * (F' (inv fam a b y) * jac fam a b)
                + h * h * (jac fam a b * jac fam a b * R (inv fam a b y) (h * jac fam a b)).
  Proof.
    intros PF V HT y h.
    rewrite (inv_affine fam a b y h V). rewrite HT. ring.
  Qed.
End WithSqrt.
#[export] Existing Instance inv_proper.
#[export] Existing Instance fwd_proper.

(* ------------------------------------------------------------------------------------------ polynomials *)
Fixpoint padd (p q : list Q) : list Q :=
  match p, q with
  | [], _ => q
  | _, [] => p
  | a :: p', b :: q' => (a + b) :: padd p' q'
  end.
Definition pscal (c : Q) (p : list Q) : list Q := map (Qmult c) p.
(* (u + k) * r(k) as a polynomial in k *)
Definition pmulaff (u : Q) (r : list Q) : list Q := padd (pscal u r) (0 :: r).
(* the quadratic Taylor remainder of p at u, as a polynomial in the increment k *)
Fixpoint prem (p : list Q) (u : Q) : list Q :=
  match p with
  | [] => []
  | _ :: q => padd [peval (pderiv q) u] (pmulaff u (prem q u))
  end.

Lemma peval_padd p q x : peval (padd p q) x == peval p x + peval q x.
Proof.
  revert q; induction p as [|a p IH]; intros [|b q]; cbn; try ring.
  rewrite IH. ring.
Qed.

Lemma peval_pscal c p x : peval (pscal c p) x == c * peval p x.
Proof. induction p as [|a p IH]; cbn; [ring|]. unfold pscal in IH. rewrite IH. ring. Qed.

Lemma peval_pmulaff u r k : peval (pmulaff u r) k == (u + k) * peval r k.
Proof. unfold pmulaff. rewrite peval_padd, peval_pscal. cbn. ring. Qed.

#[export] Instance peval_proper p : Proper (Qeq ==> Qeq) (peval p).
Proof. intros x y E. induction p as [|c p IH]; cbn; [reflexivity|]. rewrite IH, E. reflexivity. Qed.

Lemma pderiv_aux_step q k x : peval (pderiv_aux q (k + 1)) x == peval (pderiv_aux q k) x + peval q x.
Proof.
  revert k; induction q as [|c q IH]; intros k; cbn; [ring|].
  rewrite (IH (k + 1)). ring.
Qed.

(* product rule for p = c + x q *)
Lemma pderiv_cons c q x : peval (pderiv (c :: q)) x == peval q x + x * peval (pderiv q) x.
Proof.
  cbn. destruct q as [|c' r]; cbn; [ring|].
  assert (E : peval (pderiv_aux r (1 + 1)) x == peval (pderiv_aux r 1) x + peval r x) by apply pderiv_aux_step.
  rewrite E. ring.
Qed.

(* Taylor: p(u+k) = p(u) + k p'(u) + k^2 prem(p,u)(k) *)
Lemma peval_taylor p u k :
  peval p (u + k) == peval p u + k * peval (pderiv p) u + k * k * peval (prem p u) k.
Proof.
  induction p as [|c q IH].
  - cbn. ring.
  - rewrite (pderiv_cons c q u).
    change (peval (c :: q) (u + k)) with (c + (u + k) * peval q (u + k)).
    change (peval (c :: q) u) with (c + u * peval q u).
    change (prem (c :: q) u) with (padd [peval (pderiv q) u] (pmulaff u (prem q u))).
    rewrite peval_padd, peval_pmulaff, IH. cbn. ring.
Qed.

Section ChainPoly.
  Variable sqrtq : Q -> Q.
  Hypothesis sqrt_sq : forall b, 0 < b -> sqrtq b * sqrtq b == b.

  (* d/dy p(inv y) = p'(inv y) * jac: the polynomial h |-> p(inv (y+h)) has that linear coefficient *)
  Lemma chain_rule_poly fam a b p y : valid fam a b ->
    exists r : list Q, forall h,
      peval p (inv sqrtq fam a b (y + h)) ==
      peval p (inv sqrtq fam a b y) + h * (peval (pderiv p) (inv sqrtq fam a b y) * jac sqrtq fam a b)
      + (h * jac sqrtq fam a b) * (h * jac sqrtq fam a b) * peval r (h * jac sqrtq fam a b).
  Proof.
    intros V. exists (prem p (inv sqrtq fam a b y)). intros h.
    rewrite (inv_affine sqrtq fam a b y h V). rewrite peval_taylor. ring.
  Qed.
End ChainPoly.

(* ------------------------------------------------------------------------------------------ supports *)
Section Support.
  Variable sqrtq : Q -> Q.
  Hypothesis sqrt_sq : forall b, 0 < b -> sqrtq b * sqrtq b == b.
  Hypothesis sqrt_pos : forall b, 0 < b -> 0 < sqrtq b.

  Lemma jac_pos f a b : valid f a b -> 0 < jac sqrtq f a b.
  Proof.
    destruct f; cbn; intros H.
    - apply Qlt_shift_div_l; lra.
    - apply Qlt_shift_div_l; lra.
    - exact H.
    - apply sqrt_pos; exact H.
  Qed.

  Lemma support_scale_pos f a b : valid f a b -> 0 < support_scale sqrtq f a b.
  Proof. intros V. unfold support_scale. apply Qinv_lt_0_compat. apply jac_pos; exact V. Qed.

  (* distances to the node are multiplied by exactly support_scale: a point is farther than s * support_scale from
     the transformed node iff its pull-back is farther than s from the canonical node *)
  Lemma support_exact f a b n s y : valid f a b ->
    (s * support_scale sqrtq f a b < Qabs (y - fwd sqrtq f a b n) <-> s < Qabs (inv sqrtq f a b y - n)).
  Proof.
    intros V. pose proof (jac_pos f a b V) as JP.
    assert (JN : ~ jac sqrtq f a b == 0) by lra.
    assert (E : inv sqrtq f a b y - n == (y - fwd sqrtq f a b n) * jac sqrtq f a b).
    { rewrite <- (inv_fwd sqrtq sqrt_sq f a b n V) at 1.
      set (t := fwd sqrtq f a b n).
      assert (Y : y == t + (y - t)) by ring. rewrite Y at 1.
      rewrite (inv_affine sqrtq f a b t (y - t) V). ring. }
    rewrite E, Qabs_Qmult, (Qabs_pos (jac sqrtq f a b)) by lra.
    unfold support_scale. set (J := jac sqrtq f a b) in *. set (D := Qabs (y - fwd sqrtq f a b n)).
    split; intros H.
    - assert (X : s == s * / J * J) by (field; exact JN). rewrite X.
      apply Qmult_lt_r; assumption.
    - assert (X : s == s * / J * J) by (field; exact JN). rewrite X in H.
      apply Qmult_lt_r in H; assumption.
  Qed.

  (* the correction used by the code agrees with the Jacobian for the [-1,1] families only *)
  Lemma support_code_linear a b : a < b -> support_scale_code a b == support_scale sqrtq FLinear a b.
  Proof. intros H. unfold support_scale_code, support_scale. cbn. field. apply lt_diff_nz; exact H. Qed.
End Support.

Lemma support_code_fourier_differs : 0 < 1 /\ ~ support_scale_code 0 1 == / (1 / (1 - 0)).
Proof. split; [lra|]. unfold support_scale_code. intros E. vm_compute in E. discriminate. Qed.

(* ------------------------------------------------------------------------------------------ inside *)
Section Inside.
  Variable sqrtq : Q -> Q.
  Hypothesis sqrt_sq : forall b, 0 < b -> sqrtq b * sqrtq b == b.
  Hypothesis sqrt_pos : forall b, 0 < b -> 0 < sqrtq b.

  (* the predicate of the transformed grid is the pull-back of the canonical predicate *)
  Lemma inside1_pullback f a b y : valid f a b ->
    inside1 f true a b y = inside1 f false 0 0 (inv sqrtq f a b y).
  Proof.
    intros V. pose proof (fwd_inv sqrtq sqrt_sq f a b y V) as E. revert E.
    set (t := inv sqrtq f a b y). clearbody t. intros E.
    destruct f; cbn in *.
    - f_equal; apply Qle_bool_eq; rewrite <- E; split; intros H; nra.
    - f_equal; apply Qle_bool_eq; rewrite <- E; split; intros H; nra.
    - apply Qle_bool_eq. rewrite <- E. split; intros H.
      + assert (X : 0 <= t / b) by lra.
        assert (T : t == t / b * b) by (field; lra). rewrite T. apply Qmult_le_0_compat; lra.
      + assert (X : 0 <= t / b). { apply Qle_shift_div_l; lra. } lra.
    - reflexivity.
  Qed.

  Lemma inside_pullback f ab : valid_all f ab -> forall y, length y = length ab ->
    inside_t f ab y = inside_c f (inv_pt sqrtq f ab y).
  Proof.
    unfold inside_t, inside_c.
    induction 1 as [|p ab Hp Hab IH]; intros [|y0 y] L; cbn in *; try discriminate; try reflexivity.
    rewrite (inside1_pullback f (fst p) (snd p) y0 Hp). f_equal. apply IH. congruence.
  Qed.

  Lemma inside1_proper f tr a b y y' : y == y' -> inside1 f tr a b y = inside1 f tr a b y'.
  Proof.
    intros E.
    assert (L : forall c, Qle_bool c y = Qle_bool c y') by (intros c; apply Qle_bool_eq; rewrite E; reflexivity).
    assert (U : forall c, Qle_bool y c = Qle_bool y' c) by (intros c; apply Qle_bool_eq; rewrite E; reflexivity).
    destruct f; cbn; try reflexivity; rewrite ?L, ?U; reflexivity.
  Qed.

  (* every canonical point is mapped to an accepted point *)
  Lemma inside1_accepts f a b x : valid f a b ->
    inside1 f false 0 0 x = true -> inside1 f true a b (fwd sqrtq f a b x) = true.
  Proof.
    intros V H. rewrite (inside1_pullback f a b _ V).
    rewrite (inside1_proper f false 0 0 _ x (inv_fwd sqrtq sqrt_sq f a b x V)). exact H.
  Qed.

  Lemma inside_accepts f ab : valid_all f ab -> forall x, length x = length ab ->
    inside_c f x = true -> inside_t f ab (fwd_pt sqrtq f ab x) = true.
  Proof.
    unfold inside_t, inside_c.
    induction 1 as [|p ab Hp Hab IH]; intros [|x0 x] L; cbn in *; try discriminate; try reflexivity.
    intros H. apply andb_true_iff in H. destruct H as [H0 H1].
    rewrite (inside1_accepts f (fst p) (snd p) x0 Hp H0). cbn. apply IH; [congruence|exact H1].
  Qed.

  (* points beyond a bound are rejected *)
  Lemma inside1_rejects_below f a b y : f <> FHermite -> y < a -> inside1 f true a b y = false.
  Proof.
    intros NH H. destruct f; cbn; try congruence.
    - apply andb_false_iff; left. destruct (Qle_bool a y) eqn:E; [|reflexivity]. apply Qle_bool_iff in E. lra.
    - apply andb_false_iff; left. destruct (Qle_bool a y) eqn:E; [|reflexivity]. apply Qle_bool_iff in E. lra.
    - destruct (Qle_bool a y) eqn:E; [|reflexivity]. apply Qle_bool_iff in E. lra.
  Qed.

  Lemma inside1_rejects_above f a b y : f = FLinear \/ f = FFourier -> b < y -> inside1 f true a b y = false.
  Proof.
    intros [-> | ->] H; cbn; apply andb_false_iff; right;
      (destruct (Qle_bool y b) eqn:E; [|reflexivity]); apply Qle_bool_iff in E; lra.
  Qed.

  Lemma inside_t_rejects f ab y : length y = length ab ->
    (exists j, (nth j y 0 < fst (nth j ab (0, 0)) /\ f <> FHermite \/
                snd (nth j ab (0, 0)) < nth j y 0 /\ (f = FLinear \/ f = FFourier)) /\ (j < length ab)%nat) ->
    inside_t f ab y = false.
  Proof.
    unfold inside_t. revert y; induction ab as [|p ab IH]; intros [|y0 y] L [j [H Hj]]; cbn in *; try discriminate; try lia.
    destruct j as [|j].
    - cbn in H. destruct H as [[H NH] | [H FL]].
      + rewrite (inside1_rejects_below f (fst p) (snd p) y0 NH H). reflexivity.
      + rewrite (inside1_rejects_above f (fst p) (snd p) y0 FL H). reflexivity.
    - apply andb_false_iff; right. apply IH; [congruence|]. exists j. split; [exact H|]. lia.
  Qed.
End Inside.

(* ------------------------------------------------------------------------------------------ quadrature scale *)
Lemma qprod_fold (g : Q * Q -> Q) ab s :
  fold_left (fun s p => s * g p) ab s == s * qprod (map g ab).
Proof.
  revert s; induction ab as [|p ab IH]; intros s.
  - change (s == s * 1). ring.
  - change (fold_left (fun s p => s * g p) ab (s * g p) == s * (g p * qprod (map g ab))).
    rewrite IH. ring.
Qed.

Lemma qscale_prod powq r alpha beta ab :
  qscale powq r alpha beta ab == qprod (map (fun p => qterm powq r alpha beta (fst p) (snd p)) ab).
Proof. unfold qscale. rewrite qprod_fold. ring. Qed.

Lemma qprod_ext (g h : Q * Q -> Q) ab :
  Forall (fun p => g p == h p) ab -> qprod (map g ab) == qprod (map h ab).
Proof.
  induction 1 as [|p ab Hp _ IH]; [reflexivity|].
  change (g p * qprod (map g ab) == h p * qprod (map h ab)). rewrite Hp, IH. reflexivity.
Qed.

Section ScalePlain.
  Variable sqrtq powq : Q -> Q.
  Variable powq2 : Q -> Q -> Q.

  (* [-1,1] rules without a weight function and Fourier: the factor is the Jacobian of the forward map *)
  Lemma qterm_plain alpha beta a b : a < b ->
    qterm powq2 QPlain alpha beta a b == / jac sqrtq FLinear a b.
  Proof. intros H. cbn. field; repeat split; try (apply lt_diff_nz; exact H); lra. Qed.

  Lemma qterm_fourier alpha beta a b : a < b ->
    qterm powq2 QFourier alpha beta a b == / jac sqrtq FFourier a b.
  Proof. intros H. cbn. field; repeat split; try (apply lt_diff_nz; exact H); lra. Qed.

  Lemma qscale_plain alpha beta ab : valid_all FLinear ab ->
    qscale powq2 QPlain alpha beta ab == qprod (map (fun p => (snd p - fst p) / 2) ab) /\
    qscale powq2 QPlain alpha beta ab == qprod (map (fun p => / jac sqrtq FLinear (fst p) (snd p)) ab).
  Proof.
    intros V. rewrite qscale_prod. split.
    - reflexivity.
    - apply qprod_ext. eapply Forall_impl; [|exact V]. intros p Hp. apply qterm_plain. exact Hp.
  Qed.

  Lemma qscale_fourier alpha beta ab : valid_all FFourier ab ->
    qscale powq2 QFourier alpha beta ab == qprod (map (fun p => snd p - fst p) ab) /\
    qscale powq2 QFourier alpha beta ab == qprod (map (fun p => / jac sqrtq FFourier (fst p) (snd p)) ab).
  Proof.
    intros V. rewrite qscale_prod. split.
    - reflexivity.
    - apply qprod_ext. eapply Forall_impl; [|exact V]. intros p Hp. apply qterm_fourier. exact Hp.
  Qed.
End ScalePlain.

Section PowLaws.
  Variable sqrtq : Q -> Q.
  Variable powq : Q -> Q -> Q.
  Variable expq : Q -> Q.
  Hypothesis sqrt_sq : forall b, 0 < b -> sqrtq b * sqrtq b == b.
  Hypothesis sqrt_pos : forall b, 0 < b -> 0 < sqrtq b.
  Hypothesis pow_proper : forall x x' p p', x == x' -> p == p' -> powq x p == powq x' p'.
  Hypothesis pow_pos : forall x p, 0 < x -> 0 < powq x p.
  Hypothesis pow_one : forall x, 0 < x -> powq x 1 == x.
  Hypothesis pow_add : forall x p q, 0 < x -> powq x (p + q) == powq x p * powq x q.
  Hypothesis pow_mul : forall x y p, 0 < x -> 0 < y -> powq (x * y) p == powq x p * powq y p.
  Hypothesis pow_sqrt : forall b p, 0 < b -> powq (sqrtq b) p == powq b (p * (1 # 2)).
  Hypothesis exp_proper : forall x x', x == x' -> expq x == expq x'.

  Lemma idem_one t : 0 < t -> t == t * t -> t == 1.
  Proof.
    intros P E. assert (X : t * (t - 1) == 0) by lra.
    apply Qmult_integral in X. destruct X as [X|X]; lra.
  Qed.

  Lemma pow_zero x : 0 < x -> powq x 0 == 1.
  Proof.
    intros H. apply idem_one; [apply pow_pos; exact H|].
    rewrite <- (pow_add x 0 0 H). apply pow_proper; [reflexivity|ring].
  Qed.

  Lemma pow_base_one p : powq 1 p == 1.
  Proof.
    apply idem_one; [apply pow_pos; lra|].
    rewrite <- (pow_mul 1 1 p) by lra. apply pow_proper; [ring|reflexivity].
  Qed.

  Lemma pow_inv b p : 0 < b -> powq (/ b) p == powq b (- p).
  Proof.
    intros H. assert (IB : 0 < / b) by (apply Qinv_lt_0_compat; exact H).
    assert (E1 : powq b p * powq (/ b) p == 1).
    { rewrite <- (pow_mul b (/ b) p H IB). rewrite <- (pow_base_one p). apply pow_proper; [field; lra|reflexivity]. }
    assert (E2 : powq b p * powq b (- p) == 1).
    { rewrite <- (pow_add b p (- p) H). rewrite <- (pow_zero b H). apply pow_proper; [reflexivity|ring]. }
    pose proof (pow_pos b p H) as P.
    assert (X : powq b p * (powq (/ b) p - powq b (- p)) == 0) by lra.
    apply Qmult_integral in X. destruct X as [X|X]; lra.
  Qed.

  Lemma inv_as_pow b : 0 < b -> / b == powq b (- (1)).
  Proof.
    intros H. rewrite <- (pow_inv b 1 H). symmetry. apply pow_one. apply Qinv_lt_0_compat; exact H.
  Qed.

  (* Jacobi-type rules: transformed weight x Jacobian = scale factor x canonical weight at every canonical point *)
  Lemma weight_jacobi r alpha beta a b x :
    r = QCheb1 \/ r = QCheb2 \/ r = QGegenbauer \/ r = QJacobi ->
    a < b -> - (1) < x -> x < 1 ->
    weight_tr powq expq r alpha beta a b (fwd sqrtq FLinear a b x) * / jac sqrtq FLinear a b ==
    qterm powq r alpha beta a b * weight_can powq expq r alpha beta x.
  Proof.
    intros Hr Hab Hx1 Hx2.
    set (A := eff_alpha r alpha). set (B := eff_beta r alpha beta).
    set (R := (1 # 2) * (b - a)).
    assert (RP : 0 < R) by (unfold R; lra).
    assert (Wt : weight_tr powq expq r alpha beta a b (fwd sqrtq FLinear a b x) ==
                 powq (b - fwd sqrtq FLinear a b x) A * powq (fwd sqrtq FLinear a b x - a) B).
    { destruct Hr as [-> | [-> | [-> | ->]]]; reflexivity. }
    assert (Wc : weight_can powq expq r alpha beta x == powq (1 - x) A * powq (1 + x) B).
    { destruct Hr as [-> | [-> | [-> | ->]]]; reflexivity. }
    assert (Qt : qterm powq r alpha beta a b == powq R (A + B + 1)).
    { destruct Hr as [-> | [-> | [-> | ->]]]; reflexivity. }
    rewrite Wt, Wc, Qt.
    assert (E1 : powq (b - fwd sqrtq FLinear a b x) A == powq R A * powq (1 - x) A).
    { rewrite <- (pow_mul R (1 - x) A RP) by lra. apply pow_proper; [unfold R; cbn; ring|reflexivity]. }
    assert (E2 : powq (fwd sqrtq FLinear a b x - a) B == powq R B * powq (1 + x) B).
    { rewrite <- (pow_mul R (1 + x) B RP) by lra. apply pow_proper; [unfold R; cbn; ring|reflexivity]. }
    assert (E3 : / jac sqrtq FLinear a b == R).
    { unfold R; cbn. field; repeat split; try (apply lt_diff_nz; exact Hab); lra. }
    rewrite E1, E2, E3, (pow_add R (A + B) 1 RP), (pow_add R A B RP), (pow_one R RP). ring.
  Qed.

  Lemma weight_laguerre alpha beta a b x : 0 < b -> 0 < x ->
    weight_tr powq expq QLaguerre alpha beta a b (fwd sqrtq FLaguerre a b x) * / jac sqrtq FLaguerre a b ==
    qterm powq QLaguerre alpha beta a b * weight_can powq expq QLaguerre alpha beta x.
  Proof.
    intros Hb Hx. cbn.
    assert (IB : 0 < / b) by (apply Qinv_lt_0_compat; exact Hb).
    assert (E1 : powq (x / b + a - a) alpha == powq x alpha * powq b (- alpha)).
    { rewrite <- (pow_inv b alpha Hb). rewrite <- (pow_mul x (/ b) alpha Hx IB).
      apply pow_proper; [field; lra|reflexivity]. }
    assert (E2 : expq (- (b * (x / b + a - a))) == expq (- x)) by (apply exp_proper; field; lra).
    assert (E3 : powq b (- (1 + alpha)) == powq b (- alpha) * / b).
    { rewrite (inv_as_pow b Hb). rewrite <- (pow_add b (- alpha) (- (1)) Hb). apply pow_proper; [reflexivity|ring]. }
    rewrite E1, E2, E3. ring.
  Qed.

  Lemma weight_hermite alpha beta a b x : 0 < b -> ~ x == 0 ->
    weight_tr powq expq QHermite alpha beta a b (fwd sqrtq FHermite a b x) * / jac sqrtq FHermite a b ==
    qterm powq QHermite alpha beta a b * weight_can powq expq QHermite alpha beta x.
  Proof.
    intros Hb Hx. cbn.
    pose proof (sqrt_pos b Hb) as SP. pose proof (sqrt_sq b Hb) as SS. set (s := sqrtq b) in *.
    assert (IS : 0 < / s) by (apply Qinv_lt_0_compat; exact SP).
    assert (AX : 0 < Qabs x).
    { destruct (Qlt_le_dec 0 x) as [L|L].
      - rewrite Qabs_pos; lra.
      - rewrite Qabs_neg by exact L.
        destruct (Qlt_le_dec x 0) as [L2|L2]; [lra|]. exfalso. apply Hx. lra. }
    assert (E0 : Qabs (x / s + a - a) == Qabs x * / s).
    { assert (T : x / s + a - a == x * / s) by (field; lra). rewrite T, Qabs_Qmult, (Qabs_pos (/ s)) by lra. reflexivity. }
    assert (E1 : powq (Qabs (x / s + a - a)) alpha == powq (Qabs x) alpha * powq b (- alpha * (1 # 2))).
    { rewrite <- (pow_sqrt b (- alpha) Hb). fold s. rewrite <- (pow_inv s alpha SP).
      rewrite <- (pow_mul (Qabs x) (/ s) alpha AX IS). apply pow_proper; [exact E0|reflexivity]. }
    assert (E2 : expq (- (b * ((x / s + a - a) * (x / s + a - a)))) == expq (- (x * x))).
    { apply exp_proper. rewrite <- SS. field. lra. }
    assert (E3 : / s == powq b (- (1) * (1 # 2))).
    { rewrite <- (pow_sqrt b (- (1)) Hb). fold s. apply inv_as_pow. exact SP. }
    assert (E4 : powq b (- (1 # 2) * (1 + alpha)) == powq b (- alpha * (1 # 2)) * powq b (- (1) * (1 # 2))).
    { rewrite <- (pow_add b _ _ Hb). apply pow_proper; [reflexivity|ring]. }
    rewrite E1, E2, E4, <- E3. ring.
  Qed.

  (* the factor of one dimension = Jacobian of the forward map x the rescaling of the weight function *)
  Definition wfactor (r : qrule) (alpha beta a b : Q) : Q :=
    match r with
    | QPlain | QFourier => 1
    | QLaguerre => powq b (- alpha)
    | QHermite => powq b (- alpha * (1 # 2))
    | _ => powq ((1 # 2) * (b - a)) (eff_alpha r alpha + eff_beta r alpha beta)
    end.

  Lemma qterm_factor r alpha beta a b : valid (family_of r) a b ->
    qterm powq r alpha beta a b == / jac sqrtq (family_of r) a b * wfactor r alpha beta a b.
  Proof.
    intros V.
    assert (JT : forall A, a < b -> powq ((1 # 2) * (b - a)) (A + 1) == / (2 / (b - a)) * powq ((1 # 2) * (b - a)) A).
    { intros A H. assert (RP : 0 < (1 # 2) * (b - a)) by lra.
      rewrite (pow_add _ A 1 RP), (pow_one _ RP). field; repeat split; try (apply lt_diff_nz; exact H); lra. }
    destruct r; cbn in *.
    - field; repeat split; try (apply lt_diff_nz; exact V); lra.
    - field; repeat split; try (apply lt_diff_nz; exact V); lra.
    - apply JT; exact V.
    - apply JT; exact V.
    - apply JT; exact V.
    - apply JT; exact V.
    - rewrite (inv_as_pow b V). rewrite <- (pow_add b _ _ V). apply pow_proper; [reflexivity|ring].
    - pose proof (sqrt_pos b V) as SP.
      rewrite (inv_as_pow (sqrtq b) SP), (pow_sqrt b _ V). rewrite <- (pow_add b _ _ V).
      apply pow_proper; [reflexivity|ring].
  Qed.

  Lemma qscale_factor r alpha beta ab : valid_all (family_of r) ab ->
    qscale powq r alpha beta ab ==
    qprod (map (fun p => / jac sqrtq (family_of r) (fst p) (snd p) * wfactor r alpha beta (fst p) (snd p)) ab).
  Proof.
    intros V. rewrite qscale_prod. apply qprod_ext.
    eapply Forall_impl; [|exact V]. intros p Hp. apply qterm_factor. exact Hp.
  Qed.

  (* exponent 1 (e.g. Jacobi with alpha = beta = 0, Laguerre/Hermite with alpha = 0) reduces to the plain factors *)
  Lemma qterm_jacobi_legendre a b : a < b -> qterm powq QJacobi 0 0 a b == (b - a) / 2.
  Proof.
    intros H. cbn. assert (RP : 0 < (1 # 2) * (b - a)) by lra.
    assert (E : powq ((1 # 2) * (b - a)) (0 + 0 + 1) == powq ((1 # 2) * (b - a)) 1) by (apply pow_proper; [reflexivity|ring]).
    rewrite E, (pow_one _ RP). field.
  Qed.
End PowLaws.

(* ------------------------------------------------------------------------------------------ packaged statements *)
Lemma inverse_both (sqrtq : Q -> Q) : (forall b, 0 < b -> sqrtq b * sqrtq b == b) ->
  forall f a b t, valid f a b ->
    inv sqrtq f a b (fwd sqrtq f a b t) == t /\ fwd sqrtq f a b (inv sqrtq f a b t) == t.
Proof. intros H f a b t V. split; [exact (inv_fwd sqrtq H f a b t V) | exact (fwd_inv sqrtq H f a b t V)]. Qed.

Lemma inverse_points_both (sqrtq : Q -> Q) : (forall b, 0 < b -> sqrtq b * sqrtq b == b) ->
  forall f ab, valid_all f ab -> forall x, length x = length ab ->
    all2 Qeq (inv_pt sqrtq f ab (fwd_pt sqrtq f ab x)) x /\ all2 Qeq (fwd_pt sqrtq f ab (inv_pt sqrtq f ab x)) x.
Proof. intros H f ab V x L. split; [exact (inv_fwd_pt sqrtq H f ab V x L) | exact (fwd_inv_pt sqrtq H f ab V x L)]. Qed.

Lemma jacobian_both (sqrtq : Q -> Q) : (forall b, 0 < b -> sqrtq b * sqrtq b == b) ->
  forall f a b y h, valid f a b ->
    inv sqrtq f a b (y + h) == inv sqrtq f a b y + h * jac sqrtq f a b /\
    fwd sqrtq f a b (y + h) == fwd sqrtq f a b y + h / jac sqrtq f a b.
Proof. intros H f a b y h V. split; [exact (inv_affine sqrtq f a b y h V) | exact (fwd_affine sqrtq H f a b y h V)]. Qed.

Lemma chain_rule_abstract' (sqrtq : Q -> Q) f a b (F F' : Q -> Q) (R : Q -> Q -> Q) :
  (forall u v, u == v -> F u == F v) -> valid f a b ->
  (forall u k, F (u + k) == F u + k * F' u + k * k * R u k) ->
  forall y h, F (inv sqrtq f a b (y + h)) ==
              F (inv sqrtq f a b y) + h * (F' (inv sqrtq f a b y) * jac sqrtq f a b)
              + h * h * (jac sqrtq f a b * jac sqrtq f a b * R (inv sqrtq f a b y) (h * jac sqrtq f a b)).
Proof. intros PF. apply chain_rule_abstract. intros u v E. apply PF; exact E. Qed.

Lemma support_code_refuted (sqrtq : Q -> Q) :
  exists f a b, valid f a b /\ ~ support_scale_code a b == support_scale sqrtq f a b.
Proof.
  exists FFourier, 0, 1. destruct support_code_fourier_differs as [V N]. split; [exact V | exact N].
Qed.

Lemma qscale_linear_both (sqrtq : Q -> Q) (powq : Q -> Q -> Q) alpha beta ab :
  (valid_all FLinear ab ->
     qscale powq QPlain alpha beta ab == qprod (map (fun p => (snd p - fst p) / 2) ab) /\
     qscale powq QPlain alpha beta ab == qprod (map (fun p => / jac sqrtq FLinear (fst p) (snd p)) ab)) /\
  (valid_all FFourier ab ->
     qscale powq QFourier alpha beta ab == qprod (map (fun p => snd p - fst p) ab) /\
     qscale powq QFourier alpha beta ab == qprod (map (fun p => / jac sqrtq FFourier (fst p) (snd p)) ab)).
Proof.
  split; [exact (qscale_plain sqrtq powq alpha beta ab) | exact (qscale_fourier sqrtq powq alpha beta ab)].
Qed.
