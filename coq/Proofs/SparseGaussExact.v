(* Sparse (combination-technique) quadrature built from GAUSS one-dimensional rules is exact on the polynomial space declared
   with the quadrature exactness m(l) = 2 n(l) - 1: `comb_exact` (CombinationProofs.v) over Qc where the one-dimensional
   premise is discharged by `gauss_quad_exact_monomial` (GaussQuadExact.v) under the orthogonality hypothesis per level and
   dimension: the node polynomial of the n(l) nodes of level l is orthogonal, under the moment functional of dimension j,
   to 1, t, ..., t^(n(l)-1).  No axioms.  (Rational nodes: see the remark in GaussQuadExact.v.)                              *)
From TV Require Import Common.Prelude Proofs.CombinationProofs Proofs.LagrangeExact Proofs.InterpQuadExact
                       Proofs.SparseInterpExact Proofs.SparseQuadExact Proofs.GaussQuadExact.
From Coq Require Import QArith Qcanon Ring.
Local Open Scope nat_scope.

Section SparseGauss.
  Variable nodes : nat -> nat -> list Qc.
  (* n l : the number of nodes of level l, the same in every dimension, at least one *)
  Variable n : nat -> nat.
  Hypothesis nodes_nodup : forall j l, NoDup (nodes j l).
  Hypothesis nodes_len : forall j l, length (nodes j l) = n l.
  Hypothesis n_pos : forall l, 1 <= n l.
  Hypothesis n_mono : forall l, n l <= n (S l).
  Variable mu : nat -> nat -> Qc.
  (* Gauss nodes: the node polynomial is orthogonal to all lower degrees *)
  Hypothesis nodes_orth : forall j l k, k < length (nodes j l) -> L (mu j) (pmul (pmono k) (omega (nodes j l))) = Q2Qc 0.

  (* degree of exactness of level l *)
  Definition gauss_m (l : nat) : nat := 2 * n l - 1.

  Lemma gauss_m_mono : forall l, gauss_m l <= gauss_m (S l).
  Proof. intros l. unfold gauss_m. pose proof (n_mono l). lia. Qed.

  Lemma gauss_exact1d : forall j l k, k <= gauss_m l -> quad_u nodes mu j l k = quad_I mu j k.
  Proof.
    intros j l k Hk. unfold quad_u, quad_I, gauss_m in *.
    apply (gauss_quad_exact_monomial (mu j) (nodes j l) (nodes_nodup j l) (nodes_orth j l) k).
    rewrite nodes_len. pose proof (n_pos l). lia.
  Qed.

  Theorem sparse_gauss_quadrature_exact : forall d Theta, NoDup Theta -> (forall t, In t Theta -> length t = d) -> lower Theta ->
    forall k s, In s Theta -> length k = d -> Forall2 (fun kj sj => kj <= 2 * n sj - 1) k s ->
      sumf Qc (Q2Qc 0) Qcplus Theta (fun t => dprod Qc (Q2Qc 1) Qcmult Qcminus (quad_u nodes mu) 0 t k)
      = iprod Qc (Q2Qc 1) Qcmult (quad_I mu) 0 k.
  Proof.
    intros d Theta ND Hlen Hlow.
    exact (comb_exact Qc (Q2Qc 0) (Q2Qc 1) Qcplus Qcmult Qcminus Qcopp Qcrt (quad_u nodes mu) (quad_I mu) gauss_m gauss_m_mono
                      gauss_exact1d d Theta ND Hlen Hlow).
  Qed.
End SparseGauss.

(* ---------- non-vacuity ---------- *)
(* the discrete positive measure with atoms -1, -1/2, 0, 1/2, 1 and masses 5, 28, 30, 28, 5:
   moments mu0 = 96, mu2 = 24, mu4 = 27/2, odd moments 0; its Gauss nodes are RATIONAL for n = 1, 2, 3:
   n = 1: 0;  n = 2: -1/2, 1/2 (omega = t^2 - 1/4);  n = 3: -3/4, 0, 3/4 (omega = t^3 - 9/16 t) *)
Definition disc5_mu (k : nat) : Qc :=
  (qc 5 1 * (qc (-1) 1) ^ k + qc 28 1 * (qc (-1) 2) ^ k + qc 30 1 * (qc 0 1) ^ k + qc 28 1 * (qc 1 2) ^ k + qc 5 1 * (qc 1 1) ^ k)%Qc.

Definition gex_nodes (j l : nat) : list Qc :=
  match l with
  | 0 => [qc 0 1]
  | 1 => [qc (-1) 2; qc 1 2]
  | _ => [qc (-3) 4; qc 0 1; qc 3 4]
  end.
Definition gex_n (l : nat) : nat := match l with 0 => 1 | 1 => 2 | _ => 3 end.
Definition gex_mu (j k : nat) : Qc := disc5_mu k.

Lemma gex_nodes_nodup : forall j l, NoDup (gex_nodes j l).
Proof. intros j [|[|l]]; cbn [gex_nodes]; qc_nodup. Qed.
Lemma gex_nodes_len : forall j l, length (gex_nodes j l) = gex_n l.
Proof. intros j [|[|l]]; reflexivity. Qed.
Lemma gex_n_pos : forall l, 1 <= gex_n l.
Proof. intros [|[|l]]; cbn; lia. Qed.
Lemma gex_n_mono : forall l, gex_n l <= gex_n (S l).
Proof. intros [|[|l]]; cbn; lia. Qed.
Lemma gex_nodes_orth : forall j l k, k < length (gex_nodes j l) ->
  L (gex_mu j) (pmul (pmono k) (omega (gex_nodes j l))) = Q2Qc 0.
Proof.
  intros j [|[|l]] k Hk; cbn [gex_nodes length] in Hk;
    repeat (destruct k as [|k]; [apply Qc_is_canon; vm_compute; reflexivity|]); lia.
Qed.

(* x^3 y (degree (3,1), covered by the level (1,0): 3 <= 2*2-1 and 1 <= 2*1-1; an interpolatory 2-point rule would
   only reach degree 1) - by the theorem *)
Example sparse_gauss_by_theorem :
  sumf Qc (Q2Qc 0) Qcplus ex_Theta (fun t => dprod Qc (Q2Qc 1) Qcmult Qcminus (quad_u gex_nodes gex_mu) 0 t [3;1])
  = iprod Qc (Q2Qc 1) Qcmult (quad_I gex_mu) 0 [3;1].
Proof.
  apply (sparse_gauss_quadrature_exact gex_nodes gex_n gex_nodes_nodup gex_nodes_len gex_n_pos gex_n_mono gex_mu gex_nodes_orth
           2 ex_Theta ex_Theta_nodup ex_Theta_len ex_Theta_lower [3;1] [1;0]).
  - right; left; reflexivity.
  - reflexivity.
  - repeat constructor.
Qed.

(* x^2 (covered by the level (1,0)), by computation: mu2 * mu0 = 24 * 96 *)
Example sparse_gauss_x2 :
  sumf Qc (Q2Qc 0) Qcplus ex_Theta (fun t => dprod Qc (Q2Qc 1) Qcmult Qcminus (quad_u gex_nodes gex_mu) 0 t [2;0]) = qc 2304 1.
Proof. apply Qc_is_canon. vm_compute. reflexivity. Qed.

(* outside the declared space: x^2 y^2 needs the level (1,1), which is not in Theta *)
Example sparse_gauss_outside_space :
  sumf Qc (Q2Qc 0) Qcplus ex_Theta (fun t => dprod Qc (Q2Qc 1) Qcmult Qcminus (quad_u gex_nodes gex_mu) 0 t [2;2])
  <> iprod Qc (Q2Qc 1) Qcmult (quad_I gex_mu) 0 [2;2].
Proof. qc_neq. Qed.

Print Assumptions sparse_gauss_quadrature_exact.
Print Assumptions sparse_gauss_by_theorem.
