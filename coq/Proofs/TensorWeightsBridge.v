(* Bridge between the tensor WEIGHTS (Model/TensorWeights.v: what MultiIndexManipulations::computeTensorWeights returns and what
   GridGlobal::evaluate / getInterpolationWeights / getQuadratureWeights multiply the tensor rules with) and the DIFFERENCE form the
   exactness / interpolation theorems are stated in (Proofs/CombinationProofs.v `comb_exact`, Proofs/GlobalNestedInterp.v `Aop`).

   (B) over any commutative ring R: for one-dimensional families fs = [f_0; ...; f_{d-1}] (f_j l = value of the one-dimensional operator of
       dimension j and level l), every duplicate-free lower set Theta of `list nat` level vectors of length d,
            sum_{t in Theta} inj (incl_excl (Theta as Z) (t as Z)) * prod_j f_j (t_j)  =  sum_{t in Theta} prod_j (f_j (t_j) - f_j (t_j - 1)).
       Route: summation by parts direction by direction (the R-valued version of TensorWeightsProofs.parts_step), with the set given only as
       duplicate free (not sorted), and the product structure  back_diff_k (prod with the first k factors differenced) = the next one.
   (C) R = Qc, f_j l = ell l p_j x_j  pointwise in the point index p, padded to a common point range.
   (A) tw_cpp = tw_lines: only the case D = 1 and a computational cross-check are given here (see the end of the file).
   No axioms. *)
From TV Require Import Common.Prelude Model.IndexSets Model.TensorWeights.
From TV Require Import Proofs.IndexSetsProofs Proofs.CombinationProofs Proofs.TensorSelectProofs Proofs.TensorWeightsProofs.
From Coq Require Import Ring InitialRing Permutation.

(* ================================================================ list nat <-> list Z index sets *)
Definition zi (t : list nat) : idx := map Z.of_nat t.
Definition zn (t : idx) : list nat := map Z.to_nat t.

Lemma zn_zi t : zn (zi t) = t.
Proof. unfold zn, zi. rewrite map_map. induction t as [|a t IH]; cbn; [reflexivity|]. rewrite Nat2Z.id, IH. reflexivity. Qed.

Lemma zi_zn t : nonneg t -> zi (zn t) = t.
Proof. unfold zn, zi. induction 1 as [|a t Ha Ht IH]; cbn; [reflexivity|]. rewrite Z2Nat.id by exact Ha. rewrite IH. reflexivity. Qed.

Lemma zi_inj a b : zi a = zi b -> a = b.
Proof. intros H. rewrite <- (zn_zi a), <- (zn_zi b), H. reflexivity. Qed.

Lemma zi_nonneg t : nonneg (zi t).
Proof. unfold nonneg, zi. induction t as [|a t IH]; cbn; constructor; [lia|exact IH]. Qed.

Lemma zi_length t : length (zi t) = length t.
Proof. unfold zi. apply map_length. Qed.

Lemma le_idx_le_all : forall t s, le_idx s (zi t) -> le_all (zn s) t = true.
Proof.
  induction t as [|b t IH]; intros s H; unfold zi in H; cbn in H; inversion H as [|a b' s' t' Hab Hrest]; subst; cbn.
  - reflexivity.
  - apply andb_true_iff. split; [apply Nat.leb_le; lia|apply IH; exact Hrest].
Qed.

Lemma le_all_le_idx : forall s t, le_all s t = true -> le_idx (zi s) (zi t).
Proof.
  induction s as [|a s IH]; intros [|b t] H; cbn in H; try discriminate; unfold zi; cbn; constructor.
  - apply andb_true_iff in H. destruct H as [H _]. apply Nat.leb_le in H. lia.
  - apply IH. apply andb_true_iff in H. tauto.
Qed.

(* the conversion lemma: a duplicate-free lower set of `list nat` vectors of length d is, read in Z, a duplicate-free lower set of
   non-negative vectors of length d in the sense of TensorWeights / TensorSelectProofs, and conversely *)
Lemma lowerZ_zi Theta : lower Theta -> lowerZ (map zi Theta).
Proof.
  intros HL t s Ht Hle. apply in_map_iff in Ht. destruct Ht as [t0 [<- Ht0]].
  destruct (le_idx_nonneg _ _ Hle) as [Hs _]. rewrite <- (zi_zn s Hs). apply in_map. apply (HL t0 (zn s) Ht0).
  - pose proof (le_idx_length _ _ Hle) as HLn. rewrite zi_length in HLn. unfold zn. rewrite map_length. exact HLn.
  - apply le_idx_le_all. exact Hle.
Qed.

Lemma lower_of_lowerZ Theta : lowerZ (map zi Theta) -> lower Theta.
Proof.
  intros HL t s Ht _ Hle. assert (H : In (zi s) (map zi Theta)).
  { apply (HL (zi t)); [apply in_map; exact Ht|apply le_all_le_idx; exact Hle]. }
  apply in_map_iff in H. destruct H as [s' [E Hs']]. apply zi_inj in E. subst. exact Hs'.
Qed.

Lemma NoDup_zi Theta : NoDup Theta -> NoDup (map zi Theta).
Proof. apply FinFun.Injective_map_NoDup. intros a b. apply zi_inj. Qed.

Lemma wf_zi d Theta : (forall t, In t Theta -> length t = d) -> wf d (map zi Theta).
Proof.
  intros H. unfold wf. apply Forall_forall. intros t Ht. apply in_map_iff in Ht. destruct Ht as [t0 [<- Ht0]].
  rewrite zi_length. apply H. exact Ht0.
Qed.

Lemma nonneg_zi_set Theta : forall t, In t (map zi Theta) -> nonneg t.
Proof. intros t Ht. apply in_map_iff in Ht. destruct Ht as [t0 [<- _]]. apply zi_nonneg. Qed.

(* the weight of the level vector t of the `list nat` set Theta: the inclusion-exclusion value of the Z model
   (= the entry of tw_lines at t on sorted lower sets, c02w_weights_inclusion_exclusion) *)
Definition wN (Theta : list (list nat)) (t : list nat) : Z := incl_excl (map zi Theta) (zi t).

(* ================================================================ (B) a commutative ring *)
Section BridgeR.
  Variable R : Type.
  Variables (rO rI : R) (radd rmul rsub : R -> R -> R) (ropp : R -> R).
  Hypothesis Rth : ring_theory rO rI radd rmul rsub ropp eq.
  Add Ring RringBr : Rth.
  Infix "+" := radd. Infix "*" := rmul. Infix "-" := rsub.
  Notation sm := (sumf R rO radd).

  (* the canonical image of an integer in R *)
  Definition inj (z : Z) : R := gen_phiZ rO rI radd rmul ropp z.

  Lemma inj_morph : ring_morph rO rI radd rmul rsub ropp eq 0%Z 1%Z Z.add Z.mul Z.sub Z.opp Zeq_bool inj.
  Proof. exact (gen_phiZ_morph (Eqsth R) (Eq_ext radd rmul ropp) Rth). Qed.
  Lemma inj_0 : inj 0%Z = rO.  Proof. exact (morph0 inj_morph). Qed.
  Lemma inj_1 : inj 1%Z = rI.  Proof. exact (morph1 inj_morph). Qed.
  Lemma inj_sub a b : inj (a - b)%Z = inj a - inj b.  Proof. exact (morph_sub inj_morph a b). Qed.

  Lemma sm_ext {A} (l : list A) f g : (forall x, In x l -> f x = g x) -> sm l f = sm l g.
  Proof. exact (sumf_ext R rO radd l f g). Qed.
  Lemma sm_zero {A} (l : list A) f : (forall x, In x l -> f x = rO) -> sm l f = rO.
  Proof. exact (sumf_zero R rO rI radd rmul rsub ropp Rth l f). Qed.
  Lemma sm_map {A B} (l : list A) (g : A -> B) f : sm (map g l) f = sm l (fun x => f (g x)).
  Proof. exact (sumf_map R rO radd l g f). Qed.
  Lemma sm_perm {A} (l1 l2 : list A) f : Permutation l1 l2 -> sm l1 f = sm l2 f.
  Proof. exact (sumf_perm R rO rI radd rmul rsub ropp Rth l1 l2 f). Qed.
  Lemma sm_filter_split {A} (l : list A) (p : A -> bool) f : sm l f = sm (filter p l) f + sm (filter (fun x => negb (p x)) l) f.
  Proof. exact (sumf_filter_split R rO rI radd rmul rsub ropp Rth l p f). Qed.
  Lemma sm_sub {A} (l : list A) f g : sm l f - sm l g = sm l (fun x => f x - g x).
  Proof. induction l as [|a l IH]; cbn [sumf]; [ring|]. rewrite <- IH. ring. Qed.

  (* backward difference in direction k of an R-valued family *)
  Definition bdR (k : nat) (V : idx -> R) (t : idx) : R := V t - (if (nth k t 0 =? 0)%Z then rO else V (unbump k t)).

  (* one-dimensional differences and tensor products of families *)
  Definition dlt (f : nat -> R) (l : nat) : R := match l with O => f O | S l' => f l - f l' end.
  Fixpoint prodU (fs : list (nat -> R)) (t : list nat) : R :=
    match fs, t with f :: fs', l :: t' => f l * prodU fs' t' | _, _ => rI end.
  Fixpoint prodD (fs : list (nat -> R)) (t : list nat) : R :=
    match fs, t with f :: fs', l :: t' => dlt f l * prodD fs' t' | _, _ => rI end.
  (* the first k factors differenced, the others plain; on Z indexes *)
  Fixpoint MZ (k : nat) (fs : list (nat -> R)) (t : idx) : R :=
    match fs, t with
    | f :: fs', x :: t' => (match k with O => f (Z.to_nat x) | S _ => dlt f (Z.to_nat x) end) * MZ (pred k) fs' t'
    | _, _ => rI
    end.

  Lemma MZ_0 : forall fs t, MZ 0 fs (zi t) = prodU fs t.
  Proof. induction fs as [|f fs IH]; intros [|l t]; cbn; try reflexivity. rewrite Nat2Z.id. fold (zi t). rewrite IH. reflexivity. Qed.

  Lemma MZ_all : forall fs t k, (length t <= k)%nat -> MZ k fs (zi t) = prodD fs t.
  Proof.
    induction fs as [|f fs IH]; intros [|l t] k Hk; cbn; try reflexivity. cbn in Hk. destruct k as [|k]; [lia|].
    rewrite Nat2Z.id. fold (zi t). cbn [pred]. rewrite IH by lia. reflexivity.
  Qed.

  Lemma MZ_step : forall k fs t, nonneg t -> (k < length t)%nat -> length fs = length t -> bdR k (MZ k fs) t = MZ (S k) fs t.
  Proof.
    induction k as [|k IH]; intros [|f fs] [|x t] Hn Hk Hl; cbn in Hk, Hl; try lia; inversion Hn as [|? ? Hx Hn']; subst.
    - unfold bdR. cbn [nth unbump MZ pred]. destruct (x =? 0)%Z eqn:E.
      + apply Z.eqb_eq in E. subst x. cbn. ring.
      + apply Z.eqb_neq in E. replace (Z.to_nat x) with (S (Z.to_nat (x - 1))) by lia. cbn [dlt]. ring.
    - assert (IH' := IH fs t Hn' ltac:(lia) ltac:(lia)). unfold bdR in *. cbn [nth unbump MZ pred].
      change (MZ (S (S k)) (f :: fs) (x :: t)) with (dlt f (Z.to_nat x) * MZ (S k) fs t).
      rewrite <- IH'. destruct (nth k t 0 =? 0)%Z; ring.
  Qed.

  Section Parts.
    Variable D : nat.
    Variable Theta : list idx.
    Hypothesis Hnd : NoDup Theta.
    Hypothesis Hwf : wf D Theta.
    Hypothesis Hnonneg : forall t, In t Theta -> nonneg t.
    Hypothesis Hlower : lowerZ Theta.

    Lemma nth_nonneg k t : In t Theta -> (k < D)%nat -> (0 <= nth k t 0)%Z.
    Proof.
      intros Ht Hk. pose proof (Hnonneg t Ht) as Hn. unfold nonneg in Hn. rewrite Forall_forall in Hn.
      apply Hn. apply nth_In. rewrite (Theta_len D Theta Hwf t Ht). exact Hk.
    Qed.

    (* TensorWeightsProofs.shift_perm_all with the set only duplicate free *)
    Lemma shift_perm_nd k : (k < D)%nat ->
      Permutation (map (bump k) (filter (fun t => inb Theta (bump k t)) Theta)) (filter (fun s => negb (nth k s 0 =? 0)%Z) Theta).
    Proof.
      intros Hk. apply NoDup_Permutation.
      - apply FinFun.Injective_map_NoDup; [intros a b; apply bump_inj|]. apply NoDup_filter. exact Hnd.
      - apply NoDup_filter. exact Hnd.
      - intros s. rewrite in_map_iff. rewrite filter_In. split.
        + intros [t [<- Ht]]. apply filter_In in Ht. destruct Ht as [Ht Hb]. apply inb_true in Hb.
          split; [exact Hb|]. rewrite nth_bump by (rewrite (Theta_len D Theta Hwf t Ht); exact Hk).
          pose proof (nth_nonneg k t Ht Hk). apply negb_true_iff. apply Z.eqb_neq. lia.
        + intros [Hs Hq]. exists (unbump k s).
          assert (Hu : In (unbump k s) Theta).
          { apply (Hlower s _ Hs). apply le_unbump; [apply Hnonneg; exact Hs|].
            pose proof (nth_nonneg k s Hs Hk). apply negb_true_iff in Hq. apply Z.eqb_neq in Hq. lia. }
          split; [apply bump_unbump|]. apply filter_In. split; [exact Hu|]. rewrite bump_unbump. apply inb_true. exact Hs.
    Qed.

    (* summation by parts in direction k, R-valued *)
    Lemma parts_step_R k (G V : idx -> R) : (k < D)%nat -> (forall u, nonneg u -> ~ In u Theta -> G u = rO) ->
      sm Theta (fun t => (G t - G (bump k t)) * V t) = sm Theta (fun t => G t * bdR k V t).
    Proof.
      intros Hk Hz.
      assert (E1 : sm Theta (fun t => (G t - G (bump k t)) * V t)
                   = sm Theta (fun t => G t * V t) - sm Theta (fun t => G (bump k t) * V t)).
      { rewrite sm_sub. apply sm_ext. intros t _. ring. }
      assert (E2 : sm Theta (fun t => G t * bdR k V t)
                   = sm Theta (fun t => G t * V t) - sm Theta (fun t => G t * (if (nth k t 0 =? 0)%Z then rO else V (unbump k t)))).
      { rewrite sm_sub. apply sm_ext. intros t _. unfold bdR. ring. }
      rewrite E1, E2. f_equal.
      rewrite (sm_filter_split Theta (fun t => inb Theta (bump k t)) (fun t => G (bump k t) * V t)).
      rewrite (sm_zero (filter (fun x => negb (inb Theta (bump k x))) Theta)).
      2:{ intros t Ht. apply filter_In in Ht. destruct Ht as [Ht Hb].
          rewrite Hz; [ring|apply nonneg_bump; apply Hnonneg; exact Ht|].
          intro Hin. apply inb_true in Hin. rewrite Hin in Hb. discriminate. }
      rewrite (sm_filter_split Theta (fun t => negb (nth k t 0 =? 0)%Z) (fun t => G t * (if (nth k t 0 =? 0)%Z then rO else V (unbump k t)))).
      rewrite (sm_zero (filter (fun x => negb (negb (nth k x 0 =? 0)%Z)) Theta)).
      2:{ intros t Ht. apply filter_In in Ht. destruct Ht as [_ Hb]. destruct (nth k t 0 =? 0)%Z; [ring|discriminate]. }
      f_equal.
      rewrite <- (sm_perm _ _ _ (shift_perm_nd k Hk)). rewrite sm_map. apply sm_ext. intros t Ht.
      apply filter_In in Ht. destruct Ht as [Ht Hb].
      rewrite unbump_bump. rewrite nth_bump by (rewrite (Theta_len D Theta Hwf t Ht); exact Hk).
      pose proof (nth_nonneg k t Ht Hk).
      assert ((nth k t 0 + 1 =? 0)%Z = false) as -> by (apply Z.eqb_neq; lia). reflexivity.
    Qed.

    Variable fs : list (nat -> R).
    Hypothesis Hfs : length fs = D.

    Lemma parts_R : forall n k, (k + n = D)%nat ->
      sm Theta (fun t => inj (iter_diff (chi Theta) (seq k n) t) * MZ k fs t) = sm Theta (fun t => MZ D fs t).
    Proof.
      induction n as [|n IH]; intros k Hkn.
      - cbn [seq iter_diff]. assert (k = D) by lia. subst k. apply sm_ext. intros t Ht. rewrite (chi_in _ _ Ht), inj_1. ring.
      - cbn [seq iter_diff]. rewrite <- (IH (S k)) by lia.
        rewrite (sm_ext Theta _ (fun t => (inj (iter_diff (chi Theta) (seq (S k) n) t) - inj (iter_diff (chi Theta) (seq (S k) n) (bump k t))) * MZ k fs t))
          by (intros t _; rewrite inj_sub; reflexivity).
        rewrite (parts_step_R k (fun t => inj (iter_diff (chi Theta) (seq (S k) n) t)) (MZ k fs)).
        + apply sm_ext. intros t Ht. rewrite MZ_step; [reflexivity|apply Hnonneg; exact Ht| |];
            rewrite (Theta_len D Theta Hwf t Ht); [lia|exact Hfs].
        + lia.
        + intros u Hu Hnot. change (chi Theta) with (chiT Theta). rewrite (iter_diff_zero_outside Theta Hlower _ u Hu Hnot). apply inj_0.
    Qed.

    Lemma weights_form_Z :
      sm Theta (fun t => inj (incl_excl Theta t) * MZ 0 fs t) = sm Theta (fun t => MZ D fs t).
    Proof.
      rewrite <- (parts_R D 0) by lia. apply sm_ext. intros t Ht. rewrite incl_excl_iter_diff, (Theta_len D Theta Hwf t Ht). reflexivity.
    Qed.
  End Parts.

  (* (B) on `list nat` level vectors *)
  Theorem weights_form_R : forall (d : nat) (Theta : list (list nat)) (fs : list (nat -> R)),
    NoDup Theta -> (forall t, In t Theta -> length t = d) -> lower Theta -> length fs = d ->
    sm Theta (fun t => inj (wN Theta t) * prodU fs t) = sm Theta (fun t => prodD fs t).
  Proof.
    intros d Theta fs Hnd Hlen Hlow Hfs.
    pose proof (weights_form_Z d (map zi Theta) (NoDup_zi _ Hnd) (wf_zi d _ Hlen) (nonneg_zi_set Theta) (lowerZ_zi _ Hlow) fs Hfs) as H.
    rewrite !sm_map in H. unfold wN.
    rewrite (sm_ext Theta _ (fun x => inj (incl_excl (map zi Theta) (zi x)) * MZ 0 fs (zi x))) by (intros t _; rewrite MZ_0; reflexivity).
    rewrite H. apply sm_ext. intros t Ht. apply MZ_all. rewrite (Hlen t Ht). lia.
  Qed.

  (* ---------- the families of CombinationProofs: u j l k on the monomial k_j ---------- *)
  Variable u : nat -> nat -> nat -> R.
  Fixpoint famU (j : nat) (k : list nat) : list (nat -> R) :=
    match k with [] => [] | kj :: k' => (fun l => u j l kj) :: famU (S j) k' end.

  Lemma famU_length k : forall j, length (famU j k) = length k.
  Proof. induction k as [|kj k IH]; intros j; cbn; [reflexivity|]. rewrite IH. reflexivity. Qed.

  Lemma prodU_uprod : forall t j k, prodU (famU j k) t = uprod R rI rmul u j t k.
  Proof. induction t as [|l t IH]; intros j [|kj k]; cbn; try reflexivity. rewrite IH. reflexivity. Qed.

  Lemma prodD_dprod : forall t j k, prodD (famU j k) t = dprod R rI rmul rsub u j t k.
  Proof.
    induction t as [|l t IH]; intros j [|kj k]; cbn; try reflexivity. rewrite IH. destruct l; reflexivity.
  Qed.

  (* weights form = difference form, for the tensor operators of CombinationProofs on a monomial k *)
  Theorem weights_form_dprod : forall (d : nat) (Theta : list (list nat)) (k : list nat),
    NoDup Theta -> (forall t, In t Theta -> length t = d) -> lower Theta -> length k = d ->
    sm Theta (fun t => inj (wN Theta t) * uprod R rI rmul u 0 t k) = sm Theta (fun t => dprod R rI rmul rsub u 0 t k).
  Proof.
    intros d Theta k Hnd Hlen Hlow Hk.
    pose proof (weights_form_R d Theta (famU 0 k) Hnd Hlen Hlow ltac:(rewrite famU_length; exact Hk)) as H.
    rewrite (sm_ext Theta _ (fun t => inj (wN Theta t) * prodU (famU 0 k) t)) by (intros t _; rewrite prodU_uprod; reflexivity).
    rewrite H. apply sm_ext. intros t _. apply prodD_dprod.
  Qed.

  (* `comb_exact` for the weights form *)
  Variable I : nat -> nat -> R.
  Variable m : nat -> nat.
  Hypothesis m_mono : forall l, m l <= m (S l).
  Hypothesis exact : forall j l k, k <= m l -> u j l k = I j k.

  Theorem weights_form_exact : forall (d : nat) (Theta : list (list nat)),
    NoDup Theta -> (forall t, In t Theta -> length t = d) -> lower Theta ->
    forall k s, In s Theta -> length k = d -> Forall2 (fun kj sj => kj <= m sj) k s ->
    sm Theta (fun t => inj (wN Theta t) * uprod R rI rmul u 0 t k) = iprod R rI rmul I 0 k.
  Proof.
    intros d Theta Hnd Hlen Hlow k s Hs Hk HF. rewrite (weights_form_dprod d Theta k Hnd Hlen Hlow Hk).
    exact (comb_exact R rO rI radd rmul rsub ropp Rth u I m m_mono exact d Theta Hnd Hlen Hlow k s Hs Hk HF).
  Qed.
End BridgeR.

(* ================================================================ (C) the interpolation operator of GlobalNestedInterp, weights form *)
From TV Require Import Proofs.LagrangeExact Proofs.GlobalNestedInterp.
From Coq Require Import QArith Qcanon.
Local Open Scope Qc_scope.

Notation injQ := (inj Qc 0 1 Qcplus Qcmult Qcopp).

Lemma le_all_repeat M : forall t, Forall (fun a => (a <= M)%nat) t -> le_all t (repeat M (length t)) = true.
Proof.
  induction t as [|a t IH]; intros H; [reflexivity|]. inversion H; subst. cbn. apply andb_true_iff. split; [apply Nat.leb_le; assumption|apply IH; assumption].
Qed.

(* a level vector above every member of the set *)
Definition topv (d : nat) (Theta : list (list nat)) : list nat := repeat (list_max (concat Theta)) d.

Lemma topv_ge d Theta t : (forall s, In s Theta -> length s = d) -> In t Theta -> le_all t (topv d Theta) = true.
Proof.
  intros Hlen Ht. unfold topv. rewrite <- (Hlen t Ht). apply le_all_repeat. apply Forall_forall. intros a Ha.
  assert (HF : Forall (fun k => (k <= list_max (concat Theta))%nat) (concat Theta)) by (apply list_max_le; lia).
  rewrite Forall_forall in HF. apply HF. apply in_concat. exists t. split; assumption.
Qed.

Section BridgeQc.
  Variable xs : nat -> Qc.
  Variable n : nat -> nat.
  Hypothesis xs_inj : forall a b, xs a = xs b -> a = b.
  Hypothesis n_pos : (1 <= n O)%nat.
  Hypothesis n_incr : forall l, (n l < n (S l))%nat.

  (* the one-dimensional families of the point p at the evaluation point x: level l -> ell l p_j x_j *)
  Fixpoint famL (p : list nat) (x : list Qc) : list (nat -> Qc) :=
    match p, x with pj :: p', xj :: x' => (fun l => ell xs n l pj xj) :: famL p' x' | _, _ => [] end.

  Lemma famL_length : forall p x, length p = length x -> length (famL p x) = length p.
  Proof. induction p as [|pj p IH]; intros [|xj x] H; cbn in *; try reflexivity; try discriminate. rewrite IH by lia. reflexivity. Qed.

  Lemma prodU_Lprod : forall t p x, prodU Qc 1 Qcmult (famL p x) t = Lprod xs n t p x.
  Proof. induction t as [|tj t IH]; intros [|pj p] [|xj x]; cbn; try reflexivity. rewrite IH. reflexivity. Qed.

  Lemma prodD_Dprod : forall t p x, prodD Qc 1 Qcmult Qcminus (famL p x) t = Dprod xs n t p x.
  Proof. induction t as [|tj t IH]; intros [|pj p] [|xj x]; cbn; try reflexivity. rewrite IH. destruct tj; reflexivity. Qed.

  (* a point index outside the ranges of t: one of its cardinal functions is the zero function *)
  Lemma Lprod_zero_outside t : forall p x, length p = length t -> length x = length t ->
    le_all p (map (mlev n) t) = false -> Lprod xs n t p x = 0.
  Proof.
    induction t as [|a t IH]; intros p x Hp Hx Hle.
    - destruct p; [cbn in Hle; discriminate|discriminate].
    - destruct p as [|pj p]; [discriminate|]. destruct x as [|xj x]; [discriminate|].
      cbn [map le_all] in Hle. cbn [Lprod]. destruct (pj <=? mlev n a)%nat eqn:E.
      + cbn [andb] in Hle. cbn in Hp, Hx. rewrite (IH p x); [ring|lia|lia|exact Hle].
      + apply Nat.leb_gt in E. unfold mlev in E. rewrite (ell_out xs n xs_inj n_pos n_incr) by lia. ring.
  Qed.

  (* the WEIGHTS form of the surrogate: sum over the tensors of w(t) * (tensor Lagrange interpolant of level t)(x) -
     what GridGlobal::evaluate computes with getInterpolationWeights *)
  Definition Aw (Theta : list (list nat)) (f : list nat -> Qc) (x : list Qc) : Qc :=
    qs Theta (fun t => injQ (wN Theta t) * qs (pts n t) (fun p => f p * Lprod xs n t p x)).

  Theorem weights_form_Aop : forall d Theta (f : list nat -> Qc) (x : list Qc),
    NoDup Theta -> (forall s, In s Theta -> length s = d) -> lower Theta -> length x = d ->
    Aw Theta f x = Aop xs n Theta f x.
  Proof.
    intros d Theta f x Hnd Hlen Hlow Hx. set (T := topv d Theta).
    assert (HT : forall t, In t Theta -> le_all t T = true) by (intros t Ht; apply (topv_ge d Theta t Hlen Ht)).
    assert (HTl : length T = d) by (unfold T, topv; apply repeat_length).
    assert (HP : forall p, le_all p (map (mlev n) T) = true -> length p = d).
    { intros p Hp. apply le_all_length in Hp. rewrite map_length in Hp. lia. }
    transitivity (qs (pts n T) (fun p => f p * qs Theta (fun t => Dprod xs n t p x))).
    - unfold Aw.
      rewrite (qs_ext Theta _ (fun t => qs (pts n T) (fun p => injQ (wN Theta t) * (f p * Lprod xs n t p x)))).
      2:{ intros t Ht. rewrite qs_scale. apply (qs_pts_extend n n_pos n_incr t T); [exact (HT t Ht)|].
          intros p Hp1 Hp2. rewrite Lprod_zero_outside; [ring|rewrite (HP p Hp1), (Hlen t Ht); reflexivity|rewrite (Hlen t Ht); exact Hx|exact Hp2]. }
      rewrite qs_swap. apply qs_ext. intros p Hp. unfold pts in Hp. apply box_In' in Hp. pose proof (HP p Hp) as Hpl.
      rewrite (qs_ext Theta (fun t => Dprod xs n t p x) (fun t => prodD Qc 1 Qcmult Qcminus (famL p x) t))
        by (intros t _; symmetry; apply prodD_Dprod).
      rewrite <- (weights_form_R Qc 0 1 Qcplus Qcmult Qcminus Qcopp Qcrt d Theta (famL p x) Hnd Hlen Hlow
                    ltac:(rewrite famL_length; lia)).
      rewrite qs_scale. apply qs_ext. intros t _. rewrite prodU_Lprod. ring.
    - symmetry. unfold Aop.
      rewrite (qs_ext Theta _ (fun s => qs (pts n T) (fun p => f p * Dprod xs n s p x))).
      2:{ intros s Hs. apply (qs_pts_extend n n_pos n_incr s T); [exact (HT s Hs)|].
          intros p Hp1 Hp2. rewrite (Dprod_zero_outside xs n xs_inj n_pos n_incr);
            [ring|rewrite (HP p Hp1), (Hlen s Hs); reflexivity|rewrite (Hlen s Hs); exact Hx|exact Hp2]. }
      rewrite qs_swap. apply qs_ext. intros p _. rewrite qs_scale. reflexivity.
  Qed.

  (* c01_global_nested_reproduces for the WEIGHTS form *)
  Theorem evaluate_weights_form_reproduces : forall d Theta (f : list nat -> Qc) (q : list nat),
    NoDup Theta -> (forall s, In s Theta -> length s = d) -> lower Theta ->
    In (map (minlev n) q) Theta -> Aw Theta f (map xs q) = f q.
  Proof.
    intros d Theta f q Hnd Hlen Hlow Hq.
    rewrite (weights_form_Aop d Theta f (map xs q) Hnd Hlen Hlow).
    - exact (global_nested_reproduces_minlev xs n xs_inj n_pos n_incr d Theta f q Hnd Hlen Hlow Hq).
    - rewrite map_length. rewrite <- (Hlen _ Hq). rewrite map_length. reflexivity.
  Qed.
End BridgeQc.

(* ================================================================ the conversion lemma in one statement; the weights wN are the computed ones *)
Local Close Scope Qc_scope.

Lemma index_conversion d Theta : (forall t, In t Theta -> length t = d) ->
  (NoDup Theta <-> NoDup (map zi Theta)) /\ wf d (map zi Theta) /\ (forall t, In t (map zi Theta) -> nonneg t) /\
  (lower Theta <-> lowerZ (map zi Theta)) /\ (forall t, In t Theta <-> In (zi t) (map zi Theta)) /\ (forall t, zn (zi t) = t).
Proof.
  intros Hlen. split; [split; [apply NoDup_zi|apply NoDup_map_inv]|]. split; [apply wf_zi; exact Hlen|]. split; [apply nonneg_zi_set|].
  split; [split; [apply lowerZ_zi|apply lower_of_lowerZ]|]. split; [|apply zn_zi].
  intros t. split; [apply in_map|]. intros H. apply in_map_iff in H. destruct H as [t' [E Ht']]. apply zi_inj in E. subst. exact Ht'.
Qed.

(* on a set whose Z image is in the stored order (lexicographically sorted) the integers wN are exactly what tw_lines returns *)
Lemma wN_computed d Theta : sorted (map zi Theta) -> (forall t, In t Theta -> length t = d) -> lower Theta -> (1 <= d)%nat -> Theta <> [] ->
  tw_lines (map zi Theta) = map (wN Theta) Theta.
Proof.
  intros Hs Hlen Hlow Hd Hne.
  rewrite (tw_lines_incl_excl d (map zi Theta) Hs (wf_zi d _ Hlen) (nonneg_zi_set Theta) (lowerZ_zi _ Hlow) Hd).
  - rewrite map_map. reflexivity.
  - destruct Theta; [congruence|discriminate].
Qed.

(* ================================================================ (A) tw_cpp = tw_lines: what is proved here *)
(* D = 1: the special case of the C++ (both models return 0,...,0,1) *)
Lemma tw_cpp_one_dim s : dim_of s = 1%nat -> tw_cpp s = tw_lines s.
Proof. intros H. unfold tw_cpp, tw_lines. rewrite H. reflexivity. Qed.

(* the position map of the last dimension is the identity (the set is already sorted with coordinate D-1 fastest) *)
Lemma map_d_last D s : (1 <= D)%nat -> map_d D (D - 1) s = seq 0 (length s).
Proof. intros HD. unfold map_d. replace (S (D - 1)) with D by lia. rewrite Nat.eqb_refl. reflexivity. Qed.

(* computational cross-check: all sub-lists (in order: lexicographically sorted, duplicate free; lower or not) of a box *)
Fixpoint sublists {A} (l : list A) : list (list A) :=
  match l with [] => [[]] | a :: r => let S := sublists r in map (cons a) S ++ S end.
Fixpoint boxZ (s : list nat) : list idx :=
  match s with [] => [[]] | m :: s' => flat_map (fun l => map (cons (Z.of_nat l)) (boxZ s')) (seq 0 (S m)) end.
Definition zlist_eqb (a b : list Z) : bool := if list_eq_dec Z.eq_dec a b then true else false.
Definition is_lowerb (s : list idx) : bool :=
  forallb (fun t => forallb (fun d => orb (nth d t 0 =? 0)%Z (existsb (idx_eqb (unbump d t)) s)) (seq 0 (length t))) s.
Definition cpp_eq_lines_on (shape : list nat) : bool := forallb (fun s => zlist_eqb (tw_cpp s) (tw_lines s)) (sublists (boxZ shape)).
Definition cpp_eq_incl_excl_on (shape : list nat) : bool :=
  forallb (fun s => match s with [] => true | _ => negb (is_lowerb s) || zlist_eqb (tw_cpp s) (map (incl_excl s) s) end) (sublists (boxZ shape)).
Definition count_lower (shape : list nat) : nat := length (filter is_lowerb (sublists (boxZ shape))).

(* ---------- concrete data for the non-vacuity examples ---------- *)
Definition exB_Theta : list (list nat) := [[0;0];[0;1];[0;2];[1;0];[1;1];[2;0]]%nat.
Definition exB_fs : list (nat -> Z) := [(fun l => (Z.of_nat l + 1) * (Z.of_nat l + 1))%Z; (fun l => 3 * Z.of_nat l + 2)%Z].
Lemma exB_nodup : NoDup exB_Theta.
Proof. unfold exB_Theta. repeat (constructor; [cbn; intuition discriminate|]). constructor. Qed.
Lemma exB_len : forall s, In s exB_Theta -> length s = 2%nat.
Proof. intros s [<-|[<-|[<-|[<-|[<-|[<-|[]]]]]]]; reflexivity. Qed.
Lemma exB_lower : lower exB_Theta.
Proof.
  intros t s [<-|[<-|[<-|[<-|[<-|[<-|[]]]]]]] Hl Hle; destruct s as [|a [|b [|c s]]]; try discriminate;
    destruct a as [|[|[|a]]], b as [|[|[|b]]]; try discriminate; cbn; auto 10.
Qed.
(* u j l k = (l+1+j)^k for k <= l (exact value I j k = ... is not needed for the examples) *)
Definition exB_u (j l k : nat) : Z := ((Z.of_nat l + 1 + Z.of_nat j) ^ Z.of_nat k)%Z.
