(* Interface between the one-dimensional tree facts of the RuleLocal model (Proofs/LocalTree1D.v) and the
   multi-dimensional closure argument (Proofs/LocalClosure.v).  Definitions and statements only. *)
From TV Require Import Common.Prelude Model.IndexSets Model.RuleLocal Model.Selection Model.Hier Model.LocalGrid.
From Coq Require Import QArith.
Local Open Scope Z_scope.

(* q is a strict ancestor of p in the one-dimensional hierarchy: reachable through >= 1 parent / step-parent links *)
Inductive anc1 (r : erule) : Z -> Z -> Prop :=
| anc1_one p q : In q (parents1d r p) -> anc1 r p q
| anc1_more p m q : In m (parents1d r p) -> anc1 r m q -> anc1 r p q.

(* what the closure argument needs to know about one dimension (all statements are about points >= 0) *)
Record tree1d_facts (r : erule) (order : Z) : Prop := {
  (* the basis function of a point is one at its own node *)
  tf_unit : forall p, 0 <= p -> (evalRaw r order p (getNode r p) == 1)%Q;
  (* a basis function that does not vanish at the node of another point belongs to an ancestor of that point *)
  tf_anc : forall p q, 0 <= p -> 0 <= q -> q <> p -> ~ (evalRaw r order q (getNode r p) == 0)%Q -> anc1 r p q;
  (* parents are points, one level up or more *)
  tf_level : forall p q, 0 <= p -> In q (parents1d r p) -> 0 <= q /\ getLevel r q < getLevel r p;
  (* levels are not negative *)
  tf_level_nonneg : forall p, 0 <= p -> 0 <= getLevel r p
}.
