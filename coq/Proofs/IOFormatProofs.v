(* Proofs about the binary format model: every decoder inverts its encoder on well-formed data (for all sizes),
   decoders are stable under extension of the input, hence strict prefixes are rejected and encode is injective. *)
From TV Require Import Common.Prelude Model.IOFormat.
Local Open Scope Z_scope.

(* ------------------------------------------------------------------------------------------ primitives *)
Lemma rt_i32 z r : i32 z -> p_i32 (enc_i32 z ++ r) = Some (z, r).
Proof.
  intros H. unfold enc_i32, p_i32, i32 in *. cbn [app]. f_equal. f_equal. unfold i32_of_bytes.
  destruct (Z.leb_spec 2147483648 (z mod 4294967296 mod 256 + 256 * (z mod 4294967296 / 256 mod 256)
     + 65536 * (z mod 4294967296 / 65536 mod 256) + 16777216 * (z mod 4294967296 / 16777216 mod 256))); lia.
Qed.

Lemma rt_f64 x r : p_f64 (enc_f64 x ++ r) = Some (x, r).
Proof. destruct x; reflexivity. Qed.

Lemma rt_byte c r : p_byte (enc_char c ++ r) = Some (c, r).
Proof. reflexivity. Qed.

Lemma bind_ok {A B} (p : parser A) (f : A -> parser B) e a r :
  p (e ++ r) = Some (a, r) -> bind p f (e ++ r) = f a r.
Proof. intros H. unfold bind. rewrite H. reflexivity. Qed.

Lemma bind_eq {A B} (p : parser A) (f : A -> parser B) s a r :
  p s = Some (a, r) -> bind p f s = f a r.
Proof. intros H. unfold bind. rewrite H. reflexivity. Qed.

Lemma rt_count {A} (P : A -> Prop) (enc : A -> bytes) (p : parser A) :
  (forall a r, P a -> p (enc a ++ r) = Some (a, r)) ->
  forall n l r, length l = n -> Forall P l -> p_count n p (flat_map enc l ++ r) = Some (l, r).
Proof.
  intros Hp n. induction n as [|n IH]; intros l r Hl HP.
  - destruct l; [reflexivity|discriminate].
  - destruct l as [|a l]; [discriminate|]. inversion HP; subst. cbn [flat_map p_count]. rewrite <- app_assoc.
    rewrite (bind_ok _ _ _ a) by (apply Hp; assumption).
    rewrite (bind_ok _ _ _ l) by (apply IH; [injection Hl; auto|assumption]). reflexivity.
Qed.

Lemma rt_i32s n l r : lenZ l n -> i32s l -> p_i32s n (enc_i32s l ++ r) = Some (l, r).
Proof. intros Hl Hi. apply (rt_count i32); [apply rt_i32|exact Hl|exact Hi]. Qed.

Lemma rt_f64s n l r : lenZ l n -> p_f64s n (enc_f64s l ++ r) = Some (l, r).
Proof.
  intros Hl. apply (rt_count (fun _ => True)); [intros; apply rt_f64|exact Hl|].
  clear. induction l; constructor; auto.
Qed.

Lemma rt_bytes l r : p_count (length l) p_byte (l ++ r) = Some (l, r).
Proof.
  induction l as [|a l IH]; [reflexivity|]. cbn [length p_count app].
  unfold bind at 1. cbn [p_byte]. rewrite (bind_ok _ _ _ l) by exact IH. reflexivity.
Qed.

Lemma rt_flag b r : p_flag (enc_flag b ++ r) = Some (b, r).
Proof. destruct b; reflexivity. Qed.

Lemma rt_opt {A} (P : A -> Prop) (enc : A -> bytes) (p : parser A) :
  (forall a r, P a -> p (enc a ++ r) = Some (a, r)) ->
  forall o r, match o with Some a => P a | None => True end -> p_opt p (enc_opt enc o ++ r) = Some (o, r).
Proof.
  intros Hp o r Ho. unfold p_opt, enc_opt. destruct o as [a|].
  - rewrite <- app_assoc. rewrite (bind_ok _ _ _ true) by apply rt_flag.
    rewrite (bind_ok _ _ _ a) by (apply Hp; exact Ho). reflexivity.
  - rewrite (bind_ok _ _ _ false) by apply rt_flag. reflexivity.
Qed.

Lemma rt_of64s n o r : wf_of64s o n -> p_opt (p_f64s n) (enc_opt enc_f64s o ++ r) = Some (o, r).
Proof. intros H. apply (rt_opt (fun l => lenZ l n)); [intros; apply rt_f64s; assumption|exact H]. Qed.

Lemma rt_oi32s n o r : wf_oi32s o n -> p_opt (p_i32s n) (enc_opt enc_i32s o ++ r) = Some (o, r).
Proof.
  intros H. apply (rt_opt (fun l => lenZ l n /\ i32s l)); [intros a r' [? ?]; apply rt_i32s; assumption|exact H].
Qed.

(* ------------------------------------------------------------------------------------------ a step tactic *)
Ltac splits := repeat match goal with H : _ /\ _ |- _ => destruct H end.

(* consume the first encoder of the input with the first parser of a bind chain *)
Ltac step L := rewrite <- ?app_assoc; rewrite (bind_ok _ _ _ _ _ L).
Ltac step_i32 := rewrite <- ?app_assoc; erewrite bind_ok by (apply rt_i32; assumption).
Ltac step_f64 := rewrite <- ?app_assoc; erewrite bind_ok by (apply rt_f64).

(* ------------------------------------------------------------------------------------------ sets and storage *)
Lemma rt_mset m r : wf_mset m -> p_mset (enc_mset m ++ r) = Some (m, r).
Proof.
  unfold wf_mset, p_mset, enc_mset. intros H. splits.
  step_i32. step_i32.
  destruct (Z.ltb_spec 0 (ms_ni m)).
  - erewrite bind_ok by (apply rt_i32s; assumption). destruct m; reflexivity.
  - assert (ms_ni m = 0) as E0 by lia. assert (ms_idx m = []) as E1.
    { unfold lenZ in *. rewrite E0, Z.mul_0_r in *. destruct (ms_idx m); [reflexivity|discriminate]. }
    assert (Hz : p_i32s (ms_nd m * ms_ni m) ([] ++ r) = Some ([], r)).
    { apply (rt_i32s _ [] r); [unfold lenZ; rewrite E0, Z.mul_0_r; reflexivity|constructor]. }
    rewrite (bind_eq _ _ _ _ _ Hz).
    destruct m; cbn in *; subst; reflexivity.
Qed.

Lemma rt_omset o r : wf_omset o -> p_opt p_mset (enc_opt enc_mset o ++ r) = Some (o, r).
Proof. intros H. apply (rt_opt wf_mset); [intros; apply rt_mset; assumption|exact H]. Qed.

Lemma rt_storage s r : wf_storage s -> p_storage (enc_storage s ++ r) = Some (s, r).
Proof.
  unfold wf_storage, p_storage, enc_storage. intros H. splits. step_i32. step_i32.
  erewrite bind_ok by (apply rt_of64s; assumption). destruct s; reflexivity.
Qed.

Lemma rt_values outs o r : wf_values outs o -> p_when (0 <? outs) p_storage (enc_when enc_storage o ++ r) = Some (o, r).
Proof.
  unfold wf_values, p_when, enc_when. intros H. destruct o as [s|].
  - destruct H as [Hv1 Hv2]. destruct (Z.ltb_spec 0 outs); [|lia].
    erewrite bind_ok by (apply rt_storage; assumption). reflexivity.
  - destruct (Z.ltb_spec 0 outs); [lia|]. reflexivity.
Qed.

Lemma rt_updated u r : wf_updated u -> p_updated (enc_updated u ++ r) = Some (u, r).
Proof.
  unfold wf_updated, p_updated, enc_updated. intros H. splits.
  rewrite <- ?app_assoc. erewrite bind_ok by (apply rt_mset; assumption).
  erewrite bind_ok by (apply rt_mset; assumption).
  erewrite bind_ok by (apply rt_i32s; assumption). destruct u; reflexivity.
Qed.

Lemma rt_oupdated o r : wf_oupdated o -> p_opt p_updated (enc_opt enc_updated o ++ r) = Some (o, r).
Proof. intros H. apply (rt_opt wf_updated); [intros; apply rt_updated; assumption|exact H]. Qed.

(* ------------------------------------------------------------------------------------------ custom rule *)
Lemma until0_id l : Forall (fun b => b <> 0) l -> until0 l = l.
Proof.
  induction 1 as [|b l Hb _ IH]; [reflexivity|]. cbn [until0].
  destruct (Z.eqb_spec b 0); [contradiction|]. rewrite IH. reflexivity.
Qed.

Lemma rt_tables nn tab r :
  Forall2 (fun n wx => lenZ (fst wx) n /\ lenZ (snd wx) n) nn tab ->
  p_tables nn (flat_map enc_table tab ++ r) = Some (tab, r).
Proof.
  induction 1 as [|n wx nn tab [Hw Hx] _ IH]; [reflexivity|].
  cbn [p_tables flat_map]. unfold enc_table at 1. rewrite <- ?app_assoc.
  erewrite bind_ok by (apply rt_f64s; exact Hw). erewrite bind_ok by (apply rt_f64s; exact Hx).
  erewrite bind_ok by exact IH. destruct wx; reflexivity.
Qed.

Lemma rt_custom c r : wf_custom c -> p_custom (enc_custom c ++ r) = Some (c, r).
Proof.
  unfold wf_custom, p_custom, enc_custom. intros H. splits.
  step_i32. unfold zlen at 1. rewrite Nat2Z.id.
  rewrite <- ?app_assoc. erewrite bind_ok by apply rt_bytes.
  step_i32.
  erewrite bind_ok by (apply rt_i32s; [unfold lenZ, zlen; rewrite Nat2Z.id; reflexivity|assumption]).
  erewrite bind_ok by (apply rt_i32s; [unfold lenZ, zlen; rewrite Nat2Z.id; assumption|assumption]).
  erewrite bind_ok by (apply rt_tables; assumption).
  rewrite until0_id by assumption. destruct c; reflexivity.
Qed.

(* ------------------------------------------------------------------------------------------ families *)
Lemma rt_global g r : wf_global g -> p_global (enc_global g ++ r) = Some (g, r).
Proof.
  unfold wf_global, p_global, enc_global. intros H. splits.
  step_i32. step_i32. step_f64. step_f64. step_i32.
  match goal with H : match gg_custom g with _ => _ end |- _ => rename H into Hc end.
  assert (Ec : forall r', p_when (gg_rule g =? rule_customtabulated) p_custom (enc_when enc_custom (gg_custom g) ++ r')
               = Some (gg_custom g, r')).
  { intros r'. unfold p_when, enc_when. destruct (gg_custom g) as [c|].
    - destruct Hc as [Hr Hw]. rewrite Hr, Z.eqb_refl. erewrite bind_ok by (apply rt_custom; exact Hw). reflexivity.
    - destruct (Z.eqb_spec (gg_rule g) rule_customtabulated); [contradiction|reflexivity]. }
  rewrite (bind_ok _ _ _ _ _ (Ec _)).
  erewrite bind_ok by (apply rt_mset; assumption). erewrite bind_ok by (apply rt_mset; assumption).
  erewrite bind_ok by (apply rt_i32s; assumption).
  erewrite bind_ok by (apply rt_omset; assumption). erewrite bind_ok by (apply rt_omset; assumption).
  erewrite bind_ok by (apply rt_i32s; assumption).
  erewrite bind_ok by (apply rt_values; assumption).
  erewrite bind_ok by (apply rt_oupdated; assumption).
  destruct g; reflexivity.
Qed.

Lemma rt_seq g r : wf_seq g -> p_seq (enc_seq g ++ r) = Some (g, r).
Proof.
  unfold wf_seq, p_seq, enc_seq. intros H. splits.
  step_i32. step_i32. step_i32.
  erewrite bind_ok by (apply rt_omset; assumption). erewrite bind_ok by (apply rt_omset; assumption).
  erewrite bind_ok by (apply rt_of64s; assumption).
  erewrite bind_ok by (apply rt_values; assumption).
  destruct g; reflexivity.
Qed.

Lemma rt_tree np roots pntr indx r :
  wf_tree np roots pntr indx -> p_tree np (enc_tree roots pntr indx ++ r) = Some ((roots, pntr, indx), r).
Proof.
  unfold wf_tree, p_tree, enc_tree. intros H. splits. step_i32.
  destruct roots as [|a roots].
  - splits; subst. reflexivity.
  - splits. replace (0 <? zlen (a :: roots)) with true
      by (symmetry; apply Z.ltb_lt; unfold zlen; cbn [length]; lia).
    rewrite <- ?app_assoc.
    erewrite bind_ok by (apply rt_i32s; [unfold lenZ, zlen; rewrite Nat2Z.id; reflexivity|assumption]).
    erewrite bind_ok by (apply rt_i32s; assumption).
    erewrite bind_ok by (apply rt_i32s; assumption). reflexivity.
Qed.

Lemma rt_local g r : wf_local g -> p_local (enc_local g ++ r) = Some (g, r).
Proof.
  unfold wf_local, p_local, enc_local. intros H. splits.
  step_i32. step_i32. step_i32. step_i32. step_i32.
  erewrite bind_ok by (apply rt_omset; assumption). erewrite bind_ok by (apply rt_omset; assumption).
  erewrite bind_ok by (apply rt_of64s; assumption).
  erewrite bind_ok by (apply rt_oi32s; assumption).
  erewrite bind_ok by (apply rt_tree; eassumption).
  erewrite bind_ok by (apply rt_values; assumption).
  destruct g; reflexivity.
Qed.

Lemma rt_wave g r : wf_wave g -> p_wave (enc_wave g ++ r) = Some (g, r).
Proof.
  unfold wf_wave, p_wave, enc_wave. intros H. splits.
  step_i32. step_i32. step_i32.
  erewrite bind_ok by (apply rt_omset; assumption). erewrite bind_ok by (apply rt_omset; assumption).
  erewrite bind_ok by (apply rt_of64s; assumption).
  erewrite bind_ok by (apply rt_values; assumption).
  destruct g; reflexivity.
Qed.

Lemma rt_fvals n v r : wf_storage (fst v) -> wf_of64s (snd v) n -> p_fvals n (enc_fvals v ++ r) = Some (v, r).
Proof.
  intros H1 H2. unfold p_fvals, enc_fvals. rewrite <- ?app_assoc.
  erewrite bind_ok by (apply rt_storage; exact H1). erewrite bind_ok by (apply rt_of64s; exact H2).
  destruct v; reflexivity.
Qed.

Lemma rt_fourier g r : wf_fourier g -> p_fourier (enc_fourier g ++ r) = Some (g, r).
Proof.
  unfold wf_fourier, p_fourier, enc_fourier. intros H. splits.
  step_i32. step_i32.
  erewrite bind_ok by (apply rt_mset; assumption). erewrite bind_ok by (apply rt_mset; assumption).
  erewrite bind_ok by (apply rt_i32s; assumption).
  erewrite bind_ok by (apply rt_omset; assumption). erewrite bind_ok by (apply rt_omset; assumption).
  erewrite bind_ok by (apply rt_i32s; assumption).
  match goal with H : match fo_values g with _ => _ end |- _ => rename H into Hv end.
  assert (Ev : forall r', p_when (0 <? fo_outs g) (p_fvals (fo_outs g * (2 * npts (fo_points g))))
                 (enc_when enc_fvals (fo_values g) ++ r') = Some (fo_values g, r')).
  { intros r'. unfold p_when, enc_when. destruct (fo_values g) as [[s c]|].
    - destruct Hv as (Hv1 & Hv2 & Hv3). destruct (Z.ltb_spec 0 (fo_outs g)); [|lia].
      erewrite bind_ok by (apply rt_fvals; assumption). reflexivity.
    - destruct (Z.ltb_spec 0 (fo_outs g)); [lia|reflexivity]. }
  rewrite (bind_ok _ _ _ _ _ (Ev _)).
  erewrite bind_ok by (apply rt_oupdated; assumption).
  destruct g; reflexivity.
Qed.

(* ------------------------------------------------------------------------------------------ construction data *)
Lemma rt_node dims outs n r : wf_node dims outs n -> p_node dims outs (enc_node n ++ r) = Some (n, r).
Proof.
  unfold wf_node, p_node, enc_node. intros H. splits. rewrite <- ?app_assoc.
  erewrite bind_ok by (apply rt_i32s; assumption). erewrite bind_ok by (apply rt_f64s; assumption).
  destruct n; reflexivity.
Qed.

Lemma rt_nodes dims outs l r :
  i32 (zlen l) -> Forall (wf_node dims outs) l -> p_nodes dims outs (enc_nodes l ++ r) = Some (l, r).
Proof.
  intros H1 H2. unfold p_nodes, enc_nodes. step_i32. unfold zlen. rewrite Nat2Z.id.
  apply (rt_count (wf_node dims outs)); [intros; apply rt_node; assumption|reflexivity|assumption].
Qed.

Lemma rt_tensor dims t r : wf_tensor dims t -> p_tensor dims (enc_tensor t ++ r) = Some (t, r).
Proof.
  unfold wf_tensor, p_tensor, enc_tensor. intros H. splits. rewrite <- ?app_assoc. step_f64.
  erewrite bind_ok by (apply rt_i32s; assumption). destruct t; reflexivity.
Qed.

Lemma rt_tensors dims l r :
  i32 (zlen l) -> Forall (wf_tensor dims) l -> p_tensors dims (enc_tensors l ++ r) = Some (l, r).
Proof.
  intros H1 H2. unfold p_tensors, enc_tensors. step_i32. unfold zlen. rewrite Nat2Z.id.
  apply (rt_count (wf_tensor dims)); [intros; apply rt_tensor; assumption|reflexivity|assumption].
Qed.

Lemma rt_cdata b dims c r : wf_cdata b dims c ->
  (if body_global_construction b then p_cglobal else p_csimple) dims (body_outs b) (enc_cdata c ++ r) = Some (c, r).
Proof.
  unfold wf_cdata. intros H. destruct c as [t n|i n]; splits;
    match goal with H : body_global_construction b = _ |- _ => rewrite H end;
    unfold p_cglobal, p_csimple, enc_cdata; rewrite <- ?app_assoc.
  - erewrite bind_ok by (apply rt_tensors; assumption). erewrite bind_ok by (apply rt_nodes; assumption). reflexivity.
  - erewrite bind_ok by (apply rt_mset; assumption). erewrite bind_ok by (apply rt_nodes; assumption). reflexivity.
Qed.

(* ------------------------------------------------------------------------------------------ the file *)
Lemma rt_body b r : wf_body b -> p_body (enc_char (body_tag b) ++ enc_body b ++ r) = Some (b, r).
Proof.
  intros H. unfold p_body. rewrite (bind_ok _ _ _ _ _ (rt_byte _ _)).
  destruct b; cbn [body_tag enc_body wf_body] in *.
  - reflexivity.
  - change (ch_g =? ch_g) with true. cbv iota. erewrite bind_ok by (apply rt_global; assumption). reflexivity.
  - change (ch_s =? ch_g) with false. change (ch_s =? ch_s) with true. cbv iota.
    erewrite bind_ok by (apply rt_seq; assumption). reflexivity.
  - change (ch_p =? ch_g) with false. change (ch_p =? ch_s) with false. change (ch_p =? ch_p) with true. cbv iota.
    erewrite bind_ok by (apply rt_local; assumption). reflexivity.
  - change (ch_w =? ch_g) with false. change (ch_w =? ch_s) with false. change (ch_w =? ch_p) with false.
    change (ch_w =? ch_w) with true. cbv iota.
    erewrite bind_ok by (apply rt_wave; assumption). reflexivity.
  - change (ch_f =? ch_g) with false. change (ch_f =? ch_s) with false. change (ch_f =? ch_p) with false.
    change (ch_f =? ch_w) with false. change (ch_f =? ch_f) with true. cbv iota.
    erewrite bind_ok by (apply rt_fourier; assumption). reflexivity.
Qed.

Lemma rt_sec {A} (yes : byte) (Hy : (yes =? ch_n) = false) (dims : option Z) (P : Z -> A -> Prop)
      (enc : A -> bytes) (p : Z -> parser A) :
  (forall d a r, P d a -> p d (enc a ++ r) = Some (a, r)) ->
  forall o r, wf_sec dims P o -> p_sec yes dims p (enc_sec yes enc o ++ r) = Some (o, r).
Proof.
  intros Hp o r Ho. unfold p_sec, enc_sec, wf_sec in *. destruct o as [a|].
  - rewrite <- app_assoc. rewrite (bind_ok _ _ _ _ _ (rt_byte _ _)). rewrite Z.eqb_refl.
    destruct dims as [d|]; [|contradiction]. erewrite bind_ok by (apply Hp; exact Ho). reflexivity.
  - rewrite (bind_ok _ _ _ _ _ (rt_byte _ _)). rewrite Z.eqb_sym, Hy. reflexivity.
Qed.

Lemma rt_end r : p_end (enc_char ch_e ++ r) = Some (tt, r).
Proof. reflexivity. Qed.

Lemma rt_header r : p_header ([ch_T; ch_S; ch_G; ch_5] ++ r) = Some (tt, r).
Proof. reflexivity. Qed.

Lemma rt_pair d ab r : lenZ (fst ab) d /\ lenZ (snd ab) d ->
  bind (p_f64s d) (fun a => bind (p_f64s d) (fun bb => ret (a, bb))) (enc_pair ab ++ r) = Some (ab, r).
Proof.
  intros [Ha Hb]. unfold enc_pair. rewrite <- ?app_assoc.
  erewrite bind_ok by (apply rt_f64s; exact Ha). erewrite bind_ok by (apply rt_f64s; exact Hb). destruct ab; reflexivity.
Qed.

Lemma rt_construction b o r : wf_sec (body_dims b) (wf_cdata b) o ->
  p_construction b ((match o with Some c => enc_char ch_c ++ enc_cdata c | None => enc_char ch_s end) ++ enc_char ch_e ++ r)
  = Some (o, r).
Proof.
  unfold wf_sec, p_construction. intros H. destruct o as [c|].
  - rewrite <- ?app_assoc. rewrite (bind_ok _ _ _ _ _ (rt_byte _ _)). rewrite Z.eqb_refl.
    destruct (body_dims b) as [d|]; [|contradiction].
    erewrite bind_ok by (apply rt_cdata; exact H). rewrite (bind_ok _ _ _ _ _ (rt_end _)). reflexivity.
  - rewrite (bind_ok _ _ _ _ _ (rt_byte _ _)).
    change (ch_s =? ch_c) with false. change (ch_s =? ch_e) with false. change (ch_s =? ch_s) with true. cbv iota.
    rewrite (bind_ok _ _ _ _ _ (rt_end _)). reflexivity.
Qed.

(* THE round trip: on every well-formed file the reader grammar inverts the writer grammar, whatever follows *)
Lemma decode_encode g rest : wf g -> decode (encode g ++ rest) = Some (g, rest).
Proof.
  unfold wf, decode, encode. intros H. splits. rewrite <- ?app_assoc.
  rewrite (bind_ok _ _ _ _ _ (rt_header _)).
  erewrite bind_eq by (apply rt_body; assumption).
  erewrite bind_ok by (apply (rt_sec ch_y eq_refl _ (fun d ab => lenZ (fst ab) d /\ lenZ (snd ab) d) enc_pair);
                       [intros; apply rt_pair; assumption|assumption]).
  erewrite bind_ok by (apply (rt_sec ch_a eq_refl _ (fun d l => lenZ l d /\ i32s l) enc_i32s);
                       [intros d a r [? ?]; apply rt_i32s; assumption|assumption]).
  erewrite bind_ok by (apply (rt_sec ch_y eq_refl _ (fun d l => lenZ l d /\ i32s l) enc_i32s);
                       [intros d a r [? ?]; apply rt_i32s; assumption|assumption]).
  erewrite bind_eq by (apply rt_construction; assumption).
  destruct g; reflexivity.
Qed.

Lemma encode_inj g1 g2 : wf g1 -> wf g2 -> encode g1 = encode g2 -> g1 = g2.
Proof.
  intros H1 H2 E. pose proof (decode_encode g1 [] H1) as D1. pose proof (decode_encode g2 [] H2) as D2.
  rewrite E in D1. rewrite D1 in D2. congruence.
Qed.

(* a file followed by anything decodes to the same grid: the reader never looks past the final 'e' *)
Lemma decode_unique g1 g2 r1 r2 : wf g1 -> wf g2 -> encode g1 ++ r1 = encode g2 ++ r2 -> g1 = g2 /\ r1 = r2.
Proof.
  intros H1 H2 E. pose proof (decode_encode g1 r1 H1) as D1. pose proof (decode_encode g2 r2 H2) as D2.
  rewrite E in D1. rewrite D1 in D2. split; congruence.
Qed.

(* ------------------------------------------------------------------------------------------ stability:
   a parser that succeeds on s succeeds with the same value on every extension of s *)
Definition stable {A} (p : parser A) : Prop := forall s a r t, p s = Some (a, r) -> p (s ++ t) = Some (a, r ++ t).

Lemma stable_ret {A} (a : A) : stable (ret a).
Proof. intros s a' r t H. unfold ret in *. injection H as -> ->. reflexivity. Qed.
Lemma stable_fail {A} : stable (@fail A).
Proof. intros s a r t H. discriminate. Qed.
Lemma stable_bind {A B} (p : parser A) (f : A -> parser B) : stable p -> (forall a, stable (f a)) -> stable (bind p f).
Proof.
  intros Hp Hf s b r t H. unfold bind in *. destruct (p s) as [[a r1]|] eqn:E; [|discriminate].
  rewrite (Hp _ _ _ t E). apply Hf. exact H.
Qed.
Lemma stable_byte : stable p_byte.
Proof. intros [|b s] a r t H; [discriminate|]. cbn in *. congruence. Qed.
Lemma stable_i32 : stable p_i32.
Proof. intros [|b0 [|b1 [|b2 [|b3 s]]]] a r t H; try discriminate. cbn in *. congruence. Qed.
Lemma stable_f64 : stable p_f64.
Proof. intros [|b0 [|b1 [|b2 [|b3 [|b4 [|b5 [|b6 [|b7 s]]]]]]]] a r t H; try discriminate. cbn in *. congruence. Qed.
Lemma stable_header : stable p_header.
Proof.
  intros [|b0 [|b1 [|b2 [|b3 s]]]] a r t H; try discriminate. cbn [p_header app] in *.
  destruct ((b0 =? ch_T) && (b1 =? ch_S) && (b2 =? ch_G) && (b3 =? ch_5)); [|discriminate]. congruence.
Qed.
Lemma stable_count {A} (p : parser A) n : stable p -> stable (p_count n p).
Proof.
  intros Hp. induction n as [|n IH]; cbn [p_count]; [apply stable_ret|].
  apply stable_bind; [exact Hp|]. intros a. apply stable_bind; [exact IH|]. intros l. apply stable_ret.
Qed.
Lemma stable_opt {A} (p : parser A) : stable p -> stable (p_opt p).
Proof.
  intros Hp. unfold p_opt, p_flag. apply stable_bind.
  - apply stable_bind; [apply stable_byte|intros; apply stable_ret].
  - intros [|]; [apply stable_bind; [exact Hp|intros; apply stable_ret]|apply stable_ret].
Qed.
Lemma stable_when {A} c (p : parser A) : stable p -> stable (p_when c p).
Proof. intros Hp. unfold p_when. destruct c; [apply stable_bind; [exact Hp|intros; apply stable_ret]|apply stable_ret]. Qed.
Lemma stable_i32s n : stable (p_i32s n).
Proof. apply stable_count, stable_i32. Qed.
Lemma stable_f64s n : stable (p_f64s n).
Proof. apply stable_count, stable_f64. Qed.

Ltac stab :=
  repeat first
    [ apply stable_ret | apply stable_fail | apply stable_byte | apply stable_i32 | apply stable_f64
    | apply stable_i32s | apply stable_f64s | apply stable_header
    | assumption
    | match goal with H : forall _, stable _ |- _ => apply H end
    | match goal with H : forall _ _, stable _ |- _ => apply H end
    | apply stable_bind; [|intros]
    | apply stable_opt | apply stable_when | apply stable_count
    | match goal with |- stable (if ?c then _ else _) => destruct c end
    | match goal with |- stable (match ?o with _ => _ end) => destruct o end ].

Lemma stable_mset : stable p_mset.
Proof. unfold p_mset. stab. Qed.
Lemma stable_storage : stable p_storage.
Proof. unfold p_storage. stab. Qed.
Lemma stable_updated : stable p_updated.
Proof. unfold p_updated. pose proof stable_mset. stab. Qed.
Lemma stable_tables nn : stable (p_tables nn).
Proof. induction nn as [|n nn IH]; cbn [p_tables]; stab. Qed.
Lemma stable_custom : stable p_custom.
Proof. unfold p_custom. stab. apply stable_tables. Qed.
Lemma stable_global : stable p_global.
Proof.
  unfold p_global. pose proof stable_mset. pose proof stable_storage. pose proof stable_updated. pose proof stable_custom. stab.
Qed.
Lemma stable_seq : stable p_seq.
Proof. unfold p_seq. pose proof stable_mset. pose proof stable_storage. stab. Qed.
Lemma stable_tree np : stable (p_tree np).
Proof. unfold p_tree. stab. Qed.
Lemma stable_local : stable p_local.
Proof. unfold p_local. pose proof stable_mset. pose proof stable_storage. pose proof stable_tree. stab. Qed.
Lemma stable_wave : stable p_wave.
Proof. unfold p_wave. pose proof stable_mset. pose proof stable_storage. stab. Qed.
Lemma stable_fourier : stable p_fourier.
Proof. unfold p_fourier, p_fvals. pose proof stable_mset. pose proof stable_storage. pose proof stable_updated. stab. Qed.
Lemma stable_nodes d o : stable (p_nodes d o).
Proof. unfold p_nodes, p_node. stab. Qed.
Lemma stable_tensors d : stable (p_tensors d).
Proof. unfold p_tensors, p_tensor. stab. Qed.
Lemma stable_body : stable p_body.
Proof.
  unfold p_body. pose proof stable_global. pose proof stable_seq. pose proof stable_local. pose proof stable_wave.
  pose proof stable_fourier. stab.
Qed.
Lemma stable_sec {A} yes dims (p : Z -> parser A) : (forall d, stable (p d)) -> stable (p_sec yes dims p).
Proof. intros Hp. unfold p_sec. stab. Qed.
Lemma stable_construction b : stable (p_construction b).
Proof.
  unfold p_construction, p_end, p_cglobal, p_csimple.
  pose proof stable_mset. pose proof stable_nodes. pose proof stable_tensors.
  destruct (body_global_construction b); repeat (stab; auto).
Qed.
Lemma stable_decode : stable decode.
Proof.
  unfold decode. pose proof stable_body. pose proof stable_construction.
  stab; apply stable_sec; intros; stab.
Qed.

(* the model reader rejects every strict prefix of a well-formed file (what H-TORN asks of the real reader) *)
Lemma prefix_rejected g pre t : wf g -> encode g = pre ++ t -> t <> [] -> decode pre = None.
Proof.
  intros Hw E Ht. destruct (decode pre) as [[g' r']|] eqn:D; [|reflexivity]. exfalso.
  pose proof (stable_decode _ _ _ t D) as D'. rewrite <- E in D'.
  pose proof (decode_encode g [] Hw) as D0. rewrite app_nil_r in D0. rewrite D0 in D'.
  injection D' as _ E'. destruct r'; destruct t; try discriminate. congruence.
Qed.
