(* Proofs about Model/Checkpoint.v: the two-file invariant of the documented checkpoint procedure, its failure for
   the procedure as coded, recovery under H-TORN, the restart-time initial checkpoint, the CompleteStorage reader. *)
From TV Require Import Common.Prelude Model.Checkpoint.
From Coq Require Import NArith.

Section FilesProofs.
  Variable B : Type.
  Notation content := (content B).
  Notation fs := (fs B).
  Notation step := (step B).
  Notation exec := (exec B).
  Notation exec_step := (exec_step B).
  Notation upd := (upd B).
  Notation getc := (getc B).
  Notation split_by := (split_by B).
  Notation write_file := (write_file B).
  Notation checkpoint_steps := (checkpoint_steps B).
  Notation copy_phase := (copy_phase B).
  Notation initial_steps := (initial_steps B).
  Notation crash_prefix := (crash_prefix B).
  Notation run_steps := (run_steps B).
  Notation OpenTrunc := (OpenTrunc B).
  Notation Append := (Append B).
  Notation Close := (Close B).

  (* ---------- small facts ---------- *)
  Lemma fname_eqb_refl n : fname_eqb n n = true.
  Proof. destruct n; reflexivity. Qed.

  Lemma fname_eqb_neq n m : n <> m -> fname_eqb n m = false.
  Proof. destruct n, m; intros H; try reflexivity; congruence. Qed.

  Lemma upd_same (f : fs) n c : upd f n c n = c.
  Proof. unfold Checkpoint.upd. rewrite fname_eqb_refl. reflexivity. Qed.

  Lemma upd_other (f : fs) n m c : m <> n -> upd f n c m = f m.
  Proof. intros H. unfold Checkpoint.upd. rewrite fname_eqb_neq by assumption. reflexivity. Qed.

  Lemma concat_split_by lens (c : content) : concat (split_by lens c) = c.
  Proof.
    revert c; induction lens as [|n r IH]; intros c; cbn.
    - destruct c; cbn; [reflexivity | rewrite app_nil_r; reflexivity].
    - destruct c as [|x c']; [reflexivity|]. cbn [concat]. rewrite IH. apply firstn_skipn.
  Qed.

  Lemma exec_app (f : fs) a b : exec f (a ++ b) = exec (exec f a) b.
  Proof. unfold Checkpoint.exec. apply fold_left_app. Qed.

  Definition step_name (s : step) : fname :=
    match s with Checkpoint.OpenTrunc _ n => n | Checkpoint.Append _ n _ => n | Checkpoint.Close _ n => n end.
  Definition touches_only (n : fname) (l : list step) : Prop := Forall (fun s => step_name s = n) l.

  Lemma exec_step_other (f : fs) s m : step_name s <> m -> exec_step f s m = f m.
  Proof.
    destruct s; cbn; intros H; try reflexivity; apply upd_other; congruence.
  Qed.

  Lemma exec_other n l : touches_only n l -> forall (f : fs) m, m <> n -> exec f l m = f m.
  Proof.
    induction 1 as [|s l Hs Hl IH]; intros f m Hm; [reflexivity|].
    change (exec f (s :: l)) with (exec (exec_step f s) l).
    rewrite IH by assumption. apply exec_step_other. congruence.
  Qed.

  Lemma touches_write_file n chunks : touches_only n (write_file n chunks).
  Proof.
    unfold Checkpoint.write_file, touches_only. constructor; [reflexivity|].
    apply Forall_app; split.
    - apply Forall_forall. intros s Hs. apply in_map_iff in Hs. destruct Hs as [c [<- _]]. reflexivity.
    - constructor; [reflexivity | constructor].
  Qed.

  (* appending chunks to an existing file *)
  Lemma exec_appends (f : fs) n chunks c0 : f n = Some c0 ->
    exec f (map (Append n) chunks) n = Some (c0 ++ concat chunks).
  Proof.
    revert f c0; induction chunks as [|c r IH]; intros f c0 Hf.
    - cbn. rewrite app_nil_r. exact Hf.
    - cbn [map concat]. change (exec f (Append n c :: map (Append n) r))
        with (exec (exec_step f (Append n c)) (map (Append n) r)).
      rewrite (IH _ (c0 ++ c)).
      + rewrite app_assoc. reflexivity.
      + cbn. rewrite upd_same. unfold Checkpoint.getc. rewrite Hf. reflexivity.
  Qed.

  Lemma exec_write_file (f : fs) n chunks :
    exec f (write_file n chunks) n = Some (concat chunks).
  Proof.
    unfold Checkpoint.write_file.
    change (exec f (OpenTrunc n :: map (Append n) chunks ++ [Close n]))
      with (exec (exec_step f (OpenTrunc n)) (map (Append n) chunks ++ [Close n])).
    rewrite exec_app. cbn [Checkpoint.exec fold_left Checkpoint.exec_step].
    change (fold_left exec_step (map (Append n) chunks) (exec_step f (OpenTrunc n)))
      with (exec (exec_step f (OpenTrunc n)) (map (Append n) chunks)).
    rewrite (exec_appends _ n chunks []); [reflexivity|].
    cbn. apply upd_same.
  Qed.

  (* ---------- crash prefixes ---------- *)
  Lemma crash_prefix_refl l : crash_prefix l l.
  Proof. induction l; constructor; assumption. Qed.

  Lemma crash_prefix_firstn j l : crash_prefix l (firstn j l).
  Proof.
    revert l; induction j; intros l; cbn; [constructor|].
    destruct l; constructor. apply IHj.
  Qed.

  Lemma crash_prefix_touches n l p : touches_only n l -> crash_prefix l p -> touches_only n p.
  Proof.
    intros Hl Hp. induction Hp.
    - constructor.
    - inversion Hl as [|x xs Hs Hr]. constructor; [exact Hs | constructor].
    - inversion Hl as [|x xs Hs Hr]. constructor; [exact Hs | apply IHHp; exact Hr].
  Qed.

  Lemma crash_prefix_app a b p : crash_prefix (a ++ b) p ->
    crash_prefix a p \/ exists p2, p = a ++ p2 /\ crash_prefix b p2.
  Proof.
    revert p; induction a as [|s a IH]; intros p H.
    - right. exists p. split; [reflexivity | exact H].
    - cbn in H. inversion H; subst.
      + left. constructor.
      + left. econstructor. reflexivity.
      + destruct (IH _ H3) as [Hl | [p2 [-> Hp2]]].
        * left. constructor. assumption.
        * right. exists p2. split; [reflexivity | assumption].
  Qed.

  Lemma crash_prefix_app_l a b p : crash_prefix a p -> crash_prefix (a ++ b) p.
  Proof.
    induction 1; cbn; try constructor; try assumption. econstructor. eassumption.
  Qed.

  Lemma crash_prefix_app_r a b p : crash_prefix b p -> crash_prefix (a ++ b) (a ++ p).
  Proof. intros H. induction a; cbn; [assumption | constructor; assumption]. Qed.

  (* what a torn or complete rewrite of a file leaves behind: a prefix of the stream *)
  Definition is_prefix (q c : content) : Prop := exists r, c = q ++ r.

  Lemma crash_prefix_nil_inv p : crash_prefix [] p -> p = [].
  Proof. intros H. inversion H. reflexivity. Qed.

  Lemma crash_appends_prefix (f : fs) n chunks p c0 : f n = Some c0 ->
    crash_prefix (map (Append n) chunks ++ [Close n]) p ->
    exists q, exec f p n = Some (c0 ++ q) /\ is_prefix q (concat chunks).
  Proof.
    revert f p c0; induction chunks as [|c r IH]; intros f p c0 Hf Hp.
    - cbn in Hp. exists []. split; [|exists []; reflexivity].
      rewrite app_nil_r.
      inversion Hp as [ l0 | n0 c1 c1' r1 l1 Heq | s1 l1 p1 Hp1 ]; subst.
      + exact Hf.
      + apply crash_prefix_nil_inv in Hp1. subst p1. exact Hf.
    - cbn [map app] in Hp.
      inversion Hp as [ l0 | n0 c1 c1' r1 l1 Heq | s1 l1 p1 Hp1 ]; subst.
      + exists []. split; [rewrite app_nil_r; exact Hf | eexists; reflexivity].
      + exists c1'. split.
        * cbn. rewrite upd_same. unfold Checkpoint.getc. rewrite Hf. reflexivity.
        * cbn. exists (r1 ++ concat r). rewrite app_assoc. reflexivity.
      + change (exec f (Append n c :: p1)) with (exec (exec_step f (Append n c)) p1).
        destruct (IH (exec_step f (Append n c)) p1 (c0 ++ c)) as [q [Hq [t Ht]]]; [|assumption|].
        * cbn. rewrite upd_same. unfold Checkpoint.getc. rewrite Hf. reflexivity.
        * exists (c ++ q). split; [rewrite Hq, app_assoc; reflexivity|].
          exists t. cbn. rewrite Ht, app_assoc. reflexivity.
  Qed.

  Lemma crash_write_file (f : fs) n chunks p : crash_prefix (write_file n chunks) p ->
    p = [] \/ exists q, exec f p n = Some q /\ is_prefix q (concat chunks).
  Proof.
    unfold Checkpoint.write_file. intros H.
    inversion H as [ l0 | n0 c1 c1' r1 l1 Heq | s1 l1 p1 Hp1 ]; subst.
    - left; reflexivity.
    - right.
      change (exec f (OpenTrunc n :: p1)) with (exec (exec_step f (OpenTrunc n)) p1).
      destruct (crash_appends_prefix (exec_step f (OpenTrunc n)) n chunks p1 []) as [q [Hq Hpre]].
      + cbn. apply upd_same.
      + assumption.
      + exists q. split; assumption.
  Qed.

  (* ---------- the documented procedure (backup under the backup name) ---------- *)
  Lemma copy_phase_documented (f : fs) lens c0 : f Cur = Some c0 ->
    copy_phase true f lens = write_file Old (split_by lens c0).
  Proof.
    intros Hf. unfold Checkpoint.copy_phase. cbn.
    unfold Checkpoint.getc. rewrite upd_other by discriminate. rewrite Hf. reflexivity.
  Qed.

  (* every crash state of one checkpoint: either the old main file is intact, or the backup is a complete copy of
     it and the main file holds a prefix of the new stream *)
  Lemma documented_crash_states (f : fs) lens chunks p c0 : f Cur = Some c0 ->
    crash_prefix (checkpoint_steps true f lens chunks) p ->
    exec f p Cur = Some c0 \/
    (exec f p Old = Some c0 /\ exists q, exec f p Cur = Some q /\ is_prefix q (concat chunks)).
  Proof.
    intros Hf Hp. unfold Checkpoint.checkpoint_steps in Hp.
    rewrite (copy_phase_documented f lens c0 Hf) in Hp.
    destruct (crash_prefix_app _ _ _ Hp) as [H1 | [p2 [-> H2]]].
    - left. rewrite (exec_other Old p); [assumption | | discriminate].
      eapply crash_prefix_touches; [apply touches_write_file | eassumption].
    - rewrite exec_app.
      set (f1 := exec f (write_file Old (split_by lens c0))).
      assert (HO : f1 Old = Some c0).
      { unfold f1. rewrite exec_write_file, concat_split_by. reflexivity. }
      assert (HC : f1 Cur = Some c0).
      { unfold f1. rewrite (exec_other Old); [assumption | apply touches_write_file | discriminate]. }
      destruct (crash_write_file f1 Cur chunks p2 H2) as [-> | [q [Hq Hpre]]].
      + left. cbn. assumption.
      + right. split.
        * rewrite (exec_other Cur p2); [assumption | | discriminate].
          eapply crash_prefix_touches; [apply touches_write_file | eassumption].
        * exists q. split; assumption.
  Qed.

  Lemma two_file_invariant (f : fs) lens chunks p c0 : f Cur = Some c0 ->
    crash_prefix (checkpoint_steps true f lens chunks) p ->
    exec f p Cur = Some c0 \/ exec f p Old = Some c0.
  Proof.
    intros Hf Hp. destruct (documented_crash_states f lens chunks p c0 Hf Hp) as [H | [H _]]; auto.
  Qed.

  Lemma checkpoint_completes (f : fs) lens chunks c0 : f Cur = Some c0 ->
    exec f (checkpoint_steps true f lens chunks) Cur = Some (concat chunks) /\
    exec f (checkpoint_steps true f lens chunks) Old = Some c0.
  Proof.
    intros Hf. unfold Checkpoint.checkpoint_steps.
    rewrite (copy_phase_documented f lens c0 Hf), exec_app. split.
    - apply exec_write_file.
    - rewrite (exec_other Cur); [| apply touches_write_file | discriminate].
      rewrite exec_write_file, concat_split_by. reflexivity.
  Qed.

  (* ---------- a run of checkpoints ---------- *)
  Definition io_content (io : ckpt_io B) : content := concat (io_chunks B io).
  (* crash anywhere in a run of checkpoints: j checkpoints completed, the crash is inside the next one (or the run
     is over), and a complete copy of checkpoint j survives in one of the two files *)
  Lemma run_invariant (news : list (ckpt_io B)) : forall (f : fs) c0 p, f Cur = Some c0 ->
    crash_prefix (run_steps true f news) p ->
    exists j p', j <= length news /\
      p = run_steps true f (firstn j news) ++ p' /\
      crash_prefix (run_steps true (exec f (run_steps true f (firstn j news))) (firstn 1 (skipn j news))) p' /\
      (exec f p Cur = Some (nth j (c0 :: map io_content news) c0) \/
       exec f p Old = Some (nth j (c0 :: map io_content news) c0)).
  Proof.
    induction news as [|io r IH]; intros f c0 p Hf Hp.
    - cbn in Hp. inversion Hp; subst. exists 0, []. cbn. repeat split; [lia | constructor | left; assumption].
    - cbn [Checkpoint.run_steps] in Hp.
      destruct (crash_prefix_app _ _ _ Hp) as [H1 | [p2 [-> H2]]].
      + exists 0, p. cbn [firstn skipn Checkpoint.run_steps app nth]. repeat split.
        * lia.
        * rewrite app_nil_r. assumption.
        * apply (two_file_invariant f _ _ p c0 Hf H1).
      + destruct (checkpoint_completes f (io_copy_lens B io) (io_chunks B io) c0 Hf) as [HC _].
        destruct (IH _ _ _ HC H2) as [j [p' [Hj [-> [Hcp Hinv]]]]].
        exists (S j), p'. cbn [firstn skipn Checkpoint.run_steps length].
        repeat split.
        * lia.
        * rewrite <- app_assoc. reflexivity.
        * rewrite exec_app. assumption.
        * rewrite exec_app.
          change (nth (S j) (c0 :: map io_content (io :: r)) c0) with (nth j (io_content io :: map io_content r) c0).
          rewrite (nth_indep (io_content io :: map io_content r) c0 (io_content io)).
          -- exact Hinv.
          -- cbn. rewrite map_length. lia.
  Qed.

  (* ---------- the procedure as coded (backup stream opened under the main name) ---------- *)
  Lemma copy_phase_as_coded (f : fs) lens : copy_phase false f lens = write_file Cur [].
  Proof.
    unfold Checkpoint.copy_phase. cbn. destruct lens; reflexivity.
  Qed.

  (* the backup file is never written, and from the first step on the main file holds only a prefix of the new
     stream: every crash point strictly inside the checkpoint loses the previous checkpoint *)
  Lemma as_coded_crash_states (f : fs) lens chunks p :
    crash_prefix (checkpoint_steps false f lens chunks) p ->
    exec f p Old = f Old /\
    (p = [] \/ exists q, exec f p Cur = Some q /\ is_prefix q (concat chunks)).
  Proof.
    intros Hp. unfold Checkpoint.checkpoint_steps in Hp. rewrite copy_phase_as_coded in Hp.
    assert (HT : touches_only Cur (write_file Cur [] ++ write_file Cur chunks)).
    { apply Forall_app; split; apply touches_write_file. }
    split.
    - apply (exec_other Cur); [| discriminate].
      eapply crash_prefix_touches; eassumption.
    - destruct (crash_prefix_app _ _ _ Hp) as [H1 | [p2 [-> H2]]].
      + destruct (crash_write_file f Cur [] p H1) as [-> | [q [Hq [r Hr]]]]; [left; reflexivity|].
        right. exists q. split; [assumption|].
        cbn in Hr. symmetry in Hr. apply app_eq_nil in Hr. destruct Hr as [-> _]. exists (concat chunks). reflexivity.
      + right. rewrite exec_app.
        destruct (crash_write_file (exec f (write_file Cur [])) Cur chunks p2 H2) as [-> | [q [Hq Hpre]]].
        * exists []. split; [| exists (concat chunks); reflexivity].
          reflexivity.
        * exists q. split; assumption.
  Qed.

  Lemma as_coded_refuted (f : fs) lens chunks c0 :
    f Cur = Some c0 -> f Old = None ->
    exists p, crash_prefix (checkpoint_steps false f lens chunks) p /\
              exec f p Cur = Some [] /\ exec f p Old = None.
  Proof.
    intros Hc Ho. exists [OpenTrunc Cur]. split; [|split].
    - unfold Checkpoint.checkpoint_steps. rewrite copy_phase_as_coded. cbn. repeat constructor.
    - reflexivity.
    - cbn. assumption.
  Qed.

  (* ---------- the initial checkpoint written by a restarted process ---------- *)
  Lemma initial_as_coded_refuted (f : fs) chunks ck ckprev :
    f Cur = Some ck -> f Old = Some ckprev ->
    exists p, crash_prefix (initial_steps false true chunks) p /\
              exec f p Cur = Some [] /\ exec f p Old = Some ckprev.
  Proof.
    intros Hc Ho. exists [OpenTrunc Cur]. split; [|split].
    - cbn. repeat constructor.
    - reflexivity.
    - cbn. assumption.
  Qed.

  Lemma initial_repaired (f : fs) chunks recovered_main p :
    crash_prefix (initial_steps true recovered_main chunks) p ->
    exec f p Old = f Old /\ (recovered_main = true -> exec f p Cur = f Cur).
  Proof.
    intros Hp. destruct recovered_main; cbn in Hp.
    - apply crash_prefix_nil_inv in Hp. subst p. split; [reflexivity | reflexivity].
    - split; [| discriminate].
      apply (exec_other Cur); [| discriminate].
      eapply crash_prefix_touches; [apply touches_write_file | eassumption].
  Qed.

  Lemma initial_keeps_backup (f : fs) skip recovered_main chunks p :
    crash_prefix (initial_steps skip recovered_main chunks) p -> exec f p Old = f Old.
  Proof.
    intros Hp. unfold Checkpoint.initial_steps in Hp.
    destruct (skip && recovered_main).
    - apply crash_prefix_nil_inv in Hp. subst p. reflexivity.
    - apply (exec_other Cur); [| discriminate].
      eapply crash_prefix_touches; [apply touches_write_file | eassumption].
  Qed.

  (* ---------- recovery ---------- *)
  Section Recovery.
    Variable St : Type.
    Variable reader : content -> routcome St.
    Variable ser : St -> content.
    (* H-TORN (checked at run time against the real reader on every strict prefix of sample checkpoints) *)
    Hypothesis H_roundtrip : forall s, reader (ser s) = ROk St s.
    Hypothesis H_torn : forall s q r, ser s = q ++ r -> r <> [] -> forall s', reader q <> ROk St s'.

    Notation recover_as_coded := (recover_as_coded B St reader).
    Notation recover_repaired := (recover_repaired B St reader).

    Lemma prefix_cases (q c : content) : is_prefix q c -> q = c \/ exists r, c = q ++ r /\ r <> [].
    Proof.
      intros [r Hr]. destruct r as [|x r].
      - left. rewrite app_nil_r in Hr. congruence.
      - right. exists (x :: r). split; [assumption | discriminate].
    Qed.

    Lemma recovery_after_crash (f : fs) lens chunks p s0 s1 :
      f Cur = Some (ser s0) -> concat chunks = ser s1 ->
      crash_prefix (checkpoint_steps true f lens chunks) p ->
      recover_as_coded (exec f p) = (GLoaded St s0, FromCur) \/
      recover_as_coded (exec f p) = (GLoaded St s1, FromCur) \/
      recover_as_coded (exec f p) = (GLoaded St s0, FromOld).
    Proof.
      intros Hf Hnew Hp.
      destruct (documented_crash_states f lens chunks p (ser s0) Hf Hp) as [HC | [HO [q [HC Hpre]]]].
      - left. unfold Checkpoint.recover_as_coded, Checkpoint.attempt. rewrite HC, H_roundtrip. reflexivity.
      - rewrite Hnew in Hpre. destruct (prefix_cases _ _ Hpre) as [-> | [r [Hr Hne]]].
        + right; left. unfold Checkpoint.recover_as_coded, Checkpoint.attempt. rewrite HC, H_roundtrip. reflexivity.
        + right; right. unfold Checkpoint.recover_as_coded, Checkpoint.attempt. rewrite HC.
          pose proof (H_torn s1 q r Hr Hne) as Hrej.
          destruct (reader q) as [s'| |] eqn:E.
          * exfalso. apply (Hrej s'). reflexivity.
          * rewrite HO, H_roundtrip. reflexivity.
          * rewrite HO, H_roundtrip. reflexivity.
    Qed.

    (* the same holds with the repaired recovery, and the repaired recovery never hands an emptied grid on *)
    Lemma recover_repaired_eq (f : fs) g src : recover_as_coded f = (g, src) -> src <> FromNothing ->
      recover_repaired f = (g, src).
    Proof.
      intros H Hs. unfold Checkpoint.recover_repaired. rewrite H. destruct src; try reflexivity. congruence.
    Qed.

    Lemma recover_repaired_never_cleared (f : fs) : fst (recover_repaired f) <> GCleared St.
    Proof.
      unfold Checkpoint.recover_repaired, Checkpoint.recover_as_coded, Checkpoint.attempt.
      destruct (f Cur) as [c|]; [destruct (reader c) | ]; cbn;
        destruct (f Old) as [c'|]; try destruct (reader c'); cbn; discriminate.
    Qed.

    (* as coded: a crash while a fresh run writes its first checkpoint can leave a file whose magic is intact; the
       failed read has then already emptied the caller's grid, and the restart does not "start over" *)
    Lemma recover_as_coded_fresh_refuted q r s0 :
      ser s0 = q ++ r -> reader q = RFailCleared St ->
      exists chunks p, concat chunks = ser s0 /\
                crash_prefix (initial_steps false false chunks) p /\
                recover_as_coded (exec (fs_empty B) p) = (GCleared St, FromNothing).
    Proof.
      intros Hq Hr. exists [q; r], [OpenTrunc Cur; Append Cur q]. split; [|split].
      - cbn. rewrite app_nil_r. symmetry. assumption.
      - cbn. constructor. constructor. constructor.
      - unfold Checkpoint.recover_as_coded, Checkpoint.attempt. cbn. rewrite Hr. reflexivity.
    Qed.
  End Recovery.

  (* ---------- recomputation after the restart ---------- *)
  Section Recompute.
    Variable X : Type.
    Variable sample : nat -> X.            (* the sample obtained by model call number i (i >= 1) of the killed process *)
    Definition contained (j : nat) (x : X) : Prop := exists i, 1 <= i <= j /\ sample i = x.
    (* checkpoint j holds the samples of calls 1..j; the restart never asks for a sample its recovered state holds *)
    Lemma recompute_bound (k j : nat) (redo : list X) :
      k <= j -> (forall x, In x redo -> ~ contained j x) ->
      forall x i, In x redo -> 1 <= i -> sample i = x -> k < i.
    Proof.
      intros Hkj Hno x i Hin Hi Hs.
      destruct (Nat.lt_ge_cases k i) as [H|H]; [assumption|].
      exfalso. apply (Hno x Hin). exists i. split; [lia | assumption].
    Qed.
  End Recompute.
End FilesProofs.

(* ------------------------------------------------------------------------------------------------------------ *)
Section BytesProofs.
  Local Open Scope N_scope.

  Lemma enc_le_length k n : length (enc_le k n) = k.
  Proof. revert n; induction k; intros n; cbn; [reflexivity | rewrite IHk; reflexivity]. Qed.

  Lemma dec_enc_le k n : dec_le (enc_le k n) = n mod 256 ^ (N.of_nat k).
  Proof.
    revert n; induction k as [|k IH]; intros n.
    - cbn. rewrite N.mod_1_r. reflexivity.
    - cbn [enc_le dec_le]. rewrite IH.
      rewrite Nat2N.inj_succ, N.pow_succ_r'.
      rewrite N.mod_mul_r; [reflexivity | discriminate | apply N.pow_nonzero; discriminate].
  Qed.

  Lemma dec_enc_le8 n : n < 256 ^ 8 -> dec_le (enc_le 8 n) = n.
  Proof. intros H. rewrite dec_enc_le. apply N.mod_small. exact H. Qed.

  Lemma take_exact_app n (a b : list byte) : N.of_nat (length a) = n -> take_exact n (a ++ b) = Some (a, b).
  Proof.
    intros H. unfold take_exact. rewrite app_length.
    replace (N.leb n (N.of_nat (length a + length b))) with true by (symmetry; apply N.leb_le; lia).
    rewrite <- H, Nat2N.id. rewrite firstn_app, Nat.sub_diag, firstn_all, skipn_app, Nat.sub_diag, skipn_all.
    cbn. rewrite app_nil_r. reflexivity.
  Qed.

  Lemma take_exact_short n (l : list byte) : N.of_nat (length l) < n -> take_exact n l = None.
  Proof.
    intros H. unfold take_exact.
    replace (N.leb n (N.of_nat (length l))) with false by (symmetry; apply N.leb_gt; lia). reflexivity.
  Qed.

  (* well-formed storage: whole doubles, counts representable in a size_t *)
  Definition wf_storage (s : storage) : Prop :=
    exists a b : nat, length (st_points s) = (8 * a)%nat /\ length (st_values s) = (8 * b)%nat /\
                      N.of_nat a < 256 ^ 8 /\ N.of_nat b < 256 ^ 8.

  Lemma of_nat_8_div a : N.of_nat (8 * a) / 8 = N.of_nat a.
  Proof.
    rewrite Nat2N.inj_mul. change (N.of_nat 8) with 8.
    rewrite N.mul_comm. apply N.div_mul. discriminate.
  Qed.

  Lemma of_nat_8_mul a : N.of_nat (8 * a) = 8 * N.of_nat a.
  Proof. rewrite Nat2N.inj_mul. reflexivity. Qed.

  Lemma storage_read_enc s rest : wf_storage s -> storage_read (enc_storage s ++ rest) = Some (s, rest).
  Proof.
    intros [a [b [Ha [Hb [La Lb]]]]]. destruct s as [pts vals]. cbn [st_points st_values] in *.
    unfold enc_storage, storage_read. cbn [st_points st_values].
    rewrite Ha, Hb, !of_nat_8_div.
    rewrite <- !app_assoc.
    rewrite (take_exact_app 8) by (rewrite enc_le_length; reflexivity).
    rewrite (take_exact_app 8) by (rewrite enc_le_length; reflexivity).
    rewrite !dec_enc_le8 by assumption.
    rewrite (take_exact_app (8 * N.of_nat a)) by (rewrite Ha; apply of_nat_8_mul).
    rewrite (take_exact_app (8 * N.of_nat b)) by (rewrite Hb; apply of_nat_8_mul).
    reflexivity.
  Qed.

  (* splitting  p ++ r = a ++ b  when p is at least as long as a *)
  Lemma app_split_long (p r a b : list byte) : p ++ r = a ++ b -> (length a <= length p)%nat ->
    exists p', p = a ++ p' /\ b = p' ++ r.
  Proof.
    intros H L. apply app_eq_app in H. destruct H as [l [[H1 H2] | [H1 H2]]].
    - exists l. split; assumption.
    - assert (l = []).
      { subst a. rewrite app_length in L. destruct l; [reflexivity | cbn in L; lia]. }
      subst l. rewrite app_nil_r in H1. cbn in H2. exists []. subst. rewrite app_nil_r. split; reflexivity.
  Qed.

  Lemma take_exact_prefix n (p r a b : list byte) : N.of_nat (length a) = n -> p ++ r = a ++ b ->
    take_exact n p = None \/ exists p', take_exact n p = Some (a, p') /\ b = p' ++ r.
  Proof.
    intros La H. destruct (Nat.lt_ge_cases (length p) (length a)) as [L|L].
    - left. apply take_exact_short. lia.
    - right. destruct (app_split_long p r a b H) as [p' [-> Hb]]; [lia|].
      exists p'. split; [apply take_exact_app; assumption | assumption].
  Qed.

  (* the model reader rejects every strict prefix of a well-formed storage section *)
  Lemma storage_prefix_rejected s p r : wf_storage s -> enc_storage s = p ++ r -> r <> [] -> storage_read p = None.
  Proof.
    intros [a [b [Ha [Hb [La Lb]]]]] H Hr. destruct s as [pts vals]. cbn [st_points st_values] in *.
    unfold enc_storage in H. cbn [st_points st_values] in H.
    rewrite Ha, Hb, !of_nat_8_div in H. symmetry in H.
    unfold storage_read.
    assert (E8 : forall n, N.of_nat (length (enc_le 8 n)) = 8) by (intros n; rewrite enc_le_length; reflexivity).
    destruct (take_exact_prefix 8 p r _ _ (E8 _) H) as [-> | [p1 [-> H1]]]; [reflexivity|].
    symmetry in H1.
    destruct (take_exact_prefix 8 p1 r _ _ (E8 _) H1) as [-> | [p2 [-> H2]]]; [reflexivity|].
    rewrite !dec_enc_le8 by assumption.
    symmetry in H2.
    assert (Ha' : N.of_nat (length pts) = 8 * N.of_nat a) by (rewrite Ha; apply of_nat_8_mul).
    destruct (take_exact_prefix (8 * N.of_nat a) p2 r _ _ Ha' H2) as [-> | [p3 [-> H3]]]; [reflexivity|].
    symmetry in H3.
    assert (L : N.of_nat (length p3) < 8 * N.of_nat b).
    { apply (f_equal (@length byte)) in H3. rewrite app_length in H3.
      destruct r; [congruence | cbn in H3; lia]. }
    rewrite (take_exact_short _ _ L). reflexivity.
  Qed.

  (* whole checkpoint = grid section ++ storage section, the grid section reader being abstract *)
  Section Framing.
    Variable G : Type.
    Variable grid_read : list byte -> option (G * list byte).
    Variable genc : G -> list byte.
    Hypothesis G_roundtrip : forall g rest, grid_read (genc g ++ rest) = Some (g, rest).
    Hypothesis G_torn : forall g p r, genc g = p ++ r -> r <> [] -> grid_read p = None.

    Definition ckpt_enc (g : G) (s : storage) : list byte := genc g ++ enc_storage s.

    Lemma ckpt_read_enc g s : wf_storage s -> ckpt_read G grid_read (ckpt_enc g s) = Some (g, s).
    Proof.
      intros W. unfold ckpt_read, ckpt_enc. rewrite G_roundtrip.
      rewrite <- (app_nil_r (enc_storage s)). rewrite storage_read_enc by assumption. reflexivity.
    Qed.

    Lemma ckpt_prefix_rejected g s p r : wf_storage s -> ckpt_enc g s = p ++ r -> r <> [] ->
      ckpt_read G grid_read p = None.
    Proof.
      intros W H Hr. unfold ckpt_enc in H. unfold ckpt_read.
      destruct (Nat.lt_ge_cases (length p) (length (genc g))) as [L|L].
      - (* the prefix ends inside the grid section *)
        symmetry in H. apply app_eq_app in H. destruct H as [l [[H1 H2] | [H1 H2]]].
        + subst p. rewrite app_length in L. lia.
        + rewrite (G_torn g p l H1); [reflexivity|].
          intros ->. rewrite app_nil_r in H1. rewrite H1 in L. lia.
      - symmetry in H. destruct (app_split_long p r _ _ H L) as [p' [-> Hs]].
        rewrite G_roundtrip. rewrite (storage_prefix_rejected s p' r W Hs Hr). reflexivity.
    Qed.
  End Framing.
End BytesProofs.

(* ------------------------------------------------------------------------------------------------------------
   the step lists used by the correspondence function [follow] are instances of the modelled procedure         *)
Section ConformanceProofs.
  Variable B : Type.

  Lemma expect_write_is_write_file n (c : content B) obs :
    exists lens, fst (expect_write B n c obs) = write_file B n (split_by B lens c).
  Proof.
    unfold expect_write. destruct (take_writes (tl obs)) as [lens rest]. exists lens. reflexivity.
  Qed.

  Lemma expect_ckpt_is_checkpoint b2o (f : fs B) (c : content B) obs :
    exists l1 l2, expect_ckpt B b2o f c obs = checkpoint_steps B b2o f l1 (split_by B l2 c).
  Proof.
    unfold expect_ckpt, expect_write, checkpoint_steps, copy_phase.
    destruct (take_writes (tl obs)) as [l1 rest1].
    destruct (take_writes (tl (tl rest1))) as [l2 rest2].
    exists l1, l2. reflexivity.
  Qed.

  (* a killed process: the state predicted by [follow] is a crash state of the modelled checkpoint, with the
     stream cut into chunks whose concatenation is the checkpoint content *)
  Lemma follow_crash_state b2o (f : fs B) (c : content B) obs n :
    exists l1 chunks, concat chunks = c /\
      crash_prefix B (checkpoint_steps B b2o f l1 chunks) (firstn n (expect_ckpt B b2o f c obs)).
  Proof.
    destruct (expect_ckpt_is_checkpoint b2o f c obs) as [l1 [l2 E]].
    exists l1, (split_by B l2 c). split; [apply concat_split_by|].
    rewrite E. apply crash_prefix_firstn.
  Qed.
End ConformanceProofs.
