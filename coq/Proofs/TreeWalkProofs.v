(* Proofs about the evaluation-tree model (Model/TreeWalk.v), C04 tree walk:
   1. one-dimensional support nesting along kid edges (four binary rules, every order);
   2. the tensor basis: isSupported = all directions supported, value = product of evalRaw, zero when not supported;
   3. buildTree: fuel never runs out, every point is in the forest exactly once, every tree edge is an edge of computeDAGDown;
   4. walkTree: visits exactly the supported points, in depth-first order, each once; evaluate = dense sum; sparse row = dense row. *)
From TV Require Import Common.Prelude Model.IndexSets Model.RuleLocal Model.Selection Model.LocalGrid Model.TreeWalk.
From TV Require Import Proofs.RuleLocalProofs Proofs.SelectionProofs Proofs.LocalGridProofs Proofs.LocalTree1D.
From Coq Require Import QArith Qabs Lqa Permutation.
Local Open Scope Z_scope.

(* ------------------------------------------------------------------------------------------------------------ *)
(* 1. one-dimensional facts *)

Definition supp1 (r : erule) (o p : Z) (x : Q) : bool := snd (evalSupport r o p x).

Lemma Qabs_le_1_iff y : Qabs_le_1 y = true <-> (-1 <= y <= 1)%Q.
Proof.
  unfold Qabs_le_1. rewrite Qle_bool_iff. split.
  - intros H. apply Qabs_Qle_condition in H. exact H.
  - intros H. apply Qabs_Qle_condition. exact H.
Qed.

Lemma evalSupport_fst r o p x : fst (evalSupport r o p x) = evalRaw r o p x.
Proof.
  destruct r; unfold evalSupport, evalRaw; cbn [fst].
  - reflexivity.
  - destruct (p =? 0); [reflexivity|]. destruct (Qabs_le_1 _); reflexivity.
  - destruct (p =? 0); [reflexivity|]. destruct (p =? 1); [reflexivity|]. destruct (p =? 2); [reflexivity|].
    destruct (Qabs_le_1 _); reflexivity.
  - destruct (Qabs_le_1 _); reflexivity.
  - destruct (Qabs_le_1 _); reflexivity.
Qed.

(* the value returned with isSupported = false is 0.0 *)
Lemma unsupported_value_zero r o p x : binary_rule r -> supp1 r o p x = false -> evalRaw r o p x = 0%Q.
Proof.
  intros Hr. rewrite <- evalSupport_fst. unfold supp1. destruct r; try (exfalso; apply Hr; reflexivity); unfold evalSupport.
  - destruct (p =? 0); [discriminate|]. destruct (Qabs_le_1 _); [discriminate|reflexivity].
  - destruct (p =? 0); [discriminate|]. destruct (p =? 1); [discriminate|]. destruct (p =? 2); [discriminate|].
    destruct (Qabs_le_1 _); [discriminate|reflexivity].
  - destruct (Qabs_le_1 _); [discriminate|reflexivity].
  - destruct (Qabs_le_1 _); [discriminate|reflexivity].
Qed.

(* isSupported of a point evaluated through the scaled coordinate *)
Lemma supp1_scaled r o p x : scaled_point r p -> supp1 r o p x = Qabs_le_1 (scaleX r p x).
Proof.
  unfold supp1. destruct r; cbn [scaled_point]; intros Hp; try contradiction; unfold evalSupport.
  - assert (p =? 0 = false) as -> by lia. destruct (Qabs_le_1 _); reflexivity.
  - assert (p =? 0 = false) as -> by lia. assert (p =? 1 = false) as -> by lia. assert (p =? 2 = false) as -> by lia.
    destruct (Qabs_le_1 _); reflexivity.
  - destruct (Qabs_le_1 _); reflexivity.
  - destruct (Qabs_le_1 _); reflexivity.
Qed.

Lemma supp1_reg r o p x : regular r p ->
  supp1 r o p x = true <-> (-1 <= zq (2 ^ Z.log2 (hidx r p)) * (x + 3) - zq (2 * hidx r p + 1) <= 1)%Q.
Proof.
  intros Hp. rewrite (supp1_scaled r o p x (regular_scaled r p Hp)), Qabs_le_1_iff, (scaleX_reg r p x Hp). reflexivity.
Qed.

(* the kids of a regular point in heap numbering: 2h and 2h+1 *)
Lemma kid_regular r p k : regular r p -> (k = 0 \/ k = 1) ->
  regular r (getKid r p k) /\ hidx r (getKid r p k) = 2 * hidx r p + k.
Proof.
  intros [Hr H] Hk. unfold regular. destruct r; cbn [hlo hidx] in *; try congruence; unfold getKid.
  - assert (p =? 0 = false) as -> by lia. assert (p =? 1 = false) as -> by lia. assert (p =? 2 = false) as -> by lia. cbn [orb].
    destruct Hk as [-> | ->]; cbn [Z.eqb]; (split; [split; [discriminate|lia]|lia]).
  - assert (p =? 0 = false) as -> by lia. assert (p =? 1 = false) as -> by lia. assert (p =? 2 = false) as -> by lia. cbn [orb].
    destruct Hk as [-> | ->]; cbn [Z.eqb]; (split; [split; [discriminate|lia]|lia]).
  - destruct Hk as [-> | ->]; cbn [Z.eqb]; (split; [split; [discriminate|lia]|lia]).
  - assert (p =? 0 = false) as -> by lia. assert (p =? 1 = false) as -> by lia. cbn [orb].
    destruct Hk as [-> | ->]; cbn [Z.eqb]; (split; [split; [discriminate|lia]|lia]).
Qed.

Lemma log2_kid h k : 1 <= h -> (k = 0 \/ k = 1) -> 2 ^ Z.log2 (2 * h + k) = 2 * 2 ^ Z.log2 h.
Proof.
  intros Hh [-> | ->].
  - rewrite Z.add_0_r, Z.log2_double by lia. rewrite Z.pow_succ_r by apply Z.log2_nonneg. reflexivity.
  - rewrite Z.log2_succ_double by lia. rewrite Z.pow_succ_r by apply Z.log2_nonneg. reflexivity.
Qed.

Lemma nest_regular r o p k x : regular r p -> (k = 0 \/ k = 1) ->
  supp1 r o (getKid r p k) x = true -> supp1 r o p x = true.
Proof.
  intros Hp Hk. destruct (kid_regular r p k Hp Hk) as [Hc Hh].
  rewrite (supp1_reg r o _ x Hc), (supp1_reg r o p x Hp), Hh.
  pose proof (regular_idx r p Hp) as H1. rewrite (log2_kid _ _ H1 Hk).
  set (h := hidx r p) in *. set (A := 2 ^ Z.log2 h).
  assert (E1 : (zq (2 * A) == 2 * zq A)%Q) by (rewrite zq_mult; change (zq 2) with 2%Q; ring).
  assert (E2 : (zq (2 * (2 * h + k) + 1) == 4 * zq h + 2 * zq k + 1)%Q).
  { replace (2 * (2 * h + k) + 1) with (4 * h + (2 * k + 1)) by lia. rewrite !zq_add, !zq_mult. change (zq 4) with 4%Q. change (zq 2) with 2%Q. change (zq 1) with 1%Q. ring. }
  assert (E3 : (zq (2 * h + 1) == 2 * zq h + 1)%Q) by (rewrite zq_add, zq_mult; change (zq 2) with 2%Q; change (zq 1) with 1%Q; ring).
  rewrite E1, E2, E3.
  assert (Hk' : (zq k == 0 \/ zq k == 1)%Q) by (destruct Hk as [-> | ->]; [left|right]; reflexivity).
  intros [L U]. destruct Hk' as [Ek|Ek]; rewrite Ek in L, U; split; lra.
Qed.

(* (b) one-dimensional support nesting: supported at a kid => supported at the parent; every order *)
Theorem nest1d r o p k x : binary_rule r -> 0 <= p -> (k = 0 \/ k = 1) -> getKid r p k <> -1 ->
  supp1 r o (getKid r p k) x = true -> supp1 r o p x = true.
Proof.
  intros Hr Hp Hk Hkid. destruct r; try (exfalso; apply Hr; reflexivity).
  - (* localp: 0 constant, 1 and 2 the level-one hats *)
    destruct (Z.eq_dec p 0) as [->|N0]; [intros _; reflexivity|].
    destruct (Z.eq_dec p 1) as [->|N1].
    { destruct Hk as [-> | ->]; [|exfalso; apply Hkid; reflexivity].
      change (getKid Localp 1 0) with 3. rewrite (supp1_reg Localp o 3 x) by (split; [discriminate|cbn; lia]).
      rewrite (supp1_scaled Localp o 1 x) by (cbn; lia). rewrite Qabs_le_1_iff.
      change (scaleX Localp 1 x) with (x + 1)%Q. change (zq (2 ^ Z.log2 (hidx Localp 3))) with 2%Q. change (zq (2 * hidx Localp 3 + 1)) with 5%Q.
      intros [L U]. split; lra. }
    destruct (Z.eq_dec p 2) as [->|N2].
    { destruct Hk as [-> | ->]; [|exfalso; apply Hkid; reflexivity].
      change (getKid Localp 2 0) with 4. rewrite (supp1_reg Localp o 4 x) by (split; [discriminate|cbn; lia]).
      rewrite (supp1_scaled Localp o 2 x) by (cbn; lia). rewrite Qabs_le_1_iff.
      change (scaleX Localp 2 x) with (x - 1)%Q. change (zq (2 ^ Z.log2 (hidx Localp 4))) with 2%Q. change (zq (2 * hidx Localp 4 + 1)) with 7%Q.
      intros [L U]. split; lra. }
    apply nest_regular; [split; [discriminate|cbn; lia]|exact Hk].
  - (* semi-localp: 0, 1, 2 are global *)
    destruct (Z.eq_dec p 0) as [->|N0]; [intros _; reflexivity|].
    destruct (Z.eq_dec p 1) as [->|N1]; [intros _; reflexivity|].
    destruct (Z.eq_dec p 2) as [->|N2]; [intros _; reflexivity|].
    apply nest_regular; [split; [discriminate|cbn; lia]|exact Hk].
  - apply nest_regular; [split; [discriminate|cbn; lia]|exact Hk].
  - (* localpb: 0 and 1 are the level-zero boundary hats of radius 2, both parents of 2 *)
    destruct (Z.eq_dec p 0) as [->|N0].
    { destruct Hk as [-> | ->]; [|exfalso; apply Hkid; reflexivity].
      change (getKid Localpb 0 0) with 2. rewrite (supp1_reg Localpb o 2 x) by (split; [discriminate|cbn; lia]).
      rewrite (supp1_scaled Localpb o 0 x) by (cbn; lia). rewrite Qabs_le_1_iff.
      change (scaleX Localpb 0 x) with ((x + 1) / 2)%Q. change (zq (2 ^ Z.log2 (hidx Localpb 2))) with 1%Q. change (zq (2 * hidx Localpb 2 + 1)) with 3%Q.
      intros [L U]. split; [apply Qle_shift_div_l|apply Qle_shift_div_r]; lra. }
    destruct (Z.eq_dec p 1) as [->|N1].
    { destruct Hk as [-> | ->]; [|exfalso; apply Hkid; reflexivity].
      change (getKid Localpb 1 0) with 2. rewrite (supp1_reg Localpb o 2 x) by (split; [discriminate|cbn; lia]).
      rewrite (supp1_scaled Localpb o 1 x) by (cbn; lia). rewrite Qabs_le_1_iff.
      change (scaleX Localpb 1 x) with ((x - 1) / 2)%Q. change (zq (2 ^ Z.log2 (hidx Localpb 2))) with 1%Q. change (zq (2 * hidx Localpb 2 + 1)) with 3%Q.
      intros [L U]. split; [apply Qle_shift_div_l|apply Qle_shift_div_r]; lra. }
    apply nest_regular; [split; [discriminate|cbn; lia]|exact Hk].
Qed.

(* ------------------------------------------------------------------------------------------------------------ *)
(* 2. the tensor basis *)

Section Tensor.
  Variable r : erule.
  Variable o : Z.

  Lemma basis_from_spec : forall pt x f,
    snd (basis_from r o f pt x) = supp_all r o pt x /\
    (supp_all r o pt x = true -> (fst (basis_from r o f pt x) == f * basisQ r o pt x)%Q) /\
    (supp_all r o pt x = false -> fst (basis_from r o f pt x) = 0%Q).
  Proof.
    induction pt as [|p pt IH]; intros x f.
    { cbn. split; [reflexivity|]. split; [intros _; ring|discriminate]. }
    destruct x as [|t x].
    { cbn. split; [reflexivity|]. split; [intros _; ring|discriminate]. }
    cbn [basis_from supp_all basisQ]. rewrite <- (evalSupport_fst r o p t).
    destruct (evalSupport r o p t) as [v s]. cbn [fst snd]. destruct s; cbn [andb].
    - destruct (IH x (f * v)%Q) as (I1 & I2 & I3). split; [exact I1|]. split; [|exact I3].
      intros H. rewrite (I2 H). ring.
    - cbn. split; [reflexivity|]. split; [discriminate|reflexivity].
  Qed.

  (* isSupported of evalBasisSupported = every direction supported; its value = the product of evalRaw (evalBasisRaw) *)
  Lemma basis_supported_flag pt x : snd (basis_supported r o pt x) = supp_all r o pt x.
  Proof.
    destruct pt as [|p pt]; [reflexivity|]. destruct x as [|t x]; [reflexivity|].
    cbn [basis_supported supp_all]. destruct (evalSupport r o p t) as [v s]. cbn [snd]. destruct s; cbn [andb]; [|reflexivity].
    apply basis_from_spec.
  Qed.

  Lemma basis_supported_value pt x : supp_all r o pt x = true -> (fst (basis_supported r o pt x) == basisQ r o pt x)%Q.
  Proof.
    destruct pt as [|p pt]; [reflexivity|]. destruct x as [|t x]; [reflexivity|].
    cbn [basis_supported supp_all basisQ]. rewrite <- (evalSupport_fst r o p t).
    destruct (evalSupport r o p t) as [v s]. cbn [fst snd]. destruct s; cbn [andb]; [|discriminate].
    intros H. destruct (basis_from_spec pt x v) as (_ & I2 & _). exact (I2 H).
  Qed.

  (* a point that is not supported in some direction has basis value zero (dense route) *)
  Lemma unsupported_basis_zero pt x : binary_rule r -> supp_all r o pt x = false -> (basisQ r o pt x == 0)%Q.
  Proof.
    intros Hr. revert x. induction pt as [|p pt IH]; intros x; [discriminate|]. destruct x as [|t x]; [discriminate|].
    cbn [supp_all basisQ]. fold (supp1 r o p t). destruct (supp1 r o p t) eqn:E; cbn [andb].
    - intros H. rewrite (IH x H). ring.
    - intros _. rewrite (unsupported_value_zero r o p t Hr E). ring.
  Qed.

  (* (b) support nesting along a DAG edge: the kid differs from the parent in one direction, by a 1-d kid *)
  Lemma supp_all_set_nth : forall pt dir c x, (dir < length pt)%nat ->
    (forall t, supp1 r o c t = true -> supp1 r o (nth dir pt 0) t = true) ->
    supp_all r o (set_nth pt dir c) x = true -> supp_all r o pt x = true.
  Proof.
    induction pt as [|p pt IH]; intros dir c x Hd Hn; [cbn in Hd; lia|].
    destruct dir as [|dir]; destruct x as [|t x]; cbn [set_nth supp_all nth]; try reflexivity.
    - cbn [nth] in Hn. fold (supp1 r o c t). fold (supp1 r o p t). intros H. apply andb_true_iff in H. destruct H as [H1 H2].
      rewrite (Hn t H1), H2. reflexivity.
    - intros H. apply andb_true_iff in H. destruct H as [H1 H2]. rewrite H1. cbn [andb].
      apply (IH dir c x); [cbn in Hd; lia|exact Hn|exact H2].
  Qed.

  Theorem nest_edge pt dir k x : binary_rule r -> Forall (fun p => 0 <= p) pt -> (dir < length pt)%nat -> (k = 0 \/ k = 1) ->
    getKid r (nth dir pt 0) k <> -1 ->
    supp_all r o (set_nth pt dir (getKid r (nth dir pt 0) k)) x = true -> supp_all r o pt x = true.
  Proof.
    intros Hr Hnn Hd Hk Hkid. apply supp_all_set_nth; [exact Hd|].
    intros t. apply nest1d; try assumption.
    rewrite Forall_forall in Hnn. apply Hnn. apply nth_In. exact Hd.
  Qed.
End Tensor.

(* ------------------------------------------------------------------------------------------------------------ *)
(* 3. buildTree *)

Local Open Scope nat_scope.

Lemma tree_ind2 (P : tree -> Prop) : (forall i ts, Forall P ts -> P (Node i ts)) -> forall t, P t.
Proof.
  intros H. fix IH 1. intros [i ts]. apply H. induction ts as [|t ts IHts]; constructor; [apply IH|exact IHts].
Qed.

Inductive tree_all (P : nat -> list tree -> Prop) : tree -> Prop :=
| TreeAll i ts : P i ts -> Forall (tree_all P) ts -> tree_all P (Node i ts).

(* every parent -> child pair of the tree is an entry of the kids table (computeDAGDown) *)
Definition edge_tree (kids : list (list (option nat))) : tree -> Prop :=
  tree_all (fun q ts => forall t', In t' ts -> In (Some (root t')) (nth q kids [])).

Definition tail_nodes (t : tree) : list nat := flat_map nodes (subtrees t).
Lemma nodes_root t : nodes t = root t :: tail_nodes t.
Proof. destruct t; reflexivity. Qed.

Fixpoint cnt (l : list bool) : nat := match l with [] => 0 | b :: l' => (if b then 1 else 0) + cnt l' end.

Lemma clear_at_length f : forall i, length (clear_at f i) = length f.
Proof. induction f as [|b f IH]; intros [|i]; cbn; try reflexivity. rewrite IH. reflexivity. Qed.

Lemma nth_clear_at f : forall i j, nth j (clear_at f i) false = if Nat.eqb j i then false else nth j f false.
Proof.
  induction f as [|b f IH]; intros i j.
  - destruct i; cbn; destruct j; destruct (Nat.eqb _ _); reflexivity.
  - destruct i as [|i]; destruct j as [|j]; cbn [clear_at nth]; try reflexivity.
    rewrite IH. reflexivity.
Qed.

Lemma cnt_clear_at f : forall i, nth i f false = true -> S (cnt (clear_at f i)) = cnt f.
Proof.
  induction f as [|b f IH]; intros [|i]; cbn [nth clear_at cnt]; try discriminate.
  - intros ->. reflexivity.
  - intros H. rewrite <- (IH i H). destruct b; cbn; lia.
Qed.

Lemma cnt_mono : forall f' f, length f' = length f -> (forall i, nth i f' false = true -> nth i f false = true) -> cnt f' <= cnt f.
Proof.
  induction f' as [|b f' IH]; intros [|c f] Hl H; cbn in *; try lia.
  assert (cnt f' <= cnt f) by (apply IH; [lia|intros i Hi; exact (H (S i) Hi)]).
  destruct b; [rewrite (H 0 eq_refl)|]; destruct c; cbn; lia.
Qed.

Lemma cnt_pos f i : nth i f false = true -> 1 <= cnt f.
Proof.
  revert i. induction f as [|b f IH]; intros [|i]; cbn; try discriminate.
  - intros ->. lia.
  - intros H. pose proof (IH i H). lia.
Qed.

Lemma nth_true_lt (f : list bool) i : nth i f false = true -> i < length f.
Proof. intros H. destruct (Nat.lt_ge_cases i (length f)) as [L|G]; [exact L|]. rewrite nth_overflow in H by exact G. discriminate. Qed.

Lemma nodup_app {A} (a b : list A) : NoDup a -> NoDup b -> (forall x, In x a -> ~ In x b) -> NoDup (a ++ b).
Proof.
  induction a as [|x a IH]; intros Ha Hb Hd; [exact Hb|]. cbn. inversion Ha; subst. constructor.
  - rewrite in_app_iff. intros [H|H]; [contradiction|]. apply (Hd x); [left; reflexivity|exact H].
  - apply IH; [assumption|assumption|]. intros y Hy. apply Hd. right. exact Hy.
Qed.

(* [free'] is [free] with exactly the (distinct, previously free) points [ns] taken *)
Definition vspec (free free' : list bool) (ns : list nat) : Prop :=
  length free' = length free /\
  (forall i, nth i free' false = true <-> nth i free false = true /\ ~ In i ns) /\
  NoDup ns /\ (forall i, In i ns -> nth i free false = true).

Lemma vspec_nil f : vspec f f [].
Proof. split; [reflexivity|]. split; [intros i; cbn; tauto|]. split; [constructor|intros i []]. Qed.

Lemma vspec_clear f c : nth c f false = true -> vspec f (clear_at f c) [c].
Proof.
  intros H. split; [apply clear_at_length|]. split; [|split; [repeat constructor; intros []|intros i [<-|[]]; exact H]].
  intros i. rewrite nth_clear_at. destruct (Nat.eqb_spec i c) as [->|N]; cbn.
  - split; [discriminate|]. intros [_ K]. exfalso. apply K. left. reflexivity.
  - split; [intros K; split; [exact K|intros [E|[]]; congruence]|intros [K _]; exact K].
Qed.

Lemma vspec_trans f0 f1 f2 a b : vspec f0 f1 a -> vspec f1 f2 b -> vspec f0 f2 (a ++ b).
Proof.
  intros (L1 & M1 & N1 & F1) (L2 & M2 & N2 & F2). split; [congruence|]. split; [|split].
  - intros i. rewrite M2, M1, in_app_iff. tauto.
  - apply nodup_app; [exact N1|exact N2|]. intros x Ha Hb. apply F2 in Hb. apply M1 in Hb. tauto.
  - intros i Hi. apply in_app_iff in Hi. destruct Hi as [Hi|Hi]; [apply F1; exact Hi|]. apply F2 in Hi. apply M1 in Hi. tauto.
Qed.

Lemma vspec_cnt f f' ns : vspec f f' ns -> cnt f' <= cnt f.
Proof. intros (L & M & _). apply cnt_mono; [exact L|]. intros i Hi. apply M in Hi. tauto. Qed.

Section Forest.
  Variable kids : list (list (option nat)).

  Definition rec_spec (rec : list bool -> nat -> list bool * tree * bool) : Prop :=
    forall free c free' t ok, rec free c = (free', t, ok) ->
      root t = c /\ edge_tree kids t /\ vspec free free' (tail_nodes t).

  Lemma visit_kids_spec rec : rec_spec rec -> forall l free free' ts ok, visit_kids rec l free = (free', ts, ok) ->
    vspec free free' (flat_map nodes ts) /\ Forall (edge_tree kids) ts /\ (forall t', In t' ts -> In (Some (root t')) l).
  Proof.
    intros Hrec. induction l as [|[c|] l IH]; intros free free' ts ok; cbn [visit_kids].
    - intros E. inversion E; subst. split; [apply vspec_nil|]. split; [constructor|intros t' []].
    - destruct (nth c free false) eqn:Ec.
      + destruct (rec (clear_at free c) c) as [[free1 t] ok1] eqn:E1.
        destruct (visit_kids rec l free1) as [[free2 ts'] ok2] eqn:E2. intros E. inversion E; subst.
        destruct (Hrec _ _ _ _ _ E1) as (R1 & R2 & R3). destruct (IH _ _ _ _ E2) as (I1 & I2 & I3).
        split; [|split].
        * cbn [flat_map]. rewrite nodes_root, R1. change (c :: tail_nodes t) with ([c] ++ tail_nodes t). rewrite <- app_assoc.
          apply (vspec_trans _ (clear_at free c)); [apply vspec_clear; exact Ec|]. apply (vspec_trans _ free1); assumption.
        * constructor; assumption.
        * intros t' [<-|Ht']; [left; rewrite R1; reflexivity|right; apply I3; exact Ht'].
      + intros E. destruct (IH _ _ _ _ E) as (I1 & I2 & I3). split; [exact I1|]. split; [exact I2|]. intros t' Ht'. right. apply I3. exact Ht'.
    - intros E. destruct (IH _ _ _ _ E) as (I1 & I2 & I3). split; [exact I1|]. split; [exact I2|]. intros t' Ht'. right. apply I3. exact Ht'.
  Qed.

  Lemma visit_spec : forall fuel, rec_spec (visit fuel kids).
  Proof.
    induction fuel as [|f IH]; intros free c free' t ok; cbn [visit].
    - intros E. inversion E; subst. split; [reflexivity|]. split; [constructor; [intros t' []|constructor]|apply vspec_nil].
    - destruct (visit_kids (visit f kids) (nth c kids []) free) as [[free1 ts] ok1] eqn:E1. intros E. inversion E; subst.
      destruct (visit_kids_spec _ IH _ _ _ _ _ E1) as (I1 & I2 & I3).
      split; [reflexivity|]. split; [constructor; [exact I3|exact I2]|exact I1].
  Qed.

  (* the fuel (number of points) is never exhausted: each descent takes a free point *)
  Lemma visit_kids_ok rec f : rec_spec rec -> (forall free c, cnt free < f -> snd (rec free c) = true) ->
    forall l free, cnt free <= f -> snd (visit_kids rec l free) = true.
  Proof.
    intros Hrec Hok. induction l as [|[c|] l IH]; intros free Hc; cbn [visit_kids]; [reflexivity| |apply IH; exact Hc].
    destruct (nth c free false) eqn:Ec; [|apply IH; exact Hc].
    pose proof (cnt_clear_at free c Ec) as Hcl.
    assert (Hlt : cnt (clear_at free c) < f) by lia.
    pose proof (Hok _ c Hlt) as O1.
    destruct (rec (clear_at free c) c) as [[free1 t] ok1] eqn:E1. cbn [snd] in O1. subst ok1.
    destruct (Hrec _ _ _ _ _ E1) as (_ & _ & R3). pose proof (vspec_cnt _ _ _ R3) as Hm.
    assert (H1 : cnt free1 <= f) by lia. pose proof (IH free1 H1) as O2.
    destruct (visit_kids rec l free1) as [[free2 ts'] ok2]. cbn [snd] in *. subst ok2. reflexivity.
  Qed.

  Lemma visit_ok : forall fuel free c, cnt free < fuel -> snd (visit fuel kids free c) = true.
  Proof.
    induction fuel as [|f IH]; intros free c Hc; [lia|]. cbn [visit].
    pose proof (visit_kids_ok (visit f kids) f (visit_spec f) IH (nth c kids []) free) as H.
    destruct (visit_kids (visit f kids) (nth c kids []) free) as [[free1 ts] ok1]. cbn [snd] in *. apply H. lia.
  Qed.

  (* the choice of the next root *)
  Lemma scan_root_some_stays : forall lv fr i a nl, scan_root i lv fr (Some a) nl <> None.
  Proof.
    induction lv as [|l lv IH]; intros [|f fr] i a nl; cbn [scan_root]; try discriminate.
    destruct (f && (l <? nl)%Z); apply IH.
  Qed.

  Lemma scan_root_none : forall lv fr i nl, scan_root i lv fr None nl = None ->
    forall j, nth j fr false = true -> j < length lv -> (nl <= nth j lv 0%Z)%Z.
  Proof.
    induction lv as [|l lv IH]; intros [|f fr] i nl H j Hj Hl; cbn [length] in *; try lia.
    { destruct j; discriminate. }
    cbn [scan_root] in H. destruct (f && (l <? nl)%Z) eqn:E.
    { exfalso. exact (scan_root_some_stays _ _ _ _ _ H). }
    destruct j as [|j]; cbn [nth] in *.
    - subst f. cbn in E. lia.
    - apply (IH fr (S i) nl H j Hj). lia.
  Qed.

  Lemma scan_root_free : forall lv fr i nr nl r, scan_root i lv fr nr nl = Some r ->
    nr = Some r \/ (i <= r /\ nth (r - i) fr false = true).
  Proof.
    induction lv as [|l lv IH]; intros [|f fr] i nr nl r; cbn [scan_root]; try (intros ->; left; reflexivity).
    destruct (f && (l <? nl)%Z) eqn:E; intros H; apply IH in H.
    - destruct H as [H|[H1 H2]].
      + inversion H; subst. right. split; [lia|]. rewrite Nat.sub_diag. cbn. apply andb_true_iff in E. tauto.
      + right. split; [lia|]. replace (r - i) with (S (r - S i)) by lia. exact H2.
    - destruct H as [H|[H1 H2]]; [left; exact H|]. right. split; [lia|]. replace (r - i) with (S (r - S i)) by lia. exact H2.
  Qed.

  Lemma roots_loop_spec lv top1 inner : (forall l, In l lv -> (l < top1)%Z) ->
    forall fuel free rt ts ok, roots_loop fuel inner kids lv top1 free rt = (ts, ok) ->
      length free = length lv -> nth rt free false = true -> cnt free <= fuel -> cnt free <= inner ->
      ok = true /\ Forall (edge_tree kids) ts /\ NoDup (flat_map nodes ts) /\
      (forall i, In i (flat_map nodes ts) <-> nth i free false = true).
  Proof.
    intros Hlv. induction fuel as [|f IH]; intros free rt ts ok E Hlen Hrt Hf Hin.
    { pose proof (cnt_pos _ _ Hrt). lia. }
    cbn [roots_loop] in E.
    pose proof (cnt_clear_at free rt Hrt) as Hcl.
    pose proof (visit_ok inner (clear_at free rt) rt ltac:(lia)) as Ok1.
    destruct (visit inner kids (clear_at free rt) rt) as [[free1 t] ok1] eqn:E1. cbn [snd] in Ok1. subst ok1.
    destruct (visit_spec inner _ _ _ _ _ E1) as (R1 & R2 & (L & M & N & F)).
    (* facts about the points of t *)
    assert (Hnodup : NoDup (nodes t)).
    { rewrite nodes_root, R1. constructor; [|exact N]. intros K. apply F in K. rewrite nth_clear_at, Nat.eqb_refl in K. discriminate. }
    assert (Hfree : forall i, In i (nodes t) -> nth i free false = true).
    { intros i. rewrite nodes_root, R1. intros [<-|K]; [exact Hrt|]. apply F in K. rewrite nth_clear_at in K. destruct (Nat.eqb i rt); [discriminate|exact K]. }
    assert (Hnot1 : forall i, In i (nodes t) -> nth i free1 false <> true).
    { intros i. rewrite nodes_root, R1. intros [<-|K] K1; apply M in K1; destruct K1 as [K1 K2].
      - rewrite nth_clear_at, Nat.eqb_refl in K1. discriminate.
      - contradiction. }
    assert (Hsplit : forall i, nth i free false = true -> In i (nodes t) \/ nth i free1 false = true).
    { intros i Hi. rewrite nodes_root, R1. destruct (Nat.eq_dec rt i) as [->|Ne]; [left; left; reflexivity|].
      destruct (in_dec Nat.eq_dec i (tail_nodes t)) as [K|K]; [left; right; exact K|]. right. apply M. split; [|exact K].
      rewrite nth_clear_at. destruct (Nat.eqb_spec i rt); [congruence|exact Hi]. }
    assert (Hsub : forall i, nth i free1 false = true -> nth i free false = true).
    { intros i Hi. apply M in Hi. destruct Hi as [Hi _]. rewrite nth_clear_at in Hi. destruct (Nat.eqb i rt); [discriminate|exact Hi]. }
    destruct (scan_root 0 lv free1 None top1) as [r'|] eqn:Es.
    - destruct (roots_loop f inner kids lv top1 free1 r') as [ts' ok'] eqn:E2. injection E as <- <-.
      assert (Hr' : nth r' free1 false = true).
      { destruct (scan_root_free _ _ _ _ _ _ Es) as [K|[_ K]]; [discriminate|]. rewrite Nat.sub_0_r in K. exact K. }
      pose proof (cnt_mono free1 (clear_at free rt) L (fun i Hi => proj1 (proj1 (M i) Hi))) as Hm.
      destruct (IH free1 r' ts' ok' E2) as (O & A & B & C); [rewrite L, clear_at_length; exact Hlen|exact Hr'|lia|lia|].
      subst ok'. split; [reflexivity|]. split; [constructor; assumption|]. cbn [flat_map]. split.
      + apply nodup_app; [exact Hnodup|exact B|]. intros x Hx Hx'. apply C in Hx'. exact (Hnot1 x Hx Hx').
      + intros i. rewrite in_app_iff, C. split.
        * intros [K|K]; [apply Hfree; exact K|apply Hsub; exact K].
        * apply Hsplit.
    - injection E as <- <-. split; [reflexivity|]. split; [constructor; [exact R2|constructor]|]. cbn [flat_map]. rewrite app_nil_r.
      split; [exact Hnodup|]. intros i. split; [apply Hfree|]. intros Hi. destruct (Hsplit i Hi) as [K|K]; [exact K|]. exfalso.
      pose proof (nth_true_lt _ _ K) as Hlt. rewrite L, clear_at_length, Hlen in Hlt.
      pose proof (scan_root_none _ _ _ _ Es i K Hlt) as Hge.
      pose proof (Hlv _ (nth_In lv 0%Z Hlt)). lia.
  Qed.
End Forest.

Lemma fold_max_acc : forall lv a, (a <= fold_left Z.max lv a)%Z.
Proof. induction lv as [|x lv IH]; intros a; cbn; [lia|]. pose proof (IH (Z.max a x)). lia. Qed.
Lemma fold_max_in : forall lv a l, In l lv -> (l <= fold_left Z.max lv a)%Z.
Proof.
  induction lv as [|x lv IH]; intros a l [].
  - subst. cbn. pose proof (fold_max_acc lv (Z.max a l)). lia.
  - cbn. apply IH. assumption.
Qed.
Lemma levels_lt_top lv l : In l lv -> (l < top_level lv + 1)%Z.
Proof. intros H. unfold top_level. pose proof (fold_max_in lv (hd 0%Z lv) l H). lia. Qed.

Lemma cnt_repeat n : cnt (repeat true n) = n.
Proof. induction n; cbn; [reflexivity|]. rewrite IHn. reflexivity. Qed.
Lemma nth_repeat_true n : forall i, nth i (repeat true n) false = true <-> i < n.
Proof.
  induction n as [|n IH]; intros [|i]; cbn; try (split; [discriminate|lia]).
  - split; [lia|reflexivity].
  - rewrite IH. lia.
Qed.

Lemma slot_spec p : forall pts c, slot p pts = Some c -> nth c pts [] = p /\ c < length pts.
Proof.
  induction pts as [|q pts IH]; intros c; cbn [slot]; [discriminate|].
  destruct (idx_eqb_spec p q) as [->|N].
  - intros E. inversion E; subst. cbn. split; [reflexivity|lia].
  - destruct (slot p pts) as [i|]; [|discriminate]. intros E. inversion E; subst. destruct (IH i eq_refl) as [A B]. cbn. split; [exact A|lia].
Qed.

Section Build.
  Variable r : erule.

  (* (a) the forest of buildTree: the fuel is never exhausted, every point occurs exactly once, every edge is a DAG edge *)
  Theorem build_forest_spec pts forest ok : pts <> [] -> build_forest r pts = (forest, ok) ->
    ok = true /\ Forall (edge_tree (dag_down r pts)) forest /\ NoDup (flat_map nodes forest) /\
    (forall i, In i (flat_map nodes forest) <-> i < length pts).
  Proof.
    intros Hne E. unfold build_forest in E. destruct pts as [|p0 pts']; [congruence|]. set (pts := p0 :: pts') in *.
    set (n := length pts) in *.
    destruct (roots_loop_spec (dag_down r pts) (levels r pts) (top_level (levels r pts) + 1) n (levels_lt_top _) n (repeat true n) 0 forest ok E)
      as (A & B & C & D).
    - rewrite repeat_length. unfold levels. rewrite map_length. reflexivity.
    - apply nth_repeat_true. unfold n, pts. cbn. lia.
    - rewrite cnt_repeat. lia.
    - rewrite cnt_repeat. lia.
    - split; [exact A|]. split; [exact B|]. split; [exact C|]. intros i. rewrite D. apply nth_repeat_true.
  Qed.

  Lemma kids_row_in pts pt c : In (Some c) (kids_row r pts pt) ->
    exists dir k, dir < length pt /\ In k (kid_numbers r) /\ getKid r (nth dir pt 0%Z) k <> (-1)%Z /\
                  nth c pts [] = set_nth pt dir (getKid r (nth dir pt 0%Z) k) /\ c < length pts.
  Proof.
    unfold kids_row. intros H. apply in_flat_map in H. destruct H as (dir & Hd & H). apply in_seq in Hd.
    apply in_map_iff in H. destruct H as (k & Hk & Hin). exists dir, k. split; [lia|]. split; [exact Hin|].
    cbv zeta in Hk. destruct (Z.eqb_spec (getKid r (nth dir pt 0%Z) k) (-1)) as [Ee|Ne]; [discriminate|].
    split; [exact Ne|]. apply slot_spec. exact Hk.
  Qed.

  Lemma dag_down_in pts q c : In (Some c) (nth q (dag_down r pts) []) ->
    q < length pts /\ In (Some c) (kids_row r pts (nth q pts [])).
  Proof.
    unfold dag_down. intros H. destruct (Nat.lt_ge_cases q (length pts)) as [L|G].
    - split; [exact L|]. rewrite (nth_indep _ [] (kids_row r pts []) ) in H by (rewrite map_length; exact L). rewrite map_nth in H. exact H.
    - rewrite nth_overflow in H by (rewrite map_length; exact G). destruct H.
  Qed.

  Lemma kid_numbers_binary k : binary_rule r -> In k (kid_numbers r) -> (k = 0 \/ k = 1)%Z.
  Proof. intros Hr. destruct r; try (exfalso; apply Hr; reflexivity); vm_compute; intuition. Qed.
End Build.

(* ------------------------------------------------------------------------------------------------------------ *)
(* 4. walkTree *)

Lemma tree_all_impl (P Q : nat -> list tree -> Prop) : (forall q ts, P q ts -> Q q ts) -> forall t, tree_all P t -> tree_all Q t.
Proof.
  intros H. apply (tree_ind2 (fun t => tree_all P t -> tree_all Q t)). intros i ts IH HP. inversion HP; subst.
  constructor; [apply H; assumption|]. rewrite Forall_forall in *. intros t' Ht'. apply IH; [exact Ht'|]. apply H3. exact Ht'.
Qed.

Lemma filter_nil {A} (p : A -> bool) l : (forall a, In a l -> p a = false) -> filter p l = [].
Proof. induction l as [|a l IH]; intros H; [reflexivity|]. cbn. rewrite (H a (or_introl eq_refl)). apply IH. intros b Hb. apply H. right. exact Hb. Qed.

Section Walk.
  Variable r : erule.
  Variable o : Z.
  Variable pts : list idx.
  Variable x : list Q.

  Definition sup (i : nat) : bool := supp_all r o (nth i pts []) x.
  Definition val (i : nat) : Q := fst (basis_supported r o (nth i pts []) x).
  Definition entry (i : nat) : nat * Q := (i, val i).

  (* along every tree edge: supported at the kid => supported at the parent *)
  Definition nest_tree : tree -> Prop := tree_all (fun q ts => forall t', In t' ts -> sup (root t') = true -> sup q = true).

  Lemma nest_root : forall t, nest_tree t -> forall p, In p (nodes t) -> sup p = true -> sup (root t) = true.
  Proof.
    apply (tree_ind2 (fun t => nest_tree t -> forall p, In p (nodes t) -> sup p = true -> sup (root t) = true)).
    intros i ts IH Hn p Hp Hs. inversion Hn; subst. cbn [nodes root] in *. destruct Hp as [<-|Hp]; [exact Hs|].
    apply in_flat_map in Hp. destruct Hp as (t' & Ht' & Hp). rewrite Forall_forall in IH, H2.
    apply (H1 t' Ht'). apply (IH t' Ht' (H2 t' Ht') p Hp Hs).
  Qed.

  (* the walk records exactly the supported points of the tree, in depth-first order *)
  Lemma walk_tree_filter : forall t, nest_tree t -> walk_tree r o pts x t = map entry (filter sup (nodes t)).
  Proof.
    apply (tree_ind2 (fun t => nest_tree t -> walk_tree r o pts x t = map entry (filter sup (nodes t)))).
    intros i ts IH Hn. pose proof (nest_root _ Hn) as Hroot. inversion Hn; subst. cbn [walk_tree nodes filter].
    pose proof (basis_supported_flag r o (nth i pts []) x) as Hf. fold (sup i) in Hf.
    assert (Hv : val i = fst (basis_supported r o (nth i pts []) x)) by reflexivity.
    destruct (basis_supported r o (nth i pts []) x) as [v s]. cbn [snd fst] in *. subst s v.
    destruct (sup i) eqn:Es.
    - cbn [map]. unfold entry at 1. f_equal.
      clear Hroot Hn H1. induction ts as [|t ts IHts]; [reflexivity|].
      cbn [flat_map]. rewrite filter_app, map_app. inversion IH; subst. inversion H2; subst. f_equal; [apply H1; assumption|].
      apply IHts; assumption.
    - symmetry. cbn [root] in Hroot. rewrite filter_nil; [reflexivity|]. intros p Hp.
      destruct (sup p) eqn:Ep; [|reflexivity]. rewrite (Hroot p (or_intror Hp) Ep) in Es. discriminate.
  Qed.

  Lemma walk_filter forest : Forall nest_tree forest -> walk r o pts forest x = map entry (filter sup (flat_map nodes forest)).
  Proof.
    unfold walk. induction forest as [|t ts IH]; intros H; [reflexivity|]. inversion H; subst.
    cbn [flat_map]. rewrite filter_app, map_app, IH by assumption. rewrite walk_tree_filter by assumption. reflexivity.
  Qed.
End Walk.

(* ------------------------------------------------------------------------------------------------------------ *)
(* 5. sums over the visited points *)

Local Open Scope Q_scope.

Definition qsum (f : nat -> Q) (l : list nat) : Q := fold_right (fun i a => f i + a) 0 l.

Lemma fold_left_qsum (f : nat -> Q) : forall l a, fold_left (fun y i => y + f i) l a == a + qsum f l.
Proof. unfold qsum. induction l as [|i l IH]; intros a; cbn [fold_left fold_right]; [ring|]. rewrite IH. ring. Qed.

Lemma fold_left_map_gen {A B C} (g : A -> B) (h : C -> B -> C) : forall l a, fold_left h (map g l) a = fold_left (fun y i => h y (g i)) l a.
Proof. induction l as [|i l IH]; intros a; cbn; [reflexivity|]. apply IH. Qed.

Lemma qsum_ext f g l : (forall i, In i l -> f i == g i) -> qsum f l == qsum g l.
Proof.
  unfold qsum. induction l as [|i l IH]; intros H; cbn [fold_right]; [reflexivity|]. rewrite (H i (or_introl eq_refl)), IH; [reflexivity|].
  intros j Hj. apply H. right. exact Hj.
Qed.

Lemma qsum_perm f l l' : Permutation l l' -> qsum f l == qsum f l'.
Proof.
  unfold qsum. induction 1; cbn [fold_right].
  - reflexivity.
  - rewrite IHPermutation. reflexivity.
  - ring.
  - rewrite IHPermutation1. exact IHPermutation2.
Qed.

Lemma qsum_filter f (b : nat -> bool) l : (forall i, In i l -> b i = false -> f i == 0) -> qsum f (filter b l) == qsum f l.
Proof.
  induction l as [|i l IH]; intros H; cbn [filter]; [reflexivity|].
  assert (IH' : qsum f (filter b l) == qsum f l) by (apply IH; intros j Hj; apply H; right; exact Hj).
  destruct (b i) eqn:E; unfold qsum in *; cbn [fold_right]; rewrite IH'; [reflexivity|]. rewrite (H i (or_introl eq_refl) E). ring.
Qed.

Local Open Scope nat_scope.

Lemma find_entry (e : nat -> nat * Q) (He : forall j, fst (e j) = j) i : forall L,
  (In i L -> find (fun iv => Nat.eqb (fst iv) i) (map e L) = Some (e i)) /\
  (~ In i L -> find (fun iv => Nat.eqb (fst iv) i) (map e L) = None).
Proof.
  induction L as [|j L [IH1 IH2]]; cbn [map find In]; [split; [intros []|reflexivity]|].
  rewrite He. destruct (Nat.eqb_spec j i) as [->|N].
  - split; [reflexivity|]. intros K. exfalso. apply K. left. reflexivity.
  - split; [intros [K|K]; [congruence|apply IH1; exact K]|]. intros K. apply IH2. intros K'. apply K. right. exact K'.
Qed.

(* ------------------------------------------------------------------------------------------------------------ *)
(* 6. the statements *)

Definition nonneg_pts (pts : list idx) : Prop := Forall (Forall (fun p => (0 <= p)%Z)) pts.

Section Main.
  Variable r : erule.
  Variable o : Z.
  Variable pts : list idx.
  Variable x : list Q.
  Hypothesis Hr : binary_rule r.
  Hypothesis Hnn : nonneg_pts pts.

  (* (b) support nesting along every edge of the forest *)
  Lemma forest_nest forest : Forall (edge_tree (dag_down r pts)) forest -> Forall (nest_tree r o pts x) forest.
  Proof.
    apply Forall_impl. intros t. apply tree_all_impl. intros q ts H t' Ht'. specialize (H t' Ht').
    destruct (dag_down_in r pts q _ H) as [Hq Hrow]. destruct (kids_row_in r pts _ _ Hrow) as (dir & k & Hd & Hk & Hkid & Hc & _).
    unfold sup. rewrite Hc. apply nest_edge; try assumption.
    - unfold nonneg_pts in Hnn. rewrite Forall_forall in Hnn. apply Hnn. apply nth_In. exact Hq.
    - apply (kid_numbers_binary r k Hr Hk).
  Qed.

  Variable forest : list tree.
  Variable ok : bool.
  Hypothesis Hne : pts <> [].
  Hypothesis Hb : build_forest r pts = (forest, ok).

  Let N := flat_map nodes forest.
  Let W := walk r o pts forest x.

  Lemma walk_is_filter : W = map (entry r o pts x) (filter (sup r o pts x) N).
  Proof.
    destruct (build_forest_spec r pts forest ok Hne Hb) as (_ & He & _). apply walk_filter. apply forest_nest. exact He.
  Qed.

  Lemma walk_indices : map fst W = filter (sup r o pts x) N.
  Proof. rewrite walk_is_filter, map_map. unfold entry. cbn [fst]. apply map_id. Qed.

  (* (c) the walk visits exactly the supported points of the set, each once *)
  Theorem walk_visits i : In i (map fst W) <-> i < length pts /\ supp_all r o (nth i pts []) x = true.
  Proof.
    destruct (build_forest_spec r pts forest ok Hne Hb) as (_ & _ & _ & Hm).
    rewrite walk_indices, filter_In. fold N in Hm. rewrite Hm. reflexivity.
  Qed.

  Theorem walk_once : NoDup (map fst W).
  Proof.
    destruct (build_forest_spec r pts forest ok Hne Hb) as (_ & _ & Hd & _). rewrite walk_indices. apply NoDup_filter. exact Hd.
  Qed.

  (* the recorded value is the dense basis value (product of evalRaw) *)
  Theorem walk_values i v : In (i, v) W -> (v == basisQ r o (nth i pts []) x)%Q.
  Proof.
    rewrite walk_is_filter. intros H. apply in_map_iff in H. destruct H as (j & E & Hj). unfold entry in E. inversion E; subst.
    apply filter_In in Hj. destruct Hj as [_ Hs]. unfold val. apply basis_supported_value. exact Hs.
  Qed.

  (* sparse row = dense row, entry by entry (zero where absent) *)
  Theorem sparse_eq_dense i : i < length pts -> (sparse_entry W i == dense_entry r o pts x i)%Q.
  Proof.
    intros Hi. unfold sparse_entry, dense_entry. rewrite walk_is_filter.
    destruct (find_entry (entry r o pts x) (fun j => eq_refl) i (filter (sup r o pts x) N)) as [F1 F2].
    destruct (sup r o pts x i) eqn:Es.
    - rewrite F1.
      + cbn [snd entry]. unfold val. apply basis_supported_value. exact Es.
      + apply filter_In. split; [|exact Es]. destruct (build_forest_spec r pts forest ok Hne Hb) as (_ & _ & _ & Hm). apply Hm. exact Hi.
    - rewrite F2.
      + symmetry. apply unsupported_basis_zero; [exact Hr|exact Es].
      + intros K. apply filter_In in K. destruct K as [_ K]. congruence.
  Qed.

  (* evaluate (walk, mode 0) = the sum over ALL points of basis value times surplus *)
  Theorem eval_walk_eq_full (surp : nat -> Q) : (eval_walk r o pts forest surp x == eval_full r o pts surp x)%Q.
  Proof.
    destruct (build_forest_spec r pts forest ok Hne Hb) as (_ & _ & Hd & Hm). fold N in Hd, Hm.
    unfold eval_walk, eval_full. fold W. rewrite walk_is_filter.
    rewrite fold_left_map_gen. cbn [snd fst entry].
    rewrite (fold_left_qsum (fun i => val r o pts x i * surp i)%Q).
    rewrite (fold_left_qsum (fun i => basisQ r o (nth i pts []) x * surp i)%Q).
    rewrite (qsum_ext _ (fun i => basisQ r o (nth i pts []) x * surp i)%Q).
    2:{ intros i Hi. apply filter_In in Hi. destruct Hi as [_ Hs]. unfold val. rewrite (basis_supported_value r o _ _ Hs). reflexivity. }
    rewrite qsum_filter.
    2:{ intros i _ Hs. rewrite (unsupported_basis_zero r o _ _ Hr Hs). ring. }
    rewrite (qsum_perm _ N (seq 0 (length pts))); [reflexivity|].
    apply NoDup_Permutation; [exact Hd|apply seq_NoDup|]. intros i. rewrite Hm, in_seq. lia.
  Qed.
End Main.

(* what an entry of the kids table means: the kid is a 1-d kid of the parent in one direction, the other coordinates equal *)
Lemma dag_edge_meaning r pts q c : In (Some c) (nth q (dag_down r pts) []) ->
  q < length pts /\ c < length pts /\
  exists dir k, dir < length (nth q pts []) /\ In k (kid_numbers r) /\ getKid r (nth dir (nth q pts []) 0%Z) k <> (-1)%Z /\
                nth c pts [] = set_nth (nth q pts []) dir (getKid r (nth dir (nth q pts []) 0%Z) k).
Proof.
  intros H. destruct (dag_down_in r pts q c H) as [Hq Hrow]. destruct (kids_row_in r pts _ _ Hrow) as (dir & k & Hd & Hk & Hkid & Hc & Hlt).
  split; [exact Hq|]. split; [exact Hlt|]. exists dir, k. tauto.
Qed.

Theorem walk_exactly_supported r o pts x : binary_rule r -> nonneg_pts pts -> forall forest ok, pts <> [] -> build_forest r pts = (forest, ok) ->
  NoDup (map fst (walk r o pts forest x)) /\
  (forall i, In i (map fst (walk r o pts forest x)) <-> i < length pts /\ supp_all r o (nth i pts []) x = true) /\
  map fst (walk r o pts forest x) = filter (fun i => supp_all r o (nth i pts []) x) (flat_map nodes forest).
Proof.
  intros Hr Hnn forest ok Hne Hb. split; [exact (walk_once r o pts x Hr Hnn forest ok Hne Hb)|].
  split; [exact (walk_visits r o pts x Hr Hnn forest ok Hne Hb)|exact (walk_indices r o pts x Hr Hnn forest ok Hne Hb)].
Qed.

Theorem basis_supported_meaning r o pt x :
  snd (basis_supported r o pt x) = supp_all r o pt x /\
  (supp_all r o pt x = true -> (fst (basis_supported r o pt x) == basisQ r o pt x)%Q) /\
  (binary_rule r -> supp_all r o pt x = false -> (basisQ r o pt x == 0)%Q).
Proof.
  split; [apply basis_supported_flag|]. split; [apply basis_supported_value|]. intros Hr. apply unsupported_basis_zero. exact Hr.
Qed.

(* ------------------------------------------------------------------------------------------------------------ *)
(* 7. executable bounded checks (used by the Examples of Props/Properties_C04_treewalk.v; they also cover pwc, the ternary
      order-0 rule, for which the unbounded nesting lemma is not proved) *)

Local Open Scope Z_scope.
Definition tw_rules := [Pwc; Localp; Semilocalp; Localp0; Localpb].
Definition tw_xs : list Q := map (fun k => (Z.of_nat k - 40) # 32)%Q (seq 0 81).   (* -1.25 .. 1.25 step 1/32 *)
(* violations of the 1-d nesting among points 0..39 at the sample coordinates *)
Definition tw_nest1 (r : erule) (o : Z) : list (Z * Z * Q) :=
  flat_map (fun p => flat_map (fun k =>
     let c := getKid r p k in if c =? -1 then [] else
       flat_map (fun x => if snd (evalSupport r o c x) && negb (snd (evalSupport r o p x)) then [(p, k, x)] else []) tw_xs)
     (kid_numbers r)) (map Z.of_nat (seq 0 40)).
(* non-zero values returned with isSupported = false *)
Definition tw_zero1 (r : erule) (o : Z) : list (Z * Q) :=
  flat_map (fun p => flat_map (fun x => let '(v, s) := evalSupport r o p x in if negb s && negb (Qeq_bool v 0) then [(p, x)] else []) tw_xs)
           (map Z.of_nat (seq 0 40)).
Fixpoint tw_tuples (d : nat) (m : nat) : list idx :=
  match d with O => [[]] | S d' => flat_map (fun p => map (fun t => Z.of_nat p :: t) (tw_tuples d' m)) (seq 0 m) end.
(* the complete grid of total level <= L (1-d points < m), lexicographic order *)
Definition tw_grid (r : erule) (d m : nat) (L : Z) : list idx := filter (fun i => levelsum r i <=? L) (tw_tuples d m).
(* drop every third point: holes, several roots *)
Definition tw_holes (pts : list idx) : list idx :=
  map snd (filter (fun ip => negb (Nat.eqb (fst ip mod 3) 1)) (combine (seq 0 (length pts)) pts)).
(* statement (c) at one point x, decided by computation *)
Definition tw_check (r : erule) (o : Z) (pts : list idx) (x : list Q) : bool :=
  let '(f, ok) := build_forest r pts in
  let w := walk r o pts f x in
  let vis := map fst w in
  let n := length pts in
  let s := (fun i => inject_Z (Z.of_nat i) + 1)%Q in
  ok && forallb (fun i => Bool.eqb (existsb (Nat.eqb i) vis) (supp_all r o (nth i pts []) x)) (seq 0 n)
     && Nat.eqb (length vis) (length (filter (fun i => supp_all r o (nth i pts []) x) (seq 0 n)))
     && Qeq_bool (eval_walk r o pts f s x) (eval_full r o pts s x)
     && forallb (fun i => Qeq_bool (sparse_entry w i) (dense_entry r o pts x i)) (seq 0 n).
Definition tw_xs2 : list (list Q) :=
  flat_map (fun a => map (fun b => [a; b]) [(-1)%Q; (-1#2)%Q; 0%Q; (1#4)%Q; (1#2)%Q; (3#4)%Q; 1%Q; (5#4)%Q; (1#3)%Q])
           [(-1)%Q; (-3#4)%Q; (-1#2)%Q; 0%Q; (1#8)%Q; (1#2)%Q; 1%Q; (-9#8)%Q; (2#7)%Q].
